/-
Model of the full-text index of discret (property C17):
  `src/database/node.rs:93-98`    `_node_fts`: content-less FTS5 trigram index keyed by the storage slot (rowid);
  `node.rs:322-409`  `Node::write(index, old_text, new_text)`: with indexing on, the words of the previous text
                     are removed for the slot ('delete' command) and the words of the current text added
                     (switch `deleteUnguarded`: the 'delete' is issued whether or not the row is in the index, and
                     only when `index` is on; repaired: issued exactly when the slot has a document in the index);
                     a new row takes the slot SQLite assigns (largest slot in use + 1: `_node` is a rowid table
                     without AUTOINCREMENT);
  `node.rs:297-301`  `Node::delete`, `node.rs:947-972` `NodeDeletionEntry::delete_all`: the row goes, its index
                     entries stay (switch `deleteLeavesIndex`; repaired: the entries of the row's current text are
                     removed first, when the slot has a document in the index);
  `node.rs:538-568, 771-781`  synchronised rows are written with `index = false` (switch `ingestUnindexed`; repaired:
                     `graph_database.rs add_nodes` sets the flag of the row's entity and the current text, the
                     previous text is already gathered by `filter_existing`);
  `mutation_query.rs:144-161, 307-314`  previous text (only when non-empty) / current text of a local mutation;
  `data_model_parser.rs` `Entity::update`: the index flag of an existing entity is not updated by a new model version
                     (switch `toggleIgnored`; repaired: the flag follows, nothing is re-indexed: `toggleNoReindex`);
  `node.rs:1004-1025` `extract_json`: the text of a row = its JSON strings at any depth, each followed by a space;
  `query.rs:903-935`  search = rows of the entity joined on slot with the index entries matching the text.

Settled by experiment on the real engine (harness `dv-events`, files `corpus/C17/*.ops`): the index behaves as a
SET of `(slot, word)` pairs — inserting into a slot that still has entries adds to them (no constraint error),
a 'delete' removes every entry of the named words for the slot whether or not they were indexed — plus one
document record per slot (`_node_fts_docsize`: written by an insertion, removed by a 'delete'), which is what a
join of `_node` with `_node_fts` on the rowid sees. A search (`MATCH … ORDER BY rank`) that meets an entry whose slot
has no document record fails with SQLITE_CORRUPT_VTAB ("database disk image is malformed"): `poisoned`.
Texts are lists of words; a search word matches a text that contains it.
Import-free (core Lean only).
-/
namespace Discret.Fts

abbrev Word := Nat
abbrev Ent := Nat
abbrev Slot := Nat

structure Defects where
  /-- `node.rs:297-301`: deleting a row leaves its index entries; the slot can be reused -/
  deleteLeavesIndex : Bool
  /-- `node.rs:538-568`: rows written by synchronisation are not indexed (inserts missed, updates stale + missed) -/
  ingestUnindexed : Bool
  /-- `Entity::update` ignores the index flag of a later model version -/
  toggleIgnored : Bool
  /-- a model version that changes the index flag of an entity changes the flag only: the rows the entity already
      has are neither indexed (flag switched on) nor removed from the index (flag switched off).
      Only visible when `toggleIgnored` is off. -/
  toggleNoReindex : Bool
  /-- `Node::write` issues the 'delete' of the previous text without looking whether the row is in the index — and
      not at all when `index` is off: text that was never indexed is "deleted" (the counters of the index go
      negative and SQLite ends up refusing writes), text indexed earlier stays when the row is rewritten unindexed -/
  deleteUnguarded : Bool
deriving Repr, DecidableEq

def Defects.none : Defects :=
  { deleteLeavesIndex := false, ingestUnindexed := false, toggleIgnored := false, toggleNoReindex := false,
    deleteUnguarded := false }

/-- the code before any of the repairs proposed in `findings/C17-*.patch` -/
def Defects.beforeFix : Defects :=
  { deleteLeavesIndex := true, ingestUnindexed := true, toggleIgnored := true, toggleNoReindex := true,
    deleteUnguarded := true }

/-- /repo as it is: what the correspondence run validates. One switch per line; the `.verif.patch` that goes with a
    repair of /repo turns its own line to `false`. -/
def Defects.asImplemented : Defects :=
  { -- `Node::delete` / `NodeDeletionEntry::delete_all` leave the index entries of the deleted row
    -- (repair: findings/C17-deleted-row-leaves-index.patch)
    --
    --
    deleteLeavesIndex := false,
    -- `Node::filter_existing` / `add_nodes`: synchronised rows are written with `index: false`
    -- (repair: findings/C17-synchronised-rows-unindexed.patch)
    --
    --
    ingestUnindexed := false,
    -- `Entity::update` keeps the `enable_full_text` of the first declaration
    -- (repair: findings/C17-index-flag-of-later-version.patch)
    --
    --
    toggleIgnored := false,
    -- `Node::write` deletes the previous text without looking whether the row is in the index
    -- (repair: findings/C17-delete-previous-text-when-indexed.patch)
    --
    --
    deleteUnguarded := false,
    -- no re-indexing when a flag changes: stays, with or without the repairs
    toggleNoReindex := true }

structure Row where
  n : Nat
  ent : Ent
  text : List Word
  str : Bool         -- the JSON of the row has a string (possibly empty): `extract_json` gives a non-empty text
  ver : Nat          -- logical time of the last modification
  ctick : Nat        -- creation time
  slot : Slot
deriving Repr, DecidableEq

structure Tomb where
  n : Nat
  ent : Ent
  dtick : Nat
deriving Repr, DecidableEq

structure Site where
  rows : List Row
  tombs : List Tomb
  idx : List (Slot × Word)      -- the index, as a set
  docs : List Slot              -- slots that have a document record in the index, as a set
  refs : List (Nat × Nat)       -- references `kids` between `Doc` rows: (parent, child)
  logged : List Ent             -- entities having a daily-log entry (what a peer asks for)
  indexOn : Ent → Bool          -- the flag the engine uses
  declared : Nat                -- model version in force (bit 0: Doc declared without index, bit 1: Note with)

/-- version 0: `Doc` (entity 0) indexed, `Note` (entity 1) not -/
def declaredOn (v : Nat) (e : Ent) : Bool :=
  if e = 0 then v % 2 = 0 else (v / 2) % 2 = 1

def Site.empty : Site :=
  { rows := [], tombs := [], idx := [], docs := [], refs := [], logged := [], indexOn := declaredOn 0, declared := 0 }

structure State where
  d : Defects
  sites : List Site
  tick : Nat
  usedRows : List Nat
  words : List Word             -- every word of past and current texts, ascending

def init (d : Defects) (nsites : Nat) : State :=
  { d := d, sites := List.replicate nsites Site.empty, tick := 0, usedRows := [], words := [] }

/-! ### the index -/

def idxAdd (slot : Slot) (text : List Word) (idx : List (Slot × Word)) : List (Slot × Word) :=
  idx ++ text.map fun w => (slot, w)

/-- the 'delete' command: every entry of the named words for the slot -/
def idxDel (slot : Slot) (text : List Word) (idx : List (Slot × Word)) : List (Slot × Word) :=
  idx.filter fun p => !(p.1 = slot && text.contains p.2)

/-- the 'delete' command also removes the document record of the slot -/
def docDel (slot : Slot) (docs : List Slot) : List Slot := docs.filter fun x => x ≠ slot

/-- slot SQLite assigns to a new row: one more than the largest in use -/
def nextSlot (rows : List Row) : Slot := (rows.foldl (fun m r => max m r.slot) 0) + 1

def findRow (n : Nat) : List Row → Option Row
  | [] => none
  | r :: rest => if r.n = n then some r else findRow n rest

def eraseRow (n : Nat) (l : List Row) : List Row := l.filter fun r => r.n ≠ n

/-- is the 'delete' of the previous text issued? As implemented (`unguarded`): whenever `index` is on.
    Repaired: whenever the slot has a document record. -/
def deletesPrev (unguarded index : Bool) (slot : Slot) (docs : List Slot) : Bool :=
  if unguarded then index else docs.contains slot

/-- `Node::write` for a row that has a slot (`_local_id = Some`) -/
def writeUpdate (unguarded index : Bool) (old : Row) (new : Row) (prevText : Option (List Word)) (s : Site) : Site :=
  let del := deletesPrev unguarded index old.slot s.docs
  let i0 := match prevText with
    | some p => if del then idxDel old.slot p s.idx else s.idx
    | none => s.idx
  let d0 := match prevText with
    | some _ => if del then docDel old.slot s.docs else s.docs
    | none => s.docs
  { s with rows := eraseRow old.n s.rows ++ [{ new with slot := old.slot }],
           idx := if index then idxAdd old.slot new.text i0 else i0,
           docs := if index then d0 ++ [old.slot] else d0 }

/-- the previous text a local mutation passes to `Node::write`: `extract_json` of the stored JSON, only when it is
    not empty (`mutation_query.rs:144-153`) — i.e. when the JSON has a string, even an empty one -/
def prevOf (r : Row) : Option (List Word) := if r.str || !r.text.isEmpty then some r.text else none

/-- `Node::write` for a new row -/
def writeInsert (index : Bool) (new : Row) (s : Site) : Site :=
  let slot := nextSlot s.rows
  { s with rows := s.rows ++ [{ new with slot := slot }],
           idx := if index then idxAdd slot new.text s.idx else s.idx,
           docs := if index then s.docs ++ [slot] else s.docs }

/-- the repaired deletion (`Node::delete_fts`): when the slot has a document in the index, a 'delete' for the
    current text of the row -/
def dropEntries (docs : List Slot) (r : Row) (idx : List (Slot × Word)) : List (Slot × Word) :=
  if docs.contains r.slot then idxDel r.slot r.text idx else idx

/-- a search for `t` meets an entry whose slot has no document record: SQLite answers "database disk image is
    malformed" instead of a result (the rank of the entry cannot be computed), whatever the entity searched -/
-- (a search placed on a nested field reaches the index through the children of each parent and only fails when
--  one of THEM holds such an entry: not modelled, the nested operations never fail in the model)
def poisoned (s : Site) (t : Word) : Bool :=
  s.idx.any fun p => p.2 = t && !s.docs.contains p.1

/-- rows of entity `e` joined on slot with the index entries for `t` (`search()`), as row numbers -/
def search (s : Site) (e : Ent) (t : Word) : List Nat :=
  (s.rows.filter fun r => r.ent = e && s.idx.contains (r.slot, t)).map (·.n)

/-- what the property asks for: the rows of `e` whose current text contains `t` -/
def matching (s : Site) (e : Ent) (t : Word) : List Nat :=
  (s.rows.filter fun r => r.ent = e && r.text.contains t).map (·.n)

def insertNat (w : Nat) : List Nat → List Nat
  | [] => [w]
  | h :: t => if w ≤ h then w :: h :: t else h :: insertNat w t

def sortNat (l : List Nat) : List Nat := l.foldl (fun acc w => insertNat w acc) []

def insertPair (x : Nat × List Nat) : List (Nat × List Nat) → List (Nat × List Nat)
  | [] => [x]
  | h :: t => if x.1 ≤ h.1 then x :: h :: t else h :: insertPair x t

/-- the `Doc` children of `p` (through `kids`) selected by `f`, as sorted row numbers -/
def kidsOf (s : Site) (p : Row) (f : Row → Bool) : List Nat :=
  sortNat ((s.rows.filter fun c => c.ent = 0 && s.refs.contains (p.n, c.n) && f c).map (·.n))

/-- a search placed on the nested field: for every `Doc` parent, its children selected by `f`;
    parents without such a child are left out (the sub-selection is not nullable) -/
def nestedBy (s : Site) (f : Row → Bool) : List (Nat × List Nat) :=
  (((s.rows.filter fun p => p.ent = 0).map fun p => (p.n, kidsOf s p f)).foldl
    (fun acc x => insertPair x acc) []).filter fun x => !x.2.isEmpty

/-- `Doc { kids(search(t)) { … } }`: the child is joined on ITS slot with the index (`query.rs:273`) -/
def nsearch (s : Site) (t : Word) : List (Nat × List Nat) :=
  nestedBy s fun c => s.idx.contains (c.slot, t)

/-- what the property asks for: the children whose current text contains `t` -/
def nmatching (s : Site) (t : Word) : List (Nat × List Nat) :=
  nestedBy s fun c => c.text.contains t

/-! ### operations -/

inductive Op where
  | model (s : Nat) (v : Nat)
  | new (s n : Nat) (e : Ent) (text : List Word)
  | newx (s n : Nat) (e : Ent)      -- a row created without any text field
  | upd (s n : Nat) (text : List Word)
  | clr (s n : Nat)
  | del (s n : Nat)
  | pull (s t : Nat)
  | q (s : Nat) (e : Ent) (t : Word)
  | qall (s : Nat)
  | link (s n m : Nat)            -- add the reference kids n -> m (single-site histories only)
  | qn (s : Nat) (t : Word)       -- nested search
  | qnall (s : Nat)
deriving Repr, DecidableEq

def addLogged (e : Ent) (l : List Ent) : List Ent := if l.contains e then l else l ++ [e]

/-- intended effect of new index flags: entries of rows whose entity changes flag are dropped, rows of
    entities switched on are indexed from their current text -/
def toggleIdx (s : Site) (on : Ent → Bool) : List (Slot × Word) :=
  (s.idx.filter fun p => !(s.rows.any fun r => r.slot = p.1 && (s.indexOn r.ent != on r.ent))) ++
  ((s.rows.filter fun r => on r.ent && !(s.indexOn r.ent)).flatMap fun r => r.text.map fun w => (r.slot, w))

/-- the document records after the intended effect of new index flags -/
def toggleDocs (s : Site) (on : Ent → Bool) : List Slot :=
  (s.docs.filter fun x => !(s.rows.any fun r => r.slot = x && (s.indexOn r.ent != on r.ent))) ++
  ((s.rows.filter fun r => on r.ent && !(s.indexOn r.ent)).map (·.slot))

/-- a new row -/
def newOp (tick : Nat) (usedRows : List Nat) (s : Site) (n : Nat) (e : Ent) (text : List Word) (str : Bool) :
    Option Site :=
  -- (a used row number is in `usedRows`; the second test is redundant in reachable states)
  if usedRows.contains n || e ≥ 2 || (findRow n s.rows).isSome then none
  else
    let row : Row := { n := n, ent := e, text := text, str := str, ver := tick, ctick := tick, slot := 0 }
    some { writeInsert (s.indexOn e) row s with logged := addLogged e s.logged }

/-- local creation / update / deletion and model update at one site; `none` = not applicable (skipped).
    `multi`: the history has two sites — a text is then emptied with the empty string instead of null, and a row
    "without text" is created with the empty string (a peer refuses explicit nulls) -/
def localOp (d : Defects) (multi : Bool) (tick : Nat) (usedRows : List Nat) (s : Site) : Op → Option Site
  | .model _ v =>
    if v ≥ 4 then none
    else if d.toggleIgnored then some { s with declared := v }
    else if d.toggleNoReindex then
      -- `Entity::update` copies the flag: writes from now on follow it, the rows already there are left as they are
      some { s with declared := v, indexOn := declaredOn v }
    else
      -- intended: the flag follows the model; an entity whose index is switched on is indexed from its
      -- current rows, one whose index is switched off loses its entries
      some { s with declared := v, indexOn := declaredOn v, idx := toggleIdx s (declaredOn v),
                    docs := toggleDocs s (declaredOn v) }
  | .new _ n e text => newOp tick usedRows s n e text true
  | .newx _ n e => newOp tick usedRows s n e [] multi
  | .upd _ n text =>
    match findRow n s.rows with
    | none => none
    | some old =>
      some { writeUpdate d.deleteUnguarded (s.indexOn old.ent) old
               { old with text := text, str := true, ver := tick } (prevOf old) s with
               logged := addLogged old.ent s.logged }
  | .clr _ n =>
    match findRow n s.rows with
    | none => none
    | some old =>
      some { writeUpdate d.deleteUnguarded (s.indexOn old.ent) old
               { old with text := [], str := multi, ver := tick } (prevOf old) s with
               logged := addLogged old.ent s.logged }
  | .del _ n =>
    match findRow n s.rows with
    | none => none
    | some old =>
      some { s with rows := eraseRow n s.rows,
                    refs := s.refs.filter (fun r => r.1 ≠ n && r.2 ≠ n),
                    tombs := s.tombs ++ [{ n := n, ent := old.ent, dtick := tick }],
                    idx := if d.deleteLeavesIndex then s.idx else dropEntries s.docs old s.idx,
                    docs := if d.deleteLeavesIndex then s.docs else docDel old.slot s.docs,
                    logged := addLogged old.ent s.logged }
  | .link _ n m =>
    match findRow n s.rows, findRow m s.rows with
    | some old, some child =>
      if n = m || old.ent ≠ 0 || child.ent ≠ 0 then none
      else if s.refs.contains (n, m) then some s          -- nothing changes: the parent is not rewritten
      else
        -- the parent is re-dated and rewritten: its own text is removed and added again
        some { writeUpdate d.deleteUnguarded (s.indexOn old.ent) old { old with ver := tick } (prevOf old) s with
                 refs := s.refs ++ [(n, m)], logged := addLogged old.ent s.logged }
    | _, _ => none
  | _ => none

/-! #### ingestion of the room from another site -/

def insertByCtick (r : Row) : List Row → List Row
  | [] => [r]
  | h :: t => if r.ctick < h.ctick then r :: h :: t else h :: insertByCtick r t

/-- tombstones of entity `e`: the rows go (whatever their version); as implemented the index is not touched,
    repaired: each row that goes takes the entries of its current text with it -/
def pullTombs (d : Defects) (src : Site) (e : Ent) (dst : Site) : Site :=
  let ts := src.tombs.filter fun t => t.ent = e
  let gone := dst.rows.filter fun r => ts.any fun t => t.n = r.n
  let idx1 := if d.deleteLeavesIndex then dst.idx
    else gone.foldl (fun i r => dropEntries dst.docs r i) dst.idx
  let docs1 := if d.deleteLeavesIndex then dst.docs
    else dst.docs.filter fun x => !(gone.any fun r => r.slot = x)
  { dst with rows := dst.rows.filter (fun r => !(ts.any fun t => t.n = r.n)),
             tombs := dst.tombs ++ ts.filter (fun t => !(dst.tombs.contains t)),
             idx := idx1,
             docs := docs1,
             logged := if ts.isEmpty then dst.logged else addLogged e dst.logged }

/-- one fetched row: written over the local slot, or inserted; `index = false` as implemented, repaired: the
    flag of the row's entity at the receiving site. The previous text is passed whenever the row exists. -/
def ingestRow (d : Defects) (dst : Site) (r : Row) : Site :=
  let index := !d.ingestUnindexed && dst.indexOn r.ent
  match findRow r.n dst.rows with
  | some old => writeUpdate d.deleteUnguarded index old r (some old.text) dst
  | none => writeInsert index r dst

/-- rows of entity `e`: those unknown locally or newer than the local version, in creation order -/
def pullRows (d : Defects) (src : Site) (e : Ent) (dst : Site) : Site :=
  -- /repo ffeda5d: an announced id that carries a deletion record at the destination is not requested
  let cand := src.rows.filter fun r => r.ent = e && !(dst.tombs.any fun t => t.n = r.n)
  let fetched := cand.filter fun r =>
    match findRow r.n dst.rows with
    | none => true
    | some old => old.ver < r.ver
  let ordered := fetched.foldl (fun acc r => insertByCtick r acc) []
  let dst1 := ordered.foldl (ingestRow d) dst
  { dst1 with logged := if fetched.isEmpty then dst1.logged else addLogged e dst1.logged }

def insertEnt (e : Ent) : List Ent → List Ent
  | [] => [e]
  | h :: t => if e = h then h :: t else if e < h then e :: h :: t else h :: insertEnt e t

def pullOp (d : Defects) (src dst : Site) : Site :=
  (src.logged.foldl (fun acc e => insertEnt e acc) []).foldl
    (fun acc e => pullRows d src e (pullTombs d src e acc)) dst

/-! #### one operation -/

inductive Out where
  | ok
  | skip
  | hits (rows : List Nat)
  | all (res : List (Ent × Word × Option (List Nat)))          -- `none`: that search failed
  | nhits (res : List (Nat × List Nat))
  | nall (res : List (Word × List (Nat × List Nat)))
  | failed                                                       -- the search failed (SQL error)
deriving Repr, DecidableEq

def insertWord (w : Word) : List Word → List Word
  | [] => [w]
  | h :: t => if w = h then h :: t else if w < h then w :: h :: t else h :: insertWord w t

def noteWords (ws : List Word) (known : List Word) : List Word := ws.foldl (fun acc w => insertWord w acc) known

def qallOf (s : Site) (words : List Word) : List (Ent × Word × Option (List Nat)) :=
  ([0, 1].flatMap fun e => words.map fun t =>
      (e, t, if poisoned s t then none else some (sortNat (search s e t)))).filter fun x => x.2.2 != some []

/-- the nested operations: only on single-site histories (references are not modelled across sites) -/
def stepNested (st : State) (op : Op) : State × Out :=
  if st.sites.length ≠ 1 then (st, .skip)
  else
    match op with
    | .link si n m =>
      match st.sites[si]? with
      | none => (st, .skip)
      | some s =>
        match localOp st.d (st.sites.length != 1) st.tick st.usedRows s (.link si n m) with
        | none => (st, .skip)
        | some s1 => ({ st with sites := st.sites.set si s1, tick := st.tick + 1 }, .ok)
    | .qn si t =>
      match st.sites[si]? with
      | none => (st, .skip)
      | some s => (st, .nhits (nsearch s t))
    | .qnall si =>
      match st.sites[si]? with
      | none => (st, .skip)
      | some s => (st, .nall ((st.words.map fun t => (t, nsearch s t)).filter fun x => !x.2.isEmpty))
    | _ => (st, .skip)

def step (st : State) (op : Op) : State × Out :=
  match op with
  | .q si e t =>
    match st.sites[si]? with
    | none => (st, .skip)
    | some s =>
      if e ≥ 2 then (st, .skip)
      else if poisoned s t then (st, .failed)
      else (st, .hits (sortNat (search s e t)))
  | .qall si =>
    match st.sites[si]? with
    | none => (st, .skip)
    | some s => (st, .all (qallOf s st.words))
  | .pull si ti =>
    match st.sites[si]?, st.sites[ti]? with
    | some dst, some src =>
      if si = ti then (st, .skip)
      else ({ st with sites := st.sites.set si (pullOp st.d src dst), tick := st.tick + 1 }, .ok)
    | _, _ => (st, .skip)
  | .model si v =>
    match st.sites[si]? with
    | none => (st, .skip)
    | some s =>
      match localOp st.d (st.sites.length != 1) st.tick st.usedRows s (.model si v) with
      | none => (st, .skip)
      | some s1 => ({ st with sites := st.sites.set si s1 }, .ok)
  | .new si n e text =>
    match st.sites[si]? with
    | none => (st, .skip)
    | some s =>
      match localOp st.d (st.sites.length != 1) st.tick st.usedRows s (.new si n e text) with
      | none => (st, .skip)
      | some s1 =>
        ({ st with sites := st.sites.set si s1, tick := st.tick + 1, usedRows := st.usedRows ++ [n],
                   words := noteWords text st.words }, .ok)
  | .newx si n e =>
    match st.sites[si]? with
    | none => (st, .skip)
    | some s =>
      match localOp st.d (st.sites.length != 1) st.tick st.usedRows s (.newx si n e) with
      | none => (st, .skip)
      | some s1 =>
        ({ st with sites := st.sites.set si s1, tick := st.tick + 1, usedRows := st.usedRows ++ [n] }, .ok)
  | .upd si n text =>
    match st.sites[si]? with
    | none => (st, .skip)
    | some s =>
      match localOp st.d (st.sites.length != 1) st.tick st.usedRows s (.upd si n text) with
      | none => (st, .skip)
      | some s1 =>
        ({ st with sites := st.sites.set si s1, tick := st.tick + 1, words := noteWords text st.words }, .ok)
  | .clr si n =>
    match st.sites[si]? with
    | none => (st, .skip)
    | some s =>
      match localOp st.d (st.sites.length != 1) st.tick st.usedRows s (.clr si n) with
      | none => (st, .skip)
      | some s1 => ({ st with sites := st.sites.set si s1, tick := st.tick + 1 }, .ok)
  | .del si n =>
    match st.sites[si]? with
    | none => (st, .skip)
    | some s =>
      match localOp st.d (st.sites.length != 1) st.tick st.usedRows s (.del si n) with
      | none => (st, .skip)
      | some s1 => ({ st with sites := st.sites.set si s1, tick := st.tick + 1 }, .ok)
  | .link si n m => stepNested st (.link si n m)
  | .qn si t => stepNested st (.qn si t)
  | .qnall si => stepNested st (.qnall si)

def runOps : State → List Op → State × List Out
  | st, [] => (st, [])
  | st, op :: ops =>
    let r := step st op
    let r2 := runOps r.1 ops
    (r2.1, r.2 :: r2.2)

/-! ### which histories the code as it is handles -/

/-- an operation the code handles with defects `d`, in state `st`:
    a deletion needs the repaired deletion; an ingestion needs the repaired ingestion; a model version that
    changes the flag of an entity without re-indexing needs that entity to have no row at the site. -/
def Op.admissible (d : Defects) (st : State) : Op → Bool
  | .del _ _ => !d.deleteLeavesIndex
  | .pull _ _ => !d.ingestUnindexed
  | .model si v =>
    match st.sites[si]? with
    | none => true
    | some s =>
      d.toggleIgnored || !d.toggleNoReindex || s.rows.all fun r => declaredOn v r.ent == s.indexOn r.ent
  | _ => true

/-- a model version the engine's flags follow: any, unless later versions are ignored — then only one that
    declares what is in force -/
def Op.flagSafe (d : Defects) (st : State) : Op → Bool
  | .model si v =>
    match st.sites[si]? with
    | none => true
    | some s => !d.toggleIgnored || v = s.declared
  | _ => true

def admissibleRun (st : State) : List Op → Bool
  | [] => true
  | op :: ops => op.admissible st.d st && admissibleRun (step st op).1 ops

def flagSafeRun (st : State) : List Op → Bool
  | [] => true
  | op :: ops => op.flagSafe st.d st && flagSafeRun (step st op).1 ops

/-! ### the text of a row: `extract_json` (`node.rs:1004-1025`), literally

`serde_json::Value` with `serde_json::Map` = `BTreeMap` (the crate is built without `preserve_order`): an object is
its fields in ascending key order, one value per key. -/

mutual
inductive Json where
  | null
  | bool (b : Bool)
  | num (n : Int)
  | str (s : List Char)
  | arr (items : JList)
  | obj (fields : JFields)
inductive JList where
  | nil
  | cons (h : Json) (t : JList)
inductive JFields where
  | nil
  | cons (k : List Char) (v : Json) (t : JFields)
end

mutual
/-- `extract_json(val, buff)`: what is pushed on `buff` -/
def extractJson : Json → List Char
  | .str s => s ++ [' ']                -- `buff.push_str(v); buff.push(' ')`
  | .arr items => extractList items     -- `for v in arr`
  | .obj fields => extractFields fields -- `for v in map { extract_json(v.1, buff) }`: values only, never keys
  | _ => []                             -- numbers, booleans, null
def extractList : JList → List Char
  | .nil => []
  | .cons h t => extractJson h ++ extractList t
def extractFields : JFields → List Char
  | .nil => []
  | .cons _ v t => extractJson v ++ extractFields t
end

mutual
/-- the strings of a value, at any depth, in the order `extract_json` visits them -/
def strings : Json → List (List Char)
  | .str s => [s]
  | .arr items => stringsList items
  | .obj fields => stringsFields fields
  | _ => []
def stringsList : JList → List (List Char)
  | .nil => []
  | .cons h t => strings h ++ stringsList t
def stringsFields : JFields → List (List Char)
  | .nil => []
  | .cons _ v t => strings v ++ stringsFields t
end

/-- `Map::insert` of a `BTreeMap<String, Value>`: ascending keys (code points, as the UTF-8 byte order), a key
    already present gets the new value -/
def JFields.insert (k : List Char) (v : Json) : JFields → JFields
  | .nil => .cons k v .nil
  | .cons k' v' t =>
    if k = k' then .cons k v t
    else if k < k' then .cons k v (.cons k' v' t)
    else .cons k' v' (JFields.insert k v t)

end Discret.Fts
