import DiscretModel.Model.Room
import DiscretModel.Model.RustPrelude
/-
Structures read by the regenerated decision of `RoomAuthorisations::validate_deletion`
(Gen/DeletionKernel.lean, translator T12): exactly the fields of the Rust structs that the function READS
(T12 checks on every run that each of them still exists in the Rust struct with the type noted in
translators/t12_deletion_kernel.py; `verifying_key` is called `key` as in Model/Room.lean).
* `self.signing_key.export_verifying_key()` is the field `key` of `RoomAuthorisations` (the caller's key);
* `now()` is the parameter `now` of the generated function (the clock);
* a FULL entity name (`NodeDelete.name`, `EdgeDelete.src_name`, the constants `system_entities::…_ENT`) is an `Ent`;
  a SHORT entity name (`Edge.src_entity`, the constants `…_ENT_SHORT`) is a `ShortName`: a different type, so that
  a comparison of a short name with a full-name constant (the defect repaired by /repo f1df104) does not type-check.
Import-free apart from the room model.
-/
namespace Discret.Gen.DeletionKernel
open Discret.Room

structure ShortName where
  ent : Ent
deriving Repr, DecidableEq

def ROOM_ENT : Ent := 100
def AUTHORISATION_ENT : Ent := 101
def USER_AUTH_ENT : Ent := 102
def ENTITY_RIGHT_ENT : Ent := 103
def ROOM_ENT_SHORT : ShortName := ⟨100⟩
def AUTHORISATION_ENT_SHORT : ShortName := ⟨101⟩
def USER_AUTH_ENT_SHORT : ShortName := ⟨102⟩
def ENTITY_RIGHT_ENT_SHORT : ShortName := ⟨103⟩

structure Node where
  id : Id
  room_id : Option Id
  key : Key
deriving Repr

structure Edge where
  src : Id
  src_entity : ShortName
  key : Key
deriving Repr

structure NodeDelete where
  node : Node
  name : Ent
  date : Int
deriving Repr

structure EdgeDelete where
  edge : Edge
  src_name : Ent
  room_id : Option Id
  date : Int
deriving Repr

structure DeletionQuery where
  nodes : List NodeDelete
  updated_nodes : List Node
  edges : List EdgeDelete
deriving Repr

structure RoomAuthorisations where
  key : Key
  rooms : List Room
deriving Repr

/-- the classes of `Error` the function returns (the payload — names, ids — is dropped) -/
inductive Error where
  | DeleteNotAllowed | AuthorisationRejected | UnknownRoom
deriving Repr, DecidableEq

end Discret.Gen.DeletionKernel

namespace Discret.Rust
/-- `for x in coll { … return Err(e); … }` in a function returning `Result<()>`: the first iteration that
    returns an error decides, otherwise the loop runs to its end -/
def forTry {α ε : Type} : List α → (α → Except ε Unit) → Except ε Unit
  | [], _ => .ok ()
  | x :: t, f =>
    match f x with
    | .error e => .error e
    | .ok _ => forTry t f
end Discret.Rust
