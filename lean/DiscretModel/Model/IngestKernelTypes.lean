import DiscretModel.Model.Room
import DiscretModel.Model.RustPrelude
/-
Structures read by the regenerated ingestion validators (Gen/IngestKernel.lean, translator T8): exactly
the fields of the Rust structs that `validate_node`, `validate_node_deletions` and
`validate_edge_deletions` look at (T8 checks on every run that each of them still exists in the Rust
struct with the expected type; `verifying_key` is called `key` as in Model/Room.lean).
`bincode::serialized_size(node)` is the field `size` (`error` = serialisation failed).
-/
namespace Discret.Gen.IngestKernel
open Discret.Room

structure Node where
  room_id : Option Id
  key : Key
  mdate : Int
  /-- the short entity name (the same abstraction as `entity_name`: the data model maps one to the other) -/
  _entity : Ent
  size : Except Unit Nat
deriving Repr

structure NodeToInsert where
  node : Option Node
  entity_name : Option Ent
  old_room_id : Option Id
  old_entity : Option Ent
  old_mdate : Int
  old_verifying_key : Option Key
deriving Repr

structure NodeDeletionEntry where
  room_id : Id
  id : Id
  mdate : Int
  deletion_date : Int
  key : Key
  entity_name : Option Ent
deriving Repr, DecidableEq

structure EdgeDeletionEntry where
  room_id : Id
  src : Id
  dest : Id
  cdate : Int
  deletion_date : Int
  key : Key
  entity_name : Option Ent
deriving Repr, DecidableEq

structure RoomAuthorisations where
  rooms : List Room
  max_node_size : Nat
deriving Repr

end Discret.Gen.IngestKernel

namespace Discret.Rust
/-- `bincode::serialized_size(node)` -/
def serializedSize (n : Discret.Gen.IngestKernel.Node) : Except Unit Nat := n.size
end Discret.Rust
