import DiscretModel.Model.SqlGen
/-
What SQLite computes for a statement of the fragment `Model/SqlGen.lean` generates (property C05).

  SELECT json_group_array(value->'$') FROM (
    SELECT json_object('k₁', e₁, …) as value FROM _node T
    WHERE T._entity='E' AND c₁ AND … AND ((a AND b) OR (c))  ORDER BY o₁ asc, o₂ desc  LIMIT n OFFSET k )

THIS FILE IS PART OF THE TRUSTED BASE: it is our statement of the behaviour of SQLite (3.45) on this fragment.
It is validated against the real engine on every run of the C05 check (`sqlck` op of engine `query`: the rows
`run` computes on the model's `_node` table are compared with the rows the real statement returns).
What it says:

* values are NULL, integers and texts (`SqlVal`); the storage classes order as NULL < numbers < texts, texts
  by code point (UTF-8 bytes under the BINARY collation); no operand of a generated comparison has a column
  affinity (`->>` results, literals, bound parameters), so no conversion takes place;
* `_json->'$.k'` is the stored JSON value (SQL NULL when the key is absent, the JSON `null` — not SQL NULL —
  when `null` is stored), `x->>'$.k'` converts a JSON value to SQL: `null` → NULL, `true`/`false` → 1/0,
  numbers and texts as such; `Ifnull(a,b)` is `b` only when `a` is SQL NULL, and keeps the JSON subtype of `a`;
  `json_object` writes SQL NULL as `null`, an integer as a number, a text as a string, a JSON value as it is;
* a comparison with NULL is unknown, `is` / `is not` never are; AND / OR / CASE WHEN follow the three-valued
  logic; WHERE keeps the rows whose condition is true;
* the alias `value` may be used in WHERE and ORDER BY and means the projection of the same row;
* ORDER BY sorts by the key tuples, NULL first ascending and last descending; LIMIT / OFFSET count rows of
  the sorted list, a negative LIMIT is no limit; `json_group_array` keeps the order of the sub-select.
* Where SQL defines no order (no ORDER BY, rows that tie on every key) the engine may return any; here the
  scan order of the table (its order as a list) is kept (the sort is stable). The differential run therefore
  compares tie groups as multisets, and the generator orders limited queries by a unique key.
-/
namespace Discret.SqlSem
open Discret.Query Discret.SqlGen

inductive SqlVal
  | null
  | int (i : Int)
  | text (s : List Char)
deriving Repr, DecidableEq

/-- `->>` on a stored JSON scalar -/
def SqlVal.ofScalar : Val → SqlVal
  | .null => .null
  | .bool b => .int (if b then 1 else 0)
  | .int i => .int i
  | .str s => .text s

/-- `->>` on a JSON value of the projection; only scalars are given a meaning (the fragment reads the keys of
    scalar selections only; the id text is never read back) -/
def SqlVal.ofJ : J → SqlVal
  | .null => .null
  | .bool b => .int (if b then 1 else 0)
  | .int i => .int i
  | .str s => .text s
  | _ => .null

/-- what `json_object` writes for a plain SQL value -/
def SqlVal.toJ : SqlVal → J
  | .null => .null
  | .int i => .int i
  | .text s => .str s

/-- NULL < numbers < texts -/
def SqlVal.lt : SqlVal → SqlVal → Bool
  | .null, .null => false
  | .null, _ => true
  | _, .null => false
  | .int a, .int b => a < b
  | .int _, .text _ => true
  | .text _, .int _ => false
  | .text a, .text b => ltChars a b

/-- first entry of an object with the given key -/
def assoc {α : Type} (k : String) : List (String × α) → Option α
  | [] => none
  | (a, v) :: t => if a = k then some v else assoc k t

/-! ## Three-valued logic (`none` = unknown) -/

def and3 : Option Bool → Option Bool → Option Bool
  | some false, _ => some false
  | _, some false => some false
  | some true, some true => some true
  | _, _ => none

def or3 : Option Bool → Option Bool → Option Bool
  | some true, _ => some true
  | _, some true => some true
  | some false, some false => some false
  | _, _ => none

def all3 (l : List (Option Bool)) : Option Bool := l.foldr and3 (some true)
def any3 (l : List (Option Bool)) : Option Bool := l.foldr or3 (some false)

def cmp3 (op : CmpOp) (a b : SqlVal) : Option Bool :=
  match op with
  | .is => some (decide (a = b))
  | .isNot => some (decide (a ≠ b))
  | _ =>
    if a = .null ∨ b = .null then none
    else match op with
      | .eq => some (decide (a = b))
      | .ne => some (decide (a ≠ b))
      | .lt => some (a.lt b)
      | .le => some (!b.lt a)
      | .gt => some (b.lt a)
      | _ => some (!a.lt b)

/-! ## Expressions on one row -/

/-- the value bound to `?n` when the statement runs (`build_query_params`): the text of an internal entry, the
    caller's value of a variable (a Boolean is bound as 0/1) -/
def bindVal (env : String → Val) (binds : Binds) : Nat → SqlVal
  | 0 => .null
  | n + 1 =>
    match binds[n]? with
    | some (.text s) => .text s
    | some (.var x) => .ofScalar (env x)
    | none => .null

def operand (bv : Nat → SqlVal) : Operand → SqlVal
  | .bind n => bv n
  | .int i => .int i
  | .bool b => .int (if b then 1 else 0)
  | .null => .null

/-- one value of `json_object` -/
def projVal (bv : Nat → SqlVal) (row : NodeRow) : ProjExpr → J
  | .field short =>
    (match assoc short row.json with | some v => J.ofVal v | none => .null)
  | .ifnull short d =>
    (match assoc short row.json with | some v => J.ofVal v | none => (operand bv d).toJ)
  | .rowId => .id row.id

/-- `value`: the projection of the row -/
def valueOf (bv : Nat → SqlVal) (proj : List (String × ProjExpr)) (row : NodeRow) : List (String × J) :=
  proj.map fun p => (p.1, projVal bv row p.2)

def lhsVal (row : NodeRow) (value : List (String × J)) : Lhs → SqlVal
  | .json short => (match assoc short row.json with | some v => .ofScalar v | none => .null)
  | .value key => (match assoc key value with | some j => .ofJ j | none => .null)

def atom3 (bv : Nat → SqlVal) (row : NodeRow) (value : List (String × J)) (a : Atom) : Option Bool :=
  cmp3 a.op (lhsVal row value a.lhs) (operand bv a.rhs)

def cond3 (bv : Nat → SqlVal) (row : NodeRow) (value : List (String × J)) : Cond → Option Bool
  | .atom a => atom3 bv row value a
  | .caseDefault d a =>
    if cmp3 a.op (operand bv d) (operand bv a.rhs) = some true then
      or3 (atom3 bv row value a) (cmp3 .is (lhsVal row value a.lhs) .null)
    else atom3 bv row value a

def paging3 (bv : Nat → SqlVal) (row : NodeRow) (value : List (String × J)) (alts : List (List Atom)) : Option Bool :=
  any3 (alts.map fun alt => all3 (alt.map (atom3 bv row value)))

/-- the WHERE clause is true for the row -/
def whereHolds (s : SqlSelect) (bv : Nat → SqlVal) (row : NodeRow) : Bool :=
  let value := valueOf bv s.proj row
  all3 ([some (decide (row.entity = s.entity))] ++ s.filters.map (cond3 bv row value) ++
        (if s.paging.isEmpty then [] else [paging3 bv row value s.paging])) = some true

/-! ## ORDER BY, LIMIT -/

def orderKeys (s : SqlSelect) (bv : Nat → SqlVal) (row : NodeRow) : List SqlVal :=
  s.order.map fun o => lhsVal row (valueOf bv s.proj row) o.lhs

/-- lexicographic "sorts strictly before" under the directions of the terms -/
def keysLt : List OrderTerm → List SqlVal → List SqlVal → Bool
  | o :: os, a :: as, b :: bs =>
    (if o.desc then b.lt a else a.lt b) || (a = b && keysLt os as bs)
  | _, _, _ => false

def applyLimit {α : Type} (limit : Option Int) (offset : Option Nat) (l : List α) : List α :=
  let l := l.drop (offset.getD 0)
  match limit with
  | some n => if n < 0 then l else l.take n.toNat
  | none => l

/-! ## The statement -/

/-- **the rows the statement returns** on a `_node` table, `env` giving the caller's parameters -/
def run (tbl : Table) (s : SqlSelect) (env : String → Val) : List J :=
  let bv := bindVal env s.binds
  let kept := tbl.filter (whereHolds s bv)
  let sorted := sortBy (fun a b => !keysLt s.order (orderKeys s bv b) (orderKeys s bv a)) kept
  (applyLimit s.limit s.offset sorted).map fun row => J.obj (valueOf bv s.proj row)

end Discret.SqlSem
