import DiscretModel.Model.Room
/-
C10 — the construction paths of a room definition, as functions over the rows an instance stores.

Literal model of
  * `validate_room_mutation` / `validate_authorisation_mutation` (authorisation_service.rs:740-975): `validate`
  * what `MutationQuery::write` stores for a room mutation: `storeMutation`
  * `RoomNode::read` / `AuthorisationNode::read` (room_node.rs:118-181, 306-363): `exportRoom`
  * `RoomNode::parse` / `AuthorisationNode::parse` (room_node.rs:163-181, 365-386): `parseRoom`
  * `LOAD_QUERY` + `load_json` + `load_auth_from_json` (authorisation_service.rs:1013-1097, room.rs:330-391): `reload`
  * `prepare_new_room`, `prepare_room_with_history`, `prepare_auth_with_history`, `prepare_new_auth`
    (room_node.rs:522-926) and `prepare_room_node` (authorisation_service.rs:1099-1122): `importRoom`
for HONEST candidates (the candidate is an export of another instance; `check_consistency` and the
signature checks always pass and are not modelled — C07 covers hostile candidates).

Keys, entities, ids are natural numbers (see `Model/Room.lean`). Every stored entry row has a unique
`id` (the uid of its node), its `author` (the key that signed it) and its date (`mdate` of the node =
`cdate` of the edge that places it). SQLite returns the rows of one list in uid order; the code then sorts
them by date with a stable sort, so rows of equal date stay in uid order. Uids are random in production;
the correspondence run makes them sequential (hook `verif_hooks::uid`), so that uid order is creation
order, which is what `id` and `GroupRow.uid` record. The theorems do not depend on that order beyond the
guard `TiesHarmless` (see `Props/C10.lean`).
-/
namespace Discret.RoomBuild
open Discret.Room

/-- deviations of the code from the property (DESIGN.md §4) -/
structure Defects where
  /-- #4: `RoomNode::read` and `LOAD_QUERY` order every list newest first and the append-only lists are
      then filled in that order (room_node.rs:129,315,328,341; authorisation_service.rs:1019-1043) -/
  newestFirstReplay : Bool
  /-- #5: `load_auth_from_json` builds `EntityRight` directly, without `EntityRight::new`
      (room.rs:381-386 vs 300-313): `mutate_all ⇒ mutate_self` is not applied on reload -/
  reloadRawRights : Bool
  /-- `LOAD_QUERY` joins `admin` and `authorisations` without `nullable(..)`: a room without admin entry
      or without group is not loaded at start-up (authorisation_service.rs:1019,1025) -/
  reloadDropsIncompleteRoom : Bool
  /-- #33: `prepare_new_auth` accepts the users of a group that is new to a known room only from
      user-admins of that group — not from room admins (room_node.rs:909-926). (Its user-admin entries must be
      signed by a room admin since the fix 77018f3.) -/
  newGroupUsersNeedUserAdmin : Bool
  /-- NOT a defect — an environment parameter: the order of the uids relative to creation order. Uids are
      random; SQLite returns the rows of one list (and the groups of a room) in uid order. `false`: uid
      order is creation order; `true`: the reverse. The correspondence run drives the real code with
      sequential uids in either direction (`verif_hooks::uid`). -/
  uidOrderReversed : Bool
  /-- `validate_authorisation_mutation` creates a group that the room does not have yet without asking for a room
      admin (authorisation_service.rs:875-893: `need_room_admin` is only raised by rights, user admins, and users
      the caller may not manage): a creator that does not list itself as admin can create a room with an EMPTY group;
      every importer refuses that group row (`prepare_new_room` / `prepare_room_with_history`: its author must be
      admin at its date). For an existing room the caller was checked to be admin beforehand, so only creations
      are concerned. -/
  groupCreationUnchecked : Bool
deriving Repr, DecidableEq

/-- what /repo does now. Fixed upstream (switch turned off here): newest-first replay (f7a29ff), raw rights on
    reload (be6bedc), incomplete rooms dropped on reload (ee57a96). Still on: the new-group users rule (#33,
    findings/C10-new-group-users-accept-room-admin.patch) and the unchecked creation of a group
    (findings/C10-new-group-needs-room-admin.patch). -/
def Defects.asImplemented : Defects :=
  { newGroupUsersNeedUserAdmin := false, -- fixed in /repo: findings/C10-new-group-users-accept-room-admin.patch
    newestFirstReplay := false,          -- fixed: /repo f7a29ff
    reloadRawRights := false,            -- fixed: /repo be6bedc
    reloadDropsIncompleteRoom := false,  -- fixed: /repo ee57a96
    uidOrderReversed := false,           -- (environment parameter, not a defect)
    groupCreationUnchecked := false }    -- fixed in /repo: findings/C10-new-group-needs-room-admin.patch

/-- /repo before the fixes that this check led to -/
def Defects.beforeFixes : Defects := ⟨true, true, true, true, false, true⟩
def Defects.none : Defects := ⟨false, false, false, false, false, false⟩

inductive MErr where
  | date | rejected | unknownRoom | unknownEntity | notBelongs | invalidNode | noRoom | dead | authExists
deriving Repr, DecidableEq

def MErr.toString : MErr → String
  | .date => "date" | .rejected => "rejected" | .unknownRoom => "unknown-room"
  | .unknownEntity => "unknown-entity" | .notBelongs => "not-belongs" | .invalidNode => "invalid-node"
  | .noRoom => "no-room" | .dead => "dead" | .authExists => "auth-exists"

def liftErr {α : Type} : Except Err α → Except MErr α
  | .ok a => .ok a
  | .error .invalidUserDate => .error .date
  | .error .invalidRightDate => .error .date
  | .error .authorisationExists => .error .authExists

/-! ### stored rows -/

structure UserRow where
  id : Nat
  key : Key
  date : Int
  enabled : Bool
  author : Key
deriving Repr, DecidableEq

structure RightRow where
  id : Nat
  entity : Ent
  date : Int
  mutSelf : Bool
  mutAll : Bool
  author : Key
deriving Repr, DecidableEq

structure GroupRow where
  gid : Id
  /-- creation order of the group row (its uid); SQLite returns the groups of a room in this order -/
  uid : Nat
  mdate : Int
  author : Key
  rights : List RightRow
  users : List UserRow
  userAdmins : List UserRow
deriving Repr, DecidableEq

structure RoomRow where
  rid : Id
  mdate : Int
  author : Key
  admins : List UserRow
  groups : List GroupRow
deriving Repr, DecidableEq

def UserRow.toUser (u : UserRow) : User := { key := u.key, date := u.date, enabled := u.enabled }

/-- `EntityRight::new` (normalising) or the struct literal of `load_auth_from_json` (raw) -/
def RightRow.toRight (raw : Bool) (r : RightRow) : Right :=
  if raw then { validFrom := r.date, entity := r.entity, mutSelf := r.mutSelf, mutAll := r.mutAll }
  else Right.new r.date r.entity r.mutSelf r.mutAll

/-! ### replaying rows into the append-only lists -/

def addUsers : List User → List UserRow → Except Err (List User)
  | l, [] => .ok l
  | l, u :: t =>
    match addUserEntry l u.toUser with
    | .ok l' => addUsers l' t
    | .error e => .error e

def addRights (raw : Bool) : List Right → List RightRow → Except Err (List Right)
  | l, [] => .ok l
  | l, r :: t =>
    match addRightEntry l (r.toRight raw) with
    | .ok l' => addRights raw l' t
    | .error e => .error e

/-- `AuthorisationNode::parse` (rights, users, user admins — each list in the order given) -/
def parseGroup (raw : Bool) (g : GroupRow) : Except Err Auth :=
  match addRights raw [] g.rights with
  | .error e => .error e
  | .ok rights =>
    match addUsers [] g.users with
    | .error e => .error e
    | .ok users =>
      match addUsers [] g.userAdmins with
      | .error e => .error e
      | .ok userAdmins => .ok { id := g.gid, mdate := g.mdate, users, rights, userAdmins }

def parseGroups (raw : Bool) : Room → List GroupRow → Except Err Room
  | r, [] => .ok r
  | r, g :: t =>
    match parseGroup raw g with
    | .error e => .error e
    | .ok a =>
      match r.addAuth a with
      | .error e => .error e
      | .ok r' => parseGroups raw r' t

/-- `RoomNode::parse`: admins, then the groups, in the order given. With `raw` it is `load_json`
    (which differs only in the order of the steps — irrelevant for the result — and the rights) -/
def parseRoom (raw : Bool) (rr : RoomRow) : Except Err Room :=
  match addUsers [] rr.admins with
  | .error e => .error e
  | .ok admins => parseGroups raw { id := rr.rid, mdate := rr.mdate, admins, auths := [] } rr.groups

/-! ### ordering of the rows when they are read -/

/-- stable insertion sort (Rust's `sort_by` is stable): `x` goes before the first `y` with `le x y` -/
def insertBy {α : Type} (le : α → α → Bool) (x : α) : List α → List α
  | [] => [x]
  | y :: t => if le x y then x :: y :: t else y :: insertBy le x t

def sortBy {α : Type} (le : α → α → Bool) (l : List α) : List α := l.foldr (insertBy le) []

def sortUsers (newestFirst : Bool) (l : List UserRow) : List UserRow :=
  if newestFirst then sortBy (fun a b => decide (b.date ≤ a.date)) l
  else sortBy (fun a b => decide (a.date ≤ b.date)) l

def sortRights (newestFirst : Bool) (l : List RightRow) : List RightRow :=
  if newestFirst then sortBy (fun a b => decide (b.date ≤ a.date)) l
  else sortBy (fun a b => decide (a.date ≤ b.date)) l

/-- in which order the storage returns rows of equal date: uid order (the primary key of `_edge`, used by
    `RoomNode::read`; `rev` = uids decrease with creation), or the order in which this instance inserted
    the rows (`seq`: ids in insertion order — what `LOAD_QUERY`'s `ORDER BY mdate` leaves for ties) -/
inductive TieOrder where
  | uid (rev : Bool)
  | seq (s : List Nat)
deriving Repr

def byTie {α : Type} (id : α → Nat) : TieOrder → List α → List α
  | .uid true, l => sortBy (fun a b => decide (id b ≤ id a)) l
  | .uid false, l => sortBy (fun a b => decide (id a ≤ id b)) l
  | .seq s, l => sortBy (fun a b => decide (s.idxOf (id a) ≤ s.idxOf (id b))) l

/-- what a read returns for one list: the storage order, then the stable date sort -/
def readUsers (newestFirst : Bool) (t : TieOrder) (l : List UserRow) : List UserRow :=
  sortUsers newestFirst (byTie UserRow.id t l)

def readRights (newestFirst : Bool) (t : TieOrder) (l : List RightRow) : List RightRow :=
  sortRights newestFirst (byTie RightRow.id t l)

def sortGroup (newestFirst : Bool) (t : TieOrder) (g : GroupRow) : GroupRow :=
  { g with rights := readRights newestFirst t g.rights, users := readUsers newestFirst t g.users,
           userAdmins := readUsers newestFirst t g.userAdmins }

def readRoom (newestFirst : Bool) (t : TieOrder) (rr : RoomRow) : RoomRow :=
  { rr with admins := readUsers newestFirst t rr.admins, groups := rr.groups.map (sortGroup newestFirst t) }

/-- the groups of a room in uid order (the order `Edge::get_edges` returns the placing references in) -/
def groupsByUid (rev : Bool) (rr : RoomRow) : RoomRow :=
  { rr with groups := byTie GroupRow.uid (.uid rev) rr.groups }

/-- `RoomNode::read`: what an instance hands to a peer, and what it reads back as `old_room_node` -/
def exportRoom (df : Defects) (rr : RoomRow) : RoomRow :=
  groupsByUid df.uidOrderReversed (readRoom df.newestFirstReplay (.uid df.uidOrderReversed) rr)

/-- start-up: `LOAD_QUERY` + `load_json` for one stored room; `none` = the room is not loaded.
    `seq`: the ids of the rows in the order this instance inserted them -/
def reloadRoom (df : Defects) (seq : List Nat) (rr : RoomRow) : Option (Except Err Room) :=
  if df.reloadDropsIncompleteRoom && (rr.admins.isEmpty || rr.groups.isEmpty) then none
  else some (parseRoom df.reloadRawRights (readRoom df.newestFirstReplay (.seq seq) rr))

/-! ### local room mutation -/

structure GroupSpec where
  gid : Id
  isNew : Bool
  rights : List (Ent × Bool × Bool)
  users : List (Key × Bool)
  userAdmins : List (Key × Bool)
deriving Repr, DecidableEq

structure MutSpec where
  rid : Id
  isNew : Bool
  date : Int
  admins : List (Key × Bool)
  groups : List GroupSpec
deriving Repr, DecidableEq

def addAdminList (d : Int) : Room → List (Key × Bool) → Except Err Room
  | r, [] => .ok r
  | r, (k, e) :: t =>
    match r.addAdmin { key := k, date := d, enabled := e } with
    | .ok r' => addAdminList d r' t
    | .error e => .error e

def addUserList (d : Int) : Auth → List (Key × Bool) → Except Err Auth
  | a, [] => .ok a
  | a, (k, e) :: t =>
    match a.addUser { key := k, date := d, enabled := e } with
    | .ok a' => addUserList d a' t
    | .error e => .error e

def addUserAdminList (d : Int) : Auth → List (Key × Bool) → Except Err Auth
  | a, [] => .ok a
  | a, (k, e) :: t =>
    match a.addUserAdmin { key := k, date := d, enabled := e } with
    | .ok a' => addUserAdminList d a' t
    | .error e => .error e

def addRightList (d : Int) : Auth → List (Ent × Bool × Bool) → Except Err Auth
  | a, [] => .ok a
  | a, (e, s, al) :: t =>
    match a.addRight (Right.new d e s al) with
    | .ok a' => addRightList d a' t
    | .error e => .error e

/-- `validate_authorisation_mutation`: returns the room with the group extended and `need_room_admin` -/
def validateGroup (df : Defects) (caller : Key) (d : Int) (room : Room) (g : GroupSpec) : Except MErr (Room × Bool) :=
  -- the group is created by this mutation
  let created := (room.getAuth g.gid).isNone
  let start : Except MErr (Room × Auth) :=
    match room.getAuth g.gid with
    | some a => .ok (room, a)
    | none =>
      if g.isNew then
        let a : Auth := { id := g.gid, mdate := d, users := [], rights := [], userAdmins := [] }
        match room.addAuth a with
        | .ok r' => .ok (r', a)
        | .error e => liftErr (.error e)
      else .error .notBelongs
  match start with
  | .error e => .error e
  | .ok (room, a) =>
    match liftErr (addRightList d a g.rights) with
    | .error e => .error e
    | .ok a =>
      match liftErr (addUserList d a g.users) with
      | .error e => .error e
      | .ok a =>
        match liftErr (addUserAdminList d a g.userAdmins) with
        | .error e => .error e
        | .ok a =>
          let needRoomAdmin := !g.rights.isEmpty || !g.userAdmins.isEmpty
          let needRoomAdmin := needRoomAdmin || (!g.users.isEmpty && !a.canAdminUsers caller d)
          let needRoomAdmin := needRoomAdmin || (!df.groupCreationUnchecked && created)
          .ok (room.setAuth a, needRoomAdmin)

def validateGroups (df : Defects) (caller : Key) (d : Int) : Room → Bool → List GroupSpec → Except MErr (Room × Bool)
  | r, need, [] => .ok (r, need)
  | r, need, g :: t =>
    match validateGroup df caller d r g with
    | .error e => .error e
    | .ok (r', n) => validateGroups df caller d r' (need || n) t

/-- `validate_room_mutation`; `mem` is the in-memory definition of the room, if any -/
def validate (df : Defects) (mem : Option Room) (caller : Key) (m : MutSpec) : Except MErr Room :=
  let start : Except MErr Room :=
    if m.isNew then .ok { id := m.rid, mdate := 0, admins := [], auths := [] }
    else
      match mem with
      | none => .error .unknownRoom
      | some r => if r.isAdmin caller m.date then .ok r else .error .rejected
  match start with
  | .error e => .error e
  | .ok room =>
    match liftErr (addAdminList m.date room m.admins) with
    | .error e => .error e
    | .ok room =>
      match validateGroups df caller m.date room (!m.admins.isEmpty) m.groups with
      | .error e => .error e
      | .ok (room, need) =>
        if need && !room.isAdmin caller m.date then .error .rejected else .ok room

/-! ### what a successful room mutation stores -/

def mkUserRows (author : Key) (d : Int) : Nat → List (Key × Bool) → List UserRow
  | _, [] => []
  | n, (k, e) :: t => { id := n, key := k, date := d, enabled := e, author } :: mkUserRows author d (n + 1) t

def mkRightRows (author : Key) (d : Int) : Nat → List (Ent × Bool × Bool) → List RightRow
  | _, [] => []
  | n, (e, s, a) :: t =>
    { id := n, entity := e, date := d, mutSelf := s, mutAll := a, author } :: mkRightRows author d (n + 1) t

/-- ids used by one group of a mutation: one for the group row (used when it is created) and one per entry -/
def GroupSpec.size (g : GroupSpec) : Nat := 1 + g.rights.length + g.users.length + g.userAdmins.length

/-- rows of one group of the mutation appended to the stored group (created when absent); the group
    row itself is re-dated and re-signed by the caller (a reference was added to it) -/
def storeGroup (author : Key) (d : Int) (n : Nat) (groups : List GroupRow) (g : GroupSpec) : List GroupRow :=
  let rights := mkRightRows author d (n + 1) g.rights
  let users := mkUserRows author d (n + 1 + g.rights.length) g.users
  let uas := mkUserRows author d (n + 1 + g.rights.length + g.users.length) g.userAdmins
  if groups.any (·.gid = g.gid) then
    groups.map fun x =>
      if x.gid = g.gid then
        { x with mdate := d, author, rights := x.rights ++ rights, users := x.users ++ users,
                 userAdmins := x.userAdmins ++ uas }
      else x
  else groups ++ [{ gid := g.gid, uid := n, mdate := d, author, rights, users, userAdmins := uas }]

def storeGroups (author : Key) (d : Int) : Nat → List GroupRow → List GroupSpec → List GroupRow
  | _, groups, [] => groups
  | n, groups, g :: t => storeGroups author d (n + g.size) (storeGroup author d n groups g) t

def MutSpec.size (m : MutSpec) : Nat := m.admins.length + (m.groups.map GroupSpec.size).sum

/-- the stored room after the write (`old = none` for a new room). The room row is re-dated and
    re-signed when a reference was added to it (an admin entry or a new group) -/
def storeMutation (author : Key) (n : Nat) (old : Option RoomRow) (m : MutSpec) : RoomRow :=
  let base : RoomRow := match old with
    | some rr => rr
    | none => { rid := m.rid, mdate := m.date, author, admins := [], groups := [] }
  let touched := !m.admins.isEmpty || m.groups.any (·.isNew)
  { rid := base.rid,
    mdate := if touched then m.date else base.mdate,
    author := if touched then author else base.author,
    admins := base.admins ++ mkUserRows author m.date n m.admins,
    groups := storeGroups author m.date (n + m.admins.length) base.groups m.groups }

/-! ### a room definition received from a peer -/

def adminAt (r : Room) (k : Key) (d : Int) : Bool := r.isAdmin k d

/-- `prepare_new_room` after its `parse`: every entry's author must be admin at the entry's date in the
    FINAL room; the users of a group are accepted from admins only -/
def newRoomEntitled (room : Room) (c : RoomRow) : Bool :=
  c.admins.all (fun u => room.isAdmin u.author u.date) &&
  c.groups.all fun g =>
    room.isAdmin g.author g.mdate &&
    g.users.all (fun u => room.isAdmin u.author u.date) &&
    g.rights.all (fun x => room.isAdmin x.author x.date) &&
    g.userAdmins.all (fun u => room.isAdmin u.author u.date)

def prepareNewRoom (c : RoomRow) : Except MErr Room :=
  match liftErr (parseRoom false c) with
  | .error e => .error e
  | .ok room => if newRoomEntitled room c then .ok room else .error .invalidNode

/-- stored rows that the candidate lacks are added back; a row present on both sides must be identical -/
def mergeUsers (old cand : List UserRow) : Except MErr (List UserRow) :=
  if old.any (fun o => cand.any fun c => c.id = o.id && c != o) then .error .invalidNode
  else .ok (cand ++ old.filter fun o => !cand.any fun c => c.id = o.id)

def mergeRights (old cand : List RightRow) : Except MErr (List RightRow) :=
  if old.any (fun o => cand.any fun c => c.id = o.id && c != o) then .error .invalidNode
  else .ok (cand ++ old.filter fun o => !cand.any fun c => c.id = o.id)

def isNewUser (old : List UserRow) (u : UserRow) : Bool := !old.any (·.id = u.id)
def isNewRight (old : List RightRow) (x : RightRow) : Bool := !old.any (·.id = x.id)

/-- the new-admins loop of `prepare_room_with_history`: in ascending date order, each new entry's author
    must be admin at the entry's date in the room extended so far -/
def addNewAdmins (old : List UserRow) : Room → Bool → List UserRow → Except MErr (Room × Bool)
  | room, need, [] => .ok (room, need)
  | room, need, u :: t =>
    if isNewUser old u then
      if room.isAdmin u.author u.date then
        match liftErr (room.addAdmin u.toUser) with
        | .ok room' => addNewAdmins old room' true t
        | .error e => .error e
      else .error .invalidNode
    else addNewAdmins old room need t

def addNewUserAdmins (room : Room) (old : List UserRow) : Auth → Bool → List UserRow → Except MErr (Auth × Bool)
  | a, need, [] => .ok (a, need)
  | a, need, u :: t =>
    if isNewUser old u then
      if room.isAdmin u.author u.date then
        match liftErr (a.addUserAdmin u.toUser) with
        | .ok a' => addNewUserAdmins room old a' true t
        | .error e => .error e
      else .error .invalidNode
    else addNewUserAdmins room old a need t

/-- `prepare_auth_with_history` for a group the importer already holds. Returns the merged group row
    (every list in ascending date order) and `need_update` -/
def prepareAuthWithHistory (room : Room) (old cand : GroupRow) : Except MErr (GroupRow × Bool) :=
  match room.getAuth old.gid with
  | none => .error .invalidNode   -- the code would panic here (`expect`); unreachable for stored groups
  | some auth =>
    match mergeUsers old.userAdmins cand.userAdmins with
    | .error e => .error e
    | .ok uas =>
      let uas := sortUsers false uas
      match addNewUserAdmins room old.userAdmins auth false uas with
      | .error e => .error e
      | .ok (auth, need1) =>
        match mergeUsers old.users cand.users with
        | .error e => .error e
        | .ok users =>
          let users := sortUsers false users
          let newUsers := users.filter (isNewUser old.users)
          if !newUsers.all (fun u => auth.canAdminUsers u.author u.date || room.isAdmin u.author u.date) then
            .error .invalidNode
          else
            match mergeRights old.rights cand.rights with
            | .error e => .error e
            | .ok rights =>
              let rights := sortRights false rights
              let newRights := rights.filter (isNewRight old.rights)
              if !newRights.all (fun x => room.isAdmin x.author x.date) then .error .invalidNode
              else
                .ok ({ cand with rights, users, userAdmins := uas },
                     need1 || !newUsers.isEmpty || !newRights.isEmpty)

/-- `prepare_new_auth`: a group that is new to a room the importer already holds -/
def prepareNewAuth (df : Defects) (room : Room) (g : GroupRow) : Except MErr Unit :=
  match liftErr (parseGroup false g) with
  | .error e => .error e
  | .ok auth =>
    let usersOk := g.users.all fun u =>
      auth.canAdminUsers u.author u.date || (!df.newGroupUsersNeedUserAdmin && room.isAdmin u.author u.date)
    -- the user-admin entries of the new group must be signed by an admin (room_node.rs:940-949)
    let uasOk := g.userAdmins.all fun u => room.isAdmin u.author u.date
    if !usersOk then .error .invalidNode
    else if !g.rights.all (fun x => room.isAdmin x.author x.date) then .error .invalidNode
    else if !uasOk then .error .invalidNode
    else .ok ()

/-- the loop over the groups the importer already holds -/
def mergeOldGroups (room : Room) (cand : List GroupRow) :
    List GroupRow → List GroupRow → Bool → Except MErr (List GroupRow × Bool)
  | [], acc, need => .ok (acc, need)
  | o :: t, acc, need =>
    match acc.find? (·.gid = o.gid) with
    | none => mergeOldGroups room cand t (acc ++ [o]) need
    | some c =>
      if o.mdate < c.mdate then
        if !room.isAdmin c.author c.mdate then .error .invalidNode
        else
          match prepareAuthWithHistory room o c with
          | .error e => .error e
          | .ok (g, _) => mergeOldGroups room cand t (acc.map fun x => if x.gid = o.gid then g else x) true
      else
        match prepareAuthWithHistory room o { c with mdate := o.mdate, author := o.author } with
        | .error e => .error e
        | .ok (g, n) =>
          mergeOldGroups room cand t (acc.map fun x => if x.gid = o.gid then g else x) (need || n)

def checkNewGroups (df : Defects) (room : Room) (old : List GroupRow) : List GroupRow → Bool → Except MErr Bool
  | [], need => .ok need
  | g :: t, need =>
    if old.any (·.gid = g.gid) then checkNewGroups df room old t need
    else if !room.isAdmin g.author g.mdate then .error .invalidNode
    else
      match prepareNewAuth df room g with
      | .error e => .error e
      | .ok () => checkNewGroups df room old t true

/-- the room row of the candidate (room_node.rs:529-543): identical to the stored one, or newer and signed by
    a key that is admin at its date in the room the importer holds, or older — then the stored row is kept -/
def roomRowCheck (room : Room) (old cand : RoomRow) : Except MErr RoomRow :=
  if cand.mdate = old.mdate ∧ cand.author = old.author then .ok cand
  else if old.mdate < cand.mdate then
    if room.isAdmin cand.author cand.mdate then .ok cand else .error .invalidNode
  else .ok { cand with mdate := old.mdate, author := old.author }

/-- the lists of `prepare_room_with_history`: returns `need_update` and the merged candidate -/
def prepareLists (df : Defects) (room : Room) (old cand : RoomRow) : Except MErr (Bool × RoomRow) :=
  match mergeUsers old.admins cand.admins with
  | .error e => .error e
  | .ok admins =>
    let admins := sortUsers false admins
    match addNewAdmins old.admins room false admins with
    | .error e => .error e
    | .ok (room, need) =>
      match mergeOldGroups room cand.groups old.groups cand.groups need with
      | .error e => .error e
      | .ok (groups, need) =>
        match checkNewGroups df room old.groups groups need with
        | .error e => .error e
        | .ok need =>
          let merged : RoomRow := { cand with admins, groups }
          match liftErr (parseRoom false merged) with
          | .error e => .error e
          | .ok _ => .ok (need, merged)

/-- `prepare_room_with_history`: the room row, then the lists -/
def prepareWithHistory (df : Defects) (room : Room) (old cand : RoomRow) : Except MErr (Bool × RoomRow) :=
  match roomRowCheck room old cand with
  | .error e => .error e
  | .ok cand' => prepareLists df room old cand'

/-! ### sites -/

structure Site where
  dead : Bool
  stored : List RoomRow
  mem : List Room
  /-- ids of the stored entry rows in the order this instance inserted them -/
  seq : List Nat
deriving Repr

def Site.empty : Site := { dead := false, stored := [], mem := [], seq := [] }

/-- ids of the entry rows of a room in the order `RoomNode::write` / `MutationQuery::write` inserts them -/
def RoomRow.entryIds (rr : RoomRow) : List Nat :=
  rr.admins.map (·.id) ++ rr.groups.flatMap fun g =>
    g.rights.map (·.id) ++ g.users.map (·.id) ++ g.userAdmins.map (·.id)

/-- rows that were not stored yet are inserted, in the order given -/
def Site.noteInserted (s : Site) (rr : RoomRow) : Site :=
  { s with seq := s.seq ++ (rr.entryIds.filter fun i => !s.seq.contains i) }

def Site.getStored (s : Site) (rid : Id) : Option RoomRow := s.stored.find? (·.rid = rid)
def Site.getMem (s : Site) (rid : Id) : Option Room := s.mem.find? (·.id = rid)

def Site.setStored (s : Site) (rr : RoomRow) : Site :=
  if s.stored.any (·.rid = rr.rid) then
    { s with stored := s.stored.map fun x => if x.rid = rr.rid then rr else x }
  else { s with stored := s.stored ++ [rr] }

def Site.setMem (s : Site) (r : Room) : Site :=
  if s.mem.any (·.id = r.id) then { s with mem := s.mem.map fun x => if x.id = r.id then r else x }
  else { s with mem := s.mem ++ [r] }

/-- local room mutation on a live site: `MutationQuery::execute` (the rows named by id must exist),
    `validate_room_mutation`, write, second validation, install -/
def Site.mutate (df : Defects) (s : Site) (caller : Key) (n : Nat) (m : MutSpec) : Except MErr Site :=
  if s.dead then .error .dead
  else
    let old := s.getStored m.rid
    let rowsExist := (m.isNew || old.isSome) &&
      m.groups.all fun g => g.isNew || (s.stored.any fun rr => rr.groups.any (·.gid = g.gid))
    if !rowsExist then .error .unknownEntity
    else
      match validate df (s.getMem m.rid) caller m with
      | .error e => .error e
      | .ok room =>
        let rr := storeMutation caller n (if m.isNew then none else old) m
        .ok (((s.setStored rr).setMem room).noteInserted rr)

def reloadAll (df : Defects) (seq : List Nat) : List RoomRow → Except MErr (List Room)
  | [] => .ok []
  | rr :: t =>
    match reloadRoom df seq rr with
    | none => reloadAll df seq t
    | some (.error e) => liftErr (.error e)
    | some (.ok r) =>
      match reloadAll df seq t with
      | .error e => .error e
      | .ok l => .ok (r :: l)

/-- stop and start again on the same folder -/
def Site.restart (df : Defects) (s : Site) : Except MErr Site :=
  if s.dead then .error .dead
  else
    match reloadAll df s.seq s.stored with
    | .error e => .error e
    | .ok mem => .ok { s with mem }

/-- `add_room_node` with a candidate exported by another instance -/
def Site.importRoom (df : Defects) (s : Site) (cand : RoomRow) : Except MErr Site :=
  if s.dead then .error .dead
  else
    match s.getMem cand.rid with
    | none =>
      match prepareNewRoom (groupsByUid df.uidOrderReversed cand) with
      | .error e => .error e
      | .ok room =>
        .ok (((s.setStored (groupsByUid df.uidOrderReversed cand)).setMem room).noteInserted
          (groupsByUid df.uidOrderReversed cand))
    | some room =>
      match s.getStored cand.rid with
      | none => .error .invalidNode
      | some old =>
        match prepareWithHistory df room (exportRoom df old) cand with
        | .error e => .error e
        | .ok (false, _) => .ok s
        | .ok (true, merged) =>
          match liftErr (parseRoom false (groupsByUid df.uidOrderReversed merged)) with
          | .error e => .error e
          | .ok room' =>
            .ok (((s.setStored (groupsByUid df.uidOrderReversed merged)).setMem room').noteInserted
              (groupsByUid df.uidOrderReversed merged))

def Site.export (df : Defects) (s : Site) (rid : Id) : Except MErr RoomRow :=
  if s.dead then .error .dead
  else
    match s.getStored rid with
    | none => .error .noRoom
    | some rr => .ok (exportRoom df rr)

end Discret.RoomBuild
