import DiscretModel.Model.SqlGen
/-
Aggregate queries at the root (property C05): model of the SQL text generation of `src/database/query.rs` for a
selection of group-by scalar fields next to `count()`, `min(f)`, `max(f)` (the aggregate functions the reference
evaluator `Model/Query.lean` covers; `avg` / `sum` produce floats and are not modelled), ordinary filters on
fields (WHERE), filters on aggregate aliases (HAVING), `order_by` on selected group fields and on aggregate
aliases. Code modelled in addition to `Model/SqlGen.lean`: `get_fields` for `QueryFieldType::Aggregate`,
`get_group_by`, `get_having_filters` and the aggregate branch of `get_end_select_query`.
-/
namespace Discret.SqlGen
open Discret.Query

inductive AggExpr
  | count                    -- `count(1) `
  | min (short : String)     -- ` min(_json->>'$.short') `
  | max (short : String)     -- ` max(_json->>'$.short') `
deriving Repr, DecidableEq

inductive ProjExprA
  | col (e : ProjExpr)       -- a bare column of the group
  | agg (a : AggExpr)
deriving Repr, DecidableEq

structure SqlSelectA where
  table : String
  entity : String
  proj : List (String × ProjExprA)
  filters : List Cond                 -- WHERE
  groupBy : List String               -- `GROUP BY _json->>'$.s₁',…`
  having : List Atom                  -- `HAVING value->>'$.a' op v AND …`
  order : List OrderTerm
  limit : Option Int
  offset : Option Nat
  binds : Binds
deriving Repr, DecidableEq

def renderProjA (table : String) : String × ProjExprA → String
  | (key, .col e) => renderProj table (key, e)
  | (key, .agg .count) => "'" ++ key ++ "',count(1) "
  | (key, .agg (.min short)) => "'" ++ key ++ "', min(_json->>'$." ++ short ++ "') "
  | (key, .agg (.max short)) => "'" ++ key ++ "', max(_json->>'$." ++ short ++ "') "

def renderFieldsA (table : String) (t : Nat) (proj : List (String × ProjExprA)) : String :=
  "json_object(" ++ joinSep "," (proj.map fun p => "\n" ++ tab t ++ renderProjA table p) ++ ")"

/-- `get_group_by` -/
def renderGroupBy (t : Nat) (shorts : List String) : String :=
  if shorts.isEmpty then "" else "\n" ++ tab t ++ "GROUP BY " ++ joinSep "," (shorts.map fun s => "_json->>'$." ++ s ++ "'")

/-- the aggregate branch of `get_end_select_query` (no cursors) -/
def renderEndA (t : Nat) (s : SqlSelectA) : String :=
  renderFilters t s.filters ++ renderGroupBy t s.groupBy ++
  (if s.having.isEmpty then "" else "\n" ++ tab t ++ "HAVING \n" ++ tab t) ++
  joinSep (" AND\n" ++ tab t) (s.having.map Atom.render) ++
  (if s.order.isEmpty then "" else "\n" ++ tab t ++ renderOrder s.order)

def renderEntityA (t : Nat) (s : SqlSelectA) : String :=
  tab t ++ "SELECT \n" ++ tab t ++ renderFieldsA s.table t s.proj ++ " as value\n" ++
  tab t ++ "FROM _node " ++ s.table ++ "\n" ++
  tab t ++ "WHERE \n" ++ tab t ++ s.table ++ "._entity='" ++ s.entity ++ "' " ++
  renderEndA t s ++ "\n" ++ tab t ++ renderLimit s.limit s.offset

def renderA (s : SqlSelectA) : String :=
  "SELECT \n" ++ "json_group_array(value->'$') \n" ++ "FROM (\n" ++ renderEntityA 1 s ++ "\n )"

/-! ## The compiler -/

def aggKey (name : String) : Sel → Bool
  | .agg k _ _ => decide (k = name)
  | _ => false

/-- `build_filter`: a filter whose name is the alias of an aggregate is a HAVING filter -/
def isHaving (q : Query) (f : Filter) : Bool := f.onAlias && q.sels.any (aggKey f.name)

def projLoopA (nm : Names) (s : Schema) (ent : Nat) : Binds → List Sel → Binds × List (String × ProjExprA)
  | ps, [] => (ps, [])
  | ps, .scalar key fld :: rest =>
    (match defaultOf s ent fld with
     | some dv =>
       let r := litOperand ps dv
       let r2 := projLoopA nm s ent r.1 rest
       (r2.1, (key, .col (.ifnull (nm.fieldShort ent fld) r.2)) :: r2.2)
     | none =>
       let r2 := projLoopA nm s ent ps rest
       (r2.1, (key, .col (.field (nm.fieldShort ent fld))) :: r2.2))
  | ps, .agg key fn fld :: rest =>
    let r2 := projLoopA nm s ent ps rest
    (r2.1, (key, .agg (match fn with
                      | .count => .count
                      | .min => .min (nm.fieldShort ent fld)
                      | .max => .max (nm.fieldShort ent fld))) :: r2.2)
  | ps, _ :: rest => projLoopA nm s ent ps rest

/-- the WHERE filters (those that are not HAVING filters), `vn i` naming the variable of the i-th filter -/
def whereLoopA (nm : Names) (s : Schema) (q : Query) (vn : Nat → String) : Binds → Nat → List Filter → Binds × List Cond
  | ps, _, [] => (ps, [])
  | ps, i, f :: rest =>
    if isHaving q f then whereLoopA nm s q vn ps (i + 1) rest
    else
      let r := filterCond nm s q.ent ps (vn i) f
      let r2 := whereLoopA nm s q vn r.1 (i + 1) rest
      (r2.1, r.2 :: r2.2)

/-- `get_having_filters`: `value->>'$.name' op value` -/
def havingLoop (q : Query) (vn : Nat → String) : Binds → Nat → List Filter → Binds × List Atom
  | ps, _, [] => (ps, [])
  | ps, i, f :: rest =>
    if isHaving q f then
      let r := filterValue ps (vn i) f
      let r2 := havingLoop q vn r.1 (i + 1) rest
      (r2.1, { lhs := .value f.name, op := r.2.2, rhs := r.2.1 } :: r2.2)
    else havingLoop q vn ps (i + 1) rest

def groupShorts (nm : Names) (q : Query) : List String := (groupFields q).map (nm.fieldShort q.ent)

/-- **`SingleQuery::build`** for an aggregate query -/
def compileA (nm : Names) (s : Schema) (vn : Nat → String) (q : Query) : SqlSelectA :=
  let pr := projLoopA nm s q.ent [] q.sels
  let wh := whereLoopA nm s q vn pr.1 0 q.filters
  let hv := havingLoop q vn wh.1 0 q.filters
  let lim := limitOf q.first q.skip
  { table := nm.table, entity := nm.entShort q.ent, proj := pr.2, filters := wh.2, groupBy := groupShorts nm q,
    having := hv.2, order := q.orders.map fun o => { lhs := orderLhs nm q.ent o, desc := o.desc },
    limit := lim.1, offset := lim.2, binds := hv.1 }

/-! ## The fragment -/

/-- a group field: a scalar without default (ordering and grouping read the stored value) -/
def groupFieldOk (s : Schema) (ent fld : Nat) : Bool :=
  match fieldDef s ent fld with
  | some fd => scalarKind fd.kind && fd.dflt == none
  | none => false

def selOkA (s : Schema) (ent : Nat) : Sel → Bool
  | .scalar _ fld => groupFieldOk s ent fld
  | .agg _ _ _ => true
  | _ => false

def filterOkA (s : Schema) (q : Query) (f : Filter) : Bool :=
  f.jpath.isNone && !f.onRef &&
  (if isHaving q f then f.isParam || f.value != .null
   else !f.onAlias && fieldOk s q.ent f.fld && (f.isParam || f.value != .null || defaultOf s q.ent f.fld == none))

/-- an ordering names a selected group field (selected under its own name) or an alias of the selection -/
def orderOkA (q : Query) (o : Order) : Bool :=
  if o.onAlias then q.sels.any (fun sel => Sel.key sel == o.name) else q.sels.any (isScalarSel o.name o.fld)

/-- **the aggregate fragment**: at least one aggregate, group fields and aggregates only, distinct keys, WHERE
    filters on fields, HAVING filters on aggregate aliases, no limits and no cursors (the evaluator has none) -/
def inFragmentA (s : Schema) (q : Query) : Bool :=
  q.isAggregate && q.sels.all (selOkA s q.ent) && distinctKeys (q.sels.map Sel.key) &&
  q.filters.all (filterOkA s q) && q.orders.all (orderOkA q) &&
  q.first == 0 && q.skip == 0 && q.after.isEmpty && q.before.isEmpty

/-- the stored values `min` / `max` range over are numbers and texts (Integer / String fields never store anything
    else; a stored `null` or Boolean is outside the fragment) -/
def aggDataOk (q : Query) (data : Data) : Bool :=
  data.all fun r => r.ent != q.ent || q.sels.all fun sel =>
    match sel with
    | .agg _ .count _ => true
    | .agg _ _ fld => (match r.stored fld with | none => true | some (.int _) => true | some (.str _) => true | _ => false)
    | _ => true

end Discret.SqlGen
