/-
Shared model of `src/database/room.rs`: the room decision functions and the append-only histories.
Used by C01 C02 C07 C08 C10 C12. Import-free.

* keys, entity names and ids are natural numbers; entity `0` is the wildcard `"*"`;
* `HashMap<key, Vec<User>>` is ONE list in insertion order; the per-key vector is the sub-list of
  that key (`filter`), so `entry.last()` is `getLast?` of the filter and
  `iter().rev().find(|u| u.date <= d)` is `find?` on the reversed filter — literally the Rust lookup,
  so that tie-breaking between equal dates is the code's (the LAST inserted entry wins);
* `HashMap<Uid, Authorisation>` is a list of groups with distinct ids (`addAuth` refuses duplicates);
  `Room::can` is an `any` over the groups, so iteration order is irrelevant.
-/
namespace Discret.Room

abbrev Key := Nat
abbrev Ent := Nat
abbrev Id := Nat

def wildcard : Ent := 0

structure User where
  key : Key
  date : Int
  enabled : Bool
deriving Repr, DecidableEq

structure Right where
  validFrom : Int
  entity : Ent
  mutSelf : Bool
  mutAll : Bool
deriving Repr, DecidableEq

/-- `EntityRight::new`: `mutate_all: true` forces `mutate_self: true` -/
def Right.new (validFrom : Int) (entity : Ent) (mutSelf mutAll : Bool) : Right :=
  { validFrom, entity, mutSelf := mutSelf || mutAll, mutAll }

inductive RightType where
  | mutateSelf
  | mutateAll
deriving Repr, DecidableEq

structure Auth where
  id : Id
  mdate : Int
  users : List User
  rights : List Right
  userAdmins : List User
deriving Repr, DecidableEq

structure Room where
  id : Id
  mdate : Int
  admins : List User
  auths : List Auth
deriving Repr, DecidableEq

inductive Err where
  | invalidUserDate
  | invalidRightDate
  | authorisationExists
deriving Repr, DecidableEq

/-- the entry in force for `k` at date `d`: the last inserted among those dated `≤ d` -/
def lastAt (l : List User) (k : Key) (d : Int) : Option User :=
  (l.filter (·.key = k)).reverse.find? (·.date ≤ d)

/-- `Some(user) => user.enabled, None => false` -/
def enabledAt (l : List User) (k : Key) (d : Int) : Bool :=
  match lastAt l k d with
  | some u => u.enabled
  | none => false

/-- the append-only check of `add_admin_user` / `add_user` / `add_user_admin` -/
def addUserEntry (l : List User) (u : User) : Except Err (List User) :=
  match (l.filter (·.key = u.key)).getLast? with
  | some last => if last.date > u.date then .error .invalidUserDate else .ok (l ++ [u])
  | none => .ok (l ++ [u])

def rightAt (l : List Right) (e : Ent) (d : Int) : Option Right :=
  (l.filter (·.entity = e)).reverse.find? (·.validFrom ≤ d)

def addRightEntry (l : List Right) (r : Right) : Except Err (List Right) :=
  match (l.filter (·.entity = r.entity)).getLast? with
  | some last => if last.validFrom > r.validFrom then .error .invalidRightDate else .ok (l ++ [r])
  | none => .ok (l ++ [r])

def Right.grants (r : Right) : RightType → Bool
  | .mutateSelf => r.mutSelf
  | .mutateAll => r.mutAll

namespace Auth

def addUser (a : Auth) (u : User) : Except Err Auth :=
  match addUserEntry a.users u with
  | .ok l => .ok { a with users := l }
  | .error e => .error e

def addUserAdmin (a : Auth) (u : User) : Except Err Auth :=
  match addUserEntry a.userAdmins u with
  | .ok l => .ok { a with userAdmins := l }
  | .error e => .error e

def addRight (a : Auth) (r : Right) : Except Err Auth :=
  match addRightEntry a.rights r with
  | .ok l => .ok { a with rights := l }
  | .error e => .error e

def canAdminUsers (a : Auth) (k : Key) (d : Int) : Bool := enabledAt a.userAdmins k d

def isUserValidAt (a : Auth) (k : Key) (d : Int) : Bool :=
  enabledAt a.users k d || enabledAt a.userAdmins k d

def hasUser (a : Auth) (k : Key) : Bool :=
  a.users.any (·.key = k) || a.userAdmins.any (·.key = k)

/-- the entity's own entry decides when there is one at `d`; the wildcard only otherwise -/
def can (a : Auth) (e : Ent) (d : Int) (rt : RightType) : Bool :=
  match rightAt a.rights e d with
  | some r => r.grants rt
  | none =>
    match rightAt a.rights wildcard d with
    | some r => r.grants rt
    | none => false

end Auth

namespace Room

def empty (id : Id) (mdate : Int) : Room := { id, mdate, admins := [], auths := [] }

def addAdmin (r : Room) (u : User) : Except Err Room :=
  match addUserEntry r.admins u with
  | .ok l => .ok { r with admins := l }
  | .error e => .error e

def addAuth (r : Room) (a : Auth) : Except Err Room :=
  if r.auths.any (·.id = a.id) then .error .authorisationExists
  else .ok { r with auths := r.auths ++ [a] }

def getAuth (r : Room) (id : Id) : Option Auth := r.auths.find? (·.id = id)

def setAuth (r : Room) (a : Auth) : Room :=
  { r with auths := r.auths.map fun x => if x.id = a.id then a else x }

def isAdmin (r : Room) (k : Key) (d : Int) : Bool := enabledAt r.admins k d

def isUserValidAt (r : Room) (k : Key) (d : Int) : Bool :=
  enabledAt r.admins k d || r.auths.any (·.isUserValidAt k d)

def hasUser (r : Room) (k : Key) : Bool :=
  r.admins.any (·.key = k) || r.auths.any (·.hasUser k)

/-- `Room::can`: an admin counts as a member of every group, and nothing more -/
def can (r : Room) (k : Key) (e : Ent) (d : Int) (rt : RightType) : Bool :=
  r.auths.any fun a => (r.isAdmin k d || a.isUserValidAt k d) && a.can e d rt

def users (r : Room) : List Key :=
  (r.admins.map (·.key) ++ r.auths.flatMap fun a => a.users.map (·.key) ++ a.userAdmins.map (·.key)).eraseDups

/-- `can_admin_users` of group `gid` (false when the room has no such group) -/
def canAdminUsers (r : Room) (gid : Id) (k : Key) (d : Int) : Bool :=
  match r.getAuth gid with
  | some a => a.canAdminUsers k d
  | none => false

end Room

/-- one history entry of a room definition, with the list it belongs to -/
inductive Entry where
  | admin (u : User)
  | user (gid : Id) (u : User)
  | userAdmin (gid : Id) (u : User)
  | right (gid : Id) (r : Right)
deriving Repr, DecidableEq

def Entry.date : Entry → Int
  | .admin u => u.date
  | .user _ u => u.date
  | .userAdmin _ u => u.date
  | .right _ r => r.validFrom

namespace Room

/-- append one entry through the append-only check of its list; `none` when the check refuses it or
    the group does not exist -/
def addEntry? (r : Room) : Entry → Option Room
  | .admin u =>
    match r.addAdmin u with
    | .ok r' => some r'
    | .error _ => none
  | .user gid u =>
    match r.getAuth gid with
    | none => none
    | some a =>
      match a.addUser u with
      | .ok a' => some (r.setAuth a')
      | .error _ => none
  | .userAdmin gid u =>
    match r.getAuth gid with
    | none => none
    | some a =>
      match a.addUserAdmin u with
      | .ok a' => some (r.setAuth a')
      | .error _ => none
  | .right gid x =>
    match r.getAuth gid with
    | none => none
    | some a =>
      match a.addRight x with
      | .ok a' => some (r.setAuth a')
      | .error _ => none

end Room

end Discret.Room
