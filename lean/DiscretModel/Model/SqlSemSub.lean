import DiscretModel.Model.SqlSem
import DiscretModel.Model.SqlGenSub
/-
What SQLite computes for a statement with sub-selects (`Model/SqlGenSub.lean`). TRUSTED like `Model/SqlSem.lean`,
validated the same way (`sqlck` op: predicted rows against the real engine's). In addition to `SqlSem.lean`:

* `FROM _edge JOIN _node K on _edge.dest=K.id AND _edge.label='L' WHERE … AND _edge.src=P.id`: the rows of `_node`
  for which `_edge` holds a row (src = id of P's row, label L, dest = the row's id); `(src, label, dest)` is the
  key of `_edge`, so a row is reached at most once; the scan order is that of `_node`;
* a column `P.id` means the innermost table with alias `P`: the joined table itself when the sub-selection's key
  is also the alias of the parent table, else the row of the enclosing SELECT;
* a scalar sub-query `( … LIMIT 1 )->'$'` is the JSON value of its first row, NULL (written `null` by
  `json_object`) when it has none; `( SELECT json_group_array(value->'$') … )` is the array of the rows, `[]`
  when there are none; `EXISTS ( … )` is true iff the sub-query — its LIMIT / OFFSET applied — returns a row.
-/
namespace Discret.SqlSem
open Discret.Query Discret.SqlGen

/-- the rows of a sub-select for the row `outer` of the enclosing SELECT -/
def subRows (db : Db) (bv : Nat → SqlVal) (sub : SubSelect) (outer : NodeRow) : List NodeRow :=
  let joined := db.nodes.filter fun t =>
    db.edges.any fun e =>
      e.dest = t.id && e.label = sub.label && e.src = (if sub.parent = sub.key then t.id else outer.id)
  let kept := joined.filter (whereHolds sub.core bv)
  let sorted := sortBy (fun a b => !keysLt sub.core.order (orderKeys sub.core bv b) (orderKeys sub.core bv a)) kept
  if sub.unique then sorted.take 1 else applyLimit sub.core.limit sub.core.offset sorted

def runSub (db : Db) (bv : Nat → SqlVal) (sub : SubSelect) (outer : NodeRow) : List J :=
  (subRows db bv sub outer).map fun row => J.obj (valueOf bv sub.core.proj row)

def projVal1 (db : Db) (bv : Nat → SqlVal) (row : NodeRow) : ProjExpr1 → J
  | .scalar e => projVal bv row e
  | .one sub => (match runSub db bv sub row with | j :: _ => j | [] => .null)
  | .many sub => .arr (runSub db bv sub row)

def valueOf1 (db : Db) (bv : Nat → SqlVal) (proj : List (String × ProjExpr1)) (row : NodeRow) : List (String × J) :=
  proj.map fun p => (p.1, projVal1 db bv row p.2)

def whereHolds1 (db : Db) (s : SqlSelect1) (bv : Nat → SqlVal) (row : NodeRow) : Bool :=
  let value := valueOf1 db bv s.proj row
  all3 ([some (decide (row.entity = s.entity))] ++
        s.exist.map (fun sub => some (!(subRows db bv sub row).isEmpty)) ++
        s.filters.map (cond3 bv row value) ++
        (if s.paging.isEmpty then [] else [paging3 bv row value s.paging])) = some true

def orderKeys1 (db : Db) (s : SqlSelect1) (bv : Nat → SqlVal) (row : NodeRow) : List SqlVal :=
  s.order.map fun o => lhsVal row (valueOf1 db bv s.proj row) o.lhs

/-- **the rows the statement returns** -/
def run1 (db : Db) (s : SqlSelect1) (env : String → Val) : List J :=
  let bv := bindVal env s.binds
  let kept := db.nodes.filter (whereHolds1 db s bv)
  let sorted := sortBy (fun a b => !keysLt s.order (orderKeys1 db s bv b) (orderKeys1 db s bv a)) kept
  (applyLimit s.limit s.offset sorted).map fun row => J.obj (valueOf1 db bv s.proj row)

end Discret.SqlSem
