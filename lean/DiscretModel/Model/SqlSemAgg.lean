import DiscretModel.Model.SqlSem
import DiscretModel.Model.SqlGenAgg
/-
What SQLite computes for an aggregate statement of `Model/SqlGenAgg.lean`. TRUSTED like `Model/SqlSem.lean` and
validated the same way (`sqlck`). In addition to `SqlSem.lean`:

* the rows kept by WHERE are grouped by the tuple of GROUP BY values (SQL values: `1` and `true` fall together, a
  stored `null` and an absent key are both NULL and fall together); without GROUP BY there is exactly one
  group, even when no row is kept;
* `count(1)` is the size of the group; `min(x)` / `max(x)` range over the non-NULL values of `x` in the group with the
  order NULL < numbers < texts and are NULL when there is none;
* a bare column of an aggregate query is taken from a row of the group (NULL when the group has no row). SQLite
  does not say which row; here the first in scan order. All rows of a group agree on the grouped fields as long as
  a field stores values of one JSON type, which the mutations guarantee;
* HAVING keeps the groups whose condition is true (the alias `value` is the projection of the group); ORDER BY
  sorts the groups. The engine returns the groups in an order of its own when no ORDER BY is given; here they keep
  the order of first appearance (compared as multisets by the differential run).
-/
namespace Discret.SqlSem
open Discret.Query Discret.SqlGen

/-- does the group start with a row that has the keys of `r`? -/
def leads {α : Type} (same : α → α → Bool) (r : α) : List α → Bool
  | x :: _ => same x r
  | [] => false

def joinGroup {α : Type} (same : α → α → Bool) (r : α) : List α → List α
  | x :: t => if same x r then r :: x :: t else x :: t
  | [] => []

/-- groups in order of first appearance, each in scan order -/
def groupBy {α : Type} (same : α → α → Bool) : List α → List (List α)
  | [] => []
  | r :: rest =>
    let gs := groupBy same rest
    if gs.any (leads same r) then gs.map (joinGroup same r) else [r] :: gs

/-- the extreme of a list under `lt` (the first one among equals, from the right) -/
def pick (lt : SqlVal → SqlVal → Bool) : List SqlVal → Option SqlVal
  | [] => none
  | v :: rest =>
    match pick lt rest with
    | some w => if lt w v then some w else some v
    | none => some v

def nullRow : NodeRow := { id := 0, entity := "", json := [] }

def aggVal (g : List NodeRow) : AggExpr → J
  | .count => .int g.length
  | .min short =>
    (match pick SqlVal.lt ((g.map fun r => lhsVal r [] (.json short)).filter (· ≠ .null)) with
     | some v => v.toJ | none => .null)
  | .max short =>
    (match pick (fun a b => b.lt a) ((g.map fun r => lhsVal r [] (.json short)).filter (· ≠ .null)) with
     | some v => v.toJ | none => .null)

def projValA (bv : Nat → SqlVal) (g : List NodeRow) : ProjExprA → J
  | .col e => (match g with | x :: _ => projVal bv x e | [] => .null)
  | .agg a => aggVal g a

def valueOfA (bv : Nat → SqlVal) (proj : List (String × ProjExprA)) (g : List NodeRow) : List (String × J) :=
  proj.map fun p => (p.1, projValA bv g p.2)

def whereHoldsA (s : SqlSelectA) (bv : Nat → SqlVal) (row : NodeRow) : Bool :=
  all3 ([some (decide (row.entity = s.entity))] ++ s.filters.map (cond3 bv row [])) = some true

def groupKeys (s : SqlSelectA) (row : NodeRow) : List SqlVal := s.groupBy.map fun short => lhsVal row [] (.json short)

def havingHolds (s : SqlSelectA) (bv : Nat → SqlVal) (g : List NodeRow) : Bool :=
  all3 (s.having.map (atom3 bv (g.head?.getD nullRow) (valueOfA bv s.proj g))) = some true

def orderKeysA (s : SqlSelectA) (bv : Nat → SqlVal) (g : List NodeRow) : List SqlVal :=
  s.order.map fun o => lhsVal (g.head?.getD nullRow) (valueOfA bv s.proj g) o.lhs

/-- **the rows an aggregate statement returns** -/
def runA (tbl : Table) (s : SqlSelectA) (env : String → Val) : List J :=
  let bv := bindVal env s.binds
  let kept := tbl.filter (whereHoldsA s bv)
  let groups := if s.groupBy.isEmpty then [kept] else groupBy (fun a b => groupKeys s a = groupKeys s b) kept
  let having := groups.filter (havingHolds s bv)
  let sorted := sortBy (fun a b => !keysLt s.order (orderKeysA s bv b) (orderKeysA s bv a)) having
  (applyLimit s.limit s.offset sorted).map fun g => J.obj (valueOfA bv s.proj g)

end Discret.SqlSem
