/-
Model of `src/synchronisation/room_locking_service.rs` (the `RoomLockService` actor).

Representation choices (see DESIGN.md A.9):
* a `VecDeque` is a `List` whose **head is the back** of the deque, so that
  `pop_back` is a pattern match on `::`, `push_front x` is `· ++ [x]` and `push_back x` is `x :: ·`;
* the `HashMap<peer, PeerLockRequest>` is an association list (keys are unique, an invariant proved
  in `Lemmas/Lock.lean`); lookups are by key so the insertion order is irrelevant;
* a reply channel is a natural number; the environment's set of closed receivers is `dead`;
  `reply.send(room).is_ok()` is `!dead.contains ch`;
* the inner `for _ in 0..len` loop is a fuel loop whose fuel is the length read at loop entry,
  exactly as the Rust code evaluates the range once; the outer one is a recursion over the queue
  (see `scan`).
This file is import-free (core Lean only) so that the driver can be compiled.
-/
namespace Discret.Lock

abbrev Peer := Nat
abbrev Room := Nat
abbrev Ch := Nat

structure Req where
  rooms : List Room      -- head = back of the deque
  ch : Ch
deriving Repr, DecidableEq

structure State where
  reqs : List (Peer × Req)
  queue : List Peer      -- head = back of the deque
  locked : List Room
  avail : Nat
  dead : List Ch
deriving Repr, DecidableEq

def init (max : Nat) : State :=
  { reqs := [], queue := [], locked := [], avail := max, dead := [] }

def lookup (p : Peer) : List (Peer × Req) → Option Req
  | [] => none
  | (q, r) :: rest => if q = p then some r else lookup p rest

def erase (p : Peer) : List (Peer × Req) → List (Peer × Req)
  | [] => []
  | (q, r) :: rest => if q = p then erase p rest else (q, r) :: erase p rest

/-- The inner loop of `acquire_lock`: rotate through the peer's rooms from the back.
    Returns the remaining rooms and the granted room, if any. -/
def roomLoop (locked : List Room) (live : Bool) : Nat → List Room → List Room × Option Room
  | 0, rooms => (rooms, none)
  | _ + 1, [] => ([], none)
  | fuel + 1, r :: rest =>
    if locked.contains r then roomLoop locked live fuel (rest ++ [r])
    else if live then (rest, some r)
    else roomLoop locked live fuel rest

/-- The outer loop of `acquire_lock` (code as fixed by `fix: a waiting peer keeps its place in the
    lock queue`). `for _ in 0..peer_queue.len() { pop_back … }`: until a grant, the loop only pops
    (a peer that cannot be served goes to the local `skipped` vector, not back to the queue), so it
    visits the peers of the queue exactly once, back first: a structural recursion over the queue.
    `sk` is `skipped` (in visiting order). After the loop the skipped peers are pushed back in
    reverse order, i.e. they return to the back of the queue in their original order; the peer that
    was served goes to the FRONT (end of the list) if it still waits for rooms. -/
def scan (s : State) : List Peer → List Peer → State × Option (Ch × Room)
  | [], sk => ({ s with queue := sk }, none)
  | p :: q, sk =>
    match lookup p s.reqs with
    | none => scan s q sk
    | some req =>
      let res := roomLoop s.locked (!s.dead.contains req.ch) req.rooms.length req.rooms
      let reqs' :=
        if res.1.isEmpty then erase p s.reqs else (p, { req with rooms := res.1 }) :: erase p s.reqs
      match res.2 with
      | some r =>
        ({ s with reqs := reqs', queue := sk ++ (if res.1.isEmpty then q else q ++ [p]),
                  locked := r :: s.locked, avail := s.avail - 1 },
          some (req.ch, r))
      | none => scan { s with reqs := reqs' } q (if res.1.isEmpty then sk else sk ++ [p])

def acquire (s : State) : State × Option (Ch × Room) := scan s s.queue []

/-- `for _ in 0..n { acquire }`, collecting the grants in order. -/
def acquireN : Nat → State → State × List (Ch × Room)
  | 0, s => (s, [])
  | n + 1, s =>
    let (s1, g) := acquire s
    let (s2, gs) := acquireN n s1
    (s2, g.toList ++ gs)

/-- the `for room in rooms` of a repeated request: append the rooms not already pending -/
def addRooms : List Room → List Room → List Room
  | cur, [] => cur
  | cur, r :: rest => if cur.contains r then addRooms cur rest else addRooms (r :: cur) rest

inductive Op where
  | request (p : Peer) (rooms : List Room) (ch : Ch)   -- rooms in the order given (front first)
  | unlock (r : Room)
  | drop (ch : Ch)                                      -- the receiver of `ch` is dropped
deriving Repr, DecidableEq

/-- the map/queue update of `RequestLock`, before the acquisition rounds -/
def requestPre (s : State) (p : Peer) (rooms : List Room) (ch : Ch) : State :=
  match lookup p s.reqs with
  | some req =>
    { s with reqs := (p, { rooms := addRooms req.rooms rooms, ch := ch }) :: erase p s.reqs }
  | none =>
    { s with reqs := (p, { rooms := rooms.reverse, ch := ch }) :: s.reqs, queue := s.queue ++ [p] }

/-- the bookkeeping of `Unlock` for a locked room, before the acquisition round -/
def unlockPre (s : State) (r : Room) : State :=
  { s with locked := s.locked.erase r, avail := s.avail + 1 }

def step (s : State) : Op → State × List (Ch × Room)
  | .request p rooms ch =>
    acquireN (requestPre s p rooms ch).avail (requestPre s p rooms ch)
  | .unlock r =>
    if s.locked.contains r then
      ((acquire (unlockPre s r)).1, (acquire (unlockPre s r)).2.toList)
    else (s, [])
  | .drop ch => ({ s with dead := ch :: s.dead }, [])

/-- run a sequence of operations, collecting per-step grants -/
def run : State → List Op → State × List (List (Ch × Room))
  | s, [] => (s, [])
  | s, op :: ops =>
    let (s1, g) := step s op
    let (s2, gs) := run s1 ops
    (s2, g :: gs)

end Discret.Lock
