/-
Model of `src/synchronisation/room_locking_service.rs` (the `RoomLockService` actor).

Representation choices (see DESIGN.md A.9):
* a `VecDeque` is a `List` whose **head is the back** of the deque, so that
  `pop_back` is a pattern match on `::`, `push_front x` is `· ++ [x]` and `push_back x` is `x :: ·`;
* the `HashMap<peer, PeerLockRequest>` is an association list (keys are unique, an invariant proved
  in `Lemmas/Lock.lean`); lookups are by key so the insertion order is irrelevant;
* a reply channel is a natural number; the environment's set of closed receivers is `dead`;
  `reply.send(room).is_ok()` is `!dead.contains ch`;
* the two `for _ in 0..len` loops are fuel loops whose fuel is the length read at loop entry,
  exactly as the Rust code evaluates the range once.
This file is import-free (core Lean only) so that the driver can be compiled.
-/
namespace Discret.Lock

abbrev Peer := Nat
abbrev Room := Nat
abbrev Ch := Nat

structure Req where
  rooms : List Room      -- head = back of the deque
  ch : Ch
deriving Repr, DecidableEq

structure State where
  reqs : List (Peer × Req)
  queue : List Peer      -- head = back of the deque
  locked : List Room
  avail : Nat
  dead : List Ch
deriving Repr, DecidableEq

def init (max : Nat) : State :=
  { reqs := [], queue := [], locked := [], avail := max, dead := [] }

def lookup (p : Peer) : List (Peer × Req) → Option Req
  | [] => none
  | (q, r) :: rest => if q = p then some r else lookup p rest

def erase (p : Peer) : List (Peer × Req) → List (Peer × Req)
  | [] => []
  | (q, r) :: rest => if q = p then erase p rest else (q, r) :: erase p rest

/-- The inner loop of `acquire_lock`: rotate through the peer's rooms from the back.
    Returns the remaining rooms and the granted room, if any. -/
def roomLoop (locked : List Room) (live : Bool) : Nat → List Room → List Room × Option Room
  | 0, rooms => (rooms, none)
  | _ + 1, [] => ([], none)
  | fuel + 1, r :: rest =>
    if locked.contains r then roomLoop locked live fuel (rest ++ [r])
    else if live then (rest, some r)
    else roomLoop locked live fuel rest

/-- One iteration of the outer loop of `acquire_lock` for the popped peer `p` (queue rest `q`)
    whose request `req` has just been removed from the map. -/
def peerBody (s : State) (p : Peer) (q : List Peer) (req : Req) : State × Option (Ch × Room) :=
  let reqs' := erase p s.reqs
  let res := roomLoop s.locked (!s.dead.contains req.ch) req.rooms.length req.rooms
  let rooms' := res.1
  let reqs'' := if rooms'.isEmpty then reqs' else (p, { req with rooms := rooms' }) :: reqs'
  let q' := if rooms'.isEmpty then q else q ++ [p]
  match res.2 with
  | some r =>
    ({ s with reqs := reqs'', queue := q', locked := r :: s.locked, avail := s.avail - 1 },
      some (req.ch, r))
  | none => ({ s with reqs := reqs'', queue := q' }, none)

/-- The outer loop of `acquire_lock`. Returns the new state and the grant `(channel, room)`. -/
def peerLoop : Nat → State → State × Option (Ch × Room)
  | 0, s => (s, none)
  | fuel + 1, s =>
    match s.queue with
    | [] => (s, none)
    | p :: q =>
      match lookup p s.reqs with
      | none => peerLoop fuel { s with queue := q }
      | some req =>
        match peerBody s p q req with
        | (s', some g) => (s', some g)
        | (s', none) => peerLoop fuel s'

def acquire (s : State) : State × Option (Ch × Room) := peerLoop s.queue.length s

/-- `for _ in 0..n { acquire }`, collecting the grants in order. -/
def acquireN : Nat → State → State × List (Ch × Room)
  | 0, s => (s, [])
  | n + 1, s =>
    let (s1, g) := acquire s
    let (s2, gs) := acquireN n s1
    (s2, g.toList ++ gs)

/-- the `for room in rooms` of a repeated request: append the rooms not already pending -/
def addRooms : List Room → List Room → List Room
  | cur, [] => cur
  | cur, r :: rest => if cur.contains r then addRooms cur rest else addRooms (r :: cur) rest

inductive Op where
  | request (p : Peer) (rooms : List Room) (ch : Ch)   -- rooms in the order given (front first)
  | unlock (r : Room)
  | drop (ch : Ch)                                      -- the receiver of `ch` is dropped
deriving Repr, DecidableEq

/-- the map/queue update of `RequestLock`, before the acquisition rounds -/
def requestPre (s : State) (p : Peer) (rooms : List Room) (ch : Ch) : State :=
  match lookup p s.reqs with
  | some req =>
    { s with reqs := (p, { rooms := addRooms req.rooms rooms, ch := ch }) :: erase p s.reqs }
  | none =>
    { s with reqs := (p, { rooms := rooms.reverse, ch := ch }) :: s.reqs, queue := s.queue ++ [p] }

/-- the bookkeeping of `Unlock` for a locked room, before the acquisition round -/
def unlockPre (s : State) (r : Room) : State :=
  { s with locked := s.locked.erase r, avail := s.avail + 1 }

def step (s : State) : Op → State × List (Ch × Room)
  | .request p rooms ch =>
    acquireN (requestPre s p rooms ch).avail (requestPre s p rooms ch)
  | .unlock r =>
    if s.locked.contains r then
      ((acquire (unlockPre s r)).1, (acquire (unlockPre s r)).2.toList)
    else (s, [])
  | .drop ch => ({ s with dead := ch :: s.dead }, [])

/-- run a sequence of operations, collecting per-step grants -/
def run : State → List Op → State × List (List (Ch × Room))
  | s, [] => (s, [])
  | s, op :: ops =>
    let (s1, g) := step s op
    let (s2, gs) := run s1 ops
    (s2, g :: gs)

end Discret.Lock
