import DiscretModel.Model.Proto
/- C19 model — placeholder driver hooks (filled in below) -/
namespace Discret.Handshake
namespace Drv
structure St where
  dummy : Nat
def start (_ : List String) : Option St := some ⟨0⟩
def stepOp (s : St) (_ : String) (_ : List String) : St × String := (s, "bad-op")
end Drv
end Discret.Handshake
