import DiscretModel.Model.Proto
/-
Model of the connection handshake and of the invitation / token table (C19):
`LocalPeerService::initialise_connection` (peer_inbound_service.rs:146-228), `IdentityAnswer::verify`
(synchronisation/mod.rs:80-91), `Peer::validate` (system_entities.rs:185-198), the token table of
`PeerManager` (`get_token_type`, `create_invite`, `accept_invite`, `invite_accepted`,
peer_manager.rs:549-717) and `MeetingSecret::token` (security.rs:309-330).

Idealised cryptography: a signature is the pair (signer, message); the key agreement is exponentiation
(`pub a = g^a`, `dh a P = P^a`), the token hash is injective on the agreed secret (no truncation: the
56-bit truncation of the real token is NOT modelled). Import-free (core Lean only).
-/
namespace Discret.Handshake

abbrev Key := Nat
abbrev Chal := Nat          -- a challenge (32 random bytes)

structure Sig where
  signer : Key
  msg : Nat
deriving DecidableEq, Repr

def sigValid (k : Key) (m : Nat) (s : Sig) : Bool := s.signer == k && s.msg == m

/-- the message signed for an invitation: `hash(invite_id ++ application)`; injective pairing -/
def inviteHash (id app : Nat) : Nat := (id + app) * (id + app + 1) / 2 + app + 1000000

/-- challenges and invitation digests live in disjoint ranges of the model's message space -/
def chalMsg (c : Chal) : Nat := c

structure Invite where
  id : Nat
  app : Nat
  sign : Sig
deriving DecidableEq, Repr

/-- what the meeting token used by the remote side maps to (peer_manager.rs `TokenType`) -/
inductive TokenType where
  | allowedPeer (expected : Key)
  | ownedInvite (id : Nat)
  | invite (inv : Invite)
deriving DecidableEq, Repr

/-- the remote side's reply to `ProveIdentity(challenge)` -/
structure Proof where
  key : Key            -- verifying key of the peer row it presents
  rowValid : Bool      -- `Peer::validate`: room-less `sys.Peer` row, correctly signed, with a public key
  sig : Sig            -- `chall_signature`
deriving DecidableEq, Repr

inductive Event where
  | ready | readyFingerprint
deriving DecidableEq, Repr

inductive Msg where      -- messages to the peer service
  | connected (k : Key)
  | inviteAccepted (tt : TokenType) (k : Key)
deriving DecidableEq, Repr

inductive Result where
  | ok (b : Bool)        -- `Ok(true)` / `Ok(false)` (silent failure: the caller disconnects)
  | err                  -- `Err(_)`: logged, the caller disconnects
deriving DecidableEq, Repr

structure Outcome where
  res : Result
  bound : Option Key     -- `remote_verifying_key` after the call
  connReady : Bool       -- `conn_ready` after the call (true before)
  events : List Event    -- sent to the remote side
  msgs : List Msg        -- sent to the peer service
deriving DecidableEq, Repr

def fail (r : Result) : Outcome := { res := r, bound := none, connReady := true, events := [], msgs := [] }

/-- `initialise_connection`. `reply = none`: no usable answer (error answer, closed channel, undecodable
    bytes, timeout). -/
def initialise (localKey : Key) (tt : TokenType) (challenge : Chal) (reply : Option Proof) : Outcome :=
  match reply with
  | none => fail (.ok false)
  | some p =>
    if !sigValid p.key (chalMsg challenge) p.sig then fail .err
    else if !p.rowValid then fail .err
    else
      match tt with
      | .allowedPeer expected =>
        if expected ≠ p.key then fail .err
        else if localKey = p.key then
          { res := .ok true, bound := some p.key, connReady := false, events := [.readyFingerprint], msgs := [] }
        else
          { res := .ok true, bound := some p.key, connReady := true, events := [.ready], msgs := [.connected p.key] }
      | .ownedInvite _ =>
        { res := .ok true, bound := some p.key, connReady := true, events := [.ready],
          msgs := [.inviteAccepted tt p.key, .connected p.key] }
      | .invite inv =>
        if !sigValid p.key (inviteHash inv.id inv.app) inv.sign then fail .err
        else
          { res := .ok true, bound := some p.key, connReady := true, events := [.ready],
            msgs := [.inviteAccepted tt p.key, .connected p.key] }

/-! ### the token table -/

/-- a meeting token: derived from an invitation id, or agreed with a peer (by its meeting public key) -/
inductive Token where
  | derived (inviteId : Nat)
  | agreed (secret : Nat)
deriving DecidableEq, Repr

/-- key agreement: exponentiation in a commutative monoid -/
def g : Nat := 2
def pubOf (a : Nat) : Nat := g ^ a
def dh (a : Nat) (p : Nat) : Nat := p ^ a

/-- `MeetingSecret::token`: the own public key maps to a hash of the secret itself -/
def token (a : Nat) (theirPub : Nat) : Nat :=
  if theirPub = pubOf a then 2 * a + 1 else 2 * dh a theirPub

structure Defects where
  /-- `invite_accepted` removed the consumed invitation from the entry of the NEW PEER's token instead
      of the invitation's token (peer_manager.rs:680-717): it stayed reachable until restart.
      FIXED in /repo by 7ec64bc (the entry is now looked up under `derive_token("P", invite id)`): off in
      `asImplemented`; the switch is kept so that the regression witness stays checkable. -/
  inviteRemovedUnderPeerToken : Bool
deriving DecidableEq, Repr

def Defects.asImplemented : Defects := { inviteRemovedUnderPeerToken := false }
/-- the code before fix 7ec64bc -/
def Defects.beforeFix : Defects := { inviteRemovedUnderPeerToken := true }
def Defects.none : Defects := { inviteRemovedUnderPeerToken := false }

/-- `allowed_token : HashMap<MeetingToken, Vec<TokenType>>` as the list of its (token, entry) pairs in
    insertion order (per token the order is the vector's) -/
abbrev Table := List (Token × TokenType)

/-- `get_token_type(token, key)` -/
def lookup (t : Table) (tok : Token) (key : Key) : Option TokenType :=
  ((t.filter (·.1 = tok)).map (·.2)).find? fun tt =>
    match tt with
    | .allowedPeer e => e = key
    | _ => true

def inviteIdOf : TokenType → Option Nat
  | .ownedInvite id => some id
  | .invite inv => some inv.id
  | .allowedPeer _ => none

def sameInvite (tt x : TokenType) : Bool :=
  match tt, x with
  | .ownedInvite a, .ownedInvite b => a == b
  | .invite a, .invite b => a.id == b.id
  | _, _ => false

/-- remove the first entry under `tok` that is the invitation `tt` -/
def removeFirst (tok : Token) (tt : TokenType) : Table → Table
  | [] => []
  | e :: rest => if e.1 = tok ∧ sameInvite tt e.2 then rest else e :: removeFirst tok tt rest

def createInvite (t : Table) (id : Nat) : Table := t ++ [(.derived id, .ownedInvite id)]

/-- `accept_invite`: refused for another application -/
def acceptInvite (app : Nat) (t : Table) (inv : Invite) : Option Table :=
  if inv.app ≠ app then none else some (t ++ [(.derived inv.id, .invite inv)])

/-- `invite_accepted(token_type, peer)`: the new peer becomes an allowed peer under the pairwise token,
    the invitation is removed -/
def inviteAccepted (d : Defects) (t : Table) (tt : TokenType) (peerKey : Key) (peerTok : Token) : Table :=
  let t1 := t ++ [(peerTok, .allowedPeer peerKey)]
  match inviteIdOf tt with
  | none => t1
  | some id => removeFirst (if d.inviteRemovedUnderPeerToken then peerTok else .derived id) tt t1

/-- the invitation `id` can still be reached through some token -/
def reachable (t : Table) (id : Nat) : Bool := t.any fun e => inviteIdOf e.2 == some id

def isAllowedEntry : TokenType → Bool | .allowedPeer _ => true | _ => false
def isOwnedEntry : TokenType → Bool | .ownedInvite _ => true | _ => false
def isInviteEntry : TokenType → Bool | .invite _ => true | _ => false

/-- restart: `PeerManager::new` rebuilds the table from storage — the allowed peers, then the owned
    invitations, then the accepted invitations (peer_manager.rs:88-117). Every entry of the table is
    persisted when it is added and deleted from storage when it is removed (`AllowedPeer::add`,
    `Invite::create` / `OwnedInvite::delete`, `Invite::insert` / `Invite::delete`), and `accept_invite`
    stores an invitation only AFTER the application check: storage holds exactly the table's entries. -/
def restart (t : Table) : Table :=
  t.filter (fun e => isAllowedEntry e.2) ++ t.filter (fun e => isOwnedEntry e.2) ++ t.filter (fun e => isInviteEntry e.2)

/-! ### driver (shared with the harness op files, see harness/serve/src/c19.rs) -/
namespace Drv
open Discret.Proto

structure St where
  app : Nat
  table : Table
  chal : Nat                         -- next fresh challenge
  recorded : List (Nat × Sig)        -- conn -> signature of its challenge by the honest remote

def start (toks : List String) : Option St :=
  some { app := (nat? toks "app").getD 1, table := [], chal := 1, recorded := [] }

def fmtKey : Option Key → String
  | some k => toString k
  | none => "-"

def fmtOutcome (o : Outcome) : String :=
  let res := match o.res with | .ok true => "true" | .ok false => "false" | .err => "err"
  let ev := match o.events with | [.ready] => "Ready" | [.readyFingerprint] => "ReadyFingerprint" | [] => "-" | _ => "?"
  let ms := o.msgs.map fun m => match m with
    | .connected k => s!"connected:{k}"
    | .inviteAccepted _ k => s!"accepted:{k}"
  let ms := if ms.isEmpty then "-" else joinWith "," ms
  s!"res={res} key={fmtKey o.bound} ready={if o.connReady then 1 else 0} events={ev} msgs={ms}"

def tokenOf (toks : List String) : Option Token :=
  match kv? toks "tok" with
  | some s => match s.splitOn ":" with
    | ["inv", n] => n.toNat?.map Token.derived
    | ["peer", k] => k.toNat?.map Token.agreed
    | _ => none
  | none => none

def fmtTT : Option TokenType → String
  | some (.allowedPeer k) => s!"allowed {k}"
  | some (.ownedInvite n) => s!"owned {n}"
  | some (.invite inv) => s!"invite {inv.id}"
  | none => "none"

def stepOp (s : St) (kind : String) (toks : List String) : St × String :=
  match kind with
  | "hs" =>
    -- every connection draws a fresh challenge
    let c := s.chal
    let s1 := { s with chal := s.chal + 1 }
    let tt : Option TokenType := match kv? toks "tt" with
      | some "allowed" => (nat? toks "exp").map TokenType.allowedPeer
      | some "owned" => (nat? toks "inv").map TokenType.ownedInvite
      | some "invite" =>
        match nat? toks "inv", nat? toks "signer", nat? toks "app", nat? toks "signapp" with
        | some n, some k, some a, some sa => some (.invite ⟨n, a, ⟨k, inviteHash n sa⟩⟩)
        | _, _, _, _ => none
      | _ => none
    match tt, nat? toks "conn", nat? toks "local", kv? toks "remote" with
    | some tt, some conn, some loc, some remote =>
      let reply : Option (Option Proof) := match remote with
        | "honest" => (nat? toks "key").map fun k => some ⟨k, true, ⟨k, chalMsg c⟩⟩
        | "wrongkey" => match nat? toks "key", nat? toks "signer2" with
          | some k, some k2 => some (some ⟨k, true, ⟨k2, chalMsg c⟩⟩) | _, _ => none
        | "replay" => match nat? toks "key", nat? toks "from" with
          | some k, some m => match s.recorded.find? (·.1 = m) with
            | some r => some (some ⟨k, true, r.2⟩)
            | none => none
          | _, _ => none
        | "badrow" => (nat? toks "key").map fun k => some ⟨k, false, ⟨k, chalMsg c⟩⟩
        | "noanswer" => some none
        | _ => none
      match reply with
      | none => (s, "bad-op")
      | some r =>
        let o := initialise loc tt c r
        let rec' := match remote, nat? toks "key" with
          | "honest", some k => (conn, (⟨k, chalMsg c⟩ : Sig)) :: s1.recorded
          | _, _ => s1.recorded
        ({ s1 with recorded := rec' }, fmtOutcome o)
    | _, _, _, _ => (s, "bad-op")
  | "pm-invite" =>
    match nat? toks "n" with
    | some n => if reachable s.table n then (s, "bad-op") else ({ s with table := createInvite s.table n }, "ok")
    | none => (s, "bad-op")
  | "pm-lookup" =>
    match tokenOf toks, nat? toks "key" with
    | some tok, some k => (s, fmtTT (lookup s.table tok k))
    | _, _ => (s, "bad-op")
  | "pm-accepted" =>
    match nat? toks "inv", nat? toks "peer" with
    | some n, some k =>
      match lookup s.table (.derived n) k with
      | some tt =>
        if (inviteIdOf tt).isSome then
          ({ s with table := inviteAccepted Defects.asImplemented s.table tt k (.agreed k) }, "ok")
        else (s, "bad-op")
      | none => (s, "no-token")
    | _, _ => (s, "bad-op")
  | "pm-accept" =>
    match kv? toks "src" with
    | some "forged" =>
      match nat? toks "id", nat? toks "app", nat? toks "signer" with
      | some n, some a, some k =>
        match acceptInvite s.app s.table ⟨n, a, ⟨k, inviteHash n a⟩⟩ with
        | some t => ({ s with table := t }, "ok")
        | none => (s, "err:app")
      | _, _, _ => (s, "bad-op")
    | some "bytes" => (s, "err:decode")
    | _ => (s, "bad-op")
  | "pm-restart" => ({ s with table := restart s.table }, "ok")
  | "tok-sym" =>
    match nat? toks "a", nat? toks "b" with
    | some a, some b => (s, if token a (pubOf b) = token b (pubOf a) then "sym 1" else "sym 0")
    | _, _ => (s, "bad-op")
  | _ => (s, "bad-op")

end Drv
end Discret.Handshake
