/-
Reference evaluator of discret's query language (property C05).

`eval` is written from the meaning of the language — entities, rows, references, selections, filters,
ordering, limits, cursors — and never mentions SQL. It is the specification the real compiler
(`query.rs`: query text → SQL → SQLite → JSON) is compared with on every run.

Subset covered (see `checks/C05.py` for what the generator produces):
  scalar fields Integer / String / Boolean (required, nullable, with default, added in a later model
  version), the `id` system field, aliases, entity references and arrays of references with
  sub-selections to any depth (`fuel`), `nullable(..)`, filters (= != < <= > >=, literal or parameter,
  on fields and on aliases, the default-aware rule), `order_by` on several keys with directions,
  `first` / `skip`, `before` / `after`.
Not covered: Float, Base64 and Json fields, aggregates, json selectors, `search`, filters on
reference fields, the room/author system fields, several root selections in one query.

Where the code deviates from what the language means, the deviation is a switch of `Defects`
(`asImplemented` = what the code does and what the differential run validates).
This file is import-free (core Lean only) so that the driver can be compiled.
-/
namespace Discret.Query

structure Defects where
  /-- `query.rs:938-1045`: a row whose order key is absent is dropped by `before`/`after` (candidate #28) -/
  cursorDropsAbsentKeys : Bool
  /-- `query.rs:883-891, 972-981`: ordering and cursors on a field (not an alias) read the stored value:
      the field's default is not applied -/
  orderIgnoresDefault : Bool
  /-- `query.rs:488`: a Boolean default is written as `true`/`false` into `Ifnull`, i.e. the numbers 1/0 -/
  boolDefaultAsNumber : Bool
  /-- `query.rs:87-90`: a filter whose value is a `null` parameter is never satisfied -/
  nullParamNeverMatches : Bool
  /-- `query.rs:496`: a stored explicit `null` is returned as `null` although the field (since made
      non-nullable) has a default; filters do apply the default -/
  explicitNullHidesDefault : Bool
  /-- `query.rs:1063-1075` before fix a7dcc50: `skip k` without `first` produced a statement the engine refused.
      Fixed in /repo: off in `asImplemented`, kept for the regression replay. -/
  skipWithoutFirstFails : Bool
  /-- `query.rs:595-610` before fix 4f128e8: `min`/`max` were applied to the JSON text of the values
      (`_json->'$.k'`), so numbers were compared as texts (`max(9, 10) = 9`).
      Fixed in /repo: off in `asImplemented`, kept for the regression witness. -/
  minMaxCompareText : Bool
  /-- `query.rs:666-678`: `field = null` / `field != null` on a reference field looks at the value selected under
      the field's own name: without such a selection the field always counts as absent -/
  refFilterNeedsSelection : Bool
  /-- `query.rs:269-285`: a sub-selection is joined to its parent through the parent's key; when it has the
      same key as its parent (`parents { parents { … } }`) it is joined to itself and only selects rows that
      reference themselves -/
  sameKeyShadowsParent : Bool
deriving Repr, DecidableEq

def Defects.asImplemented : Defects :=
  { cursorDropsAbsentKeys := true, orderIgnoresDefault := true, boolDefaultAsNumber := true,
    nullParamNeverMatches := true, explicitNullHidesDefault := true, skipWithoutFirstFails := false,
    minMaxCompareText := false, refFilterNeedsSelection := true, sameKeyShadowsParent := true }

/-- the code before the fixes 4f128e8 (min/max) and a7dcc50 (skip without first) -/
def Defects.beforeFixes : Defects :=
  { Defects.asImplemented with skipWithoutFirstFails := true, minMaxCompareText := true }

def Defects.none : Defects :=
  { cursorDropsAbsentKeys := false, orderIgnoresDefault := false, boolDefaultAsNumber := false,
    nullParamNeverMatches := false, explicitNullHidesDefault := false, skipWithoutFirstFails := false,
    minMaxCompareText := false, refFilterNeedsSelection := false, sameKeyShadowsParent := false }

/-! ## Data -/

inductive Val
  | null
  | bool (b : Bool)
  | int (i : Int)
  | str (s : List Char)
deriving Repr, DecidableEq

/-- JSON values: results of queries, and the content of Json fields -/
inductive J
  | null
  | bool (b : Bool)
  | int (i : Int)
  | str (s : List Char)
  | id (n : Nat)
  | obj (fields : List (String × J))
  | arr (items : List J)
deriving Repr

inductive FKind
  | int | str | bool
  | json                    -- a Json field: any JSON value
  | ref (target : Nat)      -- a reference to one row of entity `target`
  | arr (target : Nat)      -- references to any number of rows of entity `target`
deriving Repr, DecidableEq

structure FieldDef where
  kind : FKind
  nullable : Bool
  dflt : Option Val
deriving Repr, DecidableEq

/-- entity index ↦ its fields (field index = position) -/
abbrev Schema := List (List FieldDef)

structure Row where
  id : Nat
  ent : Nat
  vals : List (Nat × Val)          -- field ↦ stored scalar (an absent field has no entry)
  refs : List (Nat × List Nat)     -- field ↦ ids of the referenced rows
  jsons : List (Nat × J) := []     -- Json field ↦ stored value
deriving Repr

abbrev Data := List Row

def fieldDef (s : Schema) (ent fld : Nat) : Option FieldDef := (s[ent]?).bind (·[fld]?)

def lookup {α : Type} (k : Nat) : List (Nat × α) → Option α
  | [] => none
  | (a, v) :: t => if a = k then some v else lookup k t

def Row.stored (r : Row) (fld : Nat) : Option Val := lookup fld r.vals
def Row.json (r : Row) (fld : Nat) : Option J := lookup fld r.jsons
def Row.targets (r : Row) (fld : Nat) : List Nat := (lookup fld r.refs).getD []

/-! ## Queries -/

inductive Cmp | eq | ne | lt | le | gt | ge
deriving Repr, DecidableEq

/-- one step of a json selector: `.name` or `[index]` -/
inductive PathSeg
  | key (k : String)
  | idx (i : Nat)
deriving Repr, DecidableEq

structure Filter where
  onAlias : Bool        -- the name is an alias of the selection (else a field name)
  fld : Nat
  op : Cmp
  value : Val
  isParam : Bool        -- the value was given as a parameter
  name : String := ""   -- the name typed in the filter (used for reference fields and aggregate aliases)
  onRef : Bool := false -- `field = null` / `field != null` on a reference field
  jpath : Option (List PathSeg) := none   -- `field->$.a.b[0] op value` on a Json field
deriving Repr, DecidableEq

structure Order where
  name : String         -- the name typed in `order_by` (not used by the evaluator)
  onAlias : Bool
  fld : Nat
  desc : Bool
deriving Repr, DecidableEq

inductive AggFn | count | min | max
deriving Repr, DecidableEq

mutual
  inductive Sel
    | scalar (key : String) (fld : Nat)
    | id (key : String)
    | agg (key : String) (fn : AggFn) (fld : Nat)     -- `key: count()`, `key: min(field)`, `key: max(field)`
    | json (key : String) (fld : Nat) (path : List PathSeg)   -- `key: field->$.a.b[0]`
    | sub (key : String) (fld : Nat) (optional : Bool) (q : Query)   -- optional: `nullable(key)`
  inductive Query
    | mk (ent : Nat) (sels : List Sel) (filters : List Filter) (orders : List Order)
         (first skip : Nat) (after before : List Val)
end

def Query.ent : Query → Nat | .mk e _ _ _ _ _ _ _ => e
def Query.sels : Query → List Sel | .mk _ s _ _ _ _ _ _ => s
def Query.filters : Query → List Filter | .mk _ _ f _ _ _ _ _ => f
def Query.orders : Query → List Order | .mk _ _ _ o _ _ _ _ => o
def Query.first : Query → Nat | .mk _ _ _ _ f _ _ _ => f
def Query.skip : Query → Nat | .mk _ _ _ _ _ s _ _ => s
def Query.after : Query → List Val | .mk _ _ _ _ _ _ a _ => a
def Query.before : Query → List Val | .mk _ _ _ _ _ _ _ b => b

def J.ofVal : Val → J
  | .null => .null
  | .bool b => .bool b
  | .int i => .int i
  | .str s => .str s

/-! ## Json fields -/

/-- the value at a path of a JSON value -/
def jget : J → List PathSeg → Option J
  | j, [] => some j
  | .obj fs, .key k :: rest => (fs.find? (·.1 = k)).bind fun p => jget p.2 rest
  | .arr l, .idx i :: rest => (l[i]?).bind fun x => jget x rest
  | _, _ => none

mutual
  /-- minified JSON text (strings of the covered data sets need no escapes) -/
  def jsonChars : Nat → J → List Char
    | 0, _ => []
    | fuel + 1, j =>
      match j with
      | .null => "null".toList
      | .bool b => (if b then "true" else "false").toList
      | .int i => (toString i).toList
      | .str s => '"' :: (s ++ ['"'])
      | .id n => (toString n).toList
      | .obj fs => '{' :: (jsonFields fuel fs ++ ['}'])
      | .arr l => '[' :: (jsonItems fuel l ++ [']'])
  def jsonFields : Nat → List (String × J) → List Char
    | 0, _ => []
    | _, [] => []
    | fuel + 1, [(k, v)] => '"' :: (k.toList ++ ['"', ':'] ++ jsonChars fuel v)
    | fuel + 1, (k, v) :: rest => '"' :: (k.toList ++ ['"', ':'] ++ jsonChars fuel v ++ [','] ++ jsonFields fuel rest)
  def jsonItems : Nat → List J → List Char
    | 0, _ => []
    | _, [] => []
    | fuel + 1, [v] => jsonChars fuel v
    | fuel + 1, v :: rest => jsonChars fuel v ++ [','] ++ jsonItems fuel rest
end

/-- what a comparison sees of a JSON value: scalars as such, objects and arrays as their text -/
def jleaf : Option J → Val
  | some (.int i) => .int i
  | some (.str s) => .str s
  | some (.bool b) => .bool b
  | some (.obj fs) => .str (jsonChars 64 (.obj fs))
  | some (.arr l) => .str (jsonChars 64 (.arr l))
  | _ => .null

/-! ## Scalars: what a selection returns, what a comparison sees -/

/-- the value of a scalar field of a row as a selection returns it: the stored value, else the default, else null -/
def selected (d : Defects) (fd : FieldDef) (stored : Option Val) : Val :=
  let dv : Val := match fd.dflt with
    | some (.bool b) => if d.boolDefaultAsNumber then .int (if b then 1 else 0) else .bool b
    | some v => v
    | none => .null
  match stored with
  | some .null => if d.explicitNullHidesDefault then .null else dv
  | some v => v
  | none => dv

/-- the value a filter compares: the stored one, an absent or null one replaced by the default -/
def filtered (fd : FieldDef) (stored : Option Val) : Val :=
  match stored with
  | some .null | none => fd.dflt.getD .null
  | some v => v

/-- the value an ordering or a cursor on a field looks at -/
def ordered (d : Defects) (fd : FieldDef) (onAlias : Bool) (stored : Option Val) : Val :=
  if onAlias then selected d fd stored
  else if d.orderIgnoresDefault then stored.getD .null
  else filtered fd stored

/-- numbers: booleans count as 0/1 -/
def Val.num? : Val → Option Int
  | .int i => some i
  | .bool b => some (if b then 1 else 0)
  | _ => none

def ltChars : List Char → List Char → Bool
  | [], [] => false
  | [], _ :: _ => true
  | _ :: _, [] => false
  | a :: s, b :: t => a.toNat < b.toNat || (a.toNat == b.toNat && ltChars s t)

/-- total order of values: absent < numbers < texts (texts by code points) -/
def Val.lt (a b : Val) : Bool :=
  match a, b with
  | .null, .null => false
  | .null, _ => true
  | _, .null => false
  | .str s, .str t => ltChars s t
  | .str _, _ => false
  | _, .str _ => true
  | x, y => (x.num?.getD 0) < (y.num?.getD 0)

def Val.same (a b : Val) : Bool := !a.lt b && !b.lt a

/-- comparison of two present values; an absent side satisfies nothing -/
def compare? (op : Cmp) (a b : Val) : Bool :=
  if a = .null ∨ b = .null then false
  else match op with
    | .eq => a.same b
    | .ne => !a.same b
    | .lt => a.lt b
    | .le => !b.lt a
    | .gt => b.lt a
    | .ge => !a.lt b

/-- a filter through a json selector -/
def jsonFilterHolds (r : Row) (f : Filter) (path : List PathSeg) : Bool :=
  let x := jleaf ((r.json f.fld).bind fun j => jget j path)
  match f.value with
  | .null =>
    (match f.op with
     | .eq => x = .null
     | .ne => x ≠ .null
     | _ => false)
  | v => compare? f.op x v

/-- one filter on one row -/
def filterHolds (d : Defects) (s : Schema) (ent : Nat) (r : Row) (f : Filter) : Bool :=
  match fieldDef s ent f.fld with
  | none => false
  | some fd =>
    let raw := r.stored f.fld
    match f.value with
    | .null =>
      if f.isParam then
        (if d.nullParamNeverMatches then false
         else match f.op with
           | .eq => (if f.onAlias then selected d fd raw else raw.getD .null) = .null
           | .ne => (if f.onAlias then selected d fd raw else raw.getD .null) ≠ .null
           | _ => false)
      else
        -- `= null` / `!= null`: is the value absent? (the default is not consulted)
        let x := if f.onAlias then selected d fd raw else raw.getD .null
        (match f.op with
         | .eq => x = .null
         | .ne => x ≠ .null
         | _ => false)
    | v =>
      let x := if f.onAlias then filtered fd (some (selected d fd raw)) else filtered fd raw
      compare? f.op x v

/-! ## Ordering and cursors -/

def keyOf (d : Defects) (s : Schema) (ent : Nat) (r : Row) (o : Order) : Val :=
  match fieldDef s ent o.fld with
  | some fd => ordered d fd o.onAlias (r.stored o.fld)
  | none => .null

def keysOf (d : Defects) (s : Schema) (ent : Nat) (os : List Order) (r : Row) : List Val :=
  os.map (keyOf d s ent r)

/-- lexicographic "comes strictly before" of two key tuples under the directions of `os` -/
def tupleLt : List Order → List Val → List Val → Bool
  | o :: os, a :: as, b :: bs =>
    (if o.desc then b.lt a else a.lt b) || (a.same b && tupleLt os as bs)
  | _, _, _ => false

def tupleLe (os : List Order) (a b : List Val) : Bool := !tupleLt os b a

/-- `after(c₁ … cₖ)`: the row comes strictly after the cursor on the first k keys. With
    `cursorDropsAbsentKeys` a comparison with an absent key is not satisfied (so the row is dropped). -/
def afterCursor (d : Defects) : List Order → List Val → List Val → Bool
  | o :: os, k :: ks, c :: cs =>
    let present := !d.cursorDropsAbsentKeys || (k ≠ .null ∧ c ≠ .null)
    (present && (if o.desc then k.lt c else c.lt k)) ||
      (present && k.same c && afterCursor d os ks cs)
  | _, _, _ => false

def beforeCursor (d : Defects) : List Order → List Val → List Val → Bool
  | o :: os, k :: ks, c :: cs =>
    let present := !d.cursorDropsAbsentKeys || (k ≠ .null ∧ c ≠ .null)
    (present && (if o.desc then c.lt k else k.lt c)) ||
      (present && k.same c && beforeCursor d os ks cs)
  | _, _, _ => false

def cursorHolds (d : Defects) (os : List Order) (after before : List Val) (keys : List Val) : Bool :=
  (after.isEmpty || afterCursor d os keys after) && (before.isEmpty || beforeCursor d os keys before)

/-- `first n` (0 = no limit) and `skip k` -/
def limit (first skip : Nat) {α : Type} (l : List α) : List α :=
  let l := l.drop skip
  if first = 0 then l else l.take first

/-- insertion of `x` before the first element it is not after -/
def insertBy {α : Type} (le : α → α → Bool) (x : α) : List α → List α
  | [] => [x]
  | y :: t => if le x y then x :: y :: t else y :: insertBy le x t

/-- stable insertion sort -/
def sortBy {α : Type} (le : α → α → Bool) (l : List α) : List α := l.foldr (insertBy le) []

/-! ## The evaluator -/

/-- the rows of `data` with the given ids, in the order of `data` (the engine defines no order) -/
def rowsById (data : Data) (ids : List Nat) (ent : Nat) : List Row :=
  data.filter fun r => r.ent = ent && ids.contains r.id

/-- the rows a sub-selection `key` (through field `fld`) of row `r` ranges over; `parentKey` is the key
    (or, at the root, the entity name/alias) under which `r` itself was selected -/
def subCandidates (d : Defects) (data : Data) (parentKey key : String) (r : Row) (fld ent : Nat) : List Row :=
  if d.sameKeyShadowsParent && parentKey = key then
    data.filter fun t => t.ent = ent && (t.targets fld).contains t.id
  else rowsById data (r.targets fld) ent

mutual
  /-- rows of `cands` selected by `q`, in result order (before `first`/`skip` when `limited = false`) -/
  def evalRows (d : Defects) (s : Schema) (data : Data) : Nat → String → Query → List Row → Bool → List Row
    | 0, _, _, _, _ => []
    | fuel + 1, myKey, q, cands, limited =>
      let ent := q.ent
      let ok := cands.filter fun r =>
        r.ent = ent &&
        q.sels.all (fun sel => subPresent d s data fuel myKey r sel) &&
        q.filters.all (holds d s data fuel myKey q r)
      let sorted := sortBy (fun a b => tupleLe q.orders (keysOf d s ent q.orders a) (keysOf d s ent q.orders b)) ok
      let paged := sorted.filter fun r => cursorHolds d q.orders q.after q.before (keysOf d s ent q.orders r)
      if limited then limit q.first q.skip paged else paged

  /-- one filter of `q` on the row `r`: a scalar filter, or `= null` / `!= null` on a reference field -/
  def holds (d : Defects) (s : Schema) (data : Data) : Nat → String → Query → Row → Filter → Bool
    | 0, _, q, r, f =>
      match f.jpath with
      | some path => jsonFilterHolds r f path
      | none => if f.onRef then false else filterHolds d s q.ent r f
    | fuel + 1, myKey, q, r, f =>
      match f.jpath with
      | some path => jsonFilterHolds r f path
      | none =>
      if f.onRef then
        let present : Bool :=
          if d.refFilterNeedsSelection then
            -- what the selection under the field's own name returns for this row
            q.sels.any fun sel =>
              match sel with
              | .sub key fld _ sq =>
                key = f.name && fld = f.fld &&
                  (match fieldDef s r.ent fld with
                   | some fd =>
                     !(evalRows d s data fuel key sq (subCandidates d data myKey key r fld sq.ent)
                        (match fd.kind with | .arr _ => true | _ => false)).isEmpty
                   | none => false)
              | _ => false
          else
            -- does the row reference anything through the field?
            (match fieldDef s r.ent f.fld with
             | some fd =>
               (match fd.kind with
                | .ref e => !(rowsById data (r.targets f.fld) e).isEmpty
                | .arr e => !(rowsById data (r.targets f.fld) e).isEmpty
                | _ => false)
             | none => false)
        match f.op with
        | .eq => !present
        | .ne => present
        | _ => false
      else filterHolds d s q.ent r f

  /-- a mandatory sub-selection must select something -/
  def subPresent (d : Defects) (s : Schema) (data : Data) : Nat → String → Row → Sel → Bool
    | _, _, _, .scalar _ _ => true
    | _, _, _, .id _ => true
    | _, _, _, .agg _ _ _ => true
    | _, _, _, .json _ _ _ => true
    | 0, _, _, .sub _ _ _ _ => false
    | fuel + 1, myKey, r, .sub key fld optional q =>
      match fieldDef s r.ent fld with
      | some fd =>
        if optional || fd.nullable then true
        else
          let isArr := match fd.kind with | .arr _ => true | _ => false
          -- a single reference ignores the sub-selection's `first`/`skip`
          !(evalRows d s data fuel key q (subCandidates d data myKey key r fld q.ent) isArr).isEmpty
      | none => false
end

mutual
  def project (d : Defects) (s : Schema) (data : Data) : Nat → String → Query → Row → J
    | 0, _, _, _ => .null
    | fuel + 1, myKey, q, r =>
      .obj (q.sels.map fun sel =>
        match sel with
        | .scalar key fld =>
          (key, match fieldDef s r.ent fld with
                | some fd =>
                  (match fd.kind with
                   | .json => (r.json fld).getD .null          -- a Json field selected as a whole
                   | _ => J.ofVal (selected d fd (r.stored fld)))
                | none => .null)
        | .id key => (key, .id r.id)
        | .agg key _ _ => (key, .null)
        | .json key fld path => (key, ((r.json fld).bind fun j => jget j path).getD .null)
        | .sub key fld _ sq =>
          (key, match fieldDef s r.ent fld with
                | some fd =>
                  (match fd.kind with
                   | .arr _ => .arr (evalList d s data fuel key sq (subCandidates d data myKey key r fld sq.ent) true)
                   | _ =>
                     match evalList d s data fuel key sq (subCandidates d data myKey key r fld sq.ent) false with
                     | x :: _ => x
                     | [] => .null)
                | none => .null))

  def evalList (d : Defects) (s : Schema) (data : Data) : Nat → String → Query → List Row → Bool → List J
    | 0, _, _, _, _ => []
    | fuel + 1, myKey, q, cands, limited =>
      (evalRows d s data (fuel + 1) myKey q cands limited).map (project d s data fuel myKey q)
end

/-! ## Aggregates: `count()`, `min(f)`, `max(f)` grouped by the selected scalar fields -/

def Sel.isAgg : Sel → Bool
  | .agg _ _ _ => true
  | _ => false

def Query.isAggregate (q : Query) : Bool := q.sels.any Sel.isAgg

/-- the fields a grouped query groups by: its scalar selections -/
def groupFields (q : Query) : List Nat :=
  q.sels.filterMap fun sel => match sel with | .scalar _ f => some f | _ => none

def groupKey (q : Query) (r : Row) : List Val := (groupFields q).map fun f => (r.stored f).getD .null

def sameKeys : List Val → List Val → Bool
  | [], [] => true
  | a :: s, b :: t => a.same b && sameKeys s t
  | _, _ => false

/-- the groups, in order of first appearance -/
def groupRows (q : Query) : List Row → List (List Row)
  | [] => []
  | r :: rest =>
    let gs := groupRows q rest
    if gs.any (fun g => match g with | x :: _ => sameKeys (groupKey q x) (groupKey q r) | [] => false) then
      gs.map fun g => match g with
        | x :: _ => if sameKeys (groupKey q x) (groupKey q r) then r :: g else g
        | [] => g
    else [r] :: gs

/-- decimal text of a number as the engine stores it (only integers and booleans occur) -/
def numText (v : Val) : List Nat :=
  match v with
  | .int i => (toString i).toList.map Char.toNat
  | .bool b => (if b then "true" else "false").toList.map Char.toNat
  | .str s => 34 :: (s.map Char.toNat ++ [34])
  | .null => "null".toList.map Char.toNat

def ltNats : List Nat → List Nat → Bool
  | [], [] => false
  | [], _ :: _ => true
  | _ :: _, [] => false
  | a :: s, b :: t => a < b || (a == b && ltNats s t)

/-- is `a` smaller than `b` for `min`/`max`? (the code compares the JSON texts) -/
def aggLt (d : Defects) (a b : Val) : Bool :=
  if d.minMaxCompareText then ltNats (numText a) (numText b) else a.lt b

def pickBy (lt : Val → Val → Bool) : List Val → Option Val
  | [] => none
  | v :: rest =>
    match pickBy lt rest with
    | some w => if lt w v then some w else some v
    | none => some v

def aggValue (d : Defects) (fn : AggFn) (fld : Nat) (g : List Row) : J :=
  match fn with
  | .count => .int g.length
  | .min =>
    (match pickBy (aggLt d) (g.filterMap fun r => r.stored fld) with | some v => J.ofVal v | none => .null)
  | .max =>
    (match pickBy (fun a b => aggLt d b a) (g.filterMap fun r => r.stored fld) with | some v => J.ofVal v | none => .null)

/-- a grouped query: the selected rows (filters, mandatory sub-selections) grouped by the selected scalars;
    one result row per group, ordered by the order keys (a scalar of the group or an aggregate alias).
    No limits or cursors in the covered subset. -/
def evalGroups (d : Defects) (s : Schema) (data : Data) (fuel : Nat) (myKey : String) (q : Query)
    (cands : List Row) : List J :=
  let isAggName (n : String) : Bool := q.sels.any fun sel => match sel with | .agg key _ _ => key = n | _ => false
  let having := q.filters.filter fun f => f.onAlias && isAggName f.name
  let wheres := q.filters.filter fun f => !(f.onAlias && isAggName f.name)
  let ok := cands.filter fun r =>
    r.ent = q.ent && wheres.all (filterHolds d s q.ent r) &&
      q.sels.all (fun sel => subPresent d s data fuel myKey r sel)
  -- without a grouping field there is exactly one group, even when no row is selected
  let groups := if (groupFields q).isEmpty then [ok] else groupRows q ok
  let rows : List (List (String × J)) := groups.map fun g =>
    q.sels.filterMap fun sel =>
      match sel with
      | .scalar key fld =>
        (match fieldDef s q.ent fld, g with
         | some fd, x :: _ => some (key, J.ofVal (selected d fd (x.stored fld)))
         | _, _ => some (key, .null))
      | .agg key fn fld => some (key, aggValue d fn fld g)
      | _ => none
  let keyOf (row : List (String × J)) (o : Order) : Val :=
    match (row.find? (·.1 = o.name)).map (·.2) with
    | some (J.int i) => Val.int i
    | some (J.str t) => Val.str t
    | some (J.bool b) => Val.bool b
    | _ => Val.null
  let valOf (row : List (String × J)) (n : String) : Val :=
    match (row.find? (·.1 = n)).map (·.2) with
    | some (J.int i) => Val.int i
    | some (J.str t) => Val.str t
    | some (J.bool b) => Val.bool b
    | _ => Val.null
  -- filters on aggregate aliases apply to the groups
  let rows := rows.filter fun row => having.all fun f => compare? f.op (valOf row f.name) f.value
  let sorted := sortBy (fun a b => tupleLe q.orders (q.orders.map (keyOf a)) (q.orders.map (keyOf b))) rows
  sorted.map J.obj

/-- **the meaning of a query**: the rows of its entity that it selects, projected, in order.
    `rootKey` is the name under which the root selection appears (entity name or alias). -/
def eval (d : Defects) (s : Schema) (data : Data) (fuel : Nat) (rootKey : String) (q : Query) : List J :=
  if q.isAggregate then evalGroups d s data fuel rootKey q data
  else evalList d s data fuel rootKey q data true

/-- does the engine refuse the query? (`skip` without `first` on the root or on an array sub-selection) -/
def refused (d : Defects) (s : Schema) : Nat → Query → Bool → Bool
  | 0, _, _ => false
  | fuel + 1, q, rendersLimit =>
    (d.skipWithoutFirstFails && rendersLimit && q.skip != 0 && q.first == 0) ||
    q.sels.any fun sel =>
      match sel with
      | .sub _ fld _ sq =>
        (match fieldDef s q.ent fld with
         | some fd => refused d s fuel sq (match fd.kind with | .arr _ => true | _ => false)
         | none => false)
      | _ => false

end Discret.Query
