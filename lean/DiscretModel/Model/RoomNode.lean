import DiscretModel.Model.Room
/-
Model of `src/database/room_node.rs` (+ `RoomAuthorisations::prepare_room_node`): the wire/storage form
of a room definition and its acceptance from a peer (C07, DESIGN.md A.8).

* a row (`Node`) is `SRow`: id, claimed entity, dates, author and a parsed view of its JSON (`Body`);
  a placing reference (`Edge`) is `PEdge`; `sigOk` is the verdict of `verify()` on that object;
* entity codes: 100 `sys.Room`, 101 `sys.Authorisation`, 102 `sys.UserAuth`, 103 `sys.EntityRight`;
  labels are the short field names (32 admin, 33 authorisations | rights, 34 users, 35 user_admin);
* lists are `Vec`s in the order given; `find` is `List.find?` (first match), as in the code.
Import-free apart from the shared room model.
-/
namespace Discret.RoomNode
open Discret.Room (Key Ent Id RightType User Right Auth Err)

abbrev RoomT := Discret.Room.Room

/-- what the parsers of room_node.rs can read out of a row's JSON -/
inductive Body where
  /-- `{"32": <base64 key>, "33": <bool>}` -/
  | user (k : Key) (enabled : Bool)
  /-- `{"32": <entity name>, "33": <bool>, "34": <bool>}` -/
  | right (e : Ent) (ms ma : Bool)
  /-- any other object (room and group rows: `{"32": <name>}`) -/
  | other (n : Nat)
  /-- `_json` absent -/
  | none
deriving Repr, DecidableEq

structure SRow where
  id : Nat
  ent : Nat
  room : Option Nat
  cdate : Int
  mdate : Int
  author : Key
  body : Body
  sigOk : Bool
  /-- `_local_id.is_some()`: the row is known to be stored (never set on the wire) -/
  stored : Bool := false
deriving Repr, DecidableEq

structure PEdge where
  src : Nat
  srcEnt : Nat
  label : Nat
  dst : Nat
  cdate : Int
  author : Key
  sigOk : Bool
deriving Repr, DecidableEq

structure AuthNode where
  node : SRow
  rightEdges : List PEdge
  rightNodes : List SRow
  userEdges : List PEdge
  userNodes : List SRow
  userAdminEdges : List PEdge
  userAdminNodes : List SRow
  needUpdate : Bool
deriving Repr, DecidableEq

structure RoomNode where
  node : SRow
  adminEdges : List PEdge
  adminNodes : List SRow
  authEdges : List PEdge
  authNodes : List AuthNode
deriving Repr, DecidableEq

inductive RErr where
  | signature
  | inconsistent
  | parse
  | room (e : Err)            -- append-only date check / duplicate group
  | notAuthorised
  | mutated                   -- an existing entry differs
  | noHistory                 -- room known in memory, nothing stored
deriving Repr, DecidableEq

/-- `SignatureVerificationService::room_check` -/
def AuthNode.sigsOk (a : AuthNode) : Bool :=
  a.node.sigOk && a.userEdges.all (·.sigOk) && a.userNodes.all (·.sigOk) &&
  a.rightEdges.all (·.sigOk) && a.rightNodes.all (·.sigOk) &&
  a.userAdminEdges.all (·.sigOk) && a.userAdminNodes.all (·.sigOk)

def RoomNode.sigsOk (r : RoomNode) : Bool :=
  r.node.sigOk && r.adminEdges.all (·.sigOk) && r.adminNodes.all (·.sigOk) &&
  r.authEdges.all (·.sigOk) && r.authNodes.all (·.sigsOk)

/-- one list of `check_consistency`: as many references as entries, every reference leaves the owning
    row and arrives at an entry of the list. Labels, source entities, authors, dates: not looked at. -/
def listConsistent (owner : Nat) (edges : List PEdge) (ids : List Nat) : Bool :=
  edges.length = ids.length && edges.all fun e => e.src = owner && ids.contains e.dst

def AuthNode.consistent (a : AuthNode) : Bool :=
  listConsistent a.node.id a.rightEdges (a.rightNodes.map (·.id)) &&
  listConsistent a.node.id a.userEdges (a.userNodes.map (·.id)) &&
  listConsistent a.node.id a.userAdminEdges (a.userAdminNodes.map (·.id))

/-- `RoomNode::check_consistency`; a group is checked once per reference that reaches it -/
def RoomNode.consistent (r : RoomNode) : Bool :=
  listConsistent r.node.id r.adminEdges (r.adminNodes.map (·.id)) &&
  r.authEdges.length = r.authNodes.length &&
  r.authEdges.all fun e =>
    e.src = r.node.id &&
    match r.authNodes.find? (·.node.id = e.dst) with
    | some a => a.consistent
    | none => false

/-- `UserNode::parse` -/
def parseUser (n : SRow) : Except RErr User :=
  match n.body with
  | .user k en => .ok { key := k, date := n.mdate, enabled := en }
  | _ => .error .parse

/-- `EntityRightNode::parse` -/
def parseRight (n : SRow) : Except RErr Right :=
  match n.body with
  | .right e ms ma => .ok (Right.new n.mdate e ms ma)
  | _ => .error .parse

def liftErr {α : Type} : Except Err α → Except RErr α
  | .ok a => .ok a
  | .error e => .error (.room e)

def addRights (a : Auth) : List SRow → Except RErr Auth
  | [] => .ok a
  | n :: rest =>
    match parseRight n with
    | .error e => .error e
    | .ok r =>
      match liftErr (a.addRight r) with
      | .error e => .error e
      | .ok a' => addRights a' rest

def addUsers (a : Auth) : List SRow → Except RErr Auth
  | [] => .ok a
  | n :: rest =>
    match parseUser n with
    | .error e => .error e
    | .ok u =>
      match liftErr (a.addUser u) with
      | .error e => .error e
      | .ok a' => addUsers a' rest

def addUserAdmins (a : Auth) : List SRow → Except RErr Auth
  | [] => .ok a
  | n :: rest =>
    match parseUser n with
    | .error e => .error e
    | .ok u =>
      match liftErr (a.addUserAdmin u) with
      | .error e => .error e
      | .ok a' => addUserAdmins a' rest

/-- `AuthorisationNode::parse`: rights, then users, then user admins, each in the order given -/
def AuthNode.parse (a : AuthNode) : Except RErr Auth :=
  let a0 : Auth := { id := a.node.id, mdate := a.node.mdate, users := [], rights := [], userAdmins := [] }
  match addRights a0 a.rightNodes with
  | .error e => .error e
  | .ok a1 =>
    match addUsers a1 a.userNodes with
    | .error e => .error e
    | .ok a2 => addUserAdmins a2 a.userAdminNodes

def addAdmins (r : RoomT) : List SRow → Except RErr RoomT
  | [] => .ok r
  | n :: rest =>
    match parseUser n with
    | .error e => .error e
    | .ok u =>
      match liftErr (r.addAdmin u) with
      | .error e => .error e
      | .ok r' => addAdmins r' rest

def addAuths (r : RoomT) : List AuthNode → Except RErr RoomT
  | [] => .ok r
  | a :: rest =>
    match a.parse with
    | .error e => .error e
    | .ok au =>
      match liftErr (r.addAuth au) with
      | .error e => .error e
      | .ok r' => addAuths r' rest

/-- `RoomNode::parse` -/
def RoomNode.parse (r : RoomNode) : Except RErr RoomT :=
  match addAdmins (Discret.Room.Room.empty r.node.id r.node.mdate) r.adminNodes with
  | .error e => .error e
  | .ok r1 => addAuths r1 r.authNodes

/-- the references that attach the groups to the room row are signed by administrators at their own date
    (a group row is re-signed by whoever updates the group, so the reference cannot be tied to the row's author) -/
def groupsPlacedByAdmins (room : RoomT) (r : RoomNode) : Bool :=
  r.authEdges.all fun e => room.isAdmin e.author e.cdate

/-- `prepare_new_room`: every entry's author must be an admin at the entry's date in the room
    parsed from the whole candidate; `checkGroupEdges` = the check of the group references is in place -/
def prepareNewRoom (checkGroupEdges : Bool) (r : RoomNode) : Except RErr RoomT :=
  match r.parse with
  | .error e => .error e
  | .ok room =>
    if checkGroupEdges && !groupsPlacedByAdmins room r then .error .notAuthorised
    else if r.adminNodes.all (fun n => room.isAdmin n.author n.mdate) &&
       r.authNodes.all (fun a => room.isAdmin a.node.author a.node.mdate &&
         a.userNodes.all (fun n => room.isAdmin n.author n.mdate) &&
         a.rightNodes.all (fun n => room.isAdmin n.author n.mdate) &&
         a.userAdminNodes.all (fun n => room.isAdmin n.author n.mdate))
    then .ok room else .error .notAuthorised

/-! ### a room that is already known: `prepare_room_with_history` -/

/-- deviations of the code from C07; `true` = the check is missing (as in /repo) -/
structure Defects where
  /-- #22 the references that place an entry in a list are only signature-checked: their label and source entity
      are never compared with the list, although the next read selects the entries of a list by label
      (room_node.rs:37-90, 203-277); and the references room → group may be signed by anybody. The repair
      (findings/C07-placing-references-v2.patch): every entry needs a reference with its list's label and its owner's
      entity (`placingLabelOk`); the references room → group are signed by administrators at their date
      (`groupsPlacedByAdmins`). -/
  placingEdgeUnchecked : Bool
  /-- #22, second half: the AUTHOR of the reference that places an entry is never compared with the entry's author
      (`placingOk`). Pinned by the repository's own test `room_node::tests::invalid` (a reference re-signed by an
      unrelated key must be accepted): not repairable without changing that test. -/
  placingAuthorUnchecked : Bool
  /-- the candidate's room row replaces the stored one without any author, date or entity check
      (room_node.rs:529, 97-98) -/
  roomRowUnchecked : Bool
  /-- #33 the user-admin entries of a group that is new to a known room are not checked at all
      (room_node.rs:909-926) -/
  newGroupUserAdminUnchecked : Bool
  /-- #4 `RoomNode::read` replayed the history lists newest first (`sort_by(|a, b| b.cdate.cmp(&a.cdate))`):
      a stored room with two entries for one key could not be parsed back (room_node.rs:129,315,328,341) -/
  newestFirstRead : Bool
  /-- `check_consistency` lets a list carry several rows with one id; the merge compares only the first
      one with the stored entry and never judges a row whose id is stored as a new entry
      (room_node.rs:37-90, 540-587, 798-848) -/
  duplicateIdsUnchecked : Bool
deriving Repr, DecidableEq

/-- /repo as it is now. Fixed since the first run of this check (regression witnesses are kept about
    `Defects.beforeFixes`): `roomRowUnchecked`, `newGroupUserAdminUnchecked` (/repo 77018f3),
    `newestFirstRead` (/repo f7a29ff), `duplicateIdsUnchecked` (/repo 846341e). -/
def Defects.asImplemented : Defects :=
  { -- findings/C07-placing-references-v2.patch
    placingEdgeUnchecked := false,
    -- open: pinned by the unit test room_node::tests::invalid (findings/C07-open-findings.md)
    placingAuthorUnchecked := true,
    roomRowUnchecked := false, newGroupUserAdminUnchecked := false,
    newestFirstRead := false, duplicateIdsUnchecked := false }

/-- /repo at 846341e, before the repair of the placing references: the value the witnesses
    `C07_breaks_placingEdge_*` are stated about, so that they stay true whatever `asImplemented` becomes -/
def Defects.beforeFix : Defects :=
  { placingEdgeUnchecked := true, placingAuthorUnchecked := true, roomRowUnchecked := false,
    newGroupUserAdminUnchecked := false, newestFirstRead := false, duplicateIdsUnchecked := false }

/-- /repo before any of the fixes that this check led to -/
def Defects.beforeFixes : Defects :=
  { placingEdgeUnchecked := true, placingAuthorUnchecked := true, roomRowUnchecked := true, newGroupUserAdminUnchecked := true,
    newestFirstRead := true, duplicateIdsUnchecked := true }
def Defects.none : Defects :=
  { placingEdgeUnchecked := false, placingAuthorUnchecked := false, roomRowUnchecked := false, newGroupUserAdminUnchecked := false,
    newestFirstRead := false, duplicateIdsUnchecked := false }

/-- `Edge::eq`: every field but the signature -/
def edgeEq (a b : PEdge) : Bool :=
  a.src = b.src && a.srcEnt = b.srcEnt && a.label = b.label && a.dst = b.dst && a.cdate = b.cdate &&
  a.author = b.author

/-- `Node::eq`: every field but the signature and the local id -/
def rowEq (a b : SRow) : Bool :=
  a.id = b.id && a.ent = b.ent && a.room = b.room && a.cdate = b.cdate && a.mdate = b.mdate &&
  a.author = b.author && a.body = b.body

/-- stable insertion sort, ascending in `key` (`sort_by(|a, b| a.key.cmp(&b.key))`) -/
def insAsc {α : Type} (key : α → Int) (x : α) : List α → List α
  | [] => [x]
  | y :: ys => if key x ≤ key y then x :: y :: ys else y :: insAsc key x ys

def sortAsc {α : Type} (key : α → Int) (l : List α) : List α := l.foldr (insAsc key) []

/-- "ensure that existing edges exist in the candidate": the stored references the candidate lacks
    are pushed at the end, in the stored order -/
def mergeEdges : List PEdge → List PEdge → List PEdge
  | [], cand => cand
  | o :: rest, cand => mergeEdges rest (if cand.any (edgeEq · o) then cand else cand ++ [o])

/-- stored entries: present in the candidate (first entry with that id) → must be equal, and the
    candidate's copy is marked as stored; absent → pushed at the end -/
def markStored (id : Nat) : List SRow → List SRow
  | [] => []
  | c :: cs => if c.id = id then { c with stored := true } :: cs else c :: markStored id cs

def mergeRows : List SRow → List SRow → Except RErr (List SRow)
  | [], cand => .ok cand
  | o :: rest, cand =>
    match cand.find? (·.id = o.id) with
    | some c => if rowEq c o then mergeRows rest (markStored o.id cand) else .error .mutated
    | none => mergeRows rest (cand ++ [o])

def isNew (old : List SRow) (n : SRow) : Bool := !old.any (·.id = n.id)

/-- new admin entries, in the (sorted) order of the merged list: the author must be an admin at the
    entry's date in the room as extended so far; the entry is then added to that room -/
def checkNewAdmins (old : List SRow) : RoomT → List SRow → Except RErr RoomT
  | room, [] => .ok room
  | room, n :: rest =>
    if isNew old n then
      if room.isAdmin n.author n.mdate then
        match parseUser n with
        | .error e => .error e
        | .ok u =>
          match liftErr (room.addAdmin u) with
          | .error e => .error e
          | .ok room' => checkNewAdmins old room' rest
      else .error .notAuthorised
    else checkNewAdmins old room rest

def checkNewUserAdmins (room : RoomT) (old : List SRow) : Auth → List SRow → Except RErr Auth
  | au, [] => .ok au
  | au, n :: rest =>
    if isNew old n then
      if room.isAdmin n.author n.mdate then
        match parseUser n with
        | .error e => .error e
        | .ok u =>
          match liftErr (au.addUserAdmin u) with
          | .error e => .error e
          | .ok au' => checkNewUserAdmins room old au' rest
      else .error .notAuthorised
    else checkNewUserAdmins room old au rest

/-- `prepare_auth_with_history`; `none` stands for the `expect` that panics when the group is stored
    but not loaded -/
def prepareAuthWithHistory (room : RoomT) (old new : AuthNode) : Option (Except RErr (AuthNode × Bool)) :=
  match room.getAuth old.node.id with
  | none => none
  | some au0 => some <|
    let uaEdges := sortAsc (·.cdate) (mergeEdges old.userAdminEdges new.userAdminEdges)
    match mergeRows old.userAdminNodes new.userAdminNodes with
    | .error e => .error e
    | .ok ua0 =>
      let uaNodes := sortAsc (·.mdate) ua0
      match checkNewUserAdmins room old.userAdminNodes au0 uaNodes with
      | .error e => .error e
      | .ok au1 =>
        let uEdges := sortAsc (·.cdate) (mergeEdges old.userEdges new.userEdges)
        match mergeRows old.userNodes new.userNodes with
        | .error e => .error e
        | .ok u0 =>
          let uNodes := sortAsc (·.mdate) u0
          if !(uNodes.all fun n => !isNew old.userNodes n || au1.canAdminUsers n.author n.mdate ||
                room.isAdmin n.author n.mdate) then .error .notAuthorised
          else
            let rEdges := sortAsc (·.cdate) (mergeEdges old.rightEdges new.rightEdges)
            match mergeRows old.rightNodes new.rightNodes with
            | .error e => .error e
            | .ok r0 =>
              let rNodes := sortAsc (·.mdate) r0
              if !(rNodes.all fun n => !isNew old.rightNodes n || room.isAdmin n.author n.mdate) then
                .error .notAuthorised
              else
                let upd := uaNodes.any (isNew old.userAdminNodes) || uNodes.any (isNew old.userNodes) ||
                  rNodes.any (isNew old.rightNodes)
                .ok ({ new with userAdminEdges := uaEdges, userAdminNodes := uaNodes, userEdges := uEdges,
                                userNodes := uNodes, rightEdges := rEdges, rightNodes := rNodes }, upd)

/-- `prepare_new_auth`: a group that is new to a known room -/
def prepareNewAuth (d : Defects) (room : RoomT) (a : AuthNode) : Except RErr Unit :=
  match a.parse with
  | .error e => .error e
  | .ok au =>
    if !(a.userNodes.all fun n => au.canAdminUsers n.author n.mdate || room.isAdmin n.author n.mdate) then .error .notAuthorised
    else if !(a.rightNodes.all fun n => room.isAdmin n.author n.mdate) then .error .notAuthorised
    else if !d.newGroupUserAdminUnchecked && !(a.userAdminNodes.all fun n => room.isAdmin n.author n.mdate) then
      .error .notAuthorised
    else .ok ()

/-- the group found by `iter_mut().find(..)` is mutated in place: the first one with that id -/
def replaceAuth (id : Nat) (n2 : AuthNode) : List AuthNode → List AuthNode
  | [] => []
  | a :: rest => if a.node.id = id then n2 :: rest else a :: replaceAuth id n2 rest

/-- the candidate carries a newer row for a stored group -/
def newerRow (o n : AuthNode) : Bool := decide (o.node.mdate < n.node.mdate)

/-- the candidate's group as handed to `prepare_auth_with_history`: its own row when newer (written
    over the stored slot), the stored row otherwise (not written) -/
def groupForMerge (o n : AuthNode) : AuthNode :=
  if newerRow o n then { n with node := { n.node with stored := true } }
  else { n with node := o.node, needUpdate := false }

/-- the loop over the stored groups: a group the candidate lacks is pushed; a newer group row needs
    an admin author; an older or equal one is replaced by the stored row -/
def mergeAuths (room : RoomT) : List AuthNode → List AuthNode → Bool → Option (Except RErr (List AuthNode × Bool))
  | [], cand, upd => some (.ok (cand, upd))
  | o :: rest, cand, upd =>
    match cand.find? (·.node.id = o.node.id) with
    | none => mergeAuths room rest (cand ++ [o]) upd
    | some n =>
      if newerRow o n && !room.isAdmin n.node.author n.node.mdate then some (.error .notAuthorised)
      else
        match prepareAuthWithHistory room o (groupForMerge o n) with
        | none => none
        | some (.error e) => some (.error e)
        | some (.ok (n2, u)) => mergeAuths room rest (replaceAuth o.node.id n2 cand) (upd || newerRow o n || u)

def checkNewAuths (d : Defects) (room : RoomT) (old : List AuthNode) : List AuthNode → Except RErr Bool
  | [] => .ok false
  | a :: rest =>
    if old.any (·.node.id = a.node.id) then checkNewAuths d room old rest
    else if !room.isAdmin a.node.author a.node.mdate then .error .notAuthorised
    else
      match prepareNewAuth d room a with
      | .error e => .error e
      | .ok () =>
        match checkNewAuths d room old rest with
        | .error e => .error e
        | .ok _ => .ok true

/-- the placing references of a list bind every entry to it: a reference per entry, signed by the
    entry's author, carrying the list's label and the owner's entity (the intended check; with as many
    references as entries, all arriving at entries of the list, and distinct entry ids: exactly one) -/
def placingOk (ownerEnt label : Nat) (edges : List PEdge) (nodes : List SRow) : Bool :=
  nodes.all fun n => edges.any fun e => e.dst = n.id && e.author = n.author && e.label = label && e.srcEnt = ownerEnt

/-- the same without the author clause: a reference per entry carrying the list's label and the owner's entity -/
def placingLabelOk (ownerEnt label : Nat) (edges : List PEdge) (nodes : List SRow) : Bool :=
  nodes.all fun n => edges.any fun e => e.dst = n.id && e.label = label && e.srcEnt = ownerEnt

def AuthNode.placingLabelOk (a : AuthNode) : Bool :=
  RoomNode.placingLabelOk 101 33 a.rightEdges a.rightNodes && RoomNode.placingLabelOk 101 34 a.userEdges a.userNodes &&
  RoomNode.placingLabelOk 101 35 a.userAdminEdges a.userAdminNodes

def AuthNode.placingOk (a : AuthNode) : Bool :=
  RoomNode.placingOk 101 33 a.rightEdges a.rightNodes && RoomNode.placingOk 101 34 a.userEdges a.userNodes &&
  RoomNode.placingOk 101 35 a.userAdminEdges a.userAdminNodes

/-- the group rows are attached with the right label and source entity; their references are not tied to the
    row's author (a group row is re-signed on every update of the group) but to the administrators
    (`groupsPlacedByAdmins`, checked where the room is at hand) -/
def RoomNode.placingOk (r : RoomNode) : Bool :=
  Discret.RoomNode.placingOk 100 32 r.adminEdges r.adminNodes &&
  r.authNodes.all fun a =>
    a.placingOk && r.authEdges.any fun e => e.dst = a.node.id && e.label = 33 && e.srcEnt = 100

/-- what the repaired `check_consistency` requires of the references (labels and source entities, no author) -/
def RoomNode.placingLabelOk (r : RoomNode) : Bool :=
  Discret.RoomNode.placingLabelOk 100 32 r.adminEdges r.adminNodes &&
  r.authNodes.all fun a =>
    a.placingLabelOk && r.authEdges.any fun e => e.dst = a.node.id && e.label = 33 && e.srcEnt = 100

/-- the candidate after the merge: its own room row (to be written over the stored slot), the stored
    references pushed and sorted by date, the merged and sorted admin entries, the merged groups -/
def mergedNode (node : SRow) (old cand : RoomNode) (admins : List SRow) (auths : List AuthNode) : RoomNode :=
  { node := node,
    adminEdges := sortAsc (·.cdate) (mergeEdges old.adminEdges cand.adminEdges),
    adminNodes := sortAsc (·.mdate) admins,
    authEdges := mergeEdges old.authEdges cand.authEdges, authNodes := auths }

/-- the room row that will be written over the stored slot. As written: the candidate's, whatever it
    is. Intended: the candidate's when it equals the stored one or is a newer `sys.Room` row signed by
    an admin; the stored one when the candidate's is older (a peer that lags behind); refused otherwise. -/
def roomRowFor (d : Defects) (room : RoomT) (old cand : RoomNode) : Except RErr SRow :=
  if d.roomRowUnchecked || rowEq cand.node old.node then .ok { cand.node with stored := true }
  else if old.node.mdate < cand.node.mdate then
    if cand.node.ent = 100 && room.isAdmin cand.node.author cand.node.mdate then .ok { cand.node with stored := true }
    else .error .notAuthorised
  else .ok { old.node with stored := true }

/-- `prepare_room_with_history`: `none` = the panic of `prepare_auth_with_history`;
    otherwise the merged candidate and "has changes" -/
def prepareWithHistory (d : Defects) (room : RoomT) (old cand : RoomNode) : Option (Except RErr (RoomNode × Bool)) :=
  match roomRowFor d room old cand with
  | .error e => some (.error e)
  | .ok node =>
  match mergeRows old.adminNodes cand.adminNodes with
  | .error e => some (.error e)
  | .ok a0 =>
    match checkNewAdmins old.adminNodes room (sortAsc (·.mdate) a0) with
    | .error e => some (.error e)
    | .ok room1 =>
      if !d.placingEdgeUnchecked && !groupsPlacedByAdmins room1 cand then some (.error .notAuthorised) else
      match mergeAuths room1 old.authNodes cand.authNodes ((sortAsc (·.mdate) a0).any (isNew old.adminNodes)) with
      | none => none
      | some (.error e) => some (.error e)
      | some (.ok (auths, upd)) =>
        match checkNewAuths d room1 old.authNodes auths with
        | .error e => some (.error e)
        | .ok upd2 =>
          match (mergedNode node old cand a0 auths).parse with
          | .error e => some (.error e)
          | .ok _ => some (.ok (mergedNode node old cand a0 auths, upd || upd2))

/-! ### tables, `RoomNode::read`, `RoomNode::write`, `add_room_node` -/

/-- what the acceptance of a room definition reads and writes: the loaded rooms, `_node`, `_edge` -/
structure RStore where
  rooms : List RoomT
  nodes : List SRow
  edges : List PEdge
deriving Repr, DecidableEq

/-- `Node::get_with_entity`: the index (id, _entity, mdate) yields the row with the lowest date first,
    the earliest stored among equal dates (ids are unique unless a definition re-used an id) -/
def minByDate : List SRow → Option SRow
  | [] => none
  | n :: rest =>
    match minByDate rest with
    | some m => if m.mdate < n.mdate then some m else some n
    | none => some n

def findRow (nodes : List SRow) (id ent : Nat) : Option SRow :=
  (minByDate (nodes.filter fun n => n.id = id && n.ent = ent)).map fun n => { n with stored := true }

/-- `Edge::get_edges(src, label)`: the primary key order of `_edge` is (src, label, dest) -/
def edgesFrom (edges : List PEdge) (src label : Nat) : List PEdge :=
  sortAsc (fun e => (e.dst : Int)) (edges.filter fun e => e.src = src && e.label = label)

/-- `sort_by(|a, b| b.cdate.cmp(&a.cdate))` -/
def sortDesc (l : List PEdge) : List PEdge := sortAsc (fun e => -e.cdate) l

/-- the order in which `read` replays a history list: by reference date, oldest first (newest first
    before /repo f7a29ff); ties keep the primary-key order -/
def sortRead (newestFirst : Bool) (l : List PEdge) : List PEdge :=
  if newestFirst then sortDesc l else sortAsc (·.cdate) l

/-- `AuthorisationNode::read` -/
def readAuth (nf : Bool) (s : RStore) (id : Nat) : Option AuthNode :=
  match findRow s.nodes id 101 with
  | none => none
  | some node =>
    let re := sortRead nf (edgesFrom s.edges id 33)
    let ue := sortRead nf (edgesFrom s.edges id 34)
    let ae := sortRead nf (edgesFrom s.edges id 35)
    some { node, rightEdges := re, rightNodes := re.filterMap fun e => findRow s.nodes e.dst 103,
           userEdges := ue, userNodes := ue.filterMap fun e => findRow s.nodes e.dst 102,
           userAdminEdges := ae, userAdminNodes := ae.filterMap fun e => findRow s.nodes e.dst 102,
           needUpdate := true }

/-- `RoomNode::read` -/
def readBack (nf : Bool) (s : RStore) (id : Nat) : Option RoomNode :=
  match findRow s.nodes id 100 with
  | none => none
  | some node =>
    let ae := sortRead nf (edgesFrom s.edges id 32)
    let ge := edgesFrom s.edges id 33
    some { node, adminEdges := ae, adminNodes := ae.filterMap fun e => findRow s.nodes e.dst 102,
           authEdges := ge, authNodes := ge.filterMap fun e => readAuth nf s e.dst }

/-- `Node::write`: over the slot it was read from when it has one, appended otherwise -/
def replaceFirst (nodes : List SRow) (target : SRow) (n : SRow) : List SRow :=
  match nodes with
  | [] => []
  | x :: rest => if { x with stored := true } = target then n :: rest else x :: replaceFirst rest target n

def writeRow (nodes : List SRow) (slotEnt : Nat) (n : SRow) : List SRow :=
  if n.stored then
    match findRow nodes n.id slotEnt with
    | some t => replaceFirst nodes t { n with stored := false }
    | none => nodes
  else nodes ++ [n]

/-- `UserNode::write` / `EntityRightNode::write`: only rows that are not stored yet -/
def writeNewRows (nodes : List SRow) (l : List SRow) : List SRow :=
  nodes ++ l.filter (!·.stored)

/-- `INSERT OR REPLACE INTO _edge` -/
def writeEdge (edges : List PEdge) (e : PEdge) : List PEdge :=
  edges.filter (fun x => !(x.src = e.src && x.label = e.label && x.dst = e.dst)) ++ [e]

def writeAuth (s : RStore) (a : AuthNode) : RStore :=
  let n1 := if a.needUpdate then writeRow s.nodes 101 a.node else s.nodes
  let e1 := a.rightEdges.foldl writeEdge s.edges
  let n2 := writeNewRows n1 a.rightNodes
  let e2 := a.userEdges.foldl writeEdge e1
  let n3 := writeNewRows n2 a.userNodes
  let e3 := a.userAdminEdges.foldl writeEdge e2
  let n4 := writeNewRows n3 a.userAdminNodes
  { s with nodes := n4, edges := e3 }

/-- `RoomNode::write` -/
def writeRoom (s : RStore) (r : RoomNode) : RStore :=
  let n1 := writeRow s.nodes 100 r.node
  let e1 := r.adminEdges.foldl writeEdge s.edges
  let n2 := writeNewRows n1 r.adminNodes
  let e2 := r.authEdges.foldl writeEdge e1
  r.authNodes.foldl writeAuth { s with nodes := n2, edges := e2 }

def installRoom (s : RStore) (room : RoomT) : RStore :=
  if s.rooms.any (·.id = room.id) then { s with rooms := s.rooms.map fun r => if r.id = room.id then room else r }
  else { s with rooms := s.rooms ++ [room] }

def distinctNats : List Nat → Bool
  | [] => true
  | x :: xs => !xs.contains x && distinctNats xs

/-- no list of the candidate carries two rows with one id (the intended check) -/
def RoomNode.idsDistinct (r : RoomNode) : Bool :=
  distinctNats (r.adminNodes.map (·.id)) && distinctNats (r.authNodes.map (·.node.id)) &&
  r.authNodes.all fun a =>
    distinctNats (a.rightNodes.map (·.id)) && distinctNats (a.userNodes.map (·.id)) &&
    distinctNats (a.userAdminNodes.map (·.id))

inductive Verdict where
  | ok (s : RStore)
  | err (e : RErr)
  /-- `expect` in `prepare_auth_with_history`: a stored group that is not loaded -/
  | panic
deriving Repr, DecidableEq

/-- `verify_room_node` then `add_room_node` (read, `prepare_room_node`, write, parse, install) -/
def accept (d : Defects) (s : RStore) (cand : RoomNode) : Verdict :=
  if !cand.sigsOk then .err .signature
  else if !cand.consistent then .err .inconsistent
  else if !d.placingEdgeUnchecked && !cand.placingLabelOk then .err .inconsistent
  else if !d.placingAuthorUnchecked && !cand.placingOk then .err .inconsistent
  else if !d.duplicateIdsUnchecked && !cand.idsDistinct then .err .inconsistent
  else
    match s.rooms.find? (·.id = cand.node.id) with
    | some room =>
      match readBack d.newestFirstRead s cand.node.id with
      | none => .err .noHistory
      | some old =>
        match prepareWithHistory d room old cand with
        | none => .panic
        | some (.error e) => .err e
        | some (.ok (merged, upd)) =>
          if upd then
            match merged.parse with
            | .ok r => .ok (installRoom (writeRoom s merged) r)
            | .error e => .err e
          else .ok s
    | none =>
      match prepareNewRoom (!d.placingEdgeUnchecked) cand with
      | .error e => .err e
      | .ok r => .ok (installRoom (writeRoom s cand) r)

/-- content tags of the rows of a room definition, as printed in table dumps -/
def Body.tag : Body → Nat
  | .user k en => 1000000 + 2 * k + (if en then 1 else 0)
  | .right e ms ma => 2000000 + 4 * e + (if ms then 2 else 0) + (if ma then 1 else 0)
  | .other n => n
  | .none => 1000

def Body.ofTag (t : Nat) : Body :=
  if t = 1000 then .none
  else if 2000000 ≤ t then .right ((t - 2000000) / 4) ((t - 2000000) % 4 / 2 = 1) ((t - 2000000) % 2 = 1)
  else if 1000000 ≤ t then .user ((t - 1000000) / 2) ((t - 1000000) % 2 = 1)
  else .other t

end Discret.RoomNode
