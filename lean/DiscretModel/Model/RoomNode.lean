import DiscretModel.Model.Room
/-
Model of `src/database/room_node.rs` (+ `RoomAuthorisations::prepare_room_node`): the wire/storage form
of a room definition and its acceptance from a peer (C07, DESIGN.md A.8).

* a row (`Node`) is `SRow`: id, claimed entity, dates, author and a parsed view of its JSON (`Body`);
  a placing reference (`Edge`) is `PEdge`; `sigOk` is the verdict of `verify()` on that object;
* entity codes: 100 `sys.Room`, 101 `sys.Authorisation`, 102 `sys.UserAuth`, 103 `sys.EntityRight`;
  labels are the short field names (32 admin, 33 authorisations | rights, 34 users, 35 user_admin);
* lists are `Vec`s in the order given; `find` is `List.find?` (first match), as in the code.
Import-free apart from the shared room model.
-/
namespace Discret.RoomNode
open Discret.Room (Key Ent Id RightType User Right Auth Err)

abbrev RoomT := Discret.Room.Room

/-- what the parsers of room_node.rs can read out of a row's JSON -/
inductive Body where
  /-- `{"32": <base64 key>, "33": <bool>}` -/
  | user (k : Key) (enabled : Bool)
  /-- `{"32": <entity name>, "33": <bool>, "34": <bool>}` -/
  | right (e : Ent) (ms ma : Bool)
  /-- any other object (room and group rows: `{"32": <name>}`) -/
  | other (n : Nat)
  /-- `_json` absent -/
  | none
deriving Repr, DecidableEq

structure SRow where
  id : Nat
  ent : Nat
  room : Option Nat
  cdate : Int
  mdate : Int
  author : Key
  body : Body
  sigOk : Bool
deriving Repr, DecidableEq

structure PEdge where
  src : Nat
  srcEnt : Nat
  label : Nat
  dst : Nat
  cdate : Int
  author : Key
  sigOk : Bool
deriving Repr, DecidableEq

structure AuthNode where
  node : SRow
  rightEdges : List PEdge
  rightNodes : List SRow
  userEdges : List PEdge
  userNodes : List SRow
  userAdminEdges : List PEdge
  userAdminNodes : List SRow
  needUpdate : Bool
deriving Repr, DecidableEq

structure RoomNode where
  node : SRow
  adminEdges : List PEdge
  adminNodes : List SRow
  authEdges : List PEdge
  authNodes : List AuthNode
deriving Repr, DecidableEq

inductive RErr where
  | signature
  | inconsistent
  | parse
  | room (e : Err)            -- append-only date check / duplicate group
  | notAuthorised
  | mutated                   -- an existing entry differs
  | noHistory                 -- room known in memory, nothing stored
deriving Repr, DecidableEq

/-- `SignatureVerificationService::room_check` -/
def AuthNode.sigsOk (a : AuthNode) : Bool :=
  a.node.sigOk && a.userEdges.all (·.sigOk) && a.userNodes.all (·.sigOk) &&
  a.rightEdges.all (·.sigOk) && a.rightNodes.all (·.sigOk) &&
  a.userAdminEdges.all (·.sigOk) && a.userAdminNodes.all (·.sigOk)

def RoomNode.sigsOk (r : RoomNode) : Bool :=
  r.node.sigOk && r.adminEdges.all (·.sigOk) && r.adminNodes.all (·.sigOk) &&
  r.authEdges.all (·.sigOk) && r.authNodes.all (·.sigsOk)

/-- one list of `check_consistency`: as many references as entries, every reference leaves the owning
    row and arrives at an entry of the list. Labels, source entities, authors, dates: not looked at. -/
def listConsistent (owner : Nat) (edges : List PEdge) (ids : List Nat) : Bool :=
  edges.length = ids.length && edges.all fun e => e.src = owner && ids.contains e.dst

def AuthNode.consistent (a : AuthNode) : Bool :=
  listConsistent a.node.id a.rightEdges (a.rightNodes.map (·.id)) &&
  listConsistent a.node.id a.userEdges (a.userNodes.map (·.id)) &&
  listConsistent a.node.id a.userAdminEdges (a.userAdminNodes.map (·.id))

/-- `RoomNode::check_consistency`; a group is checked once per reference that reaches it -/
def RoomNode.consistent (r : RoomNode) : Bool :=
  listConsistent r.node.id r.adminEdges (r.adminNodes.map (·.id)) &&
  r.authEdges.length = r.authNodes.length &&
  r.authEdges.all fun e =>
    e.src = r.node.id &&
    match r.authNodes.find? (·.node.id = e.dst) with
    | some a => a.consistent
    | none => false

/-- `UserNode::parse` -/
def parseUser (n : SRow) : Except RErr User :=
  match n.body with
  | .user k en => .ok { key := k, date := n.mdate, enabled := en }
  | _ => .error .parse

/-- `EntityRightNode::parse` -/
def parseRight (n : SRow) : Except RErr Right :=
  match n.body with
  | .right e ms ma => .ok (Right.new n.mdate e ms ma)
  | _ => .error .parse

def liftErr {α : Type} : Except Err α → Except RErr α
  | .ok a => .ok a
  | .error e => .error (.room e)

def addRights (a : Auth) : List SRow → Except RErr Auth
  | [] => .ok a
  | n :: rest =>
    match parseRight n with
    | .error e => .error e
    | .ok r =>
      match liftErr (a.addRight r) with
      | .error e => .error e
      | .ok a' => addRights a' rest

def addUsers (a : Auth) : List SRow → Except RErr Auth
  | [] => .ok a
  | n :: rest =>
    match parseUser n with
    | .error e => .error e
    | .ok u =>
      match liftErr (a.addUser u) with
      | .error e => .error e
      | .ok a' => addUsers a' rest

def addUserAdmins (a : Auth) : List SRow → Except RErr Auth
  | [] => .ok a
  | n :: rest =>
    match parseUser n with
    | .error e => .error e
    | .ok u =>
      match liftErr (a.addUserAdmin u) with
      | .error e => .error e
      | .ok a' => addUserAdmins a' rest

/-- `AuthorisationNode::parse`: rights, then users, then user admins, each in the order given -/
def AuthNode.parse (a : AuthNode) : Except RErr Auth :=
  let a0 : Auth := { id := a.node.id, mdate := a.node.mdate, users := [], rights := [], userAdmins := [] }
  match addRights a0 a.rightNodes with
  | .error e => .error e
  | .ok a1 =>
    match addUsers a1 a.userNodes with
    | .error e => .error e
    | .ok a2 => addUserAdmins a2 a.userAdminNodes

def addAdmins (r : RoomT) : List SRow → Except RErr RoomT
  | [] => .ok r
  | n :: rest =>
    match parseUser n with
    | .error e => .error e
    | .ok u =>
      match liftErr (r.addAdmin u) with
      | .error e => .error e
      | .ok r' => addAdmins r' rest

def addAuths (r : RoomT) : List AuthNode → Except RErr RoomT
  | [] => .ok r
  | a :: rest =>
    match a.parse with
    | .error e => .error e
    | .ok au =>
      match liftErr (r.addAuth au) with
      | .error e => .error e
      | .ok r' => addAuths r' rest

/-- `RoomNode::parse` -/
def RoomNode.parse (r : RoomNode) : Except RErr RoomT :=
  match addAdmins (Discret.Room.Room.empty r.node.id r.node.mdate) r.adminNodes with
  | .error e => .error e
  | .ok r1 => addAuths r1 r.authNodes

/-- `prepare_new_room`: every entry's author must be an admin at the entry's date in the room
    parsed from the whole candidate -/
def prepareNewRoom (r : RoomNode) : Except RErr RoomT :=
  match r.parse with
  | .error e => .error e
  | .ok room =>
    let adm (n : SRow) : Bool := room.isAdmin n.author n.mdate
    if r.adminNodes.all adm &&
       r.authNodes.all (fun a => adm a.node && a.userNodes.all adm && a.rightNodes.all adm &&
         a.userAdminNodes.all adm)
    then .ok room else .error .notAuthorised

end Discret.RoomNode
