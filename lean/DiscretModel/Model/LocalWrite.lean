import DiscretModel.Model.Room
/-
C01 (and the local half of C12) — local writes.

Literal model of
  * `MutationQuery::execute` / `get_mutate_query` / `create_node_to_mutate` (mutation_query.rs:92-394)
    and the room propagation of the parser (mutation_parser.rs:206-236): `plan`
  * `validate_mutation` / `validate_entity_mutation` (authorisation_service.rs:541-698): `validateChange`, `validateAll`
  * `InsertEntity::write` (mutation_query.rs:458-477): `applyChange`
  * `DeletionQuery::build`, `validate_deletion`, `DeletionQuery::delete` (deletion.rs, authorisation_service.rs:443-539):
    `deleteNode`, `deleteRef`
for data entities with one scalar field and mutation trees of depth two (an entity and the sub-entities of
ONE of its reference fields). Rows, keys, entities, rooms are natural numbers; a signature is the pair
(author, content), i.e. the `author` field of the row.

Behaviour of the code that deviates from the property is switched by `Defects` (see DESIGN.md §4, App. A.1-A.3).
-/
namespace Discret.LocalWrite
open Discret.Room

structure Defects where
  /-- #1 authorisation_service.rs:577-580: an entity whose own row is unchanged (`node == None`) is accepted
      without visiting its sub-entities, which are written all the same -/
  subNodesSkipped : Bool
  /-- #2 authorisation_service.rs:594: the room a row LEAVES is looked up with the id of the room it enters -/
  oldRoomLookup : Bool
  /-- #3 (first half) deletion.rs:91-93, authorisation_service.rs:488-490: a reference deletion re-dates and
      re-signs the source row with the caller's key even when the named reference does not exist -/
  refDeletionResign : Bool
  /-- #32 authorisation_service.rs:492-497: the guard against deleting references of `sys.Room` (and the
      other authorisation entities) compares the reference's SHORT source entity with the full names, so it
      never fires; a room row has no `room_id`, so no right is checked either -/
  sysRefDeletionUnguarded : Bool
  /-- deletion.rs:110-114: deleting a row removes every reference that points TO it, whatever room the source
      row of the reference is in, without a right check there (and without a deletion record) -/
  incomingRefsUnchecked : Bool
  /-- second half of #3, authorisation_service.rs:502-516: when the named reference exists, the right is judged on
      the author of the REFERENCE (own reference: own-rows right) while the row that is re-dated and re-signed
      may be somebody else's -/
  refRightOnEdgeAuthor : Bool
deriving Repr, DecidableEq

/-- what /repo does now. Fixed upstream (switch turned off here): sub-entities of an unchanged parent (c887d69),
    departing-room lookup (cfb7678), re-signing when no reference is removed (456214b), the guard on references
    of authorisation entities (f1df104). Still on: incoming references of a deleted row, and the right of a
    reference deletion judged on the reference's author. -/
def Defects.asImplemented : Defects := ⟨false, false, false, false, true, true⟩
/-- /repo before the fixes that this check led to -/
def Defects.beforeFixes : Defects := ⟨true, true, true, true, true, true⟩
def Defects.none : Defects := ⟨false, false, false, false, false, false⟩

inductive MErr where
  | rejected | unknownRoom | unknownEntity | deleteNotAllowed
deriving Repr, DecidableEq

def MErr.toString : MErr → String
  | .rejected => "rejected" | .unknownRoom => "unknown-room" | .unknownEntity => "unknown-entity"
  | .deleteNotAllowed => "delete-not-allowed"

structure Row where
  id : Nat
  entity : Ent
  room : Option Id
  author : Key
  cdate : Int
  mdate : Int
  val : Int
deriving Repr, DecidableEq

structure EdgeRow where
  src : Nat
  label : Nat
  dest : Nat
  author : Key
  cdate : Int
deriving Repr, DecidableEq

structure NodeTomb where
  room : Id
  id : Nat
  entity : Ent
  mdate : Int
  ddate : Int
  author : Key
deriving Repr, DecidableEq

structure EdgeTomb where
  room : Id
  src : Nat
  label : Nat
  dest : Nat
  cdate : Int
  ddate : Int
  author : Key
deriving Repr, DecidableEq

structure Db where
  rows : List Row
  edges : List EdgeRow
  nodeTombs : List NodeTomb
  edgeTombs : List EdgeTomb
deriving Repr, DecidableEq

def Db.empty : Db := ⟨[], [], [], []⟩

def getRoom (rooms : List Room) (rid : Id) : Option Room := rooms.find? (·.id = rid)

/-- `Node::get_with_entity` -/
def Db.getRow (db : Db) (id : Nat) (entity : Ent) : Option Row :=
  db.rows.find? fun r => r.id = id && r.entity = entity

def Db.edgeExists (db : Db) (src label dest : Nat) : Bool :=
  db.edges.any fun e => e.src = src && e.label = label && e.dest = dest

def Db.edgesOf (db : Db) (src label : Nat) : List EdgeRow :=
  db.edges.filter fun e => e.src = src && e.label = label

/-! ### the mutation tree -/

/-- a sub-entity of the mutated entity -/
structure Leaf where
  handle : Nat
  isNew : Bool
  entity : Ent
  room : Option Id
  val : Option Int
deriving Repr, DecidableEq

inductive Field where
  | none
  | arr (label : Nat) (children : List Leaf)
  | ent (label : Nat) (child : Leaf)
  | null (label : Nat)
deriving Repr, DecidableEq

structure Mut where
  handle : Nat
  isNew : Bool
  entity : Ent
  room : Option Id
  val : Option Int
  field : Field
deriving Repr, DecidableEq

/-- what `get_mutate_query` plans for one entity of the tree: the stored row it read (`old`), the row it
    will write (`node = none`: nothing changed, nothing written), the room the validation looks at, and the
    references removed and added at this row -/
structure Change where
  entity : Ent
  roomId : Option Id
  old : Option Row
  node : Option Row
  edgeDels : List EdgeRow
  edgeIns : List EdgeRow
deriving Repr, DecidableEq

/-- `create_node_to_mutate` + the scalar part of `get_mutate_query`; `touched`: a reference of this entity changed -/
def planNode (db : Db) (now : Int) (handle : Nat) (isNew : Bool) (entity : Ent) (room : Option Id)
    (val : Option Int) (touched : Bool) : Except MErr (Option Id × Option Row × Option Row) :=
  if isNew then
    .ok (room, none,
      some { id := handle, entity, room, author := 0, cdate := now, mdate := now, val := val.getD 0 })
  else
    match db.getRow handle entity with
    | none => .error .unknownEntity
    | some old =>
      let nodeRoom := if room.isSome then room else old.room
      if val.isSome || touched then
        .ok (nodeRoom, some old, some { old with room := nodeRoom, mdate := now, val := val.getD old.val })
      else .ok (nodeRoom, some old, none)

def planLeaf (db : Db) (now : Int) (parentRoom : Option Id) (l : Leaf) : Except MErr Change :=
  -- the parser copies the room the parent names explicitly to the sub-entities that name none
  let room := if l.room.isSome then l.room else parentRoom
  match planNode db now l.handle l.isNew l.entity room l.val false with
  | .error e => .error e
  | .ok (roomId, old, node) => .ok { entity := l.entity, roomId, old, node, edgeDels := [], edgeIns := [] }

def planLeaves (db : Db) (now : Int) (parentRoom : Option Id) : List Leaf → Except MErr (List Change)
  | [] => .ok []
  | l :: t =>
    match planLeaf db now parentRoom l with
    | .error e => .error e
    | .ok c =>
      match planLeaves db now parentRoom t with
      | .error e => .error e
      | .ok cs => .ok (c :: cs)

/-- the plan of a whole mutation: the entity itself, then its sub-entities -/
def plan (db : Db) (now : Int) (m : Mut) : Except MErr (Change × List Change) :=
  -- the stored row of the entity is read first (`create_node_to_mutate`), then the sub-entities
  let pre : Except MErr Unit :=
    if m.isNew then .ok () else
      match db.getRow m.handle m.entity with
      | none => .error .unknownEntity
      | some _ => .ok ()
  match pre with
  | .error e => .error e
  | .ok () =>
    let subs : Except MErr (List Change × List EdgeRow × List EdgeRow) :=
      match m.field with
      | .none => .ok ([], [], [])
      | .arr label children =>
        match planLeaves db now m.room children with
        | .error e => .error e
        | .ok cs =>
          let ins := (children.filter fun c => !db.edgeExists m.handle label c.handle).map fun c =>
            ({ src := m.handle, label, dest := c.handle, author := 0, cdate := now } : EdgeRow)
          .ok (cs, [], ins)
      | .ent label child =>
        match planLeaf db now m.room child with
        | .error e => .error e
        | .ok c =>
          if db.edgeExists m.handle label child.handle then .ok ([c], [], [])
          else .ok ([c], db.edgesOf m.handle label,
                    [{ src := m.handle, label, dest := child.handle, author := 0, cdate := now }])
      | .null label => .ok ([], db.edgesOf m.handle label, [])
    match subs with
    | .error e => .error e
    | .ok (cs, dels, ins) =>
      match planNode db now m.handle m.isNew m.entity m.room m.val (!dels.isEmpty || !ins.isEmpty) with
      | .error e => .error e
      | .ok (roomId, old, node) =>
        .ok ({ entity := m.entity, roomId, old, node, edgeDels := dels, edgeIns := ins }, cs)

/-! ### validation -/

def needed (c : Change) (caller : Key) : RightType :=
  match c.old with
  | some o => if o.author = caller then .mutateSelf else .mutateAll
  | none => .mutateSelf

/-- `validate_entity_mutation` for one entity whose row changes; returns the deletion records of the removed references -/
def validateChange (df : Defects) (rooms : List Room) (caller : Key) (now : Int) (c : Change) :
    Except MErr (List EdgeTomb) :=
  match c.roomId with
  | none => .ok []
  | some rid =>
    match getRoom rooms rid with
    | none => .error .unknownRoom
    | some room =>
      let rt := needed c caller
      let oldCheck : Except MErr Unit :=
        match c.old with
        | none => .ok ()
        | some o =>
          match o.room with
          | none => .ok ()
          | some oldRid =>
            if oldRid = rid then .ok ()
            else
              match getRoom rooms (if df.oldRoomLookup then rid else oldRid) with
              | none => .error .unknownRoom
              | some oldRoom => if oldRoom.can caller c.entity now rt then .ok () else .error .rejected
      match oldCheck with
      | .error e => .error e
      | .ok () =>
        if room.can caller c.entity now rt then
          .ok (c.edgeDels.map fun e =>
            { room := rid, src := e.src, label := e.label, dest := e.dest, cdate := e.cdate, ddate := now,
              author := caller })
        else .error .rejected

def validateList (df : Defects) (rooms : List Room) (caller : Key) (now : Int) :
    List Change → Except MErr (List (Change × List EdgeTomb))
  | [] => .ok []
  | c :: t =>
    let one : Except MErr (List EdgeTomb) :=
      match c.node with
      | none => .ok []
      | some _ => validateChange df rooms caller now c
    match one with
    | .error e => .error e
    | .ok tombs =>
      match validateList df rooms caller now t with
      | .error e => .error e
      | .ok rest => .ok ((c, tombs) :: rest)

/-- `validate_entity_mutation` on the tree: the entity, then (unless its row is unchanged and the defect is
    on) its sub-entities. Sub-entities that were not visited are still written. -/
def validateAll (df : Defects) (rooms : List Room) (caller : Key) (now : Int) (top : Change)
    (subs : List Change) : Except MErr (List (Change × List EdgeTomb)) :=
  match top.node with
  | none =>
    if df.subNodesSkipped then .ok ((top, []) :: subs.map fun c => (c, []))
    else
      match validateList df rooms caller now subs with
      | .error e => .error e
      | .ok l => .ok ((top, []) :: l)
  | some _ => validateList df rooms caller now (top :: subs)

/-! ### write -/

def upsertRow (rows : List Row) (r : Row) : List Row :=
  if rows.any (fun x => x.id = r.id) then rows.map fun x => if x.id = r.id then r else x
  else rows ++ [r]

def upsertEdge (edges : List EdgeRow) (e : EdgeRow) : List EdgeRow :=
  if edges.any (fun x => x.src = e.src && x.label = e.label && x.dest = e.dest) then
    edges.map fun x => if x.src = e.src && x.label = e.label && x.dest = e.dest then e else x
  else edges ++ [e]

def upsertEdgeTomb (l : List EdgeTomb) (t : EdgeTomb) : List EdgeTomb :=
  let same := fun (x : EdgeTomb) =>
    x.room = t.room && x.ddate = t.ddate && x.src = t.src && x.label = t.label && x.dest = t.dest
  if l.any same then l.map fun x => if same x then t else x else l ++ [t]

def upsertNodeTomb (l : List NodeTomb) (t : NodeTomb) : List NodeTomb :=
  let same := fun (x : NodeTomb) => x.room = t.room && x.ddate = t.ddate && x.id = t.id && x.entity = t.entity
  if l.any same then l.map fun x => if same x then t else x else l ++ [t]

/-- `InsertEntity::write` for one entity: the row (signed by the caller), the removed references and their
    records, the added references (signed by the caller) -/
def applyChange (caller : Key) (db : Db) (ct : Change × List EdgeTomb) : Db :=
  let c := ct.1
  let rows := match c.node with
    | some n => upsertRow db.rows { n with author := caller }
    | none => db.rows
  let edges := db.edges.filter fun e =>
    !c.edgeDels.any fun d => d.src = e.src && d.label = e.label && d.dest = e.dest
  let edges := c.edgeIns.foldl (fun acc e => upsertEdge acc { e with author := caller }) edges
  { db with rows, edges, edgeTombs := ct.2.foldl upsertEdgeTomb db.edgeTombs }

def applyAll (caller : Key) (db : Db) (l : List (Change × List EdgeTomb)) : Db := l.foldl (applyChange caller) db

/-- a local mutation: plan (reads), validate, write; an error leaves the database as it was -/
def mutate (df : Defects) (rooms : List Room) (db : Db) (caller : Key) (now : Int) (m : Mut) : Except MErr Db :=
  match plan db now m with
  | .error e => .error e
  | .ok (top, subs) =>
    match validateAll df rooms caller now top subs with
    | .error e => .error e
    | .ok l => .ok (applyAll caller db l)

/-! ### deletions -/

/-- the caller may change the references stored at row `src` (own row: own-rows right, else all-rows) -/
def mayTouch (rooms : List Room) (db : Db) (caller : Key) (now : Int) (src : Nat) : Bool :=
  (db.rows.filter (·.id = src)).all fun r =>
    match r.room with
    | none => true
    | some rid =>
      match getRoom rooms rid with
      | none => false
      | some room => room.can caller r.entity now (if r.author = caller then .mutateSelf else .mutateAll)

/-- `delete { E { $id } }` -/
def deleteNode (df : Defects) (rooms : List Room) (db : Db) (caller : Key) (now : Int) (handle : Nat) (entity : Ent) :
    Except MErr Db :=
  match db.getRow handle entity with
  | none => .ok db
  | some row =>
    let incoming := db.edges.filter fun e => e.dest = handle && e.src ≠ handle
    if !df.incomingRefsUnchecked && !incoming.all (fun e => mayTouch rooms db caller now e.src) then .error .rejected
    else
    let removed : Db :=
      { db with rows := db.rows.filter (fun r => r.id ≠ handle),
                edges := db.edges.filter fun e => e.src ≠ handle && e.dest ≠ handle }
    match row.room with
    | none => .ok removed
    | some rid =>
      match getRoom rooms rid with
      | none => .error .unknownRoom
      | some room =>
        let rt : RightType := if row.author = caller then .mutateSelf else .mutateAll
        if room.can caller entity now rt then
          let tomb : NodeTomb :=
            { room := rid, id := handle, entity, mdate := row.mdate, ddate := now, author := caller }
          .ok { removed with nodeTombs := upsertNodeTomb removed.nodeTombs tomb }
        else .error .rejected

/-- `delete { E { $id label[$dest] } }` -/
def deleteRef (df : Defects) (rooms : List Room) (db : Db) (caller : Key) (now : Int) (handle : Nat)
    (entity : Ent) (label dest : Nat) : Except MErr Db :=
  match db.getRow handle entity with
  | none => .ok db
  | some row =>
    let resign (d : Db) : Db :=
      { d with rows := d.rows.map fun r => if r.id = handle then { row with mdate := now, author := caller } else r }
    match db.edges.find? (fun e => e.src = handle && e.label = label && e.dest = dest) with
    | none => if df.refDeletionResign then .ok (resign db) else .ok db
    | some edge =>
      let without : Db :=
        { db with edges := db.edges.filter fun e => !(e.src = handle && e.label = label && e.dest = dest) }
      match row.room with
      | none => .ok (resign without)
      | some rid =>
        match getRoom rooms rid with
        | none => .error .unknownRoom
        | some room =>
          -- the code judges the right on the author of the REFERENCE; the row it re-signs may be somebody else's
          let own := if df.refRightOnEdgeAuthor then edge.author = caller else (edge.author = caller && row.author = caller)
          let rt : RightType := if own then .mutateSelf else .mutateAll
          if room.can caller entity now rt then
            let tomb : EdgeTomb :=
              { room := rid, src := handle, label, dest, cdate := edge.cdate, ddate := now, author := caller }
            .ok (resign { without with edgeTombs := upsertEdgeTomb without.edgeTombs tomb })
          else .error .rejected

/-! ### what a peer receives (C12) -/

/-- the rows, references and deletion records that an operation sends — or, when it is refused for lack of
    a right, would have sent — to the peers of the rooms concerned -/
structure Outbox where
  localOk : Bool
  nodes : List Row
  edges : List EdgeRow
  nodeDels : List NodeTomb
  edgeDels : List EdgeTomb
deriving Repr, DecidableEq

def signRow (caller : Key) (r : Row) : Row := { r with author := caller }
def signEdge (caller : Key) (e : EdgeRow) : EdgeRow := { e with author := caller }

/-- the deletion records a refused change would have produced -/
def wouldBeTombs (caller : Key) (now : Int) (c : Change) : List EdgeTomb :=
  match c.roomId, c.node with
  | some rid, some _ => c.edgeDels.map fun e =>
      { room := rid, src := e.src, label := e.label, dest := e.dest, cdate := e.cdate, ddate := now, author := caller }
  | _, _ => []

/-- `none`: nothing reaches a peer (the mutation failed before the right checks) -/
def mutateOutbox (df : Defects) (rooms : List Room) (db : Db) (caller : Key) (now : Int) (m : Mut) : Option Outbox :=
  match plan db now m with
  | .error _ => none
  | .ok (top, subs) =>
    let all := top :: subs
    match validateAll df rooms caller now top subs with
    | .ok l =>
      some { localOk := true,
             nodes := l.filterMap fun ct => ct.1.node.map (signRow caller),
             edges := l.flatMap fun ct => ct.1.edgeIns.map (signEdge caller),
             nodeDels := [],
             edgeDels := l.flatMap (·.2) }
    | .error _ =>
      some { localOk := false,
             nodes := all.filterMap fun c => c.node.map (signRow caller),
             edges := all.flatMap fun c => c.edgeIns.map (signEdge caller),
             nodeDels := [],
             edgeDels := all.flatMap (wouldBeTombs caller now) }

def deleteNodeOutbox (df : Defects) (rooms : List Room) (db : Db) (caller : Key) (now : Int) (handle : Nat)
    (entity : Ent) : Option Outbox :=
  match db.getRow handle entity with
  | none => some { localOk := true, nodes := [], edges := [], nodeDels := [], edgeDels := [] }
  | some row =>
    let tombs : List NodeTomb := match row.room with
      | some rid => [{ room := rid, id := handle, entity, mdate := row.mdate, ddate := now, author := caller }]
      | none => []
    match deleteNode df rooms db caller now handle entity with
    | .ok _ => some { localOk := true, nodes := [], edges := [], nodeDels := tombs, edgeDels := [] }
    | .error _ => some { localOk := false, nodes := [], edges := [], nodeDels := tombs, edgeDels := [] }

def deleteRefOutbox (df : Defects) (rooms : List Room) (db : Db) (caller : Key) (now : Int) (handle : Nat)
    (entity : Ent) (label dest : Nat) : Option Outbox :=
  match db.getRow handle entity with
  | none => some { localOk := true, nodes := [], edges := [], nodeDels := [], edgeDels := [] }
  | some row =>
    let resigned : Row := { row with mdate := now, author := caller }
    let edge := db.edges.find? (fun e => e.src = handle && e.label = label && e.dest = dest)
    let tombs : List EdgeTomb := match edge, row.room with
      | some e, some rid =>
        [{ room := rid, src := handle, label, dest, cdate := e.cdate, ddate := now, author := caller }]
      | _, _ => []
    match deleteRef df rooms db caller now handle entity label dest with
    | .ok _ =>
      some { localOk := true, nodes := if df.refDeletionResign || edge.isSome then [resigned] else [],
             edges := [], nodeDels := [], edgeDels := tombs }
    | .error _ => some { localOk := false, nodes := [resigned], edges := [], nodeDels := [], edgeDels := tombs }

/-- `delete { sys.Room { $room admin[$entry] } }` on the stored room row, seen as (author of the room row, ids
    of its admin entries). The room row has no `room_id`, so no right is checked; the guard on system
    entities is the only protection. Returns the new (author, admin entries). -/
def deleteRoomAdminRef (df : Defects) (_roomAuthor : Key) (adminIds : List Nat) (caller : Key) (entry : Nat) :
    Except MErr (Key × List Nat) :=
  if df.sysRefDeletionUnguarded then .ok (caller, adminIds.filter (· ≠ entry)) else .error .deleteNotAllowed

end Discret.LocalWrite
