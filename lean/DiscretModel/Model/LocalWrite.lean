import DiscretModel.Model.Room
/-
C01 (and the local half of C12) — local writes.

Literal model of
  * `MutationQuery::execute` / `get_mutate_query` / `create_node_to_mutate` (mutation_query.rs:92-394)
    and the room propagation of the parser (mutation_parser.rs:206-236): `plan`
  * `validate_mutation` / `validate_entity_mutation` (authorisation_service.rs:541-698): `validateChange`, `validateAll`
  * `InsertEntity::write` (mutation_query.rs:458-477): `applyChange`
  * `DeletionQuery::build`, `validate_deletion`, `DeletionQuery::delete` (deletion.rs, authorisation_service.rs:443-539):
    `deleteNode`, `deleteRef`
for data entities with one scalar field and mutation trees of ANY depth (every entity of the tree may carry one
reference field whose targets are entities of the same kind: `Mut`/`Field`, `flatten`). Rows, keys, entities, rooms are natural numbers; a signature is the pair
(author, content), i.e. the `author` field of the row.

Behaviour of the code that deviates from the property is switched by `Defects` (see DESIGN.md §4, App. A.1-A.3).
-/
namespace Discret.LocalWrite
open Discret.Room

structure Defects where
  /-- #1 authorisation_service.rs:577-580: an entity whose own row is unchanged (`node == None`) is accepted
      without visiting its sub-entities, which are written all the same -/
  subNodesSkipped : Bool
  /-- #2 authorisation_service.rs:594: the room a row LEAVES is looked up with the id of the room it enters -/
  oldRoomLookup : Bool
  /-- #3 (first half) deletion.rs:91-93, authorisation_service.rs:488-490: a reference deletion re-dates and
      re-signs the source row with the caller's key even when the named reference does not exist -/
  refDeletionResign : Bool
  /-- #32 authorisation_service.rs:492-497: the guard against deleting references of `sys.Room` (and the
      other authorisation entities) compares the reference's SHORT source entity with the full names, so it
      never fires; a room row has no `room_id`, so no right is checked either -/
  sysRefDeletionUnguarded : Bool
  /-- deletion.rs:110-114: deleting a row removes every reference that points TO it, whatever room the source
      row of the reference is in, without a right check there (and without a deletion record) -/
  incomingRefsUnchecked : Bool
  /-- second half of #3, authorisation_service.rs:502-516: when the named reference exists, the right is judged on
      the author of the REFERENCE (own reference: own-rows right) while the row that is re-dated and re-signed
      may be somebody else's -/
  refRightOnEdgeAuthor : Bool
  /-- authorisation_service.rs validate_entity_mutation: the references a mutation REMOVES from a row (`field: null`,
      or an entity field that gets another target) are covered by the right on the row alone — the own-rows right
      when the row is the caller's — whoever signed those references; every peer judges the deletion record of a
      reference on the author of the REFERENCE (`validate_edge_deletions`: all-rows right for somebody else's) -/
  refRemovalRightOnRowAuthor : Bool
deriving Repr, DecidableEq

/-- what /repo does now. Fixed upstream (switch turned off here): sub-entities of an unchanged parent (c887d69),
    departing-room lookup (cfb7678), re-signing when no reference is removed (456214b), the guard on references
    of authorisation entities (f1df104). Still on: incoming references of a deleted row; the right of a
    reference deletion judged on the reference's author (findings/C01-C12-ref-deletion-right-on-source-row.patch);
    the removal of somebody else's references by a mutation of an own row
    (findings/C12-mutation-removes-foreign-reference.patch). -/
def Defects.asImplemented : Defects :=
  { refRightOnEdgeAuthor := false,       -- fixed in /repo: findings/C01-C12-ref-deletion-right-on-source-row.patch
    subNodesSkipped := false,            -- fixed: /repo c887d69
    oldRoomLookup := false,              -- fixed: /repo cfb7678
    refDeletionResign := false,          -- fixed: /repo 456214b
    sysRefDeletionUnguarded := false,    -- fixed: /repo f1df104
    incomingRefsUnchecked := true,       -- open (no small repair: findings/C01-node-deletion-incoming-references.md)
    refRemovalRightOnRowAuthor := false } -- fixed in /repo: findings/C12-mutation-removes-foreign-reference.patch
/-- /repo before the fixes that this check led to -/
def Defects.beforeFixes : Defects := ⟨true, true, true, true, true, true, true⟩
def Defects.none : Defects := ⟨false, false, false, false, false, false, false⟩

inductive MErr where
  | rejected | unknownRoom | unknownEntity | deleteNotAllowed
deriving Repr, DecidableEq

def MErr.toString : MErr → String
  | .rejected => "rejected" | .unknownRoom => "unknown-room" | .unknownEntity => "unknown-entity"
  | .deleteNotAllowed => "delete-not-allowed"

structure Row where
  id : Nat
  entity : Ent
  room : Option Id
  author : Key
  cdate : Int
  mdate : Int
  val : Int
deriving Repr, DecidableEq

structure EdgeRow where
  src : Nat
  label : Nat
  dest : Nat
  author : Key
  cdate : Int
deriving Repr, DecidableEq

structure NodeTomb where
  room : Id
  id : Nat
  entity : Ent
  mdate : Int
  ddate : Int
  author : Key
deriving Repr, DecidableEq

structure EdgeTomb where
  room : Id
  src : Nat
  label : Nat
  dest : Nat
  cdate : Int
  ddate : Int
  author : Key
deriving Repr, DecidableEq

structure Db where
  rows : List Row
  edges : List EdgeRow
  nodeTombs : List NodeTomb
  edgeTombs : List EdgeTomb
deriving Repr, DecidableEq

def Db.empty : Db := ⟨[], [], [], []⟩

def getRoom (rooms : List Room) (rid : Id) : Option Room := rooms.find? (·.id = rid)

/-- `Node::get_with_entity` -/
def Db.getRow (db : Db) (id : Nat) (entity : Ent) : Option Row :=
  db.rows.find? fun r => r.id = id && r.entity = entity

def Db.edgeExists (db : Db) (src label dest : Nat) : Bool :=
  db.edges.any fun e => e.src = src && e.label = label && e.dest = dest

def Db.edgesOf (db : Db) (src label : Nat) : List EdgeRow :=
  db.edges.filter fun e => e.src = src && e.label = label

/-! ### the mutation tree -/

mutual
/-- one entity of a mutation: `E { id? room_id? scalar? field? }`; its reference field holds further entities,
    to any depth -/
inductive Mut where
  | mk (handle : Nat) (isNew : Bool) (entity : Ent) (room : Option Id) (val : Option Int) (field : Field) : Mut
/-- the reference field of an entity (at most one per entity in this model) -/
inductive Field where
  | none : Field
  | arr (label : Nat) (children : List Mut) : Field
  | ent (label : Nat) (child : Mut) : Field
  | null (label : Nat) : Field
end

def Mut.handle : Mut → Nat | .mk h _ _ _ _ _ => h
def Mut.isNew : Mut → Bool | .mk _ n _ _ _ _ => n
def Mut.entity : Mut → Ent | .mk _ _ e _ _ _ => e
def Mut.room : Mut → Option Id | .mk _ _ _ r _ _ => r
def Mut.val : Mut → Option Int | .mk _ _ _ _ v _ => v
def Mut.field : Mut → Field | .mk _ _ _ _ _ f => f

/-- what the plan of ONE entity needs to know of its reference field: the label and the ids of the targets -/
inductive Shape where
  | none
  | arr (label : Nat) (dests : List Nat)
  | ent (label : Nat) (dest : Nat)
  | null (label : Nat)
deriving Repr, DecidableEq

def Field.shape : Field → Shape
  | .none => .none
  | .arr label children => .arr label (children.map Mut.handle)
  | .ent label child => .ent label child.handle
  | .null label => .null label

/-- one entity of the tree as `get_mutate_query` sees it: `room` is the room it names or, failing that, the room
    named by its nearest ancestor that names one (`propagate_room`, mutation_parser.rs:206-236: the parser copies
    the `room_id` field down the tree, level by level); `shadowed`: some ancestor's own row is unchanged -/
structure Item where
  handle : Nat
  isNew : Bool
  entity : Ent
  room : Option Id
  val : Option Int
  shape : Shape
  shadowed : Bool
deriving Repr, DecidableEq

/-- what `get_mutate_query` plans for one entity of the tree: the stored row it read (`old`), the row it
    will write (`node = none`: nothing changed, nothing written), the room the validation looks at, and the
    references removed and added at this row; `shadowed`: the own row of some ancestor in the tree is unchanged
    (`node = none` there) — before the fix c887d69 such an entity was never validated (#1) -/
structure Change where
  entity : Ent
  roomId : Option Id
  old : Option Row
  node : Option Row
  edgeDels : List EdgeRow
  edgeIns : List EdgeRow
  shadowed : Bool := false
deriving Repr, DecidableEq

/-- `create_node_to_mutate` + the scalar part of `get_mutate_query`; `touched`: a reference of this entity changed -/
def planNode (db : Db) (now : Int) (handle : Nat) (isNew : Bool) (entity : Ent) (room : Option Id)
    (val : Option Int) (touched : Bool) : Except MErr (Option Id × Option Row × Option Row) :=
  if isNew then
    .ok (room, none,
      some { id := handle, entity, room, author := 0, cdate := now, mdate := now, val := val.getD 0 })
  else
    match db.getRow handle entity with
    | none => .error .unknownEntity
    | some old =>
      let nodeRoom := if room.isSome then room else old.room
      if val.isSome || touched then
        .ok (nodeRoom, some old, some { old with room := nodeRoom, mdate := now, val := val.getD old.val })
      else .ok (nodeRoom, some old, none)

/-- the references removed and added at row `handle` by its reference field (mutation_query.rs:179-268): an array
    field adds a reference for each target not yet referenced; an entity field replaces the existing reference(s)
    unless the same target is already referenced; `null` removes all references of the field -/
def refChanges (db : Db) (now : Int) (handle : Nat) : Shape → List EdgeRow × List EdgeRow
  | .none => ([], [])
  | .arr label dests =>
    ([], (dests.filter fun c => !db.edgeExists handle label c).map fun c =>
      ({ src := handle, label, dest := c, author := 0, cdate := now } : EdgeRow))
  | .ent label dest =>
    if db.edgeExists handle label dest then ([], [])
    else (db.edgesOf handle label, [{ src := handle, label, dest, author := 0, cdate := now }])
  | .null label => (db.edgesOf handle label, [])

/-- the entity's own row will not be written: it is named by id, no scalar is given and no reference changes -/
def unchanged (db : Db) (now : Int) (handle : Nat) (isNew : Bool) (val : Option Int) (sh : Shape) : Bool :=
  !isNew && val.isNone && (refChanges db now handle sh).1.isEmpty && (refChanges db now handle sh).2.isEmpty

mutual
/-- the entities of the tree in the order `get_mutate_query`, `validate_entity_mutation` and `InsertEntity::write`
    all visit them: an entity, then the entities of its reference field, each followed by its own sub-entities
    (structural recursion on the tree, any depth). `inherited`: the room named by the nearest ancestor;
    `shadow`: an ancestor's own row is unchanged. -/
def flatten (db : Db) (now : Int) (inherited : Option Id) (shadow : Bool) : Mut → List Item
  | .mk handle isNew entity room val field =>
    let room := if room.isSome then room else inherited
    { handle, isNew, entity, room, val, shape := field.shape, shadowed := shadow } ::
      flattenField db now room (shadow || unchanged db now handle isNew val field.shape) field
def flattenField (db : Db) (now : Int) (inherited : Option Id) (shadow : Bool) : Field → List Item
  | .none => []
  | .null _ => []
  | .ent _ child => flatten db now inherited shadow child
  | .arr _ children => flattenList db now inherited shadow children
def flattenList (db : Db) (now : Int) (inherited : Option Id) (shadow : Bool) : List Mut → List Item
  | [] => []
  | c :: t => flatten db now inherited shadow c ++ flattenList db now inherited shadow t
end

/-- `get_mutate_query` for one entity: its stored row is read, the references of its field are compared with the
    stored ones, the new row is prepared -/
def planItem (db : Db) (now : Int) (it : Item) : Except MErr Change :=
  let ch := refChanges db now it.handle it.shape
  match planNode db now it.handle it.isNew it.entity it.room it.val (!ch.1.isEmpty || !ch.2.isEmpty) with
  | .error e => .error e
  | .ok (roomId, old, node) =>
    .ok { entity := it.entity, roomId, old, node, edgeDels := ch.1, edgeIns := ch.2, shadowed := it.shadowed }

def planItems (db : Db) (now : Int) : List Item → Except MErr (List Change)
  | [] => .ok []
  | it :: t =>
    match planItem db now it with
    | .error e => .error e
    | .ok c =>
      match planItems db now t with
      | .error e => .error e
      | .ok cs => .ok (c :: cs)

/-- the plan of a whole mutation: one change per entity of the tree, the mutated entity first -/
def plan (db : Db) (now : Int) (m : Mut) : Except MErr (List Change) :=
  planItems db now (flatten db now none false m)

/-! ### validation -/

def needed (c : Change) (caller : Key) : RightType :=
  match c.old with
  | some o => if o.author = caller then .mutateSelf else .mutateAll
  | none => .mutateSelf

/-- `validate_entity_mutation` for one entity whose row changes; returns the deletion records of the removed references -/
def validateChange (df : Defects) (rooms : List Room) (caller : Key) (now : Int) (c : Change) :
    Except MErr (List EdgeTomb) :=
  match c.roomId with
  | none => .ok []
  | some rid =>
    match getRoom rooms rid with
    | none => .error .unknownRoom
    | some room =>
      let rt := needed c caller
      let oldCheck : Except MErr Unit :=
        match c.old with
        | none => .ok ()
        | some o =>
          match o.room with
          | none => .ok ()
          | some oldRid =>
            if oldRid = rid then .ok ()
            else
              match getRoom rooms (if df.oldRoomLookup then rid else oldRid) with
              | none => .error .unknownRoom
              | some oldRoom => if oldRoom.can caller c.entity now rt then .ok () else .error .rejected
      match oldCheck with
      | .error e => .error e
      | .ok () =>
        if room.can caller c.entity now rt then
          -- removing somebody else's reference needs the all-rows right (what the peers ask for its deletion record)
          if !df.refRemovalRightOnRowAuthor && c.edgeDels.any (fun e => e.author != caller) &&
              !room.can caller c.entity now .mutateAll then .error .rejected
          else
          .ok (c.edgeDels.map fun e =>
            { room := rid, src := e.src, label := e.label, dest := e.dest, cdate := e.cdate, ddate := now,
              author := caller })
        else .error .rejected

/-- `validate_entity_mutation` over the tree, in the order it visits the entities: an entity whose own row is
    unchanged is accepted as it is; every other one passes the right check. With the defect #1 the entities below an
    unchanged row were not visited at all. Entities that were not visited are still written. -/
def validateList (df : Defects) (rooms : List Room) (caller : Key) (now : Int) :
    List Change → Except MErr (List (Change × List EdgeTomb))
  | [] => .ok []
  | c :: t =>
    let one : Except MErr (List EdgeTomb) :=
      match c.node with
      | none => .ok []
      | some _ => if df.subNodesSkipped && c.shadowed then .ok [] else validateChange df rooms caller now c
    match one with
    | .error e => .error e
    | .ok tombs =>
      match validateList df rooms caller now t with
      | .error e => .error e
      | .ok rest => .ok ((c, tombs) :: rest)

/-! ### write -/

def upsertRow (rows : List Row) (r : Row) : List Row :=
  if rows.any (fun x => x.id = r.id) then rows.map fun x => if x.id = r.id then r else x
  else rows ++ [r]

def upsertEdge (edges : List EdgeRow) (e : EdgeRow) : List EdgeRow :=
  if edges.any (fun x => x.src = e.src && x.label = e.label && x.dest = e.dest) then
    edges.map fun x => if x.src = e.src && x.label = e.label && x.dest = e.dest then e else x
  else edges ++ [e]

def upsertEdgeTomb (l : List EdgeTomb) (t : EdgeTomb) : List EdgeTomb :=
  let same := fun (x : EdgeTomb) =>
    x.room = t.room && x.ddate = t.ddate && x.src = t.src && x.label = t.label && x.dest = t.dest
  if l.any same then l.map fun x => if same x then t else x else l ++ [t]

def upsertNodeTomb (l : List NodeTomb) (t : NodeTomb) : List NodeTomb :=
  let same := fun (x : NodeTomb) => x.room = t.room && x.ddate = t.ddate && x.id = t.id && x.entity = t.entity
  if l.any same then l.map fun x => if same x then t else x else l ++ [t]

/-- `InsertEntity::write` for one entity: the row (signed by the caller), the removed references and their
    records, the added references (signed by the caller) -/
def applyChange (caller : Key) (db : Db) (ct : Change × List EdgeTomb) : Db :=
  let c := ct.1
  let rows := match c.node with
    | some n => upsertRow db.rows { n with author := caller }
    | none => db.rows
  let edges := db.edges.filter fun e =>
    !c.edgeDels.any fun d => d.src = e.src && d.label = e.label && d.dest = e.dest
  let edges := c.edgeIns.foldl (fun acc e => upsertEdge acc { e with author := caller }) edges
  { db with rows, edges, edgeTombs := ct.2.foldl upsertEdgeTomb db.edgeTombs }

def applyAll (caller : Key) (db : Db) (l : List (Change × List EdgeTomb)) : Db := l.foldl (applyChange caller) db

/-- a local mutation: plan (reads), validate, write; an error leaves the database as it was -/
def mutate (df : Defects) (rooms : List Room) (db : Db) (caller : Key) (now : Int) (m : Mut) : Except MErr Db :=
  match plan db now m with
  | .error e => .error e
  | .ok cs =>
    match validateList df rooms caller now cs with
    | .error e => .error e
    | .ok l => .ok (applyAll caller db l)

/-! ### deletions -/

/-- the caller may change the references stored at row `src` (own row: own-rows right, else all-rows) -/
def mayTouch (rooms : List Room) (db : Db) (caller : Key) (now : Int) (src : Nat) : Bool :=
  (db.rows.filter (·.id = src)).all fun r =>
    match r.room with
    | none => true
    | some rid =>
      match getRoom rooms rid with
      | none => false
      | some room => room.can caller r.entity now (if r.author = caller then .mutateSelf else .mutateAll)

/-- `delete { E { $id } }` -/
def deleteNode (df : Defects) (rooms : List Room) (db : Db) (caller : Key) (now : Int) (handle : Nat) (entity : Ent) :
    Except MErr Db :=
  match db.getRow handle entity with
  | none => .ok db
  | some row =>
    let incoming := db.edges.filter fun e => e.dest = handle && e.src ≠ handle
    if !df.incomingRefsUnchecked && !incoming.all (fun e => mayTouch rooms db caller now e.src) then .error .rejected
    else
    let removed : Db :=
      { db with rows := db.rows.filter (fun r => r.id ≠ handle),
                edges := db.edges.filter fun e => e.src ≠ handle && e.dest ≠ handle }
    match row.room with
    | none => .ok removed
    | some rid =>
      match getRoom rooms rid with
      | none => .error .unknownRoom
      | some room =>
        let rt : RightType := if row.author = caller then .mutateSelf else .mutateAll
        if room.can caller entity now rt then
          let tomb : NodeTomb :=
            { room := rid, id := handle, entity, mdate := row.mdate, ddate := now, author := caller }
          .ok { removed with nodeTombs := upsertNodeTomb removed.nodeTombs tomb }
        else .error .rejected

/-- `delete { E { $id label[$dest] } }` -/
def deleteRef (df : Defects) (rooms : List Room) (db : Db) (caller : Key) (now : Int) (handle : Nat)
    (entity : Ent) (label dest : Nat) : Except MErr Db :=
  match db.getRow handle entity with
  | none => .ok db
  | some row =>
    let resign (d : Db) : Db :=
      { d with rows := d.rows.map fun r => if r.id = handle then { row with mdate := now, author := caller } else r }
    match db.edges.find? (fun e => e.src = handle && e.label = label && e.dest = dest) with
    | none => if df.refDeletionResign then .ok (resign db) else .ok db
    | some edge =>
      let without : Db :=
        { db with edges := db.edges.filter fun e => !(e.src = handle && e.label = label && e.dest = dest) }
      match row.room with
      | none => .ok (resign without)
      | some rid =>
        match getRoom rooms rid with
        | none => .error .unknownRoom
        | some room =>
          -- the code judges the right on the author of the REFERENCE; the row it re-signs may be somebody else's
          let own := if df.refRightOnEdgeAuthor then edge.author = caller else (edge.author = caller && row.author = caller)
          let rt : RightType := if own then .mutateSelf else .mutateAll
          if room.can caller entity now rt then
            let tomb : EdgeTomb :=
              { room := rid, src := handle, label, dest, cdate := edge.cdate, ddate := now, author := caller }
            .ok (resign { without with edgeTombs := upsertEdgeTomb without.edgeTombs tomb })
          else .error .rejected

/-! ### what a peer receives (C12) -/

/-- the rows, references and deletion records that an operation sends — or, when it is refused for lack of
    a right, would have sent — to the peers of the rooms concerned -/
structure Outbox where
  localOk : Bool
  nodes : List Row
  edges : List EdgeRow
  nodeDels : List NodeTomb
  edgeDels : List EdgeTomb
deriving Repr, DecidableEq

def signRow (caller : Key) (r : Row) : Row := { r with author := caller }
def signEdge (caller : Key) (e : EdgeRow) : EdgeRow := { e with author := caller }

/-- the deletion records a refused change would have produced -/
def wouldBeTombs (caller : Key) (now : Int) (c : Change) : List EdgeTomb :=
  match c.roomId, c.node with
  | some rid, some _ => c.edgeDels.map fun e =>
      { room := rid, src := e.src, label := e.label, dest := e.dest, cdate := e.cdate, ddate := now, author := caller }
  | _, _ => []

/-- `none`: nothing reaches a peer (the mutation failed before the right checks) -/
def mutateOutbox (df : Defects) (rooms : List Room) (db : Db) (caller : Key) (now : Int) (m : Mut) : Option Outbox :=
  match plan db now m with
  | .error _ => none
  | .ok all =>
    match validateList df rooms caller now all with
    | .ok l =>
      some { localOk := true,
             nodes := l.filterMap fun ct => ct.1.node.map (signRow caller),
             edges := l.flatMap fun ct => ct.1.edgeIns.map (signEdge caller),
             nodeDels := [],
             edgeDels := l.flatMap (·.2) }
    | .error _ =>
      some { localOk := false,
             nodes := all.filterMap fun c => c.node.map (signRow caller),
             edges := all.flatMap fun c => c.edgeIns.map (signEdge caller),
             nodeDels := [],
             edgeDels := all.flatMap (wouldBeTombs caller now) }

def deleteNodeOutbox (df : Defects) (rooms : List Room) (db : Db) (caller : Key) (now : Int) (handle : Nat)
    (entity : Ent) : Option Outbox :=
  match db.getRow handle entity with
  | none => some { localOk := true, nodes := [], edges := [], nodeDels := [], edgeDels := [] }
  | some row =>
    let tombs : List NodeTomb := match row.room with
      | some rid => [{ room := rid, id := handle, entity, mdate := row.mdate, ddate := now, author := caller }]
      | none => []
    match deleteNode df rooms db caller now handle entity with
    | .ok _ => some { localOk := true, nodes := [], edges := [], nodeDels := tombs, edgeDels := [] }
    | .error _ => some { localOk := false, nodes := [], edges := [], nodeDels := tombs, edgeDels := [] }

def deleteRefOutbox (df : Defects) (rooms : List Room) (db : Db) (caller : Key) (now : Int) (handle : Nat)
    (entity : Ent) (label dest : Nat) : Option Outbox :=
  match db.getRow handle entity with
  | none => some { localOk := true, nodes := [], edges := [], nodeDels := [], edgeDels := [] }
  | some row =>
    let resigned : Row := { row with mdate := now, author := caller }
    let edge := db.edges.find? (fun e => e.src = handle && e.label = label && e.dest = dest)
    let tombs : List EdgeTomb := match edge, row.room with
      | some e, some rid =>
        [{ room := rid, src := handle, label, dest, cdate := e.cdate, ddate := now, author := caller }]
      | _, _ => []
    match deleteRef df rooms db caller now handle entity label dest with
    | .ok _ =>
      some { localOk := true, nodes := if df.refDeletionResign || edge.isSome then [resigned] else [],
             edges := [], nodeDels := [], edgeDels := tombs }
    | .error _ => some { localOk := false, nodes := [resigned], edges := [], nodeDels := [], edgeDels := tombs }

/-- `delete { sys.Room { $room admin[$entry] } }` on the stored room row, seen as (author of the room row, ids
    of its admin entries). The room row has no `room_id`, so no right is checked; the guard on system
    entities is the only protection. Returns the new (author, admin entries). -/
def deleteRoomAdminRef (df : Defects) (_roomAuthor : Key) (adminIds : List Nat) (caller : Key) (entry : Nat) :
    Except MErr (Key × List Nat) :=
  if df.sysRefDeletionUnguarded then .ok (caller, adminIds.filter (· ≠ entry)) else .error .deleteNotAllowed

end Discret.LocalWrite
