import DiscretModel.Model.Room
import DiscretModel.Model.RustPrelude
/-
Structures read by the regenerated entitlement checks of room_node.rs (Gen/RoomNodeKernel.lean, translator T11):
exactly the fields of the Rust structs that `prepare_new_room`, `prepare_new_auth` and `groups_placed_by_admins`
look at (T11 checks on every run that each of them still exists in the Rust struct with the expected type and that the
functions read no other field; `verifying_key` is called `key` as in Model/Room.lean).
-/
namespace Discret.Gen.RoomNodeKernel
open Discret.Room

/-- `crate::database::Error` as far as these functions build it: `InvalidNode(message)`; anything `parse()` returns -/
inductive Error where
  | InvalidNode (msg : String)
  | other
deriving Repr, DecidableEq

structure Node where
  key : Key
  mdate : Int
deriving Repr

structure Edge where
  key : Key
  cdate : Int
deriving Repr

structure UserNode where
  node : Node
deriving Repr

structure EntityRightNode where
  node : Node
deriving Repr

structure AuthorisationNode where
  node : Node
  right_nodes : List EntityRightNode
  user_nodes : List UserNode
  user_admin_nodes : List UserNode
deriving Repr

structure RoomNode where
  admin_nodes : List UserNode
  auth_edges : List Edge
  auth_nodes : List AuthorisationNode
deriving Repr

end Discret.Gen.RoomNodeKernel
