import DiscretModel.Model.Room
/-
Model of the serving side of a connection (C08): `InboundQueryService::process_inbound`
(peer_outbound_service.rs:82-476), the allowed-room table and `add_allowed_room` (:478-494), the admission
of rooms by `LocalPeerService::process_local_event` (peer_inbound_service.rs:441-470), the per-source row
filters (`Node::filtered_by_room` node.rs:576-653, `Edge::filtered_by_room` edge.rs:315-359,
`Node::get_daily_nodes_for_room`, the deletion-log and daily-log readers) and `rooms_for_peer`
(authorisation_service.rs:984) over the shared room model (`Model/Room.lean`).

The per-request guard, the membership re-check in front of the arms (`Entry.recheck`) and the database
call are NOT written here, and neither is the admission test of the room-definition event
(`EventRule`): they are regenerated from the source by translator T1 into `Gen/ServeTable.lean`
(`Gen.code : Code`); `serve` and `roomEvent` interpret that description.
Import-free apart from the shared room model (core Lean only).
-/
namespace Discret.Serve
open Discret.Room

abbrev RoomId := Nat

inductive QueryKind where
  | proveIdentity | hardwareFingerprint | roomList | roomDefinition | roomNode | roomLog | roomLogAt
  | edgeDeletionLog | nodeDeletionLog | roomDailyNodes | nodes | edges | peersForRoom
deriving DecidableEq, Repr

/-- the condition in front of the database call of a request arm -/
inductive Guard where
  | none                  -- no condition
  | keyIsOwn              -- `!key.is_empty() && key == own key`
  | keyProvenAndReady     -- `!key.is_empty() && conn_ready`
  | allowedContainsRoom   -- `peer.allowed_room.contains(&room_id)`
deriving DecidableEq, Repr

/-- the `peer.db.*` call of a request arm -/
inductive Source where
  | sign | fingerprint | roomsForPeer | roomDefinition | roomNode | roomLog | roomLogAt
  | edgeDeletionLog | nodeDeletionLog | roomDailyNodes | nodes | edges | peersForRoom
deriving DecidableEq, Repr

structure Entry where
  kind : QueryKind
  guard : Guard
  source : Source
  /-- the database call sits inside the guarded branch and its room argument is the guarded variable -/
  guardedRoomIsQueried : Bool
  /-- the request kind is listed in the prelude of `process_inbound` that, before the arms, asks the
      authorisation service for `rooms_for_peer(proven key, now())` and removes the requested room from
      `allowed_room` when it is not in the result (false for every kind when the prelude is absent) -/
  recheck : Bool
deriving DecidableEq, Repr

def lookup (tbl : List Entry) (k : QueryKind) : Option Entry := tbl.find? (·.kind = k)

/-- the test `LocalPeerService::process_local_event(RoomDefinitionChanged(room))` applies to the proven key
    before it admits the room to the connection -/
inductive AdmitTest where
  | validNow   -- `room.is_user_valid_at(&key, now())`
  | hasUser    -- `room.has_user(&key)`: named in a user list, enabled or not
deriving DecidableEq, Repr

/-- what the room-definition event handler does with a live connection (regenerated from
    peer_inbound_service.rs) -/
structure EventRule where
  admitBy : AdmitTest
  /-- the handler has an else branch that takes the room away from the connection -/
  revokes : Bool
deriving DecidableEq, Repr

/-- everything translator T1 reads from the source -/
structure Code where
  table : List Entry
  event : EventRule
deriving DecidableEq, Repr

/-! ### the world served: room definitions over time and the rows of each room -/

def dayMs : Int := 86400000
def dayOf (t : Int) : Int := t / dayMs

structure Row where
  id : Nat
  room : Option RoomId
  ent : Nat
  mdate : Int
deriving DecidableEq, Repr

structure Ref where
  src : Nat
  dst : Nat
  cdate : Int
deriving DecidableEq, Repr

/-- a deletion record (of a row or of a reference) -/
structure Del where
  room : RoomId
  ent : Nat
  date : Int
deriving DecidableEq, Repr

structure World where
  now : Int
  rooms : List Room              -- current definitions
  history : List (Int × Room)    -- every definition ever installed, with the time of installation
  rows : List Row
  refs : List Ref
  nodeDels : List Del
  edgeDels : List Del
  logDays : List (RoomId × Int)  -- (room, day) having a daily-log row
  peers : List Key               -- keys having a `sys.Peer` row
deriving Repr

def World.room? (w : World) (r : RoomId) : Option Room := w.rooms.find? (·.id = r)

def World.roomOfRow (w : World) (id : Nat) : Option RoomId :=
  match w.rows.find? (·.id = id) with
  | some x => x.room
  | none => none

/-! ### connection state -/

structure Conn where
  key : Option Key       -- `remote_verifying_key` (empty vector = none)
  ready : Bool           -- `conn_ready`
  allowed : List RoomId  -- `RemotePeerHandle::allowed_room`
deriving DecidableEq, Repr

def Conn.init : Conn := { key := none, ready := true, allowed := [] }

structure Defects where
  /-- a room admitted to a connection is never removed from it: a member disabled later keeps being
      served (peer_outbound_service.rs:484-494, no revocation path). When the switch is on the model
      ignores whatever re-check / revocation the regenerated `Code` describes (the code before the
      repair); when it is off the regenerated `Code` decides. FIXED in /repo (`process_inbound` now
      re-checks `rooms_for_peer(key, now())` in front of every room request and drops the room from
      `allowed_room` when the key is no longer a valid member): off in `asImplemented`; the switch is
      kept so that the regression witness stays checkable. -/
  allowedNeverRevoked : Bool
  /-- on a room-definition event the room is admitted when the key merely *appears* in a user list
      (`Room::has_user`, room.rs:91-106), enabled or not. FIXED in /repo by 81b6434
      (peer_inbound_service.rs:455-459 now tests `is_user_valid_at(key, now())`): off in `asImplemented`;
      the switch is kept so that the regression witness stays checkable. -/
  hasUserCountsDisabled : Bool
deriving DecidableEq, Repr

def Defects.asImplemented : Defects := { allowedNeverRevoked := false, hasUserCountsDisabled := false }
/-- the code before fix 81b6434 and before the membership re-check -/
def Defects.beforeFix : Defects := { allowedNeverRevoked := true, hasUserCountsDisabled := true }
def Defects.none : Defects := { allowedNeverRevoked := false, hasUserCountsDisabled := false }

def insertRoom (l : List RoomId) (r : RoomId) : List RoomId := if l.contains r then l else l ++ [r]

/-- `rooms_for_peer(key, now)` -/
def roomsForPeer (w : World) (k : Key) : List RoomId :=
  (w.rooms.filter (·.isUserValidAt k w.now)).map (·.id)

def memberNow (w : World) (k : Key) (r : RoomId) : Bool :=
  match w.room? r with
  | some room => room.isUserValidAt k w.now
  | none => false

/-! ### requests and answers -/

inductive Query where
  | proveIdentity
  | hardwareFingerprint
  | roomList
  | roomDefinition (r : RoomId)
  | roomNode (r : RoomId)
  | roomLog (r : RoomId)
  | roomLogAt (r : RoomId) (date : Int)
  | edgeDeletionLog (r : RoomId) (ent : Nat) (date : Int)
  | nodeDeletionLog (r : RoomId) (ent : Nat) (date : Int)
  | roomDailyNodes (r : RoomId) (ent : Nat) (date : Int)
  | nodes (r : RoomId) (ids : List Nat)
  | edges (r : RoomId) (srcs : List (Nat × Int))
  | peersForRoom (r : RoomId)
deriving DecidableEq, Repr

def Query.kind : Query → QueryKind
  | .proveIdentity => .proveIdentity
  | .hardwareFingerprint => .hardwareFingerprint
  | .roomList => .roomList
  | .roomDefinition _ => .roomDefinition
  | .roomNode _ => .roomNode
  | .roomLog _ => .roomLog
  | .roomLogAt _ _ => .roomLogAt
  | .edgeDeletionLog _ _ _ => .edgeDeletionLog
  | .nodeDeletionLog _ _ _ => .nodeDeletionLog
  | .roomDailyNodes _ _ _ => .roomDailyNodes
  | .nodes _ _ => .nodes
  | .edges _ _ => .edges
  | .peersForRoom _ => .peersForRoom

def Query.room? : Query → Option RoomId
  | .roomDefinition r | .roomNode r | .roomLog r | .roomLogAt r _ | .edgeDeletionLog r _ _
  | .nodeDeletionLog r _ _ | .roomDailyNodes r _ _ | .nodes r _ | .edges r _ | .peersForRoom r => some r
  | _ => none

/-- one returned item, tagged with the room it belongs to (`none`: a room-less system row) -/
structure Item where
  room : Option RoomId
  id : Nat
deriving DecidableEq, Repr

inductive Answer where
  | silent                                   -- nothing is sent
  | refused                                  -- `Error::Authorisation`
  | identity                                 -- own peer row + signature of the challenge
  | fingerprint
  | roomList (rooms : List RoomId)
  | data (r : RoomId) (items : List Item)    -- a data-bearing answer for room `r`
deriving DecidableEq, Repr

/-- the rows returned by the database call `s` for request `q` (the row filters of node.rs / edge.rs /
    daily_log.rs, literally: every one of them selects on the room id it is given) -/
def fetch (w : World) (q : Query) : List Item :=
  match q with
  | .roomDefinition r => (w.rooms.filter (·.id = r)).map fun x => ⟨some x.id, x.id⟩
  | .roomNode r => (w.rooms.filter (·.id = r)).map fun x => ⟨some x.id, x.id⟩
  | .roomLog r => (w.logDays.filter (·.1 = r)).map fun x => ⟨some x.1, x.2.toNat⟩
  | .roomLogAt r date => (w.logDays.filter fun x => x.1 = r ∧ x.2 * dayMs = date).map fun x => ⟨some x.1, x.2.toNat⟩
  | .edgeDeletionLog r ent date =>
    (w.edgeDels.filter fun x => x.room = r ∧ x.ent = ent ∧ dayOf x.date = dayOf date).map fun x => ⟨some x.room, x.date.toNat⟩
  | .nodeDeletionLog r ent date =>
    (w.nodeDels.filter fun x => x.room = r ∧ x.ent = ent ∧ dayOf x.date = dayOf date).map fun x => ⟨some x.room, x.date.toNat⟩
  | .roomDailyNodes r ent date =>
    (w.rows.filter fun x => x.room = some r ∧ x.ent = ent ∧ dayOf x.mdate = dayOf date).map fun x => ⟨x.room, x.id⟩
  | .nodes r ids => (w.rows.filter fun x => ids.contains x.id ∧ x.room = some r).map fun x => ⟨x.room, x.id⟩
  | .edges r srcs =>
    srcs.flatMap fun sc =>
      (w.refs.filter fun e => e.src = sc.1 ∧ e.cdate ≥ sc.2 ∧ w.roomOfRow e.src = some r).map
        fun e => ⟨w.roomOfRow e.src, e.src * 1000 + e.dst⟩
  | .peersForRoom r =>
    match w.room? r with
    | some room => (w.peers.filter fun k => room.users.contains k).map fun k => ⟨none, k⟩
    | none => []
  | _ => []

/-- the prelude of `process_inbound`: for a request kind it lists, a room of the allowed table is kept
    only if `rooms_for_peer(proven key, now())` still contains it (an unbound key is the empty key: member
    of nothing). `memberNow` is that lookup: the authorisation service keeps one definition per room id. -/
def recheck (d : Defects) (e : Entry) (w : World) (c : Conn) (room : Option RoomId) : Conn :=
  if e.recheck && !d.allowedNeverRevoked then
    match room with
    | some r =>
      if c.allowed.contains r then
        let still := match c.key with
          | some k => memberNow w k r
          | none => false
        if still then c else { c with allowed := c.allowed.filter (· ≠ r) }
      else c
    | none => c
  else c

def guardHolds (c : Conn) (own : Key) (g : Guard) (room : Option RoomId) : Bool :=
  match g with
  | .none => true
  | .keyIsOwn => c.key = some own
  | .keyProvenAndReady => c.key.isSome && c.ready
  | .allowedContainsRoom =>
    match room with
    | some r => c.allowed.contains r
    | none => false

/-- one arm of `process_inbound`, described by its table entry -/
def serveArm (e : Entry) (w : World) (own : Key) (c : Conn) (q : Query) : Conn × Answer :=
  if guardHolds c own e.guard q.room? then
    match e.source with
    | .sign => (c, .identity)
    | .fingerprint => (c, .fingerprint)
    | .roomsForPeer =>
      match c.key with
      | some k =>
        let rooms := roomsForPeer w k
        -- `init_rooms = allowed_room.is_empty()`: only the first list fills the table
        let allowed := if c.allowed.isEmpty then rooms.foldl insertRoom c.allowed else c.allowed
        ({ c with allowed := allowed }, .roomList rooms)
      | none => (c, .roomList [])
    | _ =>
      match q.room? with
      | some r => (c, .data r (fetch w q))
      | none => (c, .silent)
  else
    match e.guard with
    | .allowedContainsRoom => (c, .refused)
    | _ => (c, .silent)

/-- `process_inbound` for one request, interpreted over the regenerated description: the membership
    re-check of the prelude, then the arm -/
def serve (d : Defects) (cd : Code) (w : World) (own : Key) (c : Conn) (q : Query) : Conn × Answer :=
  match lookup cd.table q.kind with
  | none => (c, .silent)
  | some e => serveArm e w own (recheck d e w c q.room?) q

/-- the admission test of `process_local_event(RoomDefinitionChanged(room))` -/
def admits (d : Defects) (ev : EventRule) (w : World) (room : Room) (k : Key) : Bool :=
  if d.hasUserCountsDisabled then room.hasUser k
  else match ev.admitBy with
    | .validNow => room.isUserValidAt k w.now
    | .hasUser => room.hasUser k

/-- `process_local_event(RoomDefinitionChanged(room))` then `add_allowed_room` in the serving loop -/
def roomEvent (d : Defects) (ev : EventRule) (w : World) (c : Conn) (room : Room) : Conn :=
  match c.key with
  | none => c
  | some k =>
    if admits d ev w room k then { c with allowed := insertRoom c.allowed room.id }
    else if ev.revokes && !d.allowedNeverRevoked then { c with allowed := c.allowed.filter (· ≠ room.id) }
    else c

/-! ### a connection's life: operations -/

inductive Op where
  | auth (k : Key) (ready : Bool)     -- the handshake binds the proven key (once)
  | setReady (b : Bool)
  | query (q : Query)
  | advance (t : Int)                 -- the clock moves forward to `t`
  | install (room : Room)             -- a new definition of a room is installed and announced locally
  | world (f : World → World)         -- any change of the data (rows, references, deletions, logs, peers)

structure State where
  w : World
  c : Conn

def installRoom (w : World) (room : Room) : World :=
  { w with rooms := room :: w.rooms.filter (·.id ≠ room.id), history := (w.now, room) :: w.history }

/-- data changes keep the clock, the room definitions and their history -/
def dataChange (w : World) (f : World → World) : World :=
  { f w with now := w.now, rooms := w.rooms, history := w.history }

def step (d : Defects) (cd : Code) (own : Key) (s : State) : Op → State × Answer
  | .auth k ready =>
    match s.c.key with
    | none => ({ s with c := { s.c with key := some k, ready := ready } }, .silent)
    | some _ => (s, .silent)
  | .setReady b => ({ s with c := { s.c with ready := b } }, .silent)
  | .query q => let (c', a) := serve d cd s.w own s.c q; ({ s with c := c' }, a)
  | .advance t => ({ s with w := { s.w with now := max t s.w.now } }, .silent)
  | .install room =>
    let w' := installRoom s.w room
    ({ w := w', c := roomEvent d cd.event w' s.c room }, .silent)
  | .world f => ({ s with w := dataChange s.w f }, .silent)

def run (d : Defects) (cd : Code) (own : Key) : State → List Op → State × List Answer
  | s, [] => (s, [])
  | s, op :: ops =>
    let (s1, a) := step d cd own s op
    let (s2, as) := run d cd own s1 ops
    (s2, a :: as)

def World.empty : World :=
  { now := 0, rooms := [], history := [], rows := [], refs := [], nodeDels := [], edgeDels := [], logDays := [], peers := [] }

def State.init (w : World) : State := { w := w, c := Conn.init }

end Discret.Serve
