import DiscretModel.Model.SqlGen
/-
Second level of the model of the SQL text generation of `src/database/query.rs` (property C05): an entity
selection whose fields may be **sub-selections through a reference field** (`EntityQuery`, one row, and
`EntityArrayQuery`, an array), one level deep: every sub-selection is itself a query of the single-entity
fragment of `Model/SqlGen.lean` (its own scalar / `id` fields, filters, `order_by`, `first` / `skip`,
`before` / `after`); `nullable(key)` and nullable reference fields make a sub-selection optional.

Code modelled in addition to `Model/SqlGen.lean`: `get_fields` for `QueryFieldType::EntityQuery` /
`EntityArrayQuery`, `get_sub_entity_query`, `get_sub_group_array`, `get_exists_query` (which compiles every
mandatory sub-selection a second time, binding its parameters again). One bind list (`var_order`) runs through
the whole statement.

Not modelled: system reference fields (`room`, `author`: `get_sub_system_entity_query`), deeper nesting,
`= null` / `!= null` on reference fields.
-/
namespace Discret.SqlGen
open Discret.Query

/-- `get_sub_entity_query`: the rows of `_node` reached from the parent row through `_edge` -/
structure SubSelect where
  key : String          -- `field.name()`: key of the selection and alias of the joined `_node`
  label : String        -- `_edge.label='label'`: short name of the reference field
  parent : String       -- `_edge.src=parent.id`
  unique : Bool         -- `LIMIT 1 ` instead of the sub-selection's own limit
  core : SqlSelect      -- `key._entity`, projection, filters, paging, order, limit of the sub-selection (`binds` unused)
deriving Repr, DecidableEq

inductive ProjExpr1
  | scalar (e : ProjExpr)
  | one (sub : SubSelect)      -- `( sub-select LIMIT 1 )->'$'`
  | many (sub : SubSelect)     -- `( SELECT json_group_array(value->'$') as value FROM ( sub-select ) )`
deriving Repr, DecidableEq

structure SqlSelect1 where
  table : String
  entity : String
  proj : List (String × ProjExpr1)
  exist : List SubSelect               -- `AND EXISTS ( sub-select )`, one per mandatory sub-selection
  filters : List Cond
  paging : List (List Atom)
  order : List OrderTerm
  limit : Option Int
  offset : Option Nat
  binds : Binds
deriving Repr, DecidableEq

/-! ## The printer -/

/-- `get_sub_entity_query` at depth `t` -/
def renderSub (t : Nat) (sub : SubSelect) : String :=
  tab t ++ "SELECT \n" ++ tab t ++ renderFields sub.key t sub.core.proj ++ " as value \n" ++ tab t ++
  "FROM _edge JOIN _node " ++ sub.key ++ " on _edge.dest=" ++ sub.key ++ ".id AND _edge.label='" ++ sub.label ++ "'" ++
  "\n" ++ tab t ++ "WHERE \n" ++ tab t ++ sub.key ++ "._entity='" ++ sub.core.entity ++ "' AND \n" ++ tab t ++
  "_edge.src=" ++ sub.parent ++ ".id " ++ renderEnd t sub.core ++ "\n" ++ tab t ++
  (if sub.unique then "LIMIT 1 " else renderLimit sub.core.limit sub.core.offset)

/-- `get_sub_group_array` at depth `t` -/
def renderGroupArray (t : Nat) (sub : SubSelect) : String :=
  tab t ++ "SELECT \n" ++ tab t ++ "json_group_array(value->'$') as value \n" ++ tab t ++ "FROM (\n" ++
  renderSub (t + 1) sub ++ "\n" ++ tab t ++ ")" ++ "\n" ++ tab t

def renderProj1 (table : String) (t : Nat) : String × ProjExpr1 → String
  | (key, .scalar e) => renderProj table (key, e)
  | (key, .one sub) => "'" ++ key ++ "', (\n" ++ renderSub (t + 1) sub ++ "\n" ++ tab t ++ ")->'$'"
  | (key, .many sub) => "'" ++ key ++ "', (\n" ++ renderGroupArray (t + 1) sub ++ "\n" ++ tab t ++ ")"

def renderFields1 (table : String) (t : Nat) (proj : List (String × ProjExpr1)) : String :=
  "json_object(" ++ joinSep "," (proj.map fun p => "\n" ++ tab t ++ renderProj1 table t p) ++ ")"

/-- `get_exists_query` -/
def renderExists (t : Nat) (subs : List SubSelect) : String :=
  String.join (subs.map fun sub => tab t ++ "AND EXISTS (\n" ++ renderSub (t + 1) sub ++ "\n" ++ tab t ++ ")" ++ "\n")

/-- the clauses after the entity test, as `SqlSelect` prints them -/
def SqlSelect1.tail (s : SqlSelect1) : SqlSelect :=
  { table := s.table, entity := s.entity, proj := [], filters := s.filters, paging := s.paging, order := s.order,
    limit := s.limit, offset := s.offset, binds := s.binds }

def renderEntity1 (t : Nat) (s : SqlSelect1) : String :=
  tab t ++ "SELECT \n" ++ tab t ++ renderFields1 s.table t s.proj ++ " as value\n" ++
  tab t ++ "FROM _node " ++ s.table ++ "\n" ++
  tab t ++ "WHERE \n" ++ tab t ++ s.table ++ "._entity='" ++ s.entity ++ "' " ++
  renderExists t s.exist ++ renderEnd t s.tail ++ "\n" ++ tab t ++ renderLimit s.limit s.offset

/-- `SingleQuery::build`: the statement text -/
def render1 (s : SqlSelect1) : String :=
  "SELECT \n" ++ "json_group_array(value->'$') \n" ++ "FROM (\n" ++ renderEntity1 1 s ++ "\n )"

/-! ## The compiler -/

def isArrField (s : Schema) (ent fld : Nat) : Bool :=
  match fieldDef s ent fld with
  | some fd => (match fd.kind with | .arr _ => true | _ => false)
  | none => false

def nullableField (s : Schema) (ent fld : Nat) : Bool :=
  match fieldDef s ent fld with
  | some fd => fd.nullable
  | none => false

/-- `get_sub_entity_query` for the sub-selection `key: field { … }` of a row of `nm.table`, continuing `ps` -/
def compileSub (nm : Names) (s : Schema) (vn : Nat → String) (ps : Binds) (ent fld : Nat) (key : String)
    (unique : Bool) (sq : Query) : Binds × SubSelect :=
  let core := compileFrom { nm with table := key } s vn ps sq
  (core.binds, { key, label := nm.fieldShort ent fld, parent := nm.table, unique, core })

/-- `get_fields`; `vn j` names the variables of the sub-selection at position `j` of the selection list -/
def projLoop1 (nm : Names) (s : Schema) (vn : Nat → Nat → String) (ent : Nat) :
    Binds → Nat → List Sel → Binds × List (String × ProjExpr1)
  | ps, _, [] => (ps, [])
  | ps, j, .scalar key fld :: rest =>
    (match defaultOf s ent fld with
     | some dv =>
       let r := litOperand ps dv
       let r2 := projLoop1 nm s vn ent r.1 (j + 1) rest
       (r2.1, (key, .scalar (.ifnull (nm.fieldShort ent fld) r.2)) :: r2.2)
     | none =>
       let r2 := projLoop1 nm s vn ent ps (j + 1) rest
       (r2.1, (key, .scalar (.field (nm.fieldShort ent fld))) :: r2.2))
  | ps, j, .id key :: rest =>
    let r2 := projLoop1 nm s vn ent ps (j + 1) rest
    (r2.1, (key, .scalar .rowId) :: r2.2)
  | ps, j, .sub key fld _ sq :: rest =>
    let arr := isArrField s ent fld
    let r := compileSub nm s (vn j) ps ent fld key (!arr) sq
    let r2 := projLoop1 nm s vn ent r.1 (j + 1) rest
    (r2.1, (key, if arr then .many r.2 else .one r.2) :: r2.2)
  | ps, j, _ :: rest => projLoop1 nm s vn ent ps (j + 1) rest

/-- `get_exists_query`: every sub-selection that is neither `nullable(key)` nor through a nullable field, compiled again -/
def existsLoop (nm : Names) (s : Schema) (vn : Nat → Nat → String) (ent : Nat) :
    Binds → Nat → List Sel → Binds × List SubSelect
  | ps, _, [] => (ps, [])
  | ps, j, .sub key fld optional sq :: rest =>
    if optional || nullableField s ent fld then existsLoop nm s vn ent ps (j + 1) rest
    else
      let r := compileSub nm s (vn j) ps ent fld key (!isArrField s ent fld) sq
      let r2 := existsLoop nm s vn ent r.1 (j + 1) rest
      (r2.1, r.2 :: r2.2)
  | ps, j, _ :: rest => existsLoop nm s vn ent ps (j + 1) rest

/-- **`SingleQuery::build`** for a query with one level of sub-selections; `vn0` names the variables of the root
    filters, `vn j` those of the sub-selection at position `j` -/
def compile1 (nm : Names) (s : Schema) (vn0 : Nat → String) (vn : Nat → Nat → String) (q : Query) : SqlSelect1 :=
  let pr := projLoop1 nm s vn q.ent [] 0 q.sels
  let ex := existsLoop nm s vn q.ent pr.1 0 q.sels
  let fl := filtersLoop nm s q.ent vn0 ex.1 0 q.filters
  let pg := pagingOf nm q.ent fl.1 q
  let lim := limitOf q.first q.skip
  { table := nm.table, entity := nm.entShort q.ent, proj := pr.2, exist := ex.2, filters := fl.2, paging := pg.2,
    order := q.orders.map fun o => { lhs := orderLhs nm q.ent o, desc := o.desc },
    limit := lim.1, offset := lim.2, binds := pg.1 }

/-! ## The fragment -/

/-- a sub-selection `key: field { … }`: a reference field of the entity whose target is the sub-query's entity, a
    sub-query of the single-entity fragment, a key other than the alias of the parent table (the joined table would
    shadow it: known finding `nested-same-key-shadowing`) -/
def subOk (s : Schema) (table : String) (ent fld : Nat) (key : String) (sq : Query) : Bool :=
  (match fieldDef s ent fld with
   | some fd => (match fd.kind with | .ref e => e == sq.ent | .arr e => e == sq.ent | _ => false)
   | none => false) &&
  inFragment s sq && key != table

def selOk1 (s : Schema) (table : String) (ent : Nat) : Sel → Bool
  | .scalar _ fld => fieldOk s ent fld
  | .id _ => true
  | .sub key fld _ sq => subOk s table ent fld key sq
  | _ => false

/-- **the fragment with one level of sub-selections** (`table`: the SQL alias of the root selection) -/
def inFragment1 (s : Schema) (table : String) (q : Query) : Bool :=
  q.sels.all (selOk1 s table q.ent) && distinctKeys (q.sels.map Sel.key) &&
  q.filters.all (filterOk s q) && q.orders.all (orderOk s q) &&
  (q.after.isEmpty || q.before.isEmpty) &&
  q.after.length ≤ q.orders.length && q.before.length ≤ q.orders.length &&
  q.after.all (· != .null) && q.before.all (· != .null)

/-! ## The `_edge` table -/

structure EdgeRow where
  src : Nat
  label : String       -- short name of the reference field in the entity of the source row
  dest : Nat
deriving Repr, DecidableEq

structure Db where
  nodes : Table
  edges : List EdgeRow
deriving Repr

def encodeEdges (nm : Names) (data : Data) : List EdgeRow :=
  data.flatMap fun r => r.refs.flatMap fun kv => kv.2.map fun d => { src := r.id, label := nm.fieldShort r.ent kv.1, dest := d }

/-- how the mutations store a data set: `_node` rows and one `_edge` row per reference -/
def encodeDb (nm : Names) (data : Data) : Db := { nodes := encode nm data, edges := encodeEdges nm data }

/-- ids are keys, and a row lists a reference field once -/
def dataOk (data : Data) : Bool :=
  distinctNat (data.map (·.id)) && data.all fun r => distinctNat (r.refs.map (·.1))
where
  distinctNat : List Nat → Bool
    | [] => true
    | k :: rest => !rest.contains k && distinctNat rest

end Discret.SqlGen
