/-
Model of the value path of discret (property C04): how a scalar given as a parameter, a literal or a
default value travels  mutation → `_json` column → SQL query → JSON result → client, and what the SQL
statement of a query looks like as a list of tokens.

Sources modelled (pinned commit):
* `serde_json` string escaping (what `serde_json::to_string` writes into `_json`) — `escape`;
  the reading of a JSON string by the client (`serde_json::from_str`) — `unescape`;
* `i64::to_string` / `str::parse::<i64>` — `printInt` / `parseInt` / `parseI64`;
* the string literal of the three pest grammars (`string = "\"" ~ char* ~ "\""`, `char` as in JSON) — `litOk`;
  its decoding in `mutation_parser.rs:565`, `query_parser.rs:853,1174`, `data_model_parser.rs:628`
  (`replace("\\\"", "\"")` and nothing else) — `litDecode`;
* `parameter.rs::validate_params` and the literal typing of the parsers — `admitParam`, `parseTok`;
* `query.rs`: `SingleQuery::add_param`, `get_entity_query`, `get_fields`, `get_where_filters`,
  `get_sub_entity_query`, `get_sub_group_array`, `get_exists_query` for scalar selections, entity /
  array sub-selections and filters — `compile`, producing `List Tok` (`sqlTokens`) and `render`.

Floats and `Json` values are opaque here (bit pattern / text): they are exercised by the harness only.
This file is import-free (core Lean only) so that the driver can be compiled.
-/
namespace Discret.Value

/-! ## Deviations from the intended behaviour found in the code (one switch per call site) -/

structure Defects where
  /-- `mutation_parser.rs:565`, `query_parser.rs:853,1174`, `data_model_parser.rs:628`:
      a string literal only un-escapes `\"` (candidate #27) -/
  literalEscapesRaw : Bool
  /-- `query.rs:716-729` before fix d527622: a String/Base64/Json default is written between quotes into the
      filter SQL (candidate #9). Fixed in /repo: off in `asImplemented`, kept for the regression witnesses. -/
  defaultSpliced : Bool
  /-- `query.rs:87-90, 644`: a `null` parameter is bound to `field = ?n`, which SQL never satisfies -/
  nullParamNoMatch : Bool
  /-- `query.rs:36-42` before fix cedb2ae: a variable is looked up among ALL recorded parameters by comparing
      its name with their text, so `$x` takes the slot of an earlier literal `"x"`.
      Fixed in /repo: off in `asImplemented`, kept for the regression witnesses. -/
  varAliasesLiteral : Bool
deriving Repr, DecidableEq

def Defects.asImplemented : Defects :=
  { literalEscapesRaw := true, defaultSpliced := false, nullParamNoMatch := true, varAliasesLiteral := false }

/-- the code before the fixes d527622 (defaults bound) and cedb2ae (variable slots) -/
def Defects.beforeFixes : Defects :=
  { literalEscapesRaw := true, defaultSpliced := true, nullParamNoMatch := true, varAliasesLiteral := true }

def Defects.none : Defects :=
  { literalEscapesRaw := false, defaultSpliced := false, nullParamNoMatch := false, varAliasesLiteral := false }

/-! ## JSON string escaping (serde_json `format_escaped_str_contents`) -/

def hexDigit (n : Nat) : Char :=
  if n < 10 then Char.ofNat (48 + n) else Char.ofNat (87 + n)

/-- the escape sequence of one character: `"` `\` and the C0 controls are escaped, everything else
    (DEL and every non-ASCII scalar included) is written raw -/
def escChar (c : Char) : List Char :=
  if c = '"' then ['\\', '"']
  else if c = '\\' then ['\\', '\\']
  else if c.toNat = 8 then ['\\', 'b']
  else if c.toNat = 9 then ['\\', 't']
  else if c.toNat = 10 then ['\\', 'n']
  else if c.toNat = 12 then ['\\', 'f']
  else if c.toNat = 13 then ['\\', 'r']
  else if c.toNat < 32 then ['\\', 'u', '0', '0', hexDigit (c.toNat / 16), hexDigit (c.toNat % 16)]
  else [c]

def escape : List Char → List Char
  | [] => []
  | c :: s => escChar c ++ escape s

def hexVal (c : Char) : Option Nat :=
  let n := c.toNat
  if 48 ≤ n ∧ n ≤ 57 then some (n - 48)
  else if 97 ≤ n ∧ n ≤ 102 then some (n - 87)
  else if 65 ≤ n ∧ n ≤ 70 then some (n - 55)
  else none

def hex4 (a b c d : Char) : Option Nat :=
  match hexVal a, hexVal b, hexVal c, hexVal d with
  | some x, some y, some z, some w => some (x * 4096 + y * 256 + z * 16 + w)
  | _, _, _, _ => none

/-- the character denoted by the one-letter escapes of JSON -/
def simpleEsc (e : Char) : Option Char :=
  if e = '"' then some '"'
  else if e = '\\' then some '\\'
  else if e = '/' then some '/'
  else if e = 'b' then some (Char.ofNat 8)
  else if e = 'f' then some (Char.ofNat 12)
  else if e = 'n' then some (Char.ofNat 10)
  else if e = 'r' then some (Char.ofNat 13)
  else if e = 't' then some (Char.ofNat 9)
  else none

def isSurrogate (n : Nat) : Bool := 0xD800 ≤ n ∧ n < 0xE000

/-- Reading of the body of a JSON string. `lenient = false` is `serde_json::from_str` (raw control
    characters are refused); `lenient = true` keeps them (the query-language grammar accepts them).
    `\uXXXX` escapes of surrogate halves are not given a meaning by this model (`none`). -/
def unescape (lenient : Bool) : List Char → Option (List Char)
  | [] => some []
  | [c] =>
    if c = '\\' ∨ c = '"' then none
    else if !lenient && c.toNat < 32 then none
    else some [c]
  | c :: e :: t =>
    if c = '\\' then
      if e = 'u' then
        match t with
        | h1 :: h2 :: h3 :: h4 :: t' =>
          match hex4 h1 h2 h3 h4 with
          | some n => if isSurrogate n then none else (unescape lenient t').map (Char.ofNat n :: ·)
          | none => none
        | _ => none
      else
        match simpleEsc e with
        | some x => (unescape lenient t).map (x :: ·)
        | none => none
    else if c = '"' then none
    else if !lenient && c.toNat < 32 then none
    else (unescape lenient (e :: t)).map (c :: ·)

/-! ## Integers: `i64::to_string`, `str::parse::<i64>` -/

def digitChar (n : Nat) : Char := Char.ofNat (48 + n)

def natDigits (n : Nat) : List Char :=
  if h : n < 10 then [digitChar n] else natDigits (n / 10) ++ [digitChar (n % 10)]
termination_by n
decreasing_by omega

def printInt : Int → List Char
  | .ofNat n => natDigits n
  | .negSucc n => '-' :: natDigits (n + 1)

def digitVal (c : Char) : Option Nat :=
  if 48 ≤ c.toNat ∧ c.toNat ≤ 57 then some (c.toNat - 48) else none

/-- value of a digit string read left to right, starting from `acc` -/
def parseDigits : Nat → List Char → Option Nat
  | acc, [] => some acc
  | acc, c :: t =>
    match digitVal c with
    | some d => parseDigits (acc * 10 + d) t
    | none => none

def parseNat (s : List Char) : Option Nat :=
  if s.isEmpty then none else parseDigits 0 s

/-- `-?digits` (the `integer` rule of the grammars) as a mathematical integer -/
def parseInt : List Char → Option Int
  | '-' :: t => (parseNat t).map fun n => - (n : Int)
  | s => (parseNat s).map fun n => (n : Int)

def i64Min : Int := -9223372036854775808
def i64Max : Int := 9223372036854775807
def inI64 (i : Int) : Bool := i64Min ≤ i && i ≤ i64Max

/-- `str::parse::<i64>` on a token of the `integer` rule: out of range is an error -/
def parseI64 (s : List Char) : Option Int :=
  match parseInt s with
  | some i => if inI64 i then some i else none
  | none => none

/-! ## String literals of the query language -/

/-- the `char*` body of the grammars' `string` rule: every character except `"` and `\`, or a JSON escape -/
def litOk : List Char → Bool
  | [] => true
  | [c] => !(c = '\\' || c = '"')
  | c :: e :: t =>
    if c = '\\' then
      if e = 'u' then
        match t with
        | h1 :: h2 :: h3 :: h4 :: t' => (hex4 h1 h2 h3 h4).isSome && litOk t'
        | _ => false
      else (simpleEsc e).isSome && litOk t
    else if c = '"' then false
    else litOk (e :: t)

/-- what the parsers do with the body: `replace("\\\"", "\"")`, a left-to-right non-overlapping scan -/
def litDecode : List Char → List Char
  | [] => []
  | [c] => [c]
  | c :: e :: t =>
    if c = '\\' ∧ e = '"' then '"' :: litDecode t
    else c :: litDecode (e :: t)

/-- the value a literal stands for: with `literalEscapesRaw` what the code stores, otherwise the JSON string it spells -/
def litValue (d : Defects) (body : List Char) : Option (List Char) :=
  if d.literalEscapesRaw then some (litDecode body) else unescape true body

/-! ## Base64 (`URL_SAFE_NO_PAD`, canonical: no padding, no non-zero trailing bits) -/

def b64Val (c : Char) : Option Nat :=
  let n := c.toNat
  if 65 ≤ n ∧ n ≤ 90 then some (n - 65)
  else if 97 ≤ n ∧ n ≤ 122 then some (n - 71)
  else if 48 ≤ n ∧ n ≤ 57 then some (n + 4)
  else if c = '-' then some 62
  else if c = '_' then some 63
  else none

def b64Valid (s : List Char) : Bool :=
  s.all (fun c => (b64Val c).isSome) &&
  (match s.length % 4 with
   | 0 => true
   | 1 => false
   | 2 => (match s.getLast? with | some c => (b64Val c).getD 0 % 16 == 0 | none => true)
   | _ => (match s.getLast? with | some c => (b64Val c).getD 0 % 4 == 0 | none => true))

/-! ## Scalars, admission, storage and read-back -/

inductive FieldTy | string | integer | boolean | float | base64 | json
deriving Repr, DecidableEq

/-- a scalar as the engine sees it. `float` carries the IEEE bit pattern and Rust's `Display` text,
    `json` the text of a Json value: both are opaque to the model. -/
inductive Scalar
  | null
  | bool (b : Bool)
  | int (i : Int)
  | str (s : List Char)
  | float (bits : Nat) (disp : List Char)
  | json (text : List Char)
deriving Repr, DecidableEq

inductive Err | parse | int | bool | notnull | b64 | type | json
deriving Repr, DecidableEq

def Err.name : Err → String
  | .parse => "parse" | .int => "int" | .bool => "bool" | .notnull => "notnull"
  | .b64 => "b64" | .type => "type" | .json => "json"

/-- `Variables::validate_params` for a variable of a field of type `ty` (`nullable` from the field) -/
def admitParam (ty : FieldTy) (nullable : Bool) (v : Scalar) : Except Err Scalar :=
  match v, ty with
  | .null, _ => if nullable then .ok .null else .error .notnull
  | .bool b, .boolean => .ok (.bool b)
  | .int i, .integer => if inI64 i then .ok (.int i) else .error .type
  | .float b t, .float => .ok (.float b t)
  | .str s, .string => .ok (.str s)
  | .str s, .base64 => if b64Valid s then .ok (.str s) else .error .b64
  | .json t, .json => .ok (.json t)
  | _, _ => .error .type

/-- the JSON text the mutation writes for the field (`as_serde_json_value` + `serde_json::to_string`);
    floats and Json values are not rendered by the model -/
def jsonText : Scalar → List Char
  | .null => "null".toList
  | .bool true => "true".toList
  | .bool false => "false".toList
  | .int i => printInt i
  | .str s => '"' :: (escape s ++ ['"'])
  | .float _ _ => "<float>".toList
  | .json t => t

/-- SQLite re-emits a stored JSON value unchanged (`_json->'$.k'` inside `json_object`, 3.45: the text
    of strings and numbers is kept as written) -/
def reemit (t : List Char) : List Char := t

/-- how the client reads one JSON value of the result back (strings through `unescape false`) -/
def readJson (t : List Char) : Option Scalar :=
  match t with
  | '"' :: rest =>
    match rest.reverse with
    | '"' :: body => (unescape false body.reverse).map Scalar.str
    | _ => none
  | _ =>
    if t = "null".toList then some .null
    else if t = "true".toList then some (.bool true)
    else if t = "false".toList then some (.bool false)
    else (parseInt t).map Scalar.int

/-! ## Tokens typed in a mutation, a filter or a data model -/

def lower (s : List Char) : List Char := s.map Char.toLower

def isIntTok (s : List Char) : Bool :=
  match s with
  | '-' :: t => !t.isEmpty && t.all (fun c => (digitVal c).isSome)
  | t => !t.isEmpty && t.all (fun c => (digitVal c).isSome)

/-- body of a `"…"` token -/
def strBody (tok : List Char) : Option (List Char) :=
  match tok with
  | '"' :: rest =>
    match rest.reverse with
    | '"' :: body => some body.reverse
    | _ => none
  | _ => none

/-- A value token of the mutation grammar for a field of type `ty` (`parse_*_type` of mutation_parser.rs;
    the same typing is applied to default values and filter literals). Float tokens are not interpreted:
    the caller supplies the value (`fl`). -/
def parseTok (d : Defects) (ty : FieldTy) (nullable : Bool) (fl : Scalar) (tok : List Char) : Except Err Scalar :=
  if lower tok = "null".toList then
    (if nullable then .ok .null else .error .notnull)
  else if lower tok = "true".toList ∨ lower tok = "false".toList then
    (if ty ≠ .boolean then .error .type
     else if tok = "true".toList then .ok (.bool true)
     else if tok = "false".toList then .ok (.bool false)
     else .error .bool)
  else match strBody tok with
    | some body =>
      if !litOk body then .error .parse
      else match litValue d body with
        | none => .error .parse
        | some s =>
          (match ty with
           | .string => .ok (.str s)
           | .base64 => if b64Valid s then .ok (.str s) else .error .b64
           | .json => .ok (.json s)
           | _ => .error .type)
    | none =>
      if isIntTok tok then
        (match ty with
         | .integer => (match parseI64 tok with | some i => .ok (.int i) | none => .error .int)
         | .float => .ok fl
         | _ => .error .type)
      else
        (match ty with
         | .float => .ok fl
         | _ => .error .parse)

/-! ## Equality filter as SQLite evaluates it on the stored JSON -/

/-- `_json->>'$.k' = x` for a stored scalar (`none` = key absent) and a bound or spliced value.
    A SQL NULL on either side never satisfies `=`. Floats compare by value: the harness keeps
    equal-valued distinct bit patterns out of one case, so bits are compared. -/
def sqlEq (stored : Option Scalar) (x : Scalar) : Bool :=
  match stored, x with
  | none, _ => false
  | some .null, _ => false
  | _, .null => false
  | some (.bool a), .bool b => a == b
  | some (.int a), .int b => a == b
  | some (.str a), .str b => a == b
  | some (.float a _), .float b _ => a == b
  | some (.json a), .json b => a == b
  | _, _ => false

/-- `_json->>'$.k' is null` -/
def sqlIsNull (stored : Option Scalar) : Bool :=
  match stored with
  | none => true
  | some .null => true
  | _ => false

/-- where the filter value comes from -/
inductive FilterVal
  | param (v : Scalar)      -- `field = $f`
  | lit (v : Scalar)        -- `field = <literal>` (a `null` literal becomes `is null`)
deriving Repr, DecidableEq

/-- The equality filter on a field (`get_where_filters`, the default-aware rule included):
    `dflt` is the field's default value, if any. -/
def filterMatches (d : Defects) (dflt : Option Scalar) (stored : Option Scalar) (f : FilterVal) : Bool :=
  match f with
  | .lit .null => sqlIsNull stored
  | .param .null => if d.nullParamNoMatch then false else sqlIsNull stored
  | .lit x | .param x =>
    match dflt with
    | some dv => if sqlEq (some dv) x then sqlEq stored x || sqlIsNull stored else sqlEq stored x
    | none => sqlEq stored x

/-! ## Updating a row (`mutation_query.rs:144-315`): the previous content is kept, assigned fields overwritten -/

/-- the scalar fields of a row: position ↦ stored value (none = no entry in `_json`) -/
abbrev RowVals := List (Option Scalar)

def setField : RowVals → Nat → Scalar → RowVals
  | [], _, _ => []
  | _ :: t, 0, v => some v :: t
  | x :: t, j + 1, v => x :: setField t j v

/-- `mutate { T { id:$id fj:v … } }`: the assigned fields in the order given -/
def applyUpdate (row : RowVals) : List (Nat × Scalar) → RowVals
  | [] => row
  | (j, v) :: rest => applyUpdate (setField row j v) rest

/-- what a query of every field returns for the row -/
def readRow (row : RowVals) : List Scalar := row.map fun x => x.getD .null

/-! ## The SQL statement of a query as a token list (`query.rs`) -/

/-- `ParamValue` of a literal or default value (`Binary` is a `str` here) -/
inductive Lit
  | null
  | bool (b : Bool)
  | int (i : Int)
  | float (disp : List Char)      -- Rust's `Display` text of the f64
  | str (s : List Char)
deriving Repr, DecidableEq

/-- One piece of the statement text. Everything the compiler writes itself (keywords, identifiers taken
    from the data model or from aliases, JSON paths) is `txt`; a value is either bound (`bind n` = `?n`)
    or spliced: `num` is a numeral or `true`/`false` printed by Rust, `quoted` is text written between
    single quotes. -/
inductive Tok
  | txt (s : String)
  | bind (n : Nat)
  | num (s : List Char)
  | quoted (s : List Char)
deriving Repr, DecidableEq

def Tok.render : Tok → String
  | .txt s => s
  | .bind n => "?" ++ toString n
  | .num s => String.ofList s
  | .quoted s => "'" ++ String.ofList s ++ "'"

def render (ts : List Tok) : String := String.join (ts.map Tok.render)

/-- a spliced token cannot end itself: numerals always, quoted text iff it has no quote and no NUL -/
def Tok.closed : Tok → Bool
  | .quoted s => s.all fun c => c != '\'' && c.toNat != 0
  | _ => true

structure FieldM where
  name : String
  short : String
  dflt : Option Lit
  isSystem : Bool
deriving Repr, DecidableEq

inductive FVal
  | var (name : String)
  | lit (l : Lit)
deriving Repr, DecidableEq

structure Filter where
  name : String          -- the name typed in the filter (a field name or an alias)
  op : String
  value : FVal
  selected : Bool        -- `is_selected`: the name is an alias of the selection
  field : FieldM
deriving Repr, DecidableEq

structure SelField where
  key : String           -- `field.name()`: alias or field name
  field : FieldM
deriving Repr, DecidableEq

/-- a sub-selection through an entity or array field (one level; its own fields are scalars) -/
structure SubQ where
  key : String           -- `field.name()`, also used as the table alias
  label : String         -- short name of the reference field (`_edge.label`)
  eshort : String        -- short name of the target entity
  fields : List SelField
  filters : List Filter
  isArray : Bool
  nullable : Bool
deriving Repr, DecidableEq

inductive QField
  | scalar (f : SelField)
  | sub (q : SubQ)
deriving Repr, DecidableEq

structure TopQ where
  table : String         -- `sql_aliased_name()`
  eshort : String
  fields : List QField
  filters : List Filter
deriving Repr, DecidableEq

/-- `SingleQuery.var_order`: (internal?, text of the literal or name of the variable) -/
abbrev Params := List (Bool × List Char)

def findSlot (d : Defects) (value : List Char) : Params → Nat → Option Nat
  | [], _ => none
  | (internal, v) :: rest, i =>
    if (d.varAliasesLiteral || !internal) && v = value then some i else findSlot d value rest (i + 1)

/-- `SingleQuery::add_param` -/
def addParam (d : Defects) (ps : Params) (internal : Bool) (value : List Char) : Params × Nat :=
  if internal then (ps ++ [(true, value)], ps.length + 1)
  else match findSlot d value ps 1 with
    | some i => (ps, i)
    | none => (ps ++ [(false, value)], ps.length + 1)

def tab (t : Nat) : Tok := .txt (String.join (List.replicate t "    "))

def jsField (short : String) : String := "_json->'$." ++ short ++ "'"

/-- a default value inside `Ifnull(…, default)` of a selection: strings are bound -/
def defaultTok (d : Defects) (ps : Params) : Lit → Params × Tok
  | .bool b => (ps, .num (toString b).toList)
  | .int i => (ps, .num (printInt i))
  | .float t => (ps, .num t)
  | .str s => let r := addParam d ps true s; (r.1, .bind r.2)
  | .null => (ps, .txt "null")

def selFieldToks (d : Defects) (ps : Params) (table : String) (f : SelField) : Params × List Tok :=
  if f.field.isSystem then
    (ps, [.txt ("'" ++ f.key ++ "', " ++ table ++ "." ++ f.field.short)])
  else match f.field.dflt with
    | some dv =>
      let r := defaultTok d ps dv
      (r.1, [.txt ("'" ++ f.key ++ "',Ifnull(" ++ jsField f.field.short ++ ","), r.2, .txt ")"])
    | none => (ps, [.txt ("'" ++ f.key ++ "'," ++ jsField f.field.short)])

/-- a filter value: variables and strings are bound, numbers and booleans spliced; `null` changes the operator -/
def filterValue (d : Defects) (ps : Params) (op : String) : FVal → Params × Tok × String
  | .var x => let r := addParam d ps false x.toList; (r.1, .bind r.2, op)
  | .lit (.bool b) => (ps, .num (toString b).toList, op)
  | .lit (.int i) => (ps, .num (printInt i), op)
  | .lit (.float t) => (ps, .num t, op)
  | .lit (.str s) => let r := addParam d ps true s; (r.1, .bind r.2, op)
  | .lit .null => (ps, .txt "null", if op = "=" then "is" else if op = "!=" then "is not" else op)

/-- the default value in the `WHEN default op value` test of a filter: spliced by the code;
    without the defect a String/Base64/Json default is bound like every other text -/
def filterDefaultTok (d : Defects) (ps : Params) : Lit → Params × Tok
  | .bool b => (ps, .num (toString b).toList)
  | .int i => (ps, .num (printInt i))
  | .float t => (ps, .num t)
  | .str s => if d.defaultSpliced then (ps, .quoted s) else let r := addParam d ps true s; (r.1, .bind r.2)
  | .null => (ps, .txt "null")

def filterToks (d : Defects) (ps : Params) (t : Nat) (f : Filter) : Params × List Tok :=
  let r := filterValue d ps f.op f.value
  let ps := r.1
  let v := r.2.1
  let op := r.2.2
  if f.field.isSystem then
    (ps, [.txt (f.name ++ " " ++ op ++ " "), v])
  else
    let lhs := if f.selected then "value->>'$." ++ f.name ++ "'" else "_json->>'$." ++ f.field.short ++ "'"
    match f.field.dflt with
    | some dv =>
      let rd := filterDefaultTok d ps dv
      (rd.1,
        [.txt "CASE\n", tab (t + 1), .txt "WHEN ", rd.2, .txt (" " ++ op ++ " "), v, .txt " THEN ",
         .txt (lhs ++ " " ++ op ++ " "), v, .txt (" OR " ++ lhs ++ " is null \n"),
         tab (t + 1), .txt "ELSE ", .txt (lhs ++ " " ++ op ++ " "), v, .txt " \n", tab t, .txt "END"])
    | none => (ps, [.txt (lhs ++ " " ++ op ++ " "), v])

def filtersLoop (d : Defects) (t : Nat) : Params → List Filter → Params × List Tok
  | ps, [] => (ps, [])
  | ps, [f] => filterToks d ps t f
  | ps, f :: rest =>
    let r := filterToks d ps t f
    let r2 := filtersLoop d t r.1 rest
    (r2.1, r.2 ++ [.txt " AND\n", tab t] ++ r2.2)

/-- `get_where_filters` -/
def whereFilters (d : Defects) (ps : Params) (t : Nat) (fs : List Filter) : Params × List Tok :=
  if fs.isEmpty then (ps, [])
  else
    let r := filtersLoop d t ps fs
    (r.1, [.txt "AND ", .txt "\n", tab t] ++ r.2)

def selFieldsLoop (d : Defects) (table : String) (t : Nat) : Params → List SelField → Params × List Tok
  | ps, [] => (ps, [])
  | ps, [f] => let r := selFieldToks d ps table f; (r.1, [.txt "\n", tab t] ++ r.2)
  | ps, f :: rest =>
    let r := selFieldToks d ps table f
    let r2 := selFieldsLoop d table t r.1 rest
    (r2.1, [.txt "\n", tab t] ++ r.2 ++ [.txt ","] ++ r2.2)

/-- `get_fields` of a sub-selection (scalars only) -/
def subFields (d : Defects) (ps : Params) (q : SubQ) (t : Nat) : Params × List Tok :=
  let r := selFieldsLoop d q.key t ps q.fields
  (r.1, [.txt "json_object("] ++ r.2 ++ [.txt ")"])

/-- `get_sub_entity_query` (no search, no ordering, no paging, no limit other than `LIMIT 1`) -/
def subEntityQuery (d : Defects) (ps : Params) (q : SubQ) (parent : String) (t : Nat) (unique : Bool) :
    Params × List Tok :=
  let sel := subFields d ps q t
  let wh := whereFilters d sel.1 t q.filters
  (wh.1,
    [tab t, .txt "SELECT \n", tab t] ++ sel.2 ++
    [.txt " as value \n", tab t,
     .txt ("FROM _edge JOIN _node " ++ q.key ++ " on _edge.dest=" ++ q.key ++ ".id AND _edge.label='" ++ q.label ++ "'"),
     .txt "\n", tab t, .txt "WHERE \n", tab t,
     .txt (q.key ++ "._entity='" ++ q.eshort ++ "' AND \n"), tab t,
     .txt ("_edge.src=" ++ parent ++ ".id ")] ++ wh.2 ++
    [.txt "\n", tab t, .txt (if unique then "LIMIT 1 " else "")])

/-- `get_sub_group_array` -/
def subGroupArray (d : Defects) (ps : Params) (q : SubQ) (parent : String) (t : Nat) : Params × List Tok :=
  let sub := subEntityQuery d ps q parent (t + 1) false
  (sub.1,
    [tab t, .txt "SELECT \n", tab t, .txt "json_group_array(value->'$') as value \n", tab t, .txt "FROM (\n"] ++
    sub.2 ++ [.txt "\n", tab t, .txt ")", .txt "\n", tab t])

def qFieldToks (d : Defects) (ps : Params) (table : String) (t : Nat) : QField → Params × List Tok
  | .scalar f => selFieldToks d ps table f
  | .sub q =>
    if q.isArray then
      let r := subGroupArray d ps q table (t + 1)
      (r.1, [.txt ("'" ++ q.key ++ "', (\n")] ++ r.2 ++ [.txt "\n", tab t, .txt ")"])
    else
      let r := subEntityQuery d ps q table (t + 1) true
      (r.1, [.txt ("'" ++ q.key ++ "', (\n")] ++ r.2 ++ [.txt "\n", tab t, .txt ")->'$'"])

def qFieldsLoop (d : Defects) (table : String) (t : Nat) : Params → List QField → Params × List Tok
  | ps, [] => (ps, [])
  | ps, [f] => let r := qFieldToks d ps table t f; (r.1, [.txt "\n", tab t] ++ r.2)
  | ps, f :: rest =>
    let r := qFieldToks d ps table t f
    let r2 := qFieldsLoop d table t r.1 rest
    (r2.1, [.txt "\n", tab t] ++ r.2 ++ [.txt ","] ++ r2.2)

/-- `get_exists_query`: one `AND EXISTS (…)` per non-nullable sub-selection, compiled a second time -/
def existsLoop (d : Defects) (table : String) (t : Nat) : Params → List QField → Params × List Tok
  | ps, [] => (ps, [])
  | ps, .scalar _ :: rest => existsLoop d table t ps rest
  | ps, .sub q :: rest =>
    if q.nullable then existsLoop d table t ps rest
    else
      let r := subEntityQuery d ps q table (t + 1) (!q.isArray)
      let r2 := existsLoop d table t r.1 rest
      (r2.1, [tab t, .txt "AND EXISTS (\n"] ++ r.2 ++ [.txt "\n", tab t, .txt ")", .txt "\n"] ++ r2.2)

/-- `get_entity_query` at depth `t` -/
def entityQuery (d : Defects) (ps : Params) (q : TopQ) (t : Nat) : Params × List Tok :=
  let sel := qFieldsLoop d q.table t ps q.fields
  let ex := existsLoop d q.table t sel.1 q.fields
  let wh := whereFilters d ex.1 t q.filters
  (wh.1,
    [tab t, .txt "SELECT \n", tab t, .txt "json_object("] ++ sel.2 ++ [.txt ")", .txt " as value\n", tab t,
     .txt ("FROM _node " ++ q.table), .txt "\n", tab t, .txt "WHERE \n", tab t,
     .txt (q.table ++ "._entity='" ++ q.eshort ++ "' ")] ++ ex.2 ++ wh.2 ++ [.txt "\n", tab t])

/-- `SingleQuery::build`: the parameters in binding order and the statement -/
def compile (d : Defects) (q : TopQ) : Params × List Tok :=
  let r := entityQuery d [] q 1
  (r.1, [.txt "SELECT \n", .txt "json_group_array(value->'$') \n", .txt "FROM (\n"] ++ r.2 ++ [.txt "\n )"])

def sqlTokens (d : Defects) (q : TopQ) : List Tok := (compile d q).2

end Discret.Value
