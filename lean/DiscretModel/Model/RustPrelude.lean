/-
Fixed prelude of the Rust→Lean translator T7 (translators/t7_room_kernel.py): the view of the
containers used by `room.rs` on which the regenerated definitions of Gen/RoomKernel.lean are written.
Import-free.

* `HashMap<K, Vec<V>>` is ONE list of values in insertion order together with a key accessor
  (`key : V → K`): the vector stored under `k` is the sub-list of the values whose key is `k`.
  A key is present iff a value was pushed under it (every `entry(k).or_default()` of the translated
  functions is followed by a `push` on each non-error path; the translator checks that the pushed
  value's own key field is the key).
* `HashMap<Uid, V>` is a list of values with distinct ids.
* `for x in coll { … return r; … }` is `findSome?`: the first iteration that returns decides.
  Iteration order of a hash map is unspecified in Rust; here it is the order of first insertion. The
  translated loops only ever `return true` from a loop whose fall-through value is `false`, so their
  result does not depend on the order (this is what the equalities of Lemmas/RoomKernelEq.lean with the
  order-free `List.any` of the hand-written model show).
-/
namespace Discret.Rust

/-- `m.entry(k).or_default()` read as a value / `m.get(k).unwrap_or_default()` -/
def mmGetD {K V : Type} [DecidableEq K] (key : V → K) (m : List V) (k : K) : List V :=
  m.filter (fun x => key x = k)

/-- `m.get(k)` -/
def mmGet {K V : Type} [DecidableEq K] (key : V → K) (m : List V) (k : K) : Option (List V) :=
  match mmGetD key m k with
  | [] => none
  | v :: vs => some (v :: vs)

/-- `m.contains_key(k)` -/
def mmContains {K V : Type} [DecidableEq K] (key : V → K) (m : List V) (k : K) : Bool :=
  m.any (fun x => key x = k)

/-- `m.entry(key(v)).or_default().push(v)` -/
def mmPush {V : Type} (m : List V) (v : V) : List V := m ++ [v]

/-- the distinct elements in order of first occurrence -/
def dedup {K : Type} [DecidableEq K] : List K → List K
  | [] => []
  | k :: ks => k :: (dedup ks).filter (fun x => x ≠ k)

/-- `for entry in &m` over a `HashMap<K, Vec<V>>`: `(key, vector)` pairs -/
def mmEntries {K V : Type} [DecidableEq K] (key : V → K) (m : List V) : List (K × List V) :=
  (dedup (m.map key)).map fun k => (k, mmGetD key m k)

/-- `for entry in &m` over a `HashMap<Uid, V>` -/
def hmEntries {K V : Type} (key : V → K) (m : List V) : List (K × V) := m.map fun v => (key v, v)

/-- `m.get(k)` on a `HashMap<Uid, V>` -/
def hmGet {K V : Type} [DecidableEq K] (key : V → K) (m : List V) (k : K) : Option V :=
  m.find? (fun x => key x = k)

def hmContains {K V : Type} [DecidableEq K] (key : V → K) (m : List V) (k : K) : Bool :=
  m.any (fun x => key x = k)

/-- `m.insert(key(v), v)`: replaces the value stored under that key, otherwise adds it -/
def hmInsert {K V : Type} [DecidableEq K] (key : V → K) (m : List V) (v : V) : List V :=
  if m.any (fun x => key x = key v) then m.map (fun x => if key x = key v then v else x) else m ++ [v]

/-- a `for` loop whose body may `return`: `some r` = returned `r`, `none` = ran to the end -/
def forReturn {α ρ : Type} (coll : List α) (body : α → Option ρ) : Option ρ := coll.findSome? body

end Discret.Rust
