/-
Model of the announcement path of discret (property C18):
  `src/database/sqlite_database.rs`  process_batch_write: the marks of a batch are written at the END of
                                     the batch, after every item, recompute items included;
  `src/database/daily_log.rs`        DailyMutations::write (mark = upsert need_recompute=1),
                                     DailyLogsUpdate::compute (a pass reports exactly the marked entries and clears them);
  `src/database/graph_database.rs`   DailyLogComputed -> DataChanged event (entries whose short entity name is
                                     unknown are left out, l.226-230); the API sends ComputeDailyLog after the
                                     acknowledgement of mutate/delete, and when a mutation stream is CLOSED;
  `src/database/mutation_query.rs`, `deletion.rs`, `node.rs`, `edge.rs`  which cells each kind of change marks;
  `src/database/authorisation_service.rs`  room mutation -> RoomModified carrying the re-validated room.

Two layers:
* the writer level (`W`, `Item`, `commit`, `run`): marks, passes, emitted events, for ANY batching;
* the API level (`State`, `Op`, `step`): what each entry point writes and marks, executed through the
  writer level with the batching a sequential caller gets. This is what the driver runs against the real
  code. A cell is `(room, entity, day)`.
Import-free (core Lean only).
-/
namespace Discret.Events

abbrev Room := Nat
abbrev Ent := Nat
abbrev Day := Nat

structure Cell where
  room : Room
  ent : Ent
  day : Day
deriving Repr, DecidableEq

/-! ### writer level -/

/-- the database side: cells with `need_recompute = 1`, and the data-changed events emitted so far -/
structure W where
  marks : List Cell
  events : List (List Cell)
deriving Repr, DecidableEq

inductive Item where
  | write (marked : List Cell)      -- a change; the cells its `update_daily_logs` marks
  | pass                            -- a `ComputeDailyLog` item
deriving Repr, DecidableEq

/-- `DailyLogsUpdate::compute` + `DailyLogComputed`: every marked entry is reported and unmarked;
    the event keeps the entries whose entity short name resolves (`known`). -/
def passW (known : Ent → Bool) (w : W) : W :=
  { marks := [], events := w.events ++ [w.marks.filter fun c => known c.ent] }

/-- the items of one batch, in order; `pend` = the batch's `DailyMutations`, written at the end -/
def runItems (known : Ent → Bool) : W → List Cell → List Item → W × List Cell
  | w, pend, [] => (w, pend)
  | w, pend, .write m :: rest => runItems known w (pend ++ m) rest
  | w, pend, .pass :: rest => runItems known (passW known w) pend rest

/-- one committed batch (`process_batch_write`) -/
def commit (known : Ent → Bool) (w : W) (b : List Item) : W :=
  { marks := (runItems known w [] b).1.marks ++ (runItems known w [] b).2,
    events := (runItems known w [] b).1.events }

def run (known : Ent → Bool) : W → List (List Item) → W
  | w, [] => w
  | w, b :: bs => run known (commit known w b) bs

/-! ### API level -/

/-- deviations from the property found in the code, one switch per site -/
structure Defects where
  /-- `deletion.rs:91-93` (fixed in /repo by 456214b + 9b21e0a): a reference deletion re-dates and re-signs
      the source row even when no named reference exists; only the reference tombstones are marked -/
  refdelUnmarked : Bool
  /-- `graph_database.rs:331-339` (fixed in /repo by e303771): the recompute of a mutation stream is requested
      when the stream is closed, not after the acknowledgements of its mutations -/
  streamCloseEarly : Bool
deriving Repr, DecidableEq

def Defects.none : Defects := { refdelUnmarked := false, streamCloseEarly := false }
/-- what /repo does now: both deviations were fixed there (456214b + 9b21e0a, e303771); the switches are
    kept so that the witnesses in `Props/C18.lean` keep documenting the old behaviour and the corpus
    replays keep detecting a regression -/
def Defects.asImplemented : Defects := { refdelUnmarked := false, streamCloseEarly := false }

/-- the code before those fixes -/
def Defects.beforeFixes : Defects := { refdelUnmarked := true, streamCloseEarly := true }

structure Row where
  n : Nat
  room : Room
  ent : Ent
  day : Day
  ver : Nat            -- logical time of the last modification (the row's `mdate`)
deriving Repr, DecidableEq

structure Tomb where   -- row tombstone (`_node_deletion_log`)
  n : Nat
  room : Room
  ent : Ent
  mday : Day           -- day of the deleted version
  dtick : Nat          -- deletion time
  dday : Day
deriving Repr, DecidableEq

structure ETomb where  -- reference tombstone (`_edge_deletion_log`)
  src : Nat
  dst : Nat
  ctick : Nat
  dtick : Nat
  room : Room
  dday : Day
deriving Repr, DecidableEq

structure Ref where
  src : Nat
  dst : Nat
  ctick : Nat
deriving Repr, DecidableEq

structure RoomDef where
  room : Room
  entries : Nat        -- user entries added after creation
  dtick : Nat          -- date of the definition (`_room_changelog.mdate`)
deriving Repr, DecidableEq

/-- what a subscriber receives -/
inductive Ev where
  | data (cells : List Cell)
  | roomEv (d : RoomDef)
  | mark                       -- not an event: the point at which the changes of a stream reach the writer
deriving Repr, DecidableEq

structure Site where
  rows : List Row
  tombs : List Tomb
  etombs : List ETomb
  refs : List Ref
  defs : List RoomDef          -- installed room definitions
  log : List Cell              -- cells having a `_daily_log` row
  w : W
deriving Repr, DecidableEq

def Site.empty : Site :=
  { rows := [], tombs := [], etombs := [], refs := [], defs := [], log := [], w := { marks := [], events := [] } }

structure State where
  d : Defects
  sites : List Site
  tick : Nat
  day : Day
  usedRows : List Nat
  rooms : List (Room × Nat)    -- room, owning site
deriving Repr, DecidableEq

def init (d : Defects) (nsites : Nat) : State :=
  { d := d, sites := List.replicate nsites Site.empty, tick := 0, day := 0, usedRows := [], rooms := [] }

/-- one step of an operation at a site: a change (with the cells whose stored content gains a signature,
    and the cells the code marks), a recompute request, a room-modified notification -/
inductive Act where
  | write (touched marked : List Cell)
  | pass
  | roomEv (d : RoomDef)
  | mark
deriving Repr, DecidableEq

def allKnown : Ent → Bool := fun _ => true

/-- a sequential caller: every change is its own batch, every request too -/
def execActs : Site → List Act → Site × List Ev
  | s, [] => (s, [])
  | s, .write _ m :: rest =>
    let s1 := { s with w := commit allKnown s.w [.write m], log := s.log ++ m }
    let r := execActs s1 rest
    (r.1, r.2)
  | s, .pass :: rest =>
    let s1 := { s with w := commit allKnown s.w [.pass] }
    let r := execActs s1 rest
    (r.1, .data (s.w.marks.filter fun c => allKnown c.ent) :: r.2)
  | s, .roomEv d :: rest =>
    let r := execActs s rest
    (r.1, .roomEv d :: r.2)
  | s, .mark :: rest =>
    let r := execActs s rest
    (r.1, .mark :: r.2)

def touchedOf : List Act → List Cell
  | [] => []
  | .write t _ :: rest => t ++ touchedOf rest
  | _ :: rest => touchedOf rest

def findRow (n : Nat) : List Row → Option Row
  | [] => none
  | r :: rest => if r.n = n then some r else findRow n rest

def eraseRow (n : Nat) (l : List Row) : List Row := l.filter fun r => r.n ≠ n

def setRow (r : Row) (l : List Row) : List Row := eraseRow r.n l ++ [r]

def findDef (room : Room) : List RoomDef → Option RoomDef
  | [] => none
  | d :: rest => if d.room = room then some d else findDef room rest

def setDef (d : RoomDef) (l : List RoomDef) : List RoomDef := (l.filter fun x => x.room ≠ d.room) ++ [d]

def hasRef (src dst : Nat) (l : List Ref) : Bool := l.any fun r => r.src = src && r.dst = dst

def cellOf (r : Row) : Cell := { room := r.room, ent := r.ent, day := r.day }

inductive Mode where
  | acked | early
deriving Repr, DecidableEq

/-- the local operations a concurrent mix may contain -/
inductive Sub where
  | new (n : Nat) (r : Room) (e : Ent)
  | upd (n : Nat)
  | del (n : Nat)
  | roomadd (r : Room)
  | stream (rows : List (Nat × Room × Ent))     -- a stream closed after its acknowledgements
deriving Repr, DecidableEq

inductive Op where
  | day (add : Nat)
  | room (s : Nat) (r : Room)
  | roomadd (s : Nat) (r : Room)
  | new (s n : Nat) (r : Room) (e : Ent)
  | upd (s n : Nat) (r : Option Room)
  | nop (s n : Nat)
  | ref (s n m : Nat)
  | unref (s n : Nat)
  | del (s n : Nat)
  | refdel (s n m : Nat)
  | stream (s : Nat) (mode : Mode) (rows : List (Nat × Room × Ent))
  | pull (s t : Nat) (r : Room)
  | flush (s : Nat)
  | mix (s : Nat) (subs : List Sub) (pull : Option (Nat × Room))   -- `pull`: a concurrent ingestion from that site
deriving Repr

/-- local ops: the new site and the actions, or `none` when the op is not applicable (skipped) -/
def localOp (d : Defects) (tick : Nat) (day : Day) (usedRows : List Nat) (rooms : List (Room × Nat))
    (sidx : Nat) (s : Site) : Op → Option (Site × List Act)
  | .room _ r =>
    if rooms.any (fun x => x.1 = r) then none
    else
      let df : RoomDef := { room := r, entries := 0, dtick := tick }
      some ({ s with defs := setDef df s.defs }, [.roomEv df, .write [] [], .pass])
  | .roomadd _ r =>
    match findDef r s.defs with
    | some df =>
      if rooms.any (fun x => x.1 = r && x.2 = sidx) then
        let df' : RoomDef := { room := r, entries := df.entries + 1, dtick := tick }
        some ({ s with defs := setDef df' s.defs }, [.roomEv df', .write [] [], .pass])
      else none
    | none => none
  | .new _ n r e =>
    if usedRows.contains n || e ≥ 2 || (findDef r s.defs).isNone then none
    else
      let row : Row := { n := n, room := r, ent := e, day := day, ver := tick }
      some ({ s with rows := setRow row s.rows }, [.write [cellOf row] [cellOf row], .pass])
  | .upd _ n r' =>
    match findRow n s.rows with
    | none => none
    | some old =>
      let target := r'.getD old.room
      if r'.isSome && (findDef target s.defs).isNone then none
      else
        let row : Row := { old with room := target, day := day, ver := tick }
        some ({ s with rows := setRow row s.rows }, [.write [cellOf row] [cellOf row, cellOf old], .pass])
  | .nop _ n =>
    match findRow n s.rows with
    | none => none
    | some old => some (s, [.write [] [cellOf old], .pass])
  | .ref _ n m =>
    match findRow n s.rows, findRow m s.rows with
    | some rn, some rm =>
      if n = m || rn.ent ≠ 0 || rm.ent ≠ 0 then none
      else if hasRef n m s.refs then
        some (s, [.write [] [cellOf rm, cellOf rn], .pass])
      else
        let row : Row := { rn with day := day, ver := tick }
        some ({ s with rows := setRow row s.rows, refs := s.refs ++ [{ src := n, dst := m, ctick := tick }] },
              [.write [cellOf row] [cellOf rm, cellOf row, cellOf rn], .pass])
    | _, _ => none
  | .unref _ n =>
    match findRow n s.rows with
    | none => none
    | some rn =>
      if rn.ent ≠ 0 then none
      else
        let mine := s.refs.filter fun r => r.src = n
        if mine.isEmpty then some (s, [.write [] [cellOf rn], .pass])
        else
          let row : Row := { rn with day := day, ver := tick }
          let ts : List ETomb := mine.map fun r =>
            { src := r.src, dst := r.dst, ctick := r.ctick, dtick := tick, room := rn.room, dday := day }
          some ({ s with rows := setRow row s.rows, refs := s.refs.filter (fun r => r.src ≠ n),
                         etombs := s.etombs ++ ts },
                [.write [cellOf row] [cellOf row, cellOf rn], .pass])
  | .del _ n =>
    match findRow n s.rows with
    | none => none
    | some rn =>
      let t : Tomb := { n := n, room := rn.room, ent := rn.ent, mday := rn.day, dtick := tick, dday := day }
      let dc : Cell := { room := rn.room, ent := rn.ent, day := day }
      some ({ s with rows := eraseRow n s.rows, refs := s.refs.filter (fun r => r.src ≠ n && r.dst ≠ n),
                     tombs := s.tombs ++ [t] },
            [.write [dc] [cellOf rn, dc], .pass])
  | .refdel _ n m =>
    match findRow n s.rows, findRow m s.rows with
    | some rn, some rm =>
      if n = m || rn.ent ≠ 0 || rm.ent ≠ 0 then none
      else
        let row : Row := { rn with day := day, ver := tick }
        let fixed : List Cell := if d.refdelUnmarked then [] else [cellOf row, cellOf rn]
        match s.refs.find? (fun r => r.src = n && r.dst = m) with
        | some r =>
          let t : ETomb := { src := n, dst := m, ctick := r.ctick, dtick := tick, room := rn.room, dday := day }
          some ({ s with rows := setRow row s.rows, refs := s.refs.filter (fun x => !(x.src = n && x.dst = m)),
                         etombs := s.etombs ++ [t] },
                [.write [cellOf row] ([cellOf row] ++ fixed), .pass])
        | none =>
          -- no named reference exists: the row is left untouched (since /repo 456214b); before that fix it
          -- was re-dated and re-signed all the same, and nothing was marked
          if d.refdelUnmarked then some ({ s with rows := setRow row s.rows }, [.write [cellOf row] [], .pass])
          else some (s, [.write [] [], .pass])
    | _, _ => none
  | .flush _ => some (s, [.pass])
  | _ => none

/-- rows created by a stream: checked first (all or nothing, as the harness does) -/
def streamOk (usedRows : List Nat) (s : Site) : List Nat → List (Nat × Room × Ent) → Bool
  | _, [] => true
  | seen, (n, r, e) :: rest =>
    !(usedRows.contains n) && !(seen.contains n) && e < 2 && (findDef r s.defs).isSome
      && streamOk usedRows s (n :: seen) rest

def streamRows (tick : Nat) (day : Day) : List (Nat × Room × Ent) → List Row
  | [] => []
  | (n, r, e) :: rest => { n := n, room := r, ent := e, day := day, ver := tick } :: streamRows tick day rest

def streamActs (d : Defects) (mode : Mode) (rows : List Row) : List Act :=
  let writes := rows.map fun r => Act.write [cellOf r] [cellOf r]
  match mode, d.streamCloseEarly with
  | .early, true => .pass :: .mark :: writes
  | _, _ => .mark :: writes ++ [.pass]

/-! #### ingestion of a room from another site (the call sequence of `synchronise_day`) -/

def insertCell (c : Cell) : List Cell → List Cell
  | [] => [c]
  | h :: t =>
    if c = h then h :: t
    else if c.day < h.day || (c.day = h.day && c.ent < h.ent) then c :: h :: t
    else h :: insertCell c t

/-- the remote log of a room: distinct (entity, day), ordered by day then entity -/
def roomLog (r : Room) (log : List Cell) : List Cell :=
  (log.filter fun c => c.room = r).foldl (fun acc c => insertCell c acc) []

structure PullAcc where
  dst : Site
  acts : List Act
  modified : Bool
  orig : Site              -- the destination when the ingestion started

def pullETombs (src : Site) (c : Cell) (a : PullAcc) : PullAcc :=
  let ts := src.etombs.filter fun t => t.room = c.room && c.ent = 0 && t.dday = c.day
  if ts.isEmpty then a
  else
    let fresh := ts.filter fun t => !(a.dst.etombs.contains t)
    let dst := { a.dst with
      refs := a.dst.refs.filter (fun r => !(ts.any fun t => t.src = r.src && t.dst = r.dst && t.ctick = r.ctick)),
      etombs := a.dst.etombs ++ fresh }
    { dst := dst,
      acts := a.acts ++ [.write (fresh.map fun _ => c) (ts.map fun _ => c)],
      modified := true, orig := a.orig }

def pullTombs (src : Site) (c : Cell) (a : PullAcc) : PullAcc :=
  let ts := src.tombs.filter fun t => t.room = c.room && t.ent = c.ent && t.dday = c.day
  if ts.isEmpty then a
  else
    let fresh := ts.filter fun t => !(a.dst.tombs.contains t)
    let dst := { a.dst with
      rows := a.dst.rows.filter (fun r => !(ts.any fun t => t.n = r.n && t.room = r.room)),
      tombs := a.dst.tombs ++ fresh }
    { dst := dst,
      acts := a.acts ++ [.write (fresh.map fun _ => c)
        ((ts.flatMap fun t => [c, { room := t.room, ent := t.ent, day := t.mday }]) ++
         -- the day of the version stored locally, whatever version the record names
         ((a.dst.rows.filter fun r => ts.any fun t => t.n = r.n && t.room = r.room).map cellOf))],
      modified := true, orig := a.orig }

def pullRows (src : Site) (c : Cell) (a : PullAcc) : PullAcc :=
  -- /repo ffeda5d (`filter_deleted_in_room`): an announced id that carries a deletion record of the synchronised room at the
  -- destination — the records of this day have been applied just before — is not requested
  let cand := src.rows.filter fun r => r.room = c.room && r.ent = c.ent && r.day = c.day &&
    !(a.dst.tombs.any fun t => t.n = r.n && t.room = c.room)
  let fetched := cand.filter fun r =>
    match findRow r.n a.dst.rows with
    | none => true
    | some old => old.ver < r.ver
  if fetched.isEmpty then a
  else
    let marks := fetched.flatMap fun r =>
      match findRow r.n a.dst.rows with
      | some old => [{ room := old.room, ent := r.ent, day := old.day }, cellOf r]
      | none => [cellOf r]
    let edges := fetched.flatMap fun r =>
      let oldVer := match findRow r.n a.dst.rows with
        | some old => old.ver
        | none => 0
      src.refs.filter fun e => e.src = r.n && e.ctick ≥ oldVer
    let refs' := (a.dst.refs.filter fun x => !(edges.any fun e => e.src = x.src && e.dst = x.dst)) ++ edges
    let rows' := fetched.foldl (fun acc r => setRow r acc) a.dst.rows
    -- a version the destination already held when the ingestion started (removed by a tombstone of the
    -- same ingestion and fetched again) is not new content
    let gained := fetched.filter fun r => !(a.orig.rows.any fun o => o.n = r.n && o.ver = r.ver)
    { dst := { a.dst with rows := rows', refs := refs' },
      acts := a.acts ++ [.write (gained.map cellOf) marks],
      modified := true, orig := a.orig }

def pullEntry (src : Site) (a : PullAcc) (c : Cell) : PullAcc :=
  pullRows src c (pullTombs src c (pullETombs src c a))

/-- the room definition is imported when the local one is missing or older (`synchronise_room_definition`) -/
def pullLoads (dst : Site) (r : Room) (rd : RoomDef) : Bool :=
  match findDef r dst.defs with
  | none => true
  | some ld => ld.dtick < rd.dtick

def pullStart (dst : Site) (r : Room) (rd : RoomDef) : PullAcc :=
  if pullLoads dst r rd then
    { dst := { dst with defs := setDef rd dst.defs }, acts := [.roomEv rd], modified := false, orig := dst }
  else { dst := dst, acts := [], modified := false, orig := dst }

/-- cells whose stored content (row versions, tombstones) is larger after than before -/
def diffCells (before after : Site) : List Cell :=
  ((after.rows.filter fun r => !(before.rows.any fun o => o.n = r.n && o.ver = r.ver)).map cellOf) ++
  ((after.tombs.filter fun t => !(before.tombs.contains t)).map fun t => { room := t.room, ent := t.ent, day := t.dday }) ++
  ((after.etombs.filter fun t => !(before.etombs.contains t)).map fun t => { room := t.room, ent := 0, day := t.dday })

/-- what a change touched, restricted to what is still there at the end of the ingestion (a row fetched
    and then removed again by a tombstone of the same ingestion leaves nothing) -/
def restrictTouched (cells : List Cell) : List Act → List Act
  | [] => []
  | .write t m :: rest => .write (t.filter fun c => cells.contains c) m :: restrictTouched cells rest
  | a :: rest => a :: restrictTouched cells rest

/-- `synchronise_room`: the recompute is requested iff something was touched -/
def pullFinish (a : PullAcc) : Site × List Act :=
  (a.dst, if a.modified then restrictTouched (diffCells a.orig a.dst) a.acts ++ [.pass]
          else restrictTouched (diffCells a.orig a.dst) a.acts)

def pullOp (src dst : Site) (r : Room) : Option (Site × List Act) :=
  match findDef r src.defs with
  | none => none
  | some rd => some (pullFinish ((roomLog r src.log).foldl (pullEntry src) (pullStart dst r rd)))

/-! #### one operation -/

inductive Out where
  | ok
  | skip
  | obs (events : List Ev) (gained : List Cell)
deriving Repr, DecidableEq

def setSite (i : Nat) (s : Site) (l : List Site) : List Site := l.set i s

def siteOf : Op → Option Nat
  | .day _ => none
  | .room s _ | .roomadd s _ | .new s _ _ _ | .upd s _ _ | .nop s _ | .ref s _ _ | .unref s _
  | .del s _ | .refdel s _ _ | .stream s _ _ | .pull s _ _ | .flush s | .mix s _ _ => some s

/-! #### concurrent local operations on one site

The callers run concurrently; each one's recompute request follows its own acknowledgement. The model
executes the canonical schedule "all changes, then all requests"; `Props/C18.lean` proves that the union
of the announced cells is the same for every schedule with that ordering constraint. -/

def Sub.toOp (si : Nat) : Sub → Op
  | .new n r e => .new si n r e
  | .upd n => .upd si n none
  | .del n => .del si n
  | .roomadd r => .roomadd si r
  | .stream rows => .stream si .acked rows

/-- the rows a sub-operation creates or changes -/
def Sub.rows : Sub → List Nat
  | .new n _ _ | .upd n | .del n => [n]
  | .roomadd _ => []
  | .stream rows => rows.map fun x => x.1

def Sub.newRows : Sub → List Nat
  | .new n _ _ => [n]
  | .stream rows => rows.map fun x => x.1
  | _ => []

/-- changes an existing row (excluded when an ingestion runs concurrently: it could touch the same row) -/
def Sub.rowOp : Sub → Bool
  | .upd _ | .del _ => true
  | _ => false

/-- one sub-operation: the new site and its actions, the recompute request left out -/
def subApply (d : Defects) (tick : Nat) (day : Day) (usedRows : List Nat) (rooms : List (Room × Nat))
    (si : Nat) (s : Site) : Sub → Option (Site × List Act)
  | .stream rows =>
    if rows.isEmpty || !(streamOk usedRows s [] rows) then none
    else
      let rs := streamRows tick day rows
      some ({ s with rows := rs.foldl (fun acc r => setRow r acc) s.rows },
            rs.map fun r => Act.write [cellOf r] [cellOf r])
  | sub =>
    (localOp d tick day usedRows rooms si s (sub.toOp si)).map fun x => (x.1, x.2.filter fun a => a ≠ .pass)

/-- sub-operations applicable in the state at the start of the mix, on pairwise distinct rows (first wins) -/
def mixSelect (d : Defects) (tick : Nat) (day : Day) (usedRows : List Nat) (rooms : List (Room × Nat))
    (si : Nat) (noRowOps : Bool) (s : Site) : List Nat → List Sub → List Sub
  | _, [] => []
  | seen, sub :: rest =>
    if (subApply d tick day usedRows rooms si s sub).isSome && !(sub.rows.any fun n => seen.contains n)
        && !(noRowOps && sub.rowOp) then
      sub :: mixSelect d tick day usedRows rooms si noRowOps s (sub.rows ++ seen) rest
    else mixSelect d tick day usedRows rooms si noRowOps s seen rest

/-- apply the selected sub-operations one after the other -/
def mixApply (d : Defects) (tick : Nat) (day : Day) (usedRows : List Nat) (rooms : List (Room × Nat))
    (si : Nat) : Site → List Sub → Site × List Act
  | s, [] => (s, [])
  | s, sub :: rest =>
    match subApply d tick day usedRows rooms si s sub with
    | none => mixApply d tick day usedRows rooms si s rest
    | some (s1, acts) =>
      let r := mixApply d tick day usedRows rooms si s1 rest
      (r.1, acts ++ r.2)

/-- the concurrent ingestion of a mix, if applicable -/
def mixPull (st : State) (si : Nat) (s : Site) : Option (Nat × Room) → Option (Site × List Act)
  | none => none
  | some (ti, r) =>
    match st.sites[ti]? with
    | none => none
    | some src => if si = ti || !(st.rooms.any fun x => x.1 = r) then none else pullOp src s r

def mixSel (st : State) (si : Nat) (s : Site) (subs : List Sub) (pull : Option (Nat × Room)) : List Sub :=
  mixSelect st.d st.tick st.day st.usedRows st.rooms si (mixPull st si s pull).isSome s [] subs

/-- the site after the op and what happens there, or `none` (skipped) -/
def plan (st : State) (op : Op) : Option (Nat × Site × List Act) :=
  match op with
  | .day _ => none
  | .stream si mode rows =>
    match st.sites[si]? with
    | none => none
    | some s =>
      if rows.isEmpty || !(streamOk st.usedRows s [] rows) then none
      else
        let rs := streamRows st.tick st.day rows
        some (si, { s with rows := rs.foldl (fun acc r => setRow r acc) s.rows }, streamActs st.d mode rs)
  | .pull si ti r =>
    match st.sites[si]?, st.sites[ti]? with
    | some dst, some src =>
      if si = ti || !(st.rooms.any fun x => x.1 = r) then none
      else (pullOp src dst r).map fun x => (si, x.1, x.2)
    | _, _ => none
  | .mix si subs pull =>
    match st.sites[si]? with
    | none => none
    | some s =>
      let sel := mixSel st si s subs pull
      if sel.isEmpty then none
      else
        let pulled := (mixPull st si s pull).getD (s, [])
        let r := mixApply st.d st.tick st.day st.usedRows st.rooms si pulled.1 sel
        some (si, r.1, pulled.2.filter (fun a => a ≠ .pass) ++ r.2 ++
          List.replicate (sel.length + (if pulled.2.contains .pass then 1 else 0)) Act.pass)
  | op =>
    match siteOf op with
    | none => none
    | some si =>
      match st.sites[si]? with
      | none => none
      | some s => (localOp st.d st.tick st.day st.usedRows st.rooms si s op).map fun x => (si, x.1, x.2)

def newRowsOf (st : State) : Op → List Nat
  | .new _ n _ _ => [n]
  | .stream _ _ rows => rows.map fun x => x.1
  | .mix si subs pull =>
    match st.sites[si]? with
    | none => []
    | some s => (mixSel st si s subs pull).flatMap Sub.newRows
  | _ => []

def step (st : State) (op : Op) : State × Out :=
  match op with
  | .day k => ({ st with day := st.day + k }, .ok)
  | op =>
    match plan st op with
    | none => (st, .skip)
    | some (si, s1, acts) =>
      let r := execActs s1 acts
      let rooms := match op with
        | .room s r => st.rooms ++ [(r, s)]
        | _ => st.rooms
      ({ st with sites := setSite si r.1 st.sites, tick := st.tick + 1,
                 usedRows := st.usedRows ++ newRowsOf st op, rooms := rooms },
       .obs r.2 (touchedOf acts))

def runOps : State → List Op → State × List Out
  | st, [] => (st, [])
  | st, op :: ops =>
    let r := step st op
    let r2 := runOps r.1 ops
    (r2.1, r.2 :: r2.2)

end Discret.Events
