/-
Line-protocol helpers shared by the model drivers (import-free).
A line is `kind key=value key=value …`; values contain no spaces.
-/
namespace Discret.Proto

def tokens (line : String) : List String :=
  (line.trimAscii.toString.splitOn " ").filter (· ≠ "")

def kv? (toks : List String) (k : String) : Option String :=
  toks.findSome? fun t =>
    match t.splitOn "=" with
    | [a, b] => if a = k then some b else none
    | _ => none

def nat? (toks : List String) (k : String) : Option Nat :=
  (kv? toks k).bind String.toNat?

def int? (toks : List String) (k : String) : Option Int :=
  (kv? toks k).bind String.toInt?

def natList? (toks : List String) (k : String) : Option (List Nat) :=
  match kv? toks k with
  | none => none
  | some "" => some []
  | some s => (s.splitOn ",").mapM String.toNat?

def joinWith (sep : String) (l : List String) : String := sep.intercalate l

/-- generic stdin loop: `f state line = (state', output line)` -/
partial def loop {σ : Type} (h : IO.FS.Stream) (out : IO.FS.Stream) (f : σ → String → σ × String) (s : σ) : IO Unit := do
  let line ← h.getLine
  if line.isEmpty then
    out.flush
    return ()
  let (s', o) := f s line
  out.putStrLn o
  loop h out f s'

end Discret.Proto
