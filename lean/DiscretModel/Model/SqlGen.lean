import DiscretModel.Model.Query
/-
Literal model of the SQL text generation of `src/database/query.rs` (property C05) for the fragment

  one entity selection — no sub-selections, no aggregates, no json selectors, no `search` —
  with selected scalar fields (Integer / String / Boolean; required, nullable, with default; aliases), the
  `id` system field, filters `= != < <= > >=` on selected aliases and on (selected or unselected) fields with
  literal, `null` and parameter values, `order_by` on any number of keys asc / desc, `first` / `skip`
  (literal numbers), `before` / `after` (literal values).

`compile` builds a small SQL abstract syntax tree (`SqlSelect`: the `json_object` projection, FROM, the WHERE
conjuncts, the paging predicate, ORDER BY, LIMIT / OFFSET and the list of bound parameters `var_order`),
following `SingleQuery::build` → `get_entity_query` → `get_fields`, `get_where_filters`, `get_paging`,
`get_order`, `get_limit` call by call, `SingleQuery::add_param` included. `render` prints the tree: the text
must equal `SingleQuery.sql_query` byte for byte (compared on every run by the `sqlck` op of engine `query`).

The query is given as the `Query` of the reference evaluator (`Model/Query.lean`); what the parser
(`query_parser.rs`) adds to it — names — comes from `Names` (short names of the data model, the SQL alias of
the selection) and `vn` (the name of the variable of the i-th filter). `is_selected` of the parser is
`onAlias` (`build_filter`, `build_order_by`: the name is looked up among the selection's keys only when it is
not a field of the entity). The meaning of the tree is `Model/SqlSem.lean`; `Lemmas/SqlCompile.lean` proves
that it is the evaluator's. One level of sub-selections through reference fields is added by
`Model/SqlGenSub.lean` / `Model/SqlSemSub.lean` / `Lemmas/SqlCompileSub.lean` on top of this file
(`compileFrom` continues the bind list of an enclosing statement).

This file imports the evaluator's types only (core Lean otherwise) so that the driver can be compiled.
-/
namespace Discret.SqlGen
open Discret.Query

/-! ## The tree -/

/-- an entry of `SingleQuery.var_order` -/
inductive Bound
  | text (s : List Char)   -- `internal`: a string literal of the query or a string default of the data model
  | var (name : String)    -- a variable of the query, bound from the caller's parameters when the query runs
deriving Repr, DecidableEq

abbrev Binds := List Bound

/-- a value position of the statement -/
inductive Operand
  | bind (n : Nat)      -- `?n`
  | int (i : Int)       -- `i64::to_string`
  | bool (b : Bool)     -- `true` / `false`
  | null                -- `null`
deriving Repr, DecidableEq

inductive CmpOp | eq | ne | lt | le | gt | ge | is | isNot
deriving Repr, DecidableEq

/-- what a comparison or an ordering looks at -/
inductive Lhs
  | json (short : String)    -- `_json->>'$.short'`: the stored field
  | value (key : String)     -- `value->>'$.key'`: the selected value (`value` is the `json_object` of the row)
deriving Repr, DecidableEq

/-- one value of the `json_object` projection -/
inductive ProjExpr
  | field (short : String)                    -- `_json->'$.short'`
  | ifnull (short : String) (d : Operand)     -- `Ifnull(_json->'$.short',d)`
  | rowId                                     -- ` base64_encode(table.id)`
deriving Repr, DecidableEq

/-- `lhs op rhs` -/
structure Atom where
  lhs : Lhs
  op : CmpOp
  rhs : Operand
deriving Repr, DecidableEq

/-- one conjunct of `get_where_filters` -/
inductive Cond
  | atom (a : Atom)
  /-- `CASE WHEN d op rhs THEN lhs op rhs OR lhs is null ELSE lhs op rhs END` (filter on a field with a default) -/
  | caseDefault (d : Operand) (a : Atom)
deriving Repr, DecidableEq

structure OrderTerm where
  lhs : Lhs
  desc : Bool
deriving Repr, DecidableEq

structure SqlSelect where
  table : String                       -- alias of `_node`
  entity : String                      -- `table._entity='entity'`
  proj : List (String × ProjExpr)      -- `json_object('key', expr, …) as value`
  filters : List Cond                  -- AND-ed
  paging : List (List Atom)            -- `((a AND b) OR (c))`, AND-ed with the rest; `[]` = none
  order : List OrderTerm
  limit : Option Int                   -- `LIMIT n` (`-1`: none, written only to carry an OFFSET)
  offset : Option Nat
  binds : Binds                        -- `var_order`: the value of `?n` is entry n (from 1)
deriving Repr, DecidableEq

/-! ## The printer -/

def tab (t : Nat) : String := String.join (List.replicate t "    ")

def Operand.render : Operand → String
  | .bind n => "?" ++ toString n
  | .int i => toString i
  | .bool b => if b then "true" else "false"
  | .null => "null"

def CmpOp.render : CmpOp → String
  | .eq => "=" | .ne => "!=" | .lt => "<" | .le => "<=" | .gt => ">" | .ge => ">=" | .is => "is" | .isNot => "is not"

def Lhs.render : Lhs → String
  | .json short => "_json->>'$." ++ short ++ "'"
  | .value key => "value->>'$." ++ key ++ "'"

def Atom.render (a : Atom) : String := a.lhs.render ++ " " ++ a.op.render ++ " " ++ a.rhs.render

def jsField (short : String) : String := "_json->'$." ++ short ++ "'"

/-- one entry of `get_fields` -/
def renderProj (table : String) : String × ProjExpr → String
  | (key, .field short) => "'" ++ key ++ "'," ++ jsField short
  | (key, .ifnull short d) => "'" ++ key ++ "',Ifnull(" ++ jsField short ++ "," ++ d.render ++ ")"
  | (key, .rowId) => "'" ++ key ++ "', base64_encode(" ++ table ++ ".id)"

/-- `sep`-separated concatenation (the `peek().is_some()` loops of `query.rs`) -/
def joinSep (sep : String) : List String → String
  | [] => ""
  | [x] => x
  | x :: rest => x ++ sep ++ joinSep sep rest

/-- `get_fields` -/
def renderFields (table : String) (t : Nat) (proj : List (String × ProjExpr)) : String :=
  "json_object(" ++ joinSep "," (proj.map fun p => "\n" ++ tab t ++ renderProj table p) ++ ")"

/-- one filter of `get_where_filters` -/
def Cond.render (t : Nat) : Cond → String
  | .atom a => a.render
  | .caseDefault d a =>
    "CASE\n" ++ tab (t + 1) ++ "WHEN " ++ d.render ++ " " ++ a.op.render ++ " " ++ a.rhs.render ++ " THEN " ++
      a.render ++ " OR " ++ a.lhs.render ++ " is null \n" ++
      tab (t + 1) ++ "ELSE " ++ a.render ++ " \n" ++ tab t ++ "END"

/-- `get_where_filters` (no json filters in the fragment) -/
def renderFilters (t : Nat) (fs : List Cond) : String :=
  if fs.isEmpty then "" else "AND \n" ++ tab t ++ joinSep (" AND\n" ++ tab t) (fs.map (Cond.render t))

/-- `get_paging` -/
def renderPaging (alts : List (List Atom)) : String :=
  if alts.isEmpty then ""
  else
    let par := alts.length > 1
    "(" ++ joinSep " OR " (alts.map fun alt =>
      (if par then "(" else "") ++ joinSep " AND " (alt.map Atom.render) ++ (if par then ")" else "")) ++ ") "

/-- `get_order` -/
def renderOrder (os : List OrderTerm) : String :=
  "ORDER BY " ++ joinSep ", " (os.map fun o => o.lhs.render ++ " " ++ (if o.desc then "desc" else "asc") ++ " ")

/-- `get_limit` -/
def renderLimit (limit : Option Int) (offset : Option Nat) : String :=
  (match limit with | some n => "LIMIT " ++ toString n | none => "") ++
  (match offset with | some k => " OFFSET " ++ toString k | none => "")

/-- `get_end_select_query` (not an aggregate, no search) -/
def renderEnd (t : Nat) (s : SqlSelect) : String :=
  renderFilters t s.filters ++
  (if s.paging.isEmpty then "" else " AND \n" ++ tab t) ++ renderPaging s.paging ++
  (if s.order.isEmpty then "" else "\n" ++ tab t ++ renderOrder s.order)

/-- `get_entity_query` at depth `t` -/
def renderEntity (t : Nat) (s : SqlSelect) : String :=
  tab t ++ "SELECT \n" ++ tab t ++ renderFields s.table t s.proj ++ " as value\n" ++
  tab t ++ "FROM _node " ++ s.table ++ "\n" ++
  tab t ++ "WHERE \n" ++ tab t ++ s.table ++ "._entity='" ++ s.entity ++ "' " ++
  renderEnd t s ++ "\n" ++ tab t ++ renderLimit s.limit s.offset

/-- `SingleQuery::build`: the statement text -/
def render (s : SqlSelect) : String :=
  "SELECT \n" ++ "json_group_array(value->'$') \n" ++ "FROM (\n" ++ renderEntity 1 s ++ "\n )"

/-! ## The compiler -/

/-- what the data model and the parser know about names -/
structure Names where
  table : String                      -- `sql_aliased_name()`: alias or name of the selection, `.` replaced by `$`
  entShort : Nat → String             -- short name of an entity
  fieldShort : Nat → Nat → String     -- short name of a field of an entity

def findVar (x : String) : Binds → Nat → Option Nat
  | [], _ => none
  | .var y :: rest, i => if y = x then some i else findVar x rest (i + 1)
  | .text _ :: rest, i => findVar x rest (i + 1)

/-- `SingleQuery::add_param`: an internal text always takes a new slot, a variable reuses the slot of the same
    variable -/
def addParam (ps : Binds) (b : Bound) : Binds × Nat :=
  match b with
  | .text _ => (ps ++ [b], ps.length + 1)
  | .var x =>
    match findVar x ps 1 with
    | some i => (ps, i)
    | none => (ps ++ [b], ps.length + 1)

/-- a literal or default value in the statement: numbers and booleans are written, texts are bound -/
def litOperand (ps : Binds) : Val → Binds × Operand
  | .null => (ps, .null)
  | .bool b => (ps, .bool b)
  | .int i => (ps, .int i)
  | .str s => let r := addParam ps (.text s); (r.1, .bind r.2)

def defaultOf (s : Schema) (ent fld : Nat) : Option Val := (fieldDef s ent fld).bind (·.dflt)

/-- `get_fields`: the scalar and `id` selections (anything else is outside the fragment and skipped) -/
def projLoop (nm : Names) (s : Schema) (ent : Nat) : Binds → List Sel → Binds × List (String × ProjExpr)
  | ps, [] => (ps, [])
  | ps, .scalar key fld :: rest =>
    match defaultOf s ent fld with
    | some dv =>
      let r := litOperand ps dv
      let r2 := projLoop nm s ent r.1 rest
      (r2.1, (key, .ifnull (nm.fieldShort ent fld) r.2) :: r2.2)
    | none =>
      let r2 := projLoop nm s ent ps rest
      (r2.1, (key, .field (nm.fieldShort ent fld)) :: r2.2)
  | ps, .id key :: rest =>
    let r2 := projLoop nm s ent ps rest
    (r2.1, (key, .rowId) :: r2.2)
  | ps, _ :: rest => projLoop nm s ent ps rest

def cmpOp : Cmp → CmpOp
  | .eq => .eq | .ne => .ne | .lt => .lt | .le => .le | .gt => .gt | .ge => .ge

/-- the operator of a filter whose value is the literal `null`: `=` becomes `is`, `!=` becomes `is not` -/
def nullOp : Cmp → CmpOp
  | .eq => .is | .ne => .isNot | o => cmpOp o

/-- the value of a filter and its operator: variables are bound by name -/
def filterValue (ps : Binds) (var : String) (f : Filter) : Binds × Operand × CmpOp :=
  if f.isParam then
    let r := addParam ps (.var var); (r.1, .bind r.2, cmpOp f.op)
  else
    match f.value with
    | .null => (ps, .null, nullOp f.op)
    | v => let r := litOperand ps v; (r.1, r.2, cmpOp f.op)

def filterLhs (nm : Names) (ent : Nat) (f : Filter) : Lhs :=
  if f.onAlias then .value f.name else .json (nm.fieldShort ent f.fld)

/-- one filter of `get_where_filters`: first the value, then (inside the `CASE`) the default -/
def filterCond (nm : Names) (s : Schema) (ent : Nat) (ps : Binds) (var : String) (f : Filter) : Binds × Cond :=
  let r := filterValue ps var f
  let a : Atom := { lhs := filterLhs nm ent f, op := r.2.2, rhs := r.2.1 }
  match defaultOf s ent f.fld with
  | some dv => let rd := litOperand r.1 dv; (rd.1, .caseDefault rd.2 a)
  | none => (r.1, .atom a)

/-- `vn i` is the name of the variable of the i-th filter (used when the filter's value is a variable) -/
def filtersLoop (nm : Names) (s : Schema) (ent : Nat) (vn : Nat → String) : Binds → Nat → List Filter → Binds × List Cond
  | ps, _, [] => (ps, [])
  | ps, i, f :: rest =>
    let r := filterCond nm s ent ps (vn i) f
    let r2 := filtersLoop nm s ent vn r.1 (i + 1) rest
    (r2.1, r.2 :: r2.2)

def orderLhs (nm : Names) (ent : Nat) (o : Order) : Lhs :=
  if o.onAlias then .value o.name else .json (nm.fieldShort ent o.fld)

/-- the strict comparison of `get_paging` -/
def pagingOp (before desc : Bool) : CmpOp :=
  if desc then (if before then .gt else .lt) else (if before then .lt else .gt)

/-- one alternative of `get_paging`: `k₀ = c₀ AND … AND kᵢ op cᵢ`; every value is written (and bound) again -/
def pagingAlt (nm : Names) (ent : Nat) (before : Bool) : Binds → List (Order × Val) → Binds × List Atom
  | ps, [] => (ps, [])
  | ps, [(o, c)] =>
    let r := litOperand ps c
    (r.1, [{ lhs := orderLhs nm ent o, op := pagingOp before o.desc, rhs := r.2 }])
  | ps, (o, c) :: rest =>
    let r := litOperand ps c
    let r2 := pagingAlt nm ent before r.1 rest
    (r2.1, { lhs := orderLhs nm ent o, op := .eq, rhs := r.2 } :: r2.2)

/-- the non-empty prefixes, shortest first -/
def inits1 {α : Type} : List α → List (List α)
  | [] => []
  | a :: t => [a] :: (inits1 t).map (a :: ·)

def pagingLoop (nm : Names) (ent : Nat) (before : Bool) : Binds → List (List (Order × Val)) → Binds × List (List Atom)
  | ps, [] => (ps, [])
  | ps, p :: rest =>
    let r := pagingAlt nm ent before ps p
    let r2 := pagingLoop nm ent before r.1 rest
    (r2.1, r.2 :: r2.2)

/-- `get_paging`: `before` if given, else `after`; the i-th cursor value goes with the i-th order key -/
def pagingOf (nm : Names) (ent : Nat) (ps : Binds) (q : Query) : Binds × List (List Atom) :=
  let before := !q.before.isEmpty
  let cursor := if before then q.before else q.after
  pagingLoop nm ent before ps (inits1 (q.orders.zip cursor))

/-- `get_limit` for literal numbers (`first 0` = no `first`, `skip 0` = no `skip` parameter) -/
def limitOf (first skip : Nat) : Option Int × Option Nat :=
  if skip = 0 then (if first = 0 then none else some (first : Int), none)
  else (some (if first = 0 then -1 else (first : Int)), some skip)

/-- `get_entity_query` for a query of the fragment, continuing the bind list `ps` (a sub-selection continues the
    list of the statement it is part of) -/
def compileFrom (nm : Names) (s : Schema) (vn : Nat → String) (ps : Binds) (q : Query) : SqlSelect :=
  let pr := projLoop nm s q.ent ps q.sels
  let fl := filtersLoop nm s q.ent vn pr.1 0 q.filters
  let pg := pagingOf nm q.ent fl.1 q
  let lim := limitOf q.first q.skip
  { table := nm.table, entity := nm.entShort q.ent, proj := pr.2, filters := fl.2, paging := pg.2,
    order := q.orders.map fun o => { lhs := orderLhs nm q.ent o, desc := o.desc },
    limit := lim.1, offset := lim.2, binds := pg.1 }

/-- **`SingleQuery::build`** for a query of the fragment -/
def compile (nm : Names) (s : Schema) (vn : Nat → String) (q : Query) : SqlSelect :=
  compileFrom nm s vn [] q

/-! ## The fragment -/

def scalarKind : FKind → Bool
  | .int | .str | .bool => true
  | _ => false

/-- a field a scalar selection, a filter or an ordering may name: a scalar of the entity; a default is never `null`
    (`default_value = { float | integer | boolean | string }` in `data_model.pest`) -/
def fieldOk (s : Schema) (ent fld : Nat) : Bool :=
  match fieldDef s ent fld with
  | some fd => scalarKind fd.kind && fd.dflt != some .null
  | none => false

def Sel.key : Sel → String
  | .scalar k _ | .id k | .agg k _ _ | .json k _ _ | .sub k _ _ _ => k

def selOk (s : Schema) (ent : Nat) : Sel → Bool
  | .scalar _ fld => fieldOk s ent fld
  | .id _ => true
  | _ => false

def distinctKeys : List String → Bool
  | [] => true
  | k :: rest => !rest.contains k && distinctKeys rest

def isScalarSel (name : String) (fld : Nat) : Sel → Bool
  | .scalar k f => k == name && f == fld
  | _ => false

/-- a name used as an alias (`is_selected`) is the key of a scalar selection of that field -/
def aliasOk (q : Query) (onAlias : Bool) (name : String) (fld : Nat) : Bool :=
  !onAlias || q.sels.any (isScalarSel name fld)

def filterOk (s : Schema) (q : Query) (f : Filter) : Bool :=
  f.jpath.isNone && !f.onRef && fieldOk s q.ent f.fld && aliasOk q f.onAlias f.name f.fld &&
  -- the literal `null` is accepted on a nullable field only (`build_filter`), and a nullable field has no default
  -- (`scalar_field = { scalar_type ~ (nullable | default)? }`)
  (f.isParam || f.value != .null || defaultOf s q.ent f.fld == none)

def orderOk (s : Schema) (q : Query) (o : Order) : Bool :=
  fieldOk s q.ent o.fld && aliasOk q o.onAlias o.name o.fld

/-- **the fragment** of the query language `compile` is a model for (what the parser accepts of it) -/
def inFragment (s : Schema) (q : Query) : Bool :=
  q.sels.all (selOk s q.ent) && distinctKeys (q.sels.map Sel.key) &&
  q.filters.all (filterOk s q) && q.orders.all (orderOk s q) &&
  -- `EntityQuery::finalize`: not both cursors, not more values than order keys, never `null`
  (q.after.isEmpty || q.before.isEmpty) &&
  q.after.length ≤ q.orders.length && q.before.length ≤ q.orders.length &&
  q.after.all (· != .null) && q.before.all (· != .null)

/-! ## The `_node` table that stores a data set -/

/-- a row of `_node` as far as the fragment reads it -/
structure NodeRow where
  id : Nat                       -- stands for the row's uid (`id` column)
  entity : String                -- `_entity`: short name of the entity
  json : List (String × Val)     -- `_json`: the stored scalars under the short names of their fields
deriving Repr, DecidableEq

abbrev Table := List NodeRow

def encodeRow (nm : Names) (r : Row) : NodeRow :=
  { id := r.id, entity := nm.entShort r.ent, json := r.vals.map fun kv => (nm.fieldShort r.ent kv.1, kv.2) }

/-- how the mutations store a data set: one `_node` row per row, in the same order -/
def encode (nm : Names) (data : Data) : Table := data.map (encodeRow nm)

end Discret.SqlGen
