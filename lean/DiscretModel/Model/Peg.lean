/-
A generic PEG interpreter with pest's semantics for accept / reject, used over grammar tables that the
translator T3 (`translators/t3_grammar.py`) regenerates from `src/database/query_language/*.pest`.

What is reproduced from pest (pest_generator 2.7, `generate_expr` / `generate_expr_atomic` / `skip`):
* ordered choice, sequence, `?`, `*`, `+`, `!`, `&`, strings, `^"case-insensitive"` strings (ASCII case
  folding), character ranges, `ANY`, `SOI`, `EOI`, the built-in classes the grammars use;
* implicit skipping: outside atomic rules `a ~ b` is `a ~ skip ~ b`, `e*` is `(e ~ (skip ~ e)*)?` and `e+` is
  `e ~ (skip ~ e)*`, where `skip = WHITESPACE* ~ (COMMENT ~ WHITESPACE*)*`; atomicity is dynamic: an atomic
  (`@`) or compound-atomic (`$`) rule switches skipping off for everything it calls, a non-atomic (`!`) rule
  switches it on again, normal and silent rules inherit; `WHITESPACE` and `COMMENT` themselves run atomically;
* silent / compound-atomic only change the produced tokens, not what is accepted: they are `normal` / `atomic` here.
Recursion is bounded by a fuel argument (depth); running out of fuel is reported as `oof`, never as a verdict.
This file is import-free.
-/
namespace Discret.Peg

inductive Cls where
  | letter | number
deriving Repr, DecidableEq

inductive PExpr where
  | str (s : List Char)
  | istr (s : List Char)
  | range (lo hi : Char)
  | any | soi | eoi
  | cls (c : Cls)
  | call (r : Nat)
  | seq (a b : PExpr)
  | alt (a b : PExpr)
  | opt (a : PExpr)
  | star (a : PExpr)
  | plus (a : PExpr)
  | neg (a : PExpr)
  | pos (a : PExpr)
deriving Repr

inductive RuleTy where
  | normal | atomic | nonAtomic
deriving Repr, DecidableEq

structure Rule where
  name : String
  ty : RuleTy
  body : PExpr
deriving Repr

structure Grammar where
  rules : List Rule
  ws : Option Nat
  comment : Option Nat
  letter : List (Nat × Nat)      -- Unicode general category L*, as inclusive code point ranges
  number : List (Nat × Nat)      -- Unicode general category N*
deriving Repr

inductive Res where
  | ok (rest : List Char)
  | fail
  | oof
deriving Repr, DecidableEq

def inRanges (rs : List (Nat × Nat)) (c : Char) : Bool := rs.any fun r => r.1 ≤ c.toNat && c.toNat ≤ r.2

def isAsciiAlpha (c : Char) : Bool := (65 ≤ c.toNat && c.toNat ≤ 90) || (97 ≤ c.toNat && c.toNat ≤ 122)

/-- `eq_ignore_ascii_case` on one character -/
def ieq (a b : Char) : Bool :=
  a == b || (isAsciiAlpha a && isAsciiAlpha b && (a.toNat + 32 == b.toNat || b.toNat + 32 == a.toNat))

def stripPrefix (eq : Char → Char → Bool) : List Char → List Char → Option (List Char)
  | [], inp => some inp
  | _ :: _, [] => none
  | p :: ps, c :: cs => if eq p c then stripPrefix eq ps cs else none

def ruleAt (g : Grammar) (i : Nat) : Option Rule := g.rules[i]?

/-- `WHITESPACE* ~ (COMMENT ~ WHITESPACE*)*`, built from the rules the grammar defines -/
def skipExpr (g : Grammar) : Option PExpr :=
  match g.ws, g.comment with
  | none, none => none
  | some w, none => some (.star (.call w))
  | none, some c => some (.star (.call c))
  | some w, some c => some (.seq (.star (.call w)) (.star (.seq (.call c) (.star (.call w)))))

mutual
/-- evaluate `e` on `inp`; `total` is the length of the whole input (for `SOI`) -/
def eval (g : Grammar) (total : Nat) : Nat → Bool → PExpr → List Char → Res
  | 0, _, _, _ => .oof
  | fuel + 1, atomic, e, inp =>
    match e with
    | .str s => match stripPrefix (· == ·) s inp with
      | some r => .ok r
      | none => .fail
    | .istr s => match stripPrefix ieq s inp with
      | some r => .ok r
      | none => .fail
    | .range lo hi => match inp with
      | c :: cs => if lo.toNat ≤ c.toNat && c.toNat ≤ hi.toNat then .ok cs else .fail
      | [] => .fail
    | .any => match inp with
      | _ :: cs => .ok cs
      | [] => .fail
    | .soi => if inp.length == total then .ok inp else .fail
    | .eoi => if inp.isEmpty then .ok inp else .fail
    | .cls c => match inp with
      | ch :: cs => if inRanges (match c with | .letter => g.letter | .number => g.number) ch then .ok cs else .fail
      | [] => .fail
    | .call r => match ruleAt g r with
      | none => .fail
      | some rule =>
        let at' := if some r == g.ws || some r == g.comment then true else
          match rule.ty with
          | .normal => atomic
          | .atomic => true
          | .nonAtomic => false
        eval g total fuel at' rule.body inp
    | .seq a b => match eval g total fuel atomic a inp with
      | .ok r1 => match skip g total fuel atomic r1 with
        | .ok r2 => eval g total fuel atomic b r2
        | o => o
      | o => o
    | .alt a b => match eval g total fuel atomic a inp with
      | .fail => eval g total fuel atomic b inp
      | o => o
    | .opt a => match eval g total fuel atomic a inp with
      | .fail => .ok inp
      | o => o
    | .star a => match eval g total fuel atomic a inp with
      | .ok r => more g total fuel atomic a r
      | .fail => .ok inp
      | .oof => .oof
    | .plus a => match eval g total fuel atomic a inp with
      | .ok r => more g total fuel atomic a r
      | o => o
    | .neg a => match eval g total fuel atomic a inp with
      | .ok _ => .fail
      | .fail => .ok inp
      | .oof => .oof
    | .pos a => match eval g total fuel atomic a inp with
      | .ok _ => .ok inp
      | o => o

/-- implicit skipping between the elements of a sequence / repetition -/
def skip (g : Grammar) (total : Nat) : Nat → Bool → List Char → Res
  | 0, _, _ => .oof
  | fuel + 1, atomic, inp =>
    if atomic then .ok inp else
    match skipExpr g with
    | none => .ok inp
    | some e => eval g total fuel true e inp

/-- `(skip ~ a)*` after a first `a` matched -/
def more (g : Grammar) (total : Nat) : Nat → Bool → PExpr → List Char → Res
  | 0, _, _, _ => .oof
  | fuel + 1, atomic, a, inp =>
    match skip g total fuel atomic inp with
    | .ok r1 => match eval g total fuel atomic a r1 with
      | .ok r2 => if r2.length < inp.length then more g total fuel atomic a r2 else .oof   -- no progress: pest would loop
      | .fail => .ok inp
      | .oof => .oof
    | .fail => .ok inp
    | .oof => .oof
end

def ruleIndex (g : Grammar) (name : String) : Option Nat :=
  g.rules.findIdx? (·.name == name)

/-- run rule `r` on `inp`: number of characters matched, or `none` when the grammar rejects -/
def run (g : Grammar) (fuel : Nat) (r : Nat) (inp : List Char) : Option (Option Nat) :=
  match eval g inp.length fuel false (.call r) inp with
  | .ok rest => some (some (inp.length - rest.length))
  | .fail => some none
  | .oof => none

/-- does rule `r` match the whole of `inp`? (`none`: out of fuel) -/
def matchesAll (g : Grammar) (fuel : Nat) (r : Nat) (inp : List Char) : Option Bool :=
  (run g fuel r inp).map fun m => m == some inp.length

end Discret.Peg
