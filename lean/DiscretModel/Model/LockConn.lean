import DiscretModel.Model.Lock
/-
Connection side of the room-lock protocol (`peer_inbound_service.rs`: `LocalPeerService::start`,
`process_acquired_room`, the clean-up when the connection loop ends), composed with the lock
service model. Import-free.

A connection owns one reply channel. Grants sent by the service sit in `inbox` until the connection
loop receives them; each received grant spawns a task which
  phase 0: has not yet inserted the room into `acquired`
  phase 1: inserted, synchronising                         (the room is "being synchronised")
  phase 2: has sent `Unlock(room)`, not yet removed it from `acquired`
and then disappears. When the loop ends (`close`):
  * code as fixed (`Defects.none`): the receiver is closed, the grants still in the inbox are
    released (`Unlock`), the running tasks release their own room when they end;
  * `cleanupUnlocksAcquired` (the code before the fix): `Unlock` is sent for every room in
    `acquired` while the tasks keep running (and will unlock again), then the receiver is dropped;
  * `inflightNotReleased` (the code before the fix): grants still in the inbox are discarded.
-/
namespace Discret.LockConn
open Discret.Lock

structure Defects where
  cleanupUnlocksAcquired : Bool
  inflightNotReleased : Bool
deriving Repr, DecidableEq

def Defects.none : Defects := { cleanupUnlocksAcquired := false, inflightNotReleased := false }
/-- the code before `fix: release each room lock exactly once when a connection ends` -/
def Defects.beforeFix : Defects := { cleanupUnlocksAcquired := true, inflightNotReleased := true }
/-- what /repo does now (validated by the correspondence run of engine `lockconn`) -/
def Defects.asImplemented : Defects := Defects.none

structure Conn where
  peer : Peer
  ch : Ch
  inbox : List Room
  acquired : List Room
  tasks : List (Room × Nat)
  closed : Bool
deriving Repr, DecidableEq

structure Sys where
  svc : State
  conns : List Conn
deriving Repr, DecidableEq

inductive SOp where
  | conn (i : Nat)                          -- a new connection (peer id and channel derived from i)
  | request (c : Nat) (rooms : List Room)   -- connection c asks for locks
  | recv (c : Nat)                          -- the loop receives the oldest grant and spawns its task
  | task (c : Nat) (k : Nat)                -- the k-th task of connection c advances one phase
  | close (c : Nat)                         -- the loop ends
  | raw (op : Op)                           -- a party outside the model talks to the lock service directly
deriving Repr, DecidableEq

/-- channel of modelled connection `i`; channels below this bound belong to outside parties -/
def connCh (i : Nat) : Ch := 100000 + i

def deliverOne (conns : List Conn) (g : Ch × Room) : List Conn :=
  conns.map fun c => if c.ch = g.1 && !c.closed then { c with inbox := c.inbox ++ [g.2] } else c

def deliver (conns : List Conn) (gs : List (Ch × Room)) : List Conn := gs.foldl deliverOne conns

/-- a service step; grants to modelled connections go to their inbox, the others are returned -/
def svcStep (s : Sys) (op : Op) : Sys × List (Ch × Room) :=
  let res := step s.svc op
  ({ svc := res.1, conns := deliver s.conns res.2 }, res.2.filter fun g => g.1 < connCh 0)

def setConn (s : Sys) (i : Nat) (c : Conn) : Sys := { s with conns := s.conns.set i c }

/-- advance the `k`-th task: returns the new task list and `(room, phase before)` -/
def advance : Nat → List (Room × Nat) → List (Room × Nat) × Option (Room × Nat)
  | _, [] => ([], none)
  | 0, (r, ph) :: t => (if ph < 2 then (r, ph + 1) :: t else t, some (r, ph))
  | k + 1, x :: t => let res := advance k t; (x :: res.1, res.2)

def unlockAll (s : Sys) (rooms : List Room) : Sys × List (Ch × Room) :=
  rooms.foldl (fun acc r => let res := svcStep acc.1 (.unlock r); (res.1, acc.2 ++ res.2)) (s, [])

def sstep (d : Defects) (s : Sys) : SOp → Sys × List (Ch × Room)
  | .conn i =>
    if s.conns.length = i then
      ({ s with conns := s.conns ++ [{ peer := i, ch := connCh i, inbox := [], acquired := [], tasks := [], closed := false }] }, [])
    else (s, [])
  | .request i rooms =>
    match s.conns[i]? with
    | some c => if c.closed then (s, []) else svcStep s (.request c.peer rooms c.ch)
    | none => (s, [])
  | .recv i =>
    match s.conns[i]? with
    | some c =>
      if c.closed then (s, []) else
      match c.inbox with
      | [] => (s, [])
      | r :: rest => (setConn s i { c with inbox := rest, tasks := c.tasks ++ [(r, 0)] }, [])
    | none => (s, [])
  | .task i k =>
    match s.conns[i]? with
    | some c =>
      let res := advance k c.tasks
      match res.2 with
      | some (r, 0) => (setConn s i { c with tasks := res.1, acquired := r :: c.acquired }, [])
      | some (r, 1) => svcStep (setConn s i { c with tasks := res.1 }) (.unlock r)
      | some (r, _) => (setConn s i { c with tasks := res.1, acquired := c.acquired.erase r }, [])
      | none => (s, [])
    | none => (s, [])
  | .close i =>
    match s.conns[i]? with
    | some c =>
      if c.closed then (s, []) else
      if d.cleanupUnlocksAcquired then
        -- before the fix: unlock what is being synchronised, then the receiver goes away
        let s1 := setConn s i { c with closed := true, inbox := [] }
        let r2 := unlockAll s1 c.acquired
        let r3 := svcStep r2.1 (.drop c.ch)
        let r4 := if d.inflightNotReleased then (r3.1, []) else unlockAll r3.1 c.inbox
        (r4.1, r2.2 ++ r3.2 ++ r4.2)
      else
        -- fixed: close the receiver, then release the grants still in flight
        let r2 := svcStep s (.drop c.ch)
        let s1 := setConn r2.1 i { c with closed := true, inbox := [] }
        let r3 := if d.inflightNotReleased then (s1, []) else unlockAll s1 c.inbox
        (r3.1, r2.2 ++ r3.2)
    | none => (s, [])
  | .raw op => svcStep s op

def srunOut (d : Defects) : Sys → List SOp → Sys × List (Ch × Room)
  | s, [] => (s, [])
  | s, op :: ops =>
    let r1 := sstep d s op
    let r2 := srunOut d r1.1 ops
    (r2.1, r1.2 ++ r2.2)

def srun (d : Defects) (s : Sys) (ops : List SOp) : Sys := (srunOut d s ops).1

/-- connections currently synchronising room `r` (task in phase 1) -/
def syncing (s : Sys) (r : Room) : List Nat :=
  (s.conns.zipIdx.filter fun ci => ci.1.tasks.any fun t => t.1 = r && t.2 = 1).map Prod.snd

/-- room `r` is locked in the service but no connection will ever release it -/
def orphaned (s : Sys) (r : Room) : Bool :=
  s.svc.locked.contains r &&
    s.conns.all fun c => !(c.inbox.contains r) && !(c.tasks.any fun t => t.1 = r && t.2 < 2)

def sinit (max : Nat) : Sys := { svc := init max, conns := [] }

/-! ### the eager schedule of the correspondence run

On a single-threaded runtime driven to quiescence after every harness operation, a grant is received
at once and its task runs up to its first remote query: `recv` then `task` (phase 0 → 1). -/

def settleConn (d : Defects) (s : Sys) (i : Nat) : Nat → Sys
  | 0 => s
  | fuel + 1 =>
    match s.conns[i]? with
    | some c =>
      match c.inbox with
      | [] => s
      | _ :: _ =>
        if c.closed then s else
        let s1 := (sstep d s (.recv i)).1
        let s2 := (sstep d s1 (.task i c.tasks.length)).1     -- the task just spawned is the last one
        settleConn d s2 i fuel
    | none => s

def settle (d : Defects) (s : Sys) : Sys :=
  (List.range s.conns.length).foldl
    (fun acc i => settleConn d acc i ((acc.conns[i]?.map fun c => c.inbox.length).getD 0)) s

/-- harness-level operations of engine `lockconn` -/
inductive HOp where
  | conn (i : Nat)
  | cready (i : Nat) (rooms : List Room)
  | cevent (i : Nat) (r : Room)
  | finish (i : Nat) (r : Room)
  | close (i : Nat)
  | raw (op : Op)
deriving Repr, DecidableEq

/-- index of the oldest task of connection `i` that is synchronising room `r` -/
def syncIdx (s : Sys) (i : Nat) (r : Room) : Option Nat :=
  match s.conns[i]? with
  | some c => c.tasks.findIdx? fun t => t.1 = r && t.2 = 1
  | none => none

def hstep (d : Defects) (s : Sys) (op : HOp) : Sys × List (Ch × Room) :=
  let res : Sys × List (Ch × Room) :=
    match op with
    | .conn i => sstep d s (.conn i)
    | .cready i rooms => sstep d s (.request i rooms)
    | .cevent i r => sstep d s (.request i [r])
    | .finish i r =>
      match syncIdx s i r with
      | some k =>
        -- the task ends: Unlock is sent, then the room leaves `acquired`
        let r1 := sstep d s (.task i k)
        let r2 := sstep d r1.1 (.task i k)
        (r2.1, r1.2 ++ r2.2)
      | none => (s, [])
    | .close i => sstep d s (.close i)
    | .raw o => sstep d s (.raw o)
  (settle d res.1, res.2)

/-- the (connection, room) pairs being synchronised, sorted by connection then listed in task order -/
def syncPairs (s : Sys) : List (Nat × Room) :=
  s.conns.zipIdx.flatMap fun ci => (ci.1.tasks.filter fun t => t.2 = 1).map fun t => (ci.2, t.1)

end Discret.LockConn
