import DiscretModel.Model.Lock
/-
Connection side of the room-lock protocol (`peer_inbound_service.rs`, `LocalPeerService::start`,
`process_acquired_room`, `cleanup`), composed with the lock service model.

A connection owns one reply channel. Grants sent by the service sit in `inbox` until the connection
loop receives them; each received grant spawns a task which
  phase 0: has not yet inserted the room into `acquired`
  phase 1: inserted, synchronising                         (the room is "being synchronised")
  phase 2: has sent `Unlock(room)`, not yet removed it from `acquired`
and then disappears. When the loop ends (`close`), `cleanup` sends `Unlock` for every room in
`acquired`, the receiver is dropped, and the tasks keep running.
Import-free.
-/
namespace Discret.LockConn
open Discret.Lock

structure Conn where
  peer : Peer
  ch : Ch
  inbox : List Room
  acquired : List Room
  tasks : List (Room × Nat)
  closed : Bool
deriving Repr, DecidableEq

structure Sys where
  svc : State
  conns : List Conn
deriving Repr, DecidableEq

inductive SOp where
  | request (c : Nat) (rooms : List Room)   -- connection index
  | recv (c : Nat)                          -- the loop receives the oldest grant and spawns its task
  | task (c : Nat) (r : Room)               -- the task of room r on connection c advances one phase
  | close (c : Nat)                         -- the loop ends: cleanup, receiver dropped
deriving Repr, DecidableEq

def deliver (conns : List Conn) (gs : List (Ch × Room)) : List Conn :=
  gs.foldl (fun cs g => cs.map fun c => if c.ch = g.1 && !c.closed then { c with inbox := c.inbox ++ [g.2] } else c) conns

def svcStep (s : Sys) (op : Op) : Sys :=
  let res := step s.svc op
  { svc := res.1, conns := deliver s.conns res.2 }

def setConn (s : Sys) (i : Nat) (c : Conn) : Sys := { s with conns := s.conns.set i c }

def advance (r : Room) : List (Room × Nat) → List (Room × Nat) × Option Nat
  | [] => ([], none)
  | (r', ph) :: t =>
    if r' = r then (if ph < 2 then (r', ph + 1) :: t else t, some ph)
    else let res := advance r t; ((r', ph) :: res.1, res.2)

def sstep (s : Sys) : SOp → Sys
  | .request i rooms =>
    match s.conns[i]? with
    | some c => if c.closed then s else svcStep s (.request c.peer rooms c.ch)
    | none => s
  | .recv i =>
    match s.conns[i]? with
    | some c =>
      if c.closed then s else
      match c.inbox with
      | [] => s
      | r :: rest => setConn s i { c with inbox := rest, tasks := c.tasks ++ [(r, 0)] }
    | none => s
  | .task i r =>
    match s.conns[i]? with
    | some c =>
      let res := advance r c.tasks
      match res.2 with
      | some 0 => setConn s i { c with tasks := res.1, acquired := r :: c.acquired }
      | some 1 => svcStep (setConn s i { c with tasks := res.1 }) (.unlock r)
      | some _ => setConn s i { c with tasks := res.1, acquired := c.acquired.erase r }
      | none => s
    | none => s
  | .close i =>
    match s.conns[i]? with
    | some c =>
      if c.closed then s else
      let s1 := setConn s i { c with closed := true, inbox := [] }
      let s2 := c.acquired.foldl (fun acc r => svcStep acc (.unlock r)) s1
      svcStep s2 (.drop c.ch)
    | none => s

def srun (s : Sys) (ops : List SOp) : Sys := ops.foldl sstep s

/-- connections currently synchronising room `r` (task in phase 1) -/
def syncing (s : Sys) (r : Room) : List Nat :=
  (s.conns.zipIdx.filter fun ci => ci.1.tasks.any fun t => t.1 = r && t.2 = 1).map Prod.snd

/-- room `r` is locked in the service but no connection will ever release it -/
def orphaned (s : Sys) (r : Room) : Bool :=
  s.svc.locked.contains r &&
    s.conns.all fun c => !(c.inbox.contains r) && !(c.tasks.any fun t => t.1 = r) && !(c.acquired.contains r)

def sinit (max : Nat) (n : Nat) : Sys :=
  { svc := init max,
    conns := (List.range n).map fun i => { peer := i + 1, ch := i + 1, inbox := [], acquired := [], tasks := [], closed := false } }

end Discret.LockConn
