import DiscretModel.Gen.WriterTable
/-
Model of the batch writer: `BufferedDatabaseWriter::process_batch_write` and the acknowledgement code
of the writer thread (`src/database/sqlite_database.rs`), of the marks written by
`DailyMutations::write` and of `DailyLogsUpdate::compute` (`src/database/daily_log.rs`).

What is modelled
* SQLite as seen by the writer connection — **assumed**, not proved: a transaction is atomic
  (`BEGIN` copies the committed database into a working copy owned by the connection, statements change
  the working copy, `COMMIT` publishes it in one step, `ROLLBACK` or the death of the connection drops
  it), `BEGIN` inside an open transaction fails, a failing statement changes nothing.
* the control flow of `process_batch_write`: BEGIN, one statement group per message with the error
  policy of its arm, the marks write, COMMIT, with the early returns of the Rust code. Which arm rolls
  back on error, which arm feeds the marks, and whether the marks write sits inside the transaction are
  NOT written here: they come from `Gen/WriterTable.lean`, regenerated from the source on every run.
* the writer thread: every message of the batch is answered `Ok` if `process_batch_write` returned
  `Ok`, `Err` otherwise.
* content: rows `(key, value, day)`, tombstones `(key, day)`, content outside the daily log (references,
  room definitions, configuration); the daily log: one entry per day with a count, a digest and the
  `need_recompute` flag. A mark is the upsert of `DailyMutations::write`
  (`daily_hash = NULL, need_recompute = 1`, count kept), a recomputation sets count and digest of every
  flagged entry from the content the connection sees.

Import-free apart from the generated table (core Lean only).
-/
namespace Discret.Writer
open Discret.Gen.WriterTable (OnError)

abbrev Key := Nat
abbrev Day := Nat

structure Row where
  key : Key
  val : Nat
  day : Day
deriving Repr, DecidableEq

/-- content that the daily log does not cover -/
inductive Aux where
  | edge (a b : Key)
  | room (id : Nat)
  | conf (id : Nat)
deriving Repr, DecidableEq

abbrev Digest := List (Key × Nat) × List Key

structure LogEntry where
  day : Day
  count : Nat
  hash : Option Digest
  dirty : Bool
deriving Repr, DecidableEq

structure Db where
  rows : List Row
  tombs : List (Key × Day)
  aux : List Aux
  log : List LogEntry
deriving Repr, DecidableEq

/-! ### content of a day, as `DailyLogsUpdate::compute` reads it -/

def dayRows (db : Db) (d : Day) : List (Key × Nat) :=
  (db.rows.filter (fun r => r.day = d)).map (fun r => (r.key, r.val))

def dayTombs (db : Db) (d : Day) : List Key :=
  (db.tombs.filter (fun t => t.2 = d)).map (fun t => t.1)

def count (db : Db) (d : Day) : Nat := (dayRows db d).length + (dayTombs db d).length

def digest (db : Db) (d : Day) : Option Digest :=
  if count db d = 0 then none else some (dayRows db d, dayTombs db d)

/-- `DailyLogsUpdate::compute`: every flagged entry is recomputed from the content of its day; a flagged entry
    whose day holds nothing any more is removed (`DELETE FROM _daily_log …`, since the fix
    `findings/C09-3-emptied-day-dropped.patch`) -/
def recomputeLog (db : Db) : List LogEntry :=
  db.log.filterMap fun e =>
    if e.dirty then
      (if count db e.day = 0 then none
       else some { day := e.day, count := count db e.day, hash := digest db e.day, dirty := false })
    else some e

/-- one upsert of `DailyMutations::write` -/
def markDay (log : List LogEntry) (d : Day) : List LogEntry :=
  if log.any (fun e => e.day = d) then
    log.map fun e => if e.day = d then { e with hash := none, dirty := true } else e
  else log ++ [{ day := d, count := 0, hash := none, dirty := true }]

def writeMarks (log : List LogEntry) (days : List Day) : List LogEntry := days.foldl markDay log

/-! ### statements and messages -/

inductive Stmt where
  /-- insert, or update of the whole row: the row now carries `val` and sits on `day` -/
  | put (key : Key) (val : Nat) (day : Day)
  /-- the row is removed and a tombstone is written on `day`; a local deletion also removes the
      references from and to the row -/
  | del (key : Key) (day : Day) (localDeletion : Bool)
  | aux (a : Aux)
  | recompute
deriving Repr, DecidableEq

/-- the statement changes rows or deletion records, i.e. content covered by the daily log -/
def Stmt.touchesLog : Stmt → Bool
  | .put _ _ _ => true
  | .del _ _ _ => true
  | _ => false

inductive Kind where
  | deletion | mutation | mutationStream | nodes | edges | roomMutation | roomMutationStream
  | roomNode | write | computeDailyLog | deleteEdges | deleteNodes | optimize
deriving Repr, DecidableEq

def Kind.armName : Kind → String
  | .deletion => "Deletion" | .mutation => "Mutation" | .mutationStream => "MutationStream"
  | .nodes => "Nodes" | .edges => "Edges" | .roomMutation => "RoomMutation"
  | .roomMutationStream => "RoomMutationStream" | .roomNode => "RoomNode" | .write => "Write"
  | .computeDailyLog => "ComputeDailyLog" | .deleteEdges => "DeleteEdges"
  | .deleteNodes => "DeleteNodes" | .optimize => "Optimize"

def Kind.all : List Kind :=
  [.deletion, .mutation, .mutationStream, .nodes, .edges, .roomMutation, .roomMutationStream,
   .roomNode, .write, .computeDailyLog, .deleteEdges, .deleteNodes, .optimize]

structure Msg where
  kind : Kind
  stmts : List Stmt
deriving Repr, DecidableEq

/-- what the model takes from the source text (see `Table.ofGen`) -/
structure Table where
  onError : Kind → OnError
  marks : Kind → Bool
  marksInTxn : Bool

def Table.ofGen : Table where
  onError k := match Discret.Gen.WriterTable.arms.find? (fun a => a.name = k.armName) with
    | some a => a.onError
    | none => .swallow          -- an arm the translator did not find satisfies none of the side conditions
  marks k := match Discret.Gen.WriterTable.arms.find? (fun a => a.name = k.armName) with
    | some a => a.marks
    | none => false
  marksInTxn := Discret.Gen.WriterTable.marksInTransaction

/-- executable form of `Msg.Valid` (Props/C13.lean): `Optimize` carries no statement, and only the arms that
    feed the marks carry row writes or deletions. The driver refuses anything else. -/
def Msg.validB (T : Table) (m : Msg) : Bool :=
  (m.kind != .optimize || m.stmts.isEmpty) && (T.marks m.kind || m.stmts.all fun s => !s.touchesLog)

/-- days on which rows with this key currently sit (the `old_node` day of a mutation or deletion) -/
def oldDays (rows : List Row) (k : Key) : List Day := (rows.filter (fun r => r.key = k)).map (fun r => r.day)

def Aux.touches (k : Key) : Aux → Bool
  | .edge a b => a = k || b = k
  | _ => false

/-- working copy and the days collected by `update_daily_logs` so far -/
abbrev Work := Db × List Day

def applyStmt (marks : Bool) (w : Work) : Stmt → Work
  | .put k v d =>
    ({ w.1 with rows := { key := k, val := v, day := d } :: w.1.rows.filter (fun r => r.key ≠ k) },
      if marks then d :: oldDays w.1.rows k ++ w.2 else w.2)
  | .del k d loc =>
    if w.1.rows.any (fun r => r.key = k) then
      ({ w.1 with rows := w.1.rows.filter (fun r => r.key ≠ k), tombs := (k, d) :: w.1.tombs,
                  aux := if loc then w.1.aux.filter (fun a => !a.touches k) else w.1.aux },
        if marks then d :: oldDays w.1.rows k ++ w.2 else w.2)
    else w
  | .aux a => ({ w.1 with aux := if w.1.aux.contains a then w.1.aux else a :: w.1.aux }, w.2)
  | .recompute => ({ w.1 with log := recomputeLog w.1 }, w.2)

def applyStmts (marks : Bool) (w : Work) (l : List Stmt) : Work := l.foldl (applyStmt marks) w

def applyMsg (T : Table) (w : Work) (m : Msg) : Work := applyStmts (T.marks m.kind) w m.stmts

def applyMsgs (T : Table) (w : Work) (ms : List Msg) : Work := ms.foldl (applyMsg T) w

/-- the database after the whole batch has been applied and committed -/
def commitBatch (T : Table) (db : Db) (ms : List Msg) : Db :=
  let w := applyMsgs T (db, []) ms
  { w.1 with log := writeMarks w.1.log w.2 }

/-! ### the writer connection, faults, `process_batch_write` -/

/-- the writer's connection: `txn = some w` while a transaction is open, `w` its working copy -/
structure Conn where
  txn : Option Db
deriving Repr, DecidableEq

/-- committed database (what every other connection sees, what survives a crash) + the writer's connection -/
structure Sys where
  db : Db
  conn : Conn
deriving Repr, DecidableEq

inductive Ack where
  | ok | err
deriving Repr, DecidableEq

/-- a statement error injected into one run of `process_batch_write` -/
inductive Fault where
  | begin                      -- BEGIN fails
  | stmt (i j : Nat)           -- statement `j` of the group of message `i` fails
  | marks                      -- the marks write fails
  | commit                     -- COMMIT fails and SQLite keeps the transaction open (e.g. SQLITE_BUSY)
  | commitRolledBack           -- COMMIT fails and SQLite has rolled the transaction back itself
deriving Repr, DecidableEq

/-- deviations of the code from the intended behaviour (DESIGN.md §4 site 15) -/
structure Defects where
  /-- `daily_log.write(conn)?` : a failure returns without ROLLBACK -/
  marksFailureLeavesTxnOpen : Bool
  /-- `conn.execute("COMMIT", [])?` : a failure returns without ROLLBACK -/
  commitFailureLeavesTxnOpen : Bool
deriving Repr, DecidableEq

/-- /repo since commit 6475b84 ("fix: roll back the batch transaction when the daily-log marks write or
    COMMIT fails"); before that commit both switches were on (finding
    `txn-left-open-after-failed-marks-or-commit`). `C13_table_defectsAsInSource` ties this to the source. -/
def Defects.asImplemented : Defects := ⟨false, false⟩
def Defects.none : Defects := ⟨false, false⟩

def replies (a : Ack) (ms : List Msg) : List Ack := ms.map fun _ => a

/-- outcome of the loop over the messages -/
inductive Loop where
  | done (w : Work)                        -- every group ran (swallowed errors included)
  | failed (w : Work) (rolledBack : Bool)  -- a group returned its error, after a ROLLBACK or not
deriving Repr, DecidableEq

/-- the `for query in buffer` loop; `i` is the index of the head of `ms` in the batch -/
def runGroups (T : Table) (f : Option Fault) : Work → Nat → List Msg → Loop
  | w, _, [] => .done w
  | w, i, m :: ms =>
    match (match f with
           | some (.stmt fi fj) => if fi = i ∧ fj < m.stmts.length then some fj else none
           | _ => none) with
    | some fj =>
      -- the statements before `fj` have been executed, statement `fj` fails and changes nothing
      let w' := applyStmts (T.marks m.kind) w (m.stmts.take fj)
      match T.onError m.kind with
      | .rollbackReturn => .failed w' true
      | .returnOnly => .failed w' false
      | _ => runGroups T f w' (i + 1) ms      -- the error is lost, the batch goes on
    | none => runGroups T f (applyMsg T w m) (i + 1) ms

/-- `process_batch_write` followed by the replies of the writer thread -/
def processBatch (T : Table) (D : Defects) (s : Sys) (ms : List Msg) (f : Option Fault) : Sys × List Ack :=
  match s.conn.txn with
  | some _ => (s, replies .err ms)        -- BEGIN: "cannot start a transaction within a transaction"
  | none =>
    if f = some .begin then (s, replies .err ms) else
    match runGroups T f (s.db, []) 0 ms with
    | .failed _ true => ({ s with conn := ⟨none⟩ }, replies .err ms)
    | .failed w false => ({ s with conn := ⟨some w.1⟩ }, replies .err ms)
    | .done w =>
      if T.marksInTxn then
        if f = some .marks then
          ({ s with conn := ⟨if D.marksFailureLeavesTxnOpen then some w.1 else none⟩ }, replies .err ms)
        else
          let w' : Db := { w.1 with log := writeMarks w.1.log w.2 }
          if f = some .commit then
            ({ s with conn := ⟨if D.commitFailureLeavesTxnOpen then some w' else none⟩ }, replies .err ms)
          else if f = some .commitRolledBack then ({ s with conn := ⟨none⟩ }, replies .err ms)
          else ({ db := w', conn := ⟨none⟩ }, replies .ok ms)
      else
        -- (not the code as it is) data committed first, marks written afterwards in autocommit mode
        if f = some .commit then
          ({ s with conn := ⟨if D.commitFailureLeavesTxnOpen then some w.1 else none⟩ }, replies .err ms)
        else if f = some .commitRolledBack then ({ s with conn := ⟨none⟩ }, replies .err ms)
        else if f = some .marks then ({ db := w.1, conn := ⟨none⟩ }, replies .err ms)
        else ({ db := { w.1 with log := writeMarks w.1.log w.2 }, conn := ⟨none⟩ }, replies .ok ms)

/-! ### crashes -/

/-- the instrumented points at which the process can die during a batch -/
inductive CrashPoint where
  | beforeGroup (i : Nat) | inGroup (i j : Nat) | afterGroup (i : Nat)
  | beforeMarks | inMarks (j : Nat) | beforeCommit | afterCommit | beforeAck
deriving Repr, DecidableEq

def CrashPoint.afterCommitPoint : CrashPoint → Bool
  | .afterCommit | .beforeAck => true
  | _ => false

/-- the process dies at `c` during the batch: the connection and its working copy are gone, no reply
    was sent; what is left is what was committed (the writer was idle when the batch started) -/
def crashBatch (T : Table) (db : Db) (ms : List Msg) (c : CrashPoint) : Db × List Ack :=
  if T.marksInTxn then
    (if c.afterCommitPoint then commitBatch T db ms else db, [])
  else
    -- (not the code as it is) the data is committed before the marks are written
    match c with
    | .afterCommit | .beforeAck => (commitBatch T db ms, [])
    | .beforeMarks | .inMarks _ => ((applyMsgs T (db, []) ms).1, [])
    | _ => (db, [])

/-- start-up: a fresh connection, then the recomputation requested by `GraphDatabaseService::start` -/
def restart (db : Db) : Sys := { db := { db with log := recomputeLog db }, conn := ⟨none⟩ }

/-! ### the state the harness starts every case from: one room, row 0, log recomputed -/

def init : Sys :=
  { db := { rows := [{ key := 0, val := 0, day := 0 }], tombs := [], aux := [],
            log := [{ day := 0, count := 1, hash := some ([(0, 0)], []), dirty := false }] },
    conn := ⟨none⟩ }

end Discret.Writer
