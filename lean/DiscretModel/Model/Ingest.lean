import DiscretModel.Model.Room
/-
Model of the PEER ingestion path (C02): what `LocalPeerService::synchronise_day`
(peer_inbound_service.rs:786-1000) does with the answers of the remote peer.

  edge deletion records -> SignatureVerificationService::verify_edge_log -> GraphDatabaseService::delete_edges
  node deletion records -> verify_node_log -> delete_nodes
  announced ids         -> Node::filter_existing (node.rs:469-574)
  node bodies           -> verify_nodes -> add_nodes   (graph_database.rs:1223-1285, validate_node)
  edges                 -> verify_edges -> add_edges   (graph_database.rs:1287-1304, authorisation_service.rs:357-382)

Representation choices (DESIGN.md A.5):
* ids, keys, entities, labels, rooms are natural numbers; a row's content is a tag `val`;
  an Ed25519 signature is the boolean "verifies" of the incoming record plus, for nodes, the rank `sg`
  of its bytes (only used by the same-millisecond tie-break of `filter_existing`);
* `_node` is a list of rows; `UPDATE … WHERE rowid = old_local_id` is "replace the row with that id",
  `INSERT` appends. Row ids are unique in every reachable table (`NodupIds`, Lemmas/Ingest.lean);
* `_edge` has primary key (src,label,dest): `INSERT OR REPLACE` erases the triple then appends;
* the deletion logs have primary keys (room,deletion_date,id,entity) / (room,deletion_date,src,label,dest);
* `HashMap<Uid, Room>` is a list of rooms, looked up by id;
* the data model is the predicate `knownEnt` on short entity names; conformity of the JSON
  (`validate_json_for_entity`) and the size test are booleans carried by the incoming record
  (the harness builds real JSON for each shape; the table shape ↦ boolean is validated by the run).
This file is import-free apart from the shared room model.
-/
namespace Discret.Ingest
open Discret.Room (Key Ent Id RightType)

abbrev RoomT := Discret.Room.Room

/-- deviations of the code from C02; `true` = the check is missing (as in /repo) -/
structure Defects where
  /-- #21 `AddEdges` looks at author/entity/date only: the source row may be in any room, of any
      entity, or not exist (authorisation_service.rs:357-382) -/
  edgeSourceUnchecked : Bool
  /-- `INSERT OR REPLACE INTO _edge`: another author's reference with the same (src,label,dest) is
      overwritten with `MutateSelf` only (edge.rs:192-209) -/
  edgeReplaceUnchecked : Bool
  /-- `filter_existing` finds the local row by id alone; `validate_node` judges the right on the
      *incoming* entity: a row of entity A is overwritten by a row of entity B (node.rs:484-489) -/
  entityChangeUnchecked : Bool
  /-- a local row without room (every system row) has `old_room_id = None`: no right on it is checked
      before it is overwritten (authorisation_service.rs:1152) -/
  roomlessReplaceUnchecked : Bool
  /-- `delete_nodes` / `delete_edges` take no room argument and `synchronise_day` hands them whatever the
      peer answered: records of any room are accepted while another room is being synchronised
      (peer_inbound_service.rs:810-835). The repair drops the records that do not name the synchronised room
      from the answer, before anything else is done with it (`keepEdgeDels`, `keepNodeDels`). -/
  delRoomUnchecked : Bool
  /-- the entity named by a node deletion record is never compared with the entity of the row it
      deletes (`DELETE FROM _node WHERE room_id=? AND id=?`, node.rs:951) -/
  delEntityUnchecked : Bool
  /-- nothing ties an edge deletion record's room to the room of the source row (edge.rs:540-547) -/
  edgeDelSourceUnchecked : Bool
  /-- `validate_json_for_entity` returns `Ok` at once when `_json` is absent: mandatory fields are
      only looked for inside a JSON object that exists (data_model_parser.rs:733) -/
  jsonAbsentUnchecked : Bool
  /-- rows, references and deletion records whose (source) entity is one of the four entities of a room
      definition (`sys.Room`, `sys.Authorisation`, `sys.UserAuth`, `sys.EntityRight`) are treated as data:
      a wildcard right `*` covers them (graph_database.rs:1254-1260, 1292-1298; room.rs:238-251) -/
  authEntityUnchecked : Bool
  /-- #18 `synchronise_day` requests every announced id that passes the last-writer-wins filter, also the ids that
      carry a node deletion record of the synchronised room (a deleted row comes back). The repair
      (findings/C11-ingest-consults-deletion-log-v2.patch, `filter_existing_room_node`): those ids are dropped from the
      announcement before `filter_existing`, on the tables as they are after the deletion records of the day (`gate`). -/
  announcedDeletedRequested : Bool
deriving Repr, DecidableEq

/-- /repo as it is now, one switch per line (a repair of /repo turns its line to `false`: findings/C02-*.verif.patch).
    Fixed since the first run of this check (regression witnesses are kept about `Defects.beforeFixes`):
    `roomlessReplaceUnchecked` (/repo 37a7f03), `jsonAbsentUnchecked` (/repo e73c9e7), `authEntityUnchecked` (/repo 4dd7eb7). -/
def Defects.asImplemented : Defects :=
  { -- findings/C02-edge-source.patch
    edgeSourceUnchecked := true,
    -- open (findings/C02-open-findings.md): needs the author of the stored reference and an order inside the batch
    edgeReplaceUnchecked := true,
    -- findings/C02-replace-other-entity.patch
    entityChangeUnchecked := false,
    -- fixed: /repo 37a7f03
    roomlessReplaceUnchecked := false,
    -- findings/C02-deletion-of-other-room.patch
    delRoomUnchecked := false,
    -- findings/C02-deletion-entity-mismatch.patch
    delEntityUnchecked := false,
    -- open (findings/C02-open-findings.md): a repair would refuse honest records after a room move
    edgeDelSourceUnchecked := true,
    -- fixed: /repo e73c9e7
    jsonAbsentUnchecked := false,
    -- fixed: /repo 4dd7eb7
    authEntityUnchecked := false,
    -- fixed: /repo ffeda5d (findings/C11-ingest-consults-deletion-log-v2.patch, x-sync)
    announcedDeletedRequested := false }

/-- /repo at 846341e, before the second series of repairs (replace-other-entity, deletion-of-other-room,
    deletion-entity-mismatch, edge-source): the value the witnesses `C02_breaks_*` of the seven shapes are stated about, so that
    they stay true whatever `asImplemented` becomes -/
def Defects.beforeFix : Defects :=
  { edgeSourceUnchecked := true, edgeReplaceUnchecked := true, entityChangeUnchecked := true,
    roomlessReplaceUnchecked := false, delRoomUnchecked := true, delEntityUnchecked := true,
    edgeDelSourceUnchecked := true, jsonAbsentUnchecked := false, authEntityUnchecked := false,
    announcedDeletedRequested := true }

/-- /repo before any of the fixes that this check led to -/
def Defects.beforeFixes : Defects :=
  { edgeSourceUnchecked := true, edgeReplaceUnchecked := true, entityChangeUnchecked := true,
    roomlessReplaceUnchecked := true, delRoomUnchecked := true, delEntityUnchecked := true,
    edgeDelSourceUnchecked := true, jsonAbsentUnchecked := true, authEntityUnchecked := true,
    announcedDeletedRequested := true }

def Defects.none : Defects :=
  { edgeSourceUnchecked := false, edgeReplaceUnchecked := false, entityChangeUnchecked := false,
    roomlessReplaceUnchecked := false, delRoomUnchecked := false, delEntityUnchecked := false,
    edgeDelSourceUnchecked := false, jsonAbsentUnchecked := false, authEntityUnchecked := false,
    announcedDeletedRequested := false }

/-! ### stored things -/

structure NodeRow where
  id : Nat
  room : Option Nat
  ent : Nat
  cdate : Int
  mdate : Int
  key : Key
  sg : Nat          -- rank of the signature bytes
  val : Nat         -- content tag
deriving Repr, DecidableEq

structure EdgeRow where
  src : Nat
  srcEnt : Nat
  label : Nat
  dst : Nat
  cdate : Int
  key : Key
deriving Repr, DecidableEq

structure NodeDel where
  room : Nat
  id : Nat
  ent : Nat
  mdate : Int
  ddate : Int
  key : Key
deriving Repr, DecidableEq

structure EdgeDel where
  room : Nat
  src : Nat
  srcEnt : Nat
  dst : Nat
  label : Nat
  cdate : Int
  ddate : Int
  key : Key
deriving Repr, DecidableEq

structure Inst where
  rooms : List RoomT
  nodes : List NodeRow
  edges : List EdgeRow
  nodeLog : List NodeDel
  edgeLog : List EdgeDel
deriving Repr, DecidableEq

def Inst.empty : Inst := { rooms := [], nodes := [], edges := [], nodeLog := [], edgeLog := [] }

/-! ### received things -/

structure InNode where
  row : NodeRow
  /-- what `RoomDailyNodes` announced for this id (an honest peer announces `row.mdate`, `row.sg`) -/
  annDate : Int
  annSg : Nat
  /-- `Node::verify` -/
  sigOk : Bool
  /-- the JSON satisfies the entity's definition (what `validate_json_for_entity` decides for a JSON that is present) -/
  conforms : Bool
  /-- `_json` is `None` -/
  jsonAbsent : Bool
  /-- `bincode::serialized_size(node) > max_node_size` -/
  big : Bool
deriving Repr, DecidableEq

structure InEdge where
  row : EdgeRow
  sigOk : Bool
deriving Repr, DecidableEq

structure InNodeDel where
  entry : NodeDel
  sigOk : Bool
deriving Repr, DecidableEq

structure InEdgeDel where
  entry : EdgeDel
  sigOk : Bool
deriving Repr, DecidableEq

/-- `DataModel::name_for` succeeds: data entities 1-3, system entities 100-108 -/
def knownEnt (e : Nat) : Bool := (1 ≤ e && e ≤ 3) || (100 ≤ e && e ≤ 108)

/-- the entities of a room definition: their rows only travel inside a `RoomNode` -/
def authEnt (e : Nat) : Bool := 100 ≤ e && e ≤ 103

def findRoom (s : Inst) (r : Nat) : Option RoomT := s.rooms.find? (·.id = r)

def localRow (nodes : List NodeRow) (id : Nat) : Option NodeRow := nodes.find? (·.id = id)

/-- `room.can(..)` on an optional room (`rooms.get(id)` is `None` → refused) -/
def canIn (s : Inst) (r : Nat) (k : Key) (e : Ent) (d : Int) (rt : RightType) : Bool :=
  match findRoom s r with
  | some rm => rm.can k e d rt
  | none => false

/-- `MutateSelf` when there is no previous author or it is the same key, `MutateAll` otherwise -/
def needRight (oldKey : Option Key) (k : Key) : RightType :=
  match oldKey with
  | some o => if o = k then .mutateSelf else .mutateAll
  | none => .mutateSelf

/-! ### nodes: announce, `filter_existing`, `add_nodes`, `validate_node`, write -/

/-- `remote_nodes.insert(node)` on a `HashSet` keyed by id: the first announcement of an id stays -/
def announce : List InNode → List (Nat × Int × Nat) → List (Nat × Int × Nat)
  | [], acc => acc
  | n :: rest, acc =>
    if acc.any (·.1 = n.row.id) then announce rest acc
    else announce rest (acc ++ [(n.row.id, n.annDate, n.annSg)])

/-- `Node::filter_existing` for one announced id: `none` = not requested;
    `some old` = requested, with the local row that will be overwritten (if any) -/
def filterOne (nodes : List NodeRow) (a : Nat × Int × Nat) : Option (Nat × Option NodeRow) :=
  match localRow nodes a.1 with
  | none => some (a.1, none)
  | some l =>
    if a.2.1 < l.mdate then none
    else if a.2.1 = l.mdate && a.2.2 ≤ l.sg then none
    else some (a.1, some l)

def filterExisting (nodes : List NodeRow) (anns : List (Nat × Int × Nat)) : List (Nat × Option NodeRow) :=
  anns.filterMap (filterOne nodes)

/-- `node_map.remove(&node.id)` -/
def takeNti (m : List (Nat × Option NodeRow)) (id : Nat) :
    Option (Option NodeRow × List (Nat × Option NodeRow)) :=
  match m.find? (·.1 = id) with
  | some e => some (e.2, m.filter (·.1 ≠ id))
  | none => none

/-- the loop of `synchronise_day` that pairs the received bodies with the requested ids -/
def pairBodies : List InNode → List (Nat × Option NodeRow) → List (InNode × Option NodeRow)
  | [], _ => []
  | n :: rest, m =>
    match takeNti m n.row.id with
    | some (old, m') => (n, old) :: pairBodies rest m'
    | none => pairBodies rest m

/-- the filter of `GraphDatabase::add_nodes`: room named and equal to the synchronised room,
    entity known, JSON conforms -/
def modelGate (d : Defects) (room : Nat) (n : InNode) : Bool :=
  n.row.room = some room && knownEnt n.row.ent && (d.authEntityUnchecked || !authEnt n.row.ent) &&
  ((n.jsonAbsent && d.jsonAbsentUnchecked) || n.conforms)

/-- `RoomAuthorisations::validate_node` -/
def validateNode (d : Defects) (s : Inst) (n : InNode) (old : Option NodeRow) : Bool :=
  let need := needRight (old.map (·.key)) n.row.key
  match n.row.room with
  | none => false
  | some room =>
    !n.big &&
    (match old with
     | none => true
     | some l =>
       (d.entityChangeUnchecked || l.ent = n.row.ent) &&
       (match l.room with
        | none => d.roomlessReplaceUnchecked
        | some oldRoom =>
          oldRoom = room || canIn s oldRoom n.row.key n.row.ent n.row.mdate need)) &&
    canIn s room n.row.key n.row.ent n.row.mdate need

/-- verdict on one paired body -/
def nodeAccepted (d : Defects) (s : Inst) (room : Nat) (p : InNode × Option NodeRow) : Bool :=
  modelGate d room p.1 && validateNode d s p.1 p.2

/-- `Node::write`: over the local slot when there is one, appended otherwise -/
def writeNode (nodes : List NodeRow) (row : NodeRow) (old : Option NodeRow) : List NodeRow :=
  match old with
  | some l => nodes.map fun x => if x.id = l.id then row else x
  | none => nodes ++ [row]

def writeNodes (nodes : List NodeRow) : List (InNode × Option NodeRow) → List NodeRow
  | [] => nodes
  | p :: rest => writeNodes (writeNode nodes p.1.row p.2) rest

/-- ids refused by `add_nodes`: first those of the model/room filter, then those of `validate_node` -/
def nodeRejects (d : Defects) (s : Inst) (room : Nat) (ps : List (InNode × Option NodeRow)) : List Nat :=
  ((ps.filter fun p => !modelGate d room p.1).map (·.1.row.id)) ++
  (((ps.filter fun p => modelGate d room p.1).filter fun p => !validateNode d s p.1 p.2).map (·.1.row.id))

/-- `add_nodes` on the paired bodies: new table and reject list -/
def addNodes (d : Defects) (s : Inst) (room : Nat) (ps : List (InNode × Option NodeRow)) : Inst × List Nat :=
  ({ s with nodes := writeNodes s.nodes (ps.filter (nodeAccepted d s room)) }, nodeRejects d s room ps)

/-! ### edges -/

def edgeKeyEq (a b : EdgeRow) : Bool := a.src = b.src && a.label = b.label && a.dst = b.dst

/-- the source row is a local row of the synchronised room and of the entity the edge names -/
def edgeSourceOk (s : Inst) (room : Nat) (e : EdgeRow) : Bool :=
  match localRow s.nodes e.src with
  | some l => l.room = some room && l.ent = e.srcEnt
  | none => false

/-- right needed by an incoming edge given the table it is written into -/
def edgeNeed (d : Defects) (edges : List EdgeRow) (e : EdgeRow) : RightType :=
  if d.edgeReplaceUnchecked then .mutateSelf
  else needRight ((edges.find? (edgeKeyEq e)).map (·.key)) e.key

def edgeAccepted (d : Defects) (s : Inst) (room : Nat) (edges : List EdgeRow) (e : InEdge) : Bool :=
  knownEnt e.row.srcEnt && (d.authEntityUnchecked || !authEnt e.row.srcEnt) &&
  (d.edgeSourceUnchecked || edgeSourceOk s room e.row) &&
  canIn s room e.row.key e.row.srcEnt e.row.cdate (edgeNeed d edges e.row)

/-- `INSERT OR REPLACE INTO _edge` -/
def writeEdge (edges : List EdgeRow) (e : EdgeRow) : List EdgeRow :=
  edges.filter (fun x => !edgeKeyEq e x) ++ [e]

/-- the loop of `AddEdges`; returns the table and the rejected source ids.
    (With the code as written the verdict does not depend on the table; with the replacement rule
    of `Defects.none` it does, hence the threading.) -/
def addEdgesLoop (d : Defects) (s : Inst) (room : Nat) : List InEdge → List EdgeRow → List EdgeRow × List Nat
  | [], edges => (edges, [])
  | e :: rest, edges =>
    if edgeAccepted d s room edges e then addEdgesLoop d s room rest (writeEdge edges e.row)
    else
      let r := addEdgesLoop d s room rest edges
      (r.1, e.row.src :: r.2)

/-! ### deletion records -/

/-- `GraphDatabaseService::delete_nodes` (since /repo a395f05): `partition(|n| seen.insert(n.id))` — the first record
    of every row id, in the order of the answer, and the other records, in order. (`with_previous_authors` keys the
    records of one message by row id: within one message a second record of an id would replace the first.) -/
def splitFirst : List InNodeDel → List Nat → List InNodeDel × List InNodeDel
  | [], _ => ([], [])
  | x :: rest, seen =>
    if seen.contains x.entry.id then ((splitFirst rest seen).1, x :: (splitFirst rest seen).2)
    else (x :: (splitFirst rest (x.entry.id :: seen)).1, (splitFirst rest (x.entry.id :: seen)).2)

/-- `GraphDatabase::delete_nodes` + `validate_node_deletions` on one record (no room is passed to them) -/
def nodeDelAccepted (d : Defects) (s : Inst) (r : NodeDel) : Bool :=
  let l := localRow s.nodes r.id
  knownEnt r.ent && (d.authEntityUnchecked || !authEnt r.ent) &&
  (d.delEntityUnchecked || match l with | some l => l.ent = r.ent | none => true) &&
  canIn s r.room r.key r.ent r.ddate (needRight (l.map (·.key)) r.key)

def nodeLogKeyEq (a b : NodeDel) : Bool :=
  a.room = b.room && a.ddate = b.ddate && a.id = b.id && a.ent = b.ent

/-- `NodeDeletionEntry::delete_all` for one record: `DELETE FROM _node WHERE room_id=? AND id=?`,
    then `INSERT OR REPLACE INTO _node_deletion_log` -/
def applyNodeDel (s : Inst) (r : NodeDel) : Inst :=
  { s with
    nodes := s.nodes.filter fun x => !(x.room = some r.room && x.id = r.id),
    nodeLog := s.nodeLog.filter (fun x => !nodeLogKeyEq r x) ++ [r] }

/-- one message `DbMessage::DeleteNodes`: the verdicts are taken on the table as it is before the message
    (`validate_node_deletions` runs on the authors gathered by `with_previous_authors`), then the records are applied -/
def deleteBatch (d : Defects) (s : Inst) (recs : List InNodeDel) : Inst :=
  (recs.filter fun r => nodeDelAccepted d s r.entry).foldl (fun st r => applyNodeDel st r.entry) s

/-- the loop of `delete_nodes`: a message with the first record of every id, awaited, then the same for the rest -/
def deleteNodesLoop (d : Defects) : Nat → Inst → List InNodeDel → Inst
  | 0, s, _ => s
  | fuel + 1, s, recs =>
    let s1 := deleteBatch d s (splitFirst recs []).1
    if (splitFirst recs []).2.isEmpty then s1 else deleteNodesLoop d fuel s1 (splitFirst recs []).2

/-- `delete_nodes` on the records of one answer (every turn of the loop sends at least one record) -/
def deleteNodes (d : Defects) (s : Inst) (recs : List InNodeDel) : Inst :=
  deleteNodesLoop d recs.length s recs

def edgeMatches (r : EdgeDel) (e : EdgeRow) : Bool :=
  e.src = r.src && e.srcEnt = r.srcEnt && e.label = r.label && e.dst = r.dst && e.cdate = r.cdate

/-- the source row of the reference is a local row of the record's room and entity, or absent -/
def edgeDelSourceOk (s : Inst) (r : EdgeDel) : Bool :=
  match localRow s.nodes r.src with
  | some l => l.room = some r.room && l.ent = r.srcEnt
  | none => true

def edgeDelAccepted (d : Defects) (s : Inst) (r : EdgeDel) : Bool :=
  knownEnt r.srcEnt && (d.authEntityUnchecked || !authEnt r.srcEnt) &&
  (d.edgeDelSourceUnchecked || edgeDelSourceOk s r) &&
  canIn s r.room r.key r.srcEnt r.ddate (needRight ((s.edges.find? (edgeMatches r)).map (·.key)) r.key)

def edgeLogKeyEq (a b : EdgeDel) : Bool :=
  a.room = b.room && a.ddate = b.ddate && a.src = b.src && a.label = b.label && a.dst = b.dst

def applyEdgeDel (s : Inst) (r : EdgeDel) : Inst :=
  { s with
    edges := s.edges.filter fun e => !edgeMatches r e,
    edgeLog := s.edgeLog.filter (fun x => !edgeLogKeyEq r x) ++ [r] }

def deleteEdges (d : Defects) (s : Inst) (recs : List InEdgeDel) : Inst :=
  (recs.filter fun r => edgeDelAccepted d s r.entry).foldl (fun st r => applyEdgeDel st r.entry) s

/-! ### one day of one room, as `synchronise_day` sequences it -/

structure Batch where
  edgeDels : List InEdgeDel
  nodeDels : List InNodeDel
  nodes : List InNode
  edges : List InEdge
deriving Repr, DecidableEq

inductive Stage where
  | edgeDels | nodeDels | nodes | edges
deriving Repr, DecidableEq

inductive Outcome where
  /-- `Ok(_)`: rejected node ids, rejected edge source ids -/
  | done (nodeRej : List Nat) (edgeRej : List Nat)
  /-- a signature check failed: the rest of the day is abandoned -/
  | sigError (at_ : Stage)
  /-- `AddEdges` for a room that is not loaded -/
  | unknownRoom
deriving Repr, DecidableEq

/-- the id carries a node deletion record of the room (`Node::filter_deleted_in_room`) -/
def deletedIn (s : Inst) (room : Nat) (id : Nat) : Bool := s.nodeLog.any fun r => r.room = room && r.id = id

/-- `filter_existing_room_node`: the announced ids that carry a deletion record of the synchronised room are not
    requested (as written before the repair: everything is handed to `filter_existing`) -/
def gate (d : Defects) (s : Inst) (room : Nat) (anns : List (Nat × Int × Nat)) : List (Nat × Int × Nat) :=
  if d.announcedDeletedRequested then anns else anns.filter fun a => !deletedIn s room a.1

/-- what is requested from the peer: the announced ids, gated, through `filter_existing` -/
def requested (d : Defects) (s : Inst) (room : Nat) (ns : List InNode) : List (Nat × Option NodeRow) :=
  filterExisting s.nodes (gate d s room (announce ns []))

/-- announce, gate, `filter_existing`, pairing of the bodies, `add_nodes`: new state and rejected ids -/
def nodeStage (d : Defects) (s : Inst) (room : Nat) (ns : List InNode) : Inst × List Nat :=
  addNodes d s room (pairBodies ns (requested d s room ns))

/-- `add_edges` once the room is known to be loaded -/
def edgeStage (d : Defects) (s : Inst) (room : Nat) (es : List InEdge) : Inst × List Nat :=
  ({ s with edges := (addEdgesLoop d s room es s.edges).1 }, (addEdgesLoop d s room es s.edges).2)

/-- node insertion and what follows it -/
def syncNodesEdges (d : Defects) (s : Inst) (room : Nat) (b : Batch) : Inst × Outcome :=
  if (requested d s room b.nodes).isEmpty then (s, .done [] [])
  else if !b.nodes.all (·.sigOk) then (s, .sigError .nodes)
  else
    let r := nodeStage d s room b.nodes
    if b.edges.isEmpty then (r.1, .done r.2 [])
    else if !b.edges.all (·.sigOk) then (r.1, .sigError .edges)
    else
      match findRoom r.1 room with
      | none => (r.1, .unknownRoom)
      | some _ =>
        let er := edgeStage d r.1 room b.edges
        (er.1, .done r.2 er.2)

/-- what `synchronise_day` keeps of the answer to `EdgeDeletionLog(room, ..)`: everything (as written);
    the records that name the synchronised room (repaired) -/
def keepEdgeDels (d : Defects) (room : Nat) (l : List InEdgeDel) : List InEdgeDel :=
  if d.delRoomUnchecked then l else l.filter fun r => r.entry.room = room

/-- the same for the answer to `NodeDeletionLog(room, ..)` -/
def keepNodeDels (d : Defects) (room : Nat) (l : List InNodeDel) : List InNodeDel :=
  if d.delRoomUnchecked then l else l.filter fun r => r.entry.room = room

def syncDay (d : Defects) (s : Inst) (room : Nat) (b : Batch) : Inst × Outcome :=
  if !(keepEdgeDels d room b.edgeDels).all (·.sigOk) then (s, .sigError .edgeDels)
  else
    let s1 := deleteEdges d s (keepEdgeDels d room b.edgeDels)
    if !(keepNodeDels d room b.nodeDels).all (·.sigOk) then (s1, .sigError .nodeDels)
    else syncNodesEdges d (deleteNodes d s1 (keepNodeDels d room b.nodeDels)) room b

/-- who relays the rows is not an input of the ingestion path -/
def syncDayFrom (d : Defects) (_relay : Key) (s : Inst) (room : Nat) (b : Batch) : Inst × Outcome :=
  syncDay d s room b

end Discret.Ingest
