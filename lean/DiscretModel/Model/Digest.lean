/-
Model of the signed digests of discret (C06): `Node::hash/sign/verify` (node.rs:151-223),
`Edge::hash/sign/verify` (edge.rs:129-187), `NodeDeletionEntry` / `EdgeDeletionEntry::{sign,verify}`
(node.rs:819-849, edge.rs:400-434), `AnnounceHeader::hash` (network/mod.rs:32), `Invite::hash_val`
(system_entities.rs:1110), and the raw signing service behind `Query::ProveIdentity`
(peer_outbound_service.rs:88, authorisation_service.rs:173).

* The ordered field list of every digest (the `hasher.update(..)` calls) is NOT written here: it is
  regenerated from the sources by translator T2 into `Gen/DigestLayout.lean` (`layoutOf : Kind → Layout`).
  This file only says how a field of a given type is fed to the hasher.
* Idealised cryptography: `hash` is the identity on the bytes fed to the hasher (an injective hash);
  a signature is the symbolic pair (signer key, signed message).
* `Defects.asImplemented` is what /repo does; `Defects.none` is an encoding that binds lengths,
  presence and kind, and a challenge answer that signs a domain-separated message.
Import-free (core Lean only).
-/
namespace Discret.Digest

abbrev Bytes := List Nat

/-- how a field reaches the hasher (decided by T2 from the struct definition and the update argument) -/
inductive Ty where
  | uid      -- `[u8;16]`, raw
  | optUid   -- `Option<Uid>`: raw when present, nothing when absent
  | i64      -- `i64::to_le_bytes`
  | str      -- `String::as_bytes` / byte slice of any length, raw
  | optJson  -- `Option<String>`: `serde_json::to_string(&string)` (a JSON string literal) when present
  | optBin   -- `Option<Vec<u8>>`: raw when present
  | key      -- exported verifying key (flag byte + 32 bytes), raw
  | fixed32  -- `[u8;32]`, raw
deriving DecidableEq, Repr

structure FieldSpec where
  name : String
  ty : Ty
deriving DecidableEq, Repr

abbrev Layout := List FieldSpec

/-- the signed kinds -/
inductive Kind where
  | node | edge | nodeDel | edgeDel | announce | invite | challenge
deriving DecidableEq, Repr

def Kind.tag : Kind → Nat
  | .node => 1 | .edge => 2 | .nodeDel => 3 | .edgeDel => 4
  | .announce => 5 | .invite => 6 | .challenge => 7

def Kind.isRow : Kind → Bool
  | .node | .edge | .nodeDel | .edgeDel => true
  | _ => false

/-- a field value -/
inductive Val where
  | bytes (b : Bytes)
  | opt (o : Option Bytes)
  | int (i : Int)
deriving DecidableEq, Repr

/-- a row: the values of the layout's fields, in layout order -/
abbrev Row := List Val

structure Defects where
  /-- variable-length fields are fed without their length (node.rs:159-167, edge.rs:132-133) -/
  lengthsUnbound : Bool
  /-- optional fields are fed without a presence marker (node.rs:154-156, 161-168) -/
  presenceUnbound : Bool
  /-- the digests of the different signed kinds are not domain-separated -/
  kindUnbound : Bool
  /-- `Query::ProveIdentity(c)` returns the data key's signature of `c` itself
      (peer_outbound_service.rs:88-105, authorisation_service.rs:173-177), before authentication -/
  challengeSignedRaw : Bool
  /-- `import_verifying_key` reads byte 0 before checking the length (security.rs:78-83) -/
  emptyKeyPanics : Bool
deriving DecidableEq, Repr

def Defects.asImplemented : Defects :=
  { lengthsUnbound := true, presenceUnbound := true, kindUnbound := true,
    challengeSignedRaw := true, emptyKeyPanics := false }

def Defects.none : Defects :=
  { lengthsUnbound := false, presenceUnbound := false, kindUnbound := false,
    challengeSignedRaw := false, emptyKeyPanics := false }

/-! ### byte-level encodings -/

/-- `n` little-endian bytes of `v` -/
def leBytes : Nat → Nat → Bytes
  | 0, _ => []
  | n + 1, v => (v % 256) :: leBytes n (v / 256)

/-- `i64::to_le_bytes` (two's complement) -/
def i64le (i : Int) : Bytes := leBytes 8 (i % 18446744073709551616).toNat

def hexDigit (n : Nat) : Nat := if n < 10 then 48 + n else 87 + n

/-- serde_json's string escaping, byte by byte (`"` `\` and the C0 controls are escaped, everything
    else – including 0x7f and every UTF-8 continuation byte – is copied) -/
def escByte (b : Nat) : Bytes :=
  if b = 34 then [92, 34]
  else if b = 92 then [92, 92]
  else if b = 8 then [92, 98]
  else if b = 12 then [92, 102]
  else if b = 10 then [92, 110]
  else if b = 13 then [92, 114]
  else if b = 9 then [92, 116]
  else if b < 32 then [92, 117, 48, 48, hexDigit (b / 16), hexDigit (b % 16)]
  else [b]

def escape : Bytes → Bytes
  | [] => []
  | b :: r => escByte b ++ escape r

/-- `serde_json::to_string(&s)` for a `String` -/
def jsonQuote (s : Bytes) : Bytes := 34 :: (escape s ++ [34])

def lenPrefix (d : Defects) (b : Bytes) : Bytes :=
  if d.lengthsUnbound then b else leBytes 8 b.length ++ b

def presence (d : Defects) (o : Option Bytes) : Bytes :=
  if d.presenceUnbound then [] else [if o.isSome then 1 else 0]

/-- what one field contributes to the hasher input -/
def encVal (d : Defects) : Ty → Val → Bytes
  | .uid, .bytes b => b
  | .fixed32, .bytes b => b
  | .key, .bytes b => b
  | .i64, .int i => i64le i
  | .str, .bytes b => lenPrefix d b
  | .optUid, .opt o => presence d o ++ o.getD []
  | .optJson, .opt o => presence d o ++ (match o with | some s => lenPrefix d (jsonQuote s) | none => [])
  | .optBin, .opt o => presence d o ++ (match o with | some s => lenPrefix d s | none => [])
  | _, _ => []

def encFields (d : Defects) : Layout → Row → Bytes
  | f :: fs, v :: vs => encVal d f.ty v ++ encFields d fs vs
  | _, _ => []

def kindTag (d : Defects) (k : Kind) : Bytes := if d.kindUnbound then [] else [k.tag]

/-- the bytes fed to the hasher for a row `r` of kind `k` whose layout is `l` -/
def encode (d : Defects) (k : Kind) (l : Layout) (r : Row) : Bytes := kindTag d k ++ encFields d l r

/-! ### well-formed values (the Rust types' own constraints) -/

def valOk : Ty → Val → Bool
  | .uid, .bytes b => b.length == 16
  | .fixed32, .bytes b => b.length == 32
  | .key, .bytes b => b.length == 33
  | .i64, .int i => decide (-9223372036854775808 ≤ i) && decide (i < 9223372036854775808)
  | .str, .bytes b => decide (b.length < 18446744073709551616)
  | .optUid, .opt o => match o with | some b => b.length == 16 | none => true
  | .optJson, .opt o => match o with | some b => decide ((jsonQuote b).length < 18446744073709551616) | none => true
  | .optBin, .opt o => match o with | some b => decide (b.length < 18446744073709551616) | none => true
  | _, _ => false

def rowOk : Layout → Row → Bool
  | [], [] => true
  | f :: fs, v :: vs => valOk f.ty v && rowOk fs vs
  | _, _ => false

/-- presence flag of a value (`true` for non-optional values) -/
def Val.present : Val → Bool
  | .opt none => false
  | _ => true

/-- the shape of a row: per field, presence and encoded length -/
def shape (d : Defects) : Layout → Row → List (Bool × Nat)
  | f :: fs, v :: vs => (v.present, (encVal d f.ty v).length) :: shape d fs vs
  | _, _ => []

/-! ### signatures -/

/-- idealised blake3: injective -/
def hash (b : Bytes) : Bytes := b

structure Sig where
  signer : Bytes
  msg : Bytes
deriving DecidableEq, Repr

/-- value of the (last) field of type `key` -/
def rowKey : Layout → Row → Option Bytes
  | f :: fs, v :: vs =>
    match rowKey fs vs with
    | some k => some k
    | none => match f.ty, v with
      | .key, .bytes b => some b
      | _, _ => none
  | _, _ => none

/-- `sign` overwrites the verifying key with the signer's before hashing -/
def setKey (sk : Bytes) : Layout → Row → Row
  | f :: fs, v :: vs => (if f.ty = .key then .bytes sk else v) :: setKey sk fs vs
  | _, _ => []

def signRow (d : Defects) (k : Kind) (l : Layout) (sk : Bytes) (r : Row) : Sig :=
  ⟨sk, hash (encode d k l (setKey sk l r))⟩

/-- signature check proper (after the prechecks) -/
def sigValid (d : Defects) (k : Kind) (l : Layout) (r : Row) (s : Sig) : Bool :=
  rowKey l r == some s.signer && s.msg == hash (encode d k l r)

/-- what a running instance signs on request -/
inductive Request where
  | challenge (c : Bytes)                  -- `Query::ProveIdentity(c)`: any peer, any bytes, before authentication
  | announce (endpoint cert : Bytes)       -- own announce header: not chosen by a peer
  | invite (id app : Bytes)                -- own invitation: not chosen by a peer
deriving DecidableEq, Repr

def Request.kind : Request → Kind
  | .challenge _ => .challenge
  | .announce _ _ => .announce
  | .invite _ _ => .invite

def Request.row : Request → Row
  | .challenge c => [.bytes c]
  | .announce e c => [.bytes e, .bytes c]
  | .invite i a => [.bytes i, .bytes a]

/-- the signature returned for a request; `lay` gives the layout of the three request kinds -/
def answer (d : Defects) (lay : Kind → Layout) (me : Bytes) (q : Request) : Sig :=
  match q with
  | .challenge c =>
    if d.challengeSignedRaw then ⟨me, c⟩
    else ⟨me, hash (encode d .challenge (lay .challenge) q.row)⟩
  | _ => ⟨me, hash (encode d q.kind (lay q.kind) q.row)⟩

/-! ### `verify()` as the code runs it, prechecks included (for the correspondence run) -/

inductive Outcome where
  | accept | reject | pre (c : String) | panic | signErr (c : String)
deriving DecidableEq, Repr

def Outcome.toString : Outcome → String
  | .accept => "accept"
  | .reject => "reject"
  | .pre c => "pre:" ++ c
  | .panic => "panic"
  | .signErr c => "sign-err:" ++ c

def fieldVal (name : String) : Layout → Row → Option Val
  | f :: fs, v :: vs => if f.name = name then some v else fieldVal name fs vs
  | _, _ => none

def bytesLen : Option Val → Nat
  | some (.bytes b) => b.length
  | _ => 0

/-- `import_verifying_key` (security.rs:77-93) on an exported key; real keys are valid curve points -/
def importKey (d : Defects) (k : Bytes) : Option Outcome :=
  match k with
  | [] => some (if d.emptyKeyPanics then .panic else .pre "key")
  | b :: _ => if b ≠ 1 then some (.pre "key") else if k.length ≠ 33 then some (.pre "key") else none

/-- the non-cryptographic checks in front of the digest.
    `jsonObj` tells whether the `_json` text parses as a JSON object (the JSON grammar is not modelled).
    `sigLen` is the length of the signature field (it enters the size check of an edge). -/
def prechecks (k : Kind) (l : Layout) (r : Row) (jsonObj : Bool) (sigLen : Nat) : Option String :=
  match k with
  | .node =>
    if bytesLen (fieldVal "_entity" l r) = 0 then some "entity"
    else match fieldVal "_json" l r with
      | some (.opt (some _)) => if jsonObj then none else some "json"
      | _ => none
  | .edge =>
    let size := 16 + bytesLen (fieldVal "src_entity" l r) + bytesLen (fieldVal "label" l r) + 16 + 8
      + bytesLen (fieldVal "verifying_key" l r) + sigLen
    if size > 1024 then some "size"
    else if bytesLen (fieldVal "src_entity" l r) = 0 then some "entity"
    else if bytesLen (fieldVal "label" l r) = 0 then some "label"
    else none
  | _ => none

/-- `Edge::sign` checks the names before the size; `Node::sign` as `verify` -/
def signPrechecks (k : Kind) (l : Layout) (r : Row) (jsonObj : Bool) : Option String :=
  match k with
  | .edge =>
    if bytesLen (fieldVal "src_entity" l r) = 0 then some "entity"
    else if bytesLen (fieldVal "label" l r) = 0 then some "label"
    else
      let size := 16 + bytesLen (fieldVal "src_entity" l r) + bytesLen (fieldVal "label" l r) + 16 + 8
        + bytesLen (fieldVal "verifying_key" l r)
      if size > 1024 then some "size" else none
  | _ => prechecks k l r jsonObj 0

/-- `verify()` of a row carrying signature `s` (64 bytes) -/
def verifyRow (d : Defects) (k : Kind) (l : Layout) (r : Row) (jsonObj : Bool) (s : Sig) : Outcome :=
  match prechecks k l r jsonObj 64 with
  | some c => .pre c
  | none =>
    match importKey d ((rowKey l r).getD []) with
    | some o => o
    | none => if sigValid d k l r s then .accept else .reject

/-- sign row `a` of kind `ka` with key `sk`, put the signature on row `b` of kind `kb`, verify `b` -/
def transplant (d : Defects) (ka : Kind) (la : Layout) (a : Row) (aJson : Bool) (sk : Bytes)
    (kb : Kind) (lb : Layout) (b : Row) (bJson : Bool) : Outcome :=
  match signPrechecks ka la (setKey sk la a) aJson with
  | some c => .signErr c
  | none => verifyRow d kb lb b bJson (signRow d ka la sk a)

/-- submit `c` to `ProveIdentity` of the instance whose key is `me`, use the answer as the
    signature of row `b` -/
def oracleAttack (d : Defects) (lay : Kind → Layout) (me : Bytes) (c : Bytes)
    (kb : Kind) (b : Row) (bJson : Bool) : Outcome :=
  verifyRow d kb (lay kb) b bJson (answer d lay me (.challenge c))

end Discret.Digest
