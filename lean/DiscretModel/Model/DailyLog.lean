/-
Model of `src/database/daily_log.rs` (marks, recomputation, history chaining) — DESIGN.md A.7.

Representation choices
* a signature is a natural number; the stored content of a database is seen through
  `sigs room entity day : List Sig`, the signatures of the rows (by modification day), node deletion
  records and reference deletion records (by deletion day) stored for that `(room, entity, day)`;
* blake3 is the identity on what is fed to the hasher: `Hash.daily l` is the hash of the sorted
  signature list `l`, `Hash.chain h d` the hash of `h ++ d`, `Hash.chain1 h` the hash of `h` alone (the
  code feeds the previous daily hash only when it is not NULL);
* the table `_daily_log` is a list of groups `(room, entity)` in the order of the SQL `ORDER BY room_id,
  entity, date`, each with its rows in ascending day order. The SQL window of `compute` ("rows from the
  last unmarked day before the first marked one onwards, for the groups that have a marked day") is,
  on that representation, `clean prefix's last row ++ everything from the first marked row`;
* the cursor `(previous_room, previous_entity, previous_hash, previous_history)` of the `while` loop is
  threaded through the selected rows of all groups exactly as the Rust loop does (`grp = none` is the
  sentinel `([0;16], "-")`).
`Defects.asImplemented` is the code as it is; `Defects.none` the intended behaviour.
This file is import-free.
-/
namespace Discret.DailyLog

abbrev Sig := Nat

/-- deviations of the code from the properties C09 / C03 / C11, one switch per call site -/
structure Defects where
  /-- #20 `daily_log.rs:202-205`: the clean seed row of a group resets the cursor instead of loading it -/
  historySeedDropped : Bool
  /-- #20 `daily_log.rs:228`: the marked branch compares the room but not the entity -/
  entityNotCompared : Bool
  /-- #20 `daily_log.rs:221-226`: a day that has become empty keeps its row (and takes part in the chain) -/
  emptyDayRow : Bool
  /-- #13 `node.rs:760-765`: a synchronised update marks the old day only if the room changed -/
  oldDayUnmarked : Bool
  /-- #3 `deletion.rs:124-132`: the row re-dated by a reference deletion marks no day -/
  refDeletionUnmarked : Bool
  /-- #3 `deletion.rs:71-94`: a reference deletion that names no existing reference re-dates and re-signs the
      source row all the same (no right check) -/
  refDeletionTouchesRowWithoutRef : Bool
  /-- `node.rs:951-957`: a synchronised deletion removes whatever version is stored locally but marks
      the day of the version named in the record -/
  syncDeletionLocalDayUnmarked : Bool
  /-- #18 `node.rs:469-574`: ingestion never consulted the deletion log (repaired: `synchronise_day` filters the
      announced ids through `Node::filter_existing_in_room`, which drops those that carry a deletion record in the
      synchronised room) -/
  ingestIgnoresTombstones : Bool
  /-- #19 `authorisation_service.rs:1139-1145`: the right required of an incoming version depends on
      the author of the version stored locally -/
  rightDependsOnLocalAuthor : Bool
  /-- #30 `peer_inbound_service.rs:872-875`: references are fetched only for the rows that were fetched -/
  edgesOnlyForFetchedRows : Bool
  /-- `node.rs:946-961` vs `deletion.rs:110-114`: a synchronised deletion leaves the references from and
      to the row in place (a local deletion removes them) -/
  syncDeletionKeepsEdges : Bool
  /-- `node.rs:913-944`: deletion records of one message are keyed by row id, two records of one row collapsed
      (repaired: `GraphDatabaseService::delete_nodes` sends the records of an answer in sub-batches in which every
      row id occurs once) -/
  deletionBatchKeyedById : Bool
  /-- `daily_log.rs:170-268`: the `SELECT` of `compute` is stepped row by row while the loop body updates the
      same table, so its `WHERE` sees the loop's own updates (SQLite 3.45 `WITHOUT ROWID` scan): an unmarked
      row is returned only if the row after it in its group is marked, and a marked row that is followed
      by a marked row is returned a second time (as an unmarked row) right after it has been recomputed,
      when its entry count has grown (the cursor is re-positioned on `(room, entity, date, entry_number)`) -/
  lazyScan : Bool
  /-- `node.rs:951`: a synchronised deletion record deletes `WHERE room_id = ? AND id = ?`: a version of the
      row that lives in another room stays -/
  syncDeletionRoomScoped : Bool
  /-- `daily_log.rs:592-633`: `RoomDefinitionLog::get` joins the room with the log rows of its last day — one per
      entity — and reads the first only: when that entity's last history and daily hashes agree nothing else
      of the room is compared -/
  summaryFirstEntityOnly : Bool
deriving Repr, DecidableEq

/-- the code as it is. `oldDayUnmarked` (#13), `syncDeletionLocalDayUnmarked`, `lazyScan`, `refDeletionUnmarked` (#3)
    and `refDeletionTouchesRowWithoutRef` (#3) were fixed in /repo (commits 8123d04, 1a9cbe6, 079e672, 9b21e0a,
    456214b) and are off; so are `historySeedDropped`, `entityNotCompared` and `emptyDayRow` (#20) since the three repairs
    `findings/C09-1-seed-row-loaded.patch`, `C09-2-entity-compared.patch`, `C09-3-emptied-day-dropped.patch`
    (`Defects.beforeFixHistory` is the code before them); their witnesses and replays stay as regression cases. -/
def Defects.asImplemented : Defects :=
  { historySeedDropped := false, entityNotCompared := false, emptyDayRow := false, oldDayUnmarked := false,
    refDeletionUnmarked := false, refDeletionTouchesRowWithoutRef := false,
    syncDeletionLocalDayUnmarked := false, ingestIgnoresTombstones := false,
    rightDependsOnLocalAuthor := true, edgesOnlyForFetchedRows := true, syncDeletionKeepsEdges := true,
    deletionBatchKeyedById := false, lazyScan := false,
    syncDeletionRoomScoped := true, summaryFirstEntityOnly := true }

/-- the code before the three repairs of #20 (`findings/C09-1-seed-row-loaded.patch`, `C09-2-entity-compared.patch`,
    `C09-3-emptied-day-dropped.patch`): the value the `C09_breaks_*` witnesses and the regression replays of
    `corpus/C09` are about. It differs from `asImplemented` in these three switches only, once the repairs are in. -/
def Defects.beforeFixHistory : Defects :=
  { Defects.asImplemented with historySeedDropped := true, entityNotCompared := true, emptyDayRow := true }

/-- the four switches that concern `DailyLogsUpdate::compute` are off -/
structure Defects.LogRepaired (d : Defects) : Prop where
  seed : d.historySeedDropped = false
  entity : d.entityNotCompared = false
  emptied : d.emptyDayRow = false
  window : d.lazyScan = false

def Defects.none : Defects :=
  { historySeedDropped := false, entityNotCompared := false, emptyDayRow := false, oldDayUnmarked := false,
    refDeletionUnmarked := false, refDeletionTouchesRowWithoutRef := false,
    syncDeletionLocalDayUnmarked := false, ingestIgnoresTombstones := false,
    rightDependsOnLocalAuthor := false, edgesOnlyForFetchedRows := false, syncDeletionKeepsEdges := false,
    deletionBatchKeyedById := false, lazyScan := false,
    syncDeletionRoomScoped := false, summaryFirstEntityOnly := false }

inductive Hash where
  | daily (sigs : List Sig)
  | chain (prev : Hash) (daily : Hash)
  | chain1 (prev : Hash)
deriving Repr, DecidableEq

/-- `hasher.update(previous); if let Some(daily) = previous_hash { hasher.update(daily) }` -/
def chainHash (h : Hash) : Option Hash → Hash
  | some d => .chain h d
  | none => .chain1 h

/-- insertion sort (`ORDER BY signature`) -/
def insertSorted (x : Nat) : List Nat → List Nat
  | [] => [x]
  | y :: t => if x ≤ y then x :: y :: t else y :: insertSorted x t

def sortSigs : List Nat → List Nat
  | [] => []
  | x :: t => insertSorted x (sortSigs t)

/-- `daily_hash = if hasher.count() == 0 { None } else { Some(hash) }` -/
def dailyOf (s : List Sig) : Option Hash :=
  if s.isEmpty then none else some (.daily (sortSigs s))

structure DayRow where
  day : Nat
  count : Nat
  daily : Option Hash
  hist : Option Hash
  dirty : Bool            -- need_recompute
deriving Repr, DecidableEq

structure Group where
  room : Nat
  ent : Nat
  rows : List DayRow      -- ascending days
deriving Repr, DecidableEq

abbrev Log := List Group  -- ascending (room, entity)

/-- the stored content seen by the recomputation -/
abbrev Content := Nat → Nat → Nat → List Sig

structure Key where
  room : Nat
  ent : Nat
  day : Nat
deriving Repr, DecidableEq

/-! ### marks: `DailyMutations::write` -/

/-- `INSERT … values (?,?,?, 0, NULL, NULL, 1) ON CONFLICT DO UPDATE SET daily_hash = NULL, need_recompute = 1` -/
def markRows (day : Nat) : List DayRow → List DayRow
  | [] => [{ day, count := 0, daily := none, hist := none, dirty := true }]
  | r :: t =>
    if day < r.day then { day, count := 0, daily := none, hist := none, dirty := true } :: r :: t
    else if day = r.day then { r with daily := none, dirty := true } :: t
    else r :: markRows day t

def grpLt (room ent : Nat) (g : Group) : Bool := room < g.room || (room = g.room && ent < g.ent)

def mark (k : Key) : Log → Log
  | [] => [{ room := k.room, ent := k.ent, rows := markRows k.day [] }]
  | g :: t =>
    if grpLt k.room k.ent g then { room := k.room, ent := k.ent, rows := markRows k.day [] } :: g :: t
    else if k.room = g.room ∧ k.ent = g.ent then { g with rows := markRows k.day g.rows } :: t
    else g :: mark k t

def markAll (ks : List Key) (log : Log) : Log := ks.foldl (fun l k => mark k l) log

/-! ### recomputation: `DailyLogsUpdate::compute` -/

structure Cursor where
  grp : Option (Nat × Nat)     -- previous_room, previous_entity (`none`: the initial sentinel)
  daily : Option Hash          -- previous_hash
  hist : Option Hash           -- previous_history
deriving Repr, DecidableEq

def Cursor.init : Cursor := { grp := none, daily := none, hist := none }

def sameGroup (c : Cursor) (room ent : Nat) : Bool :=
  match c.grp with
  | some (r, e) => r = room && e = ent
  | none => false

/-- the test of the marked branch: `previous_room.eq(&room)` -/
def sameForMarked (d : Defects) (c : Cursor) (room ent : Nat) : Bool :=
  match c.grp with
  | some (r, e) => r = room && (d.entityNotCompared || e = ent)
  | none => false

/-- the cursor of a group none of whose days has been kept so far: `previous_hash = previous_history = None` -/
def Cursor.start (room ent : Nat) : Cursor := { grp := some (room, ent), daily := none, hist := none }

/-- one iteration of the `for … in window` loop; `none` = the row is removed.
    The three switches of #20 select, branch by branch, the code before / after the three repairs
    (`findings/C09-1-…`, `C09-2-…`, `C09-3-…`):
    * unmarked row of a group the cursor is not in — it is the seed row, the last computed day before the first
      marked one: its stored hashes are loaded (`historySeedDropped`: the cursor was reset instead);
    * marked row: the group test compares room and entity (`entityNotCompared`: the room only);
    * marked row whose day is empty: the row is deleted, the cursor moves to the group without taking part in the
      chain (`emptyDayRow`: the row was kept with count 0 and chained); and a cursor in the group without a
      history means that no earlier day of the group is left, so the chain starts at this row
      (`emptyDayRow`: the stored history was loaded / the history became NULL). -/
def stepRow (d : Defects) (sigs : Content) (room ent : Nat) (c : Cursor) (r : DayRow) :
    Cursor × Option DayRow :=
  if !r.dirty then
    if sameGroup c room ent then
      match c.hist with
      | some h =>
        let hh := chainHash h c.daily
        ({ grp := some (room, ent), daily := r.daily, hist := some hh }, some { r with hist := some hh })
      | none =>
        if d.emptyDayRow then ({ grp := some (room, ent), daily := r.daily, hist := r.hist }, some r)
        else ({ grp := some (room, ent), daily := r.daily, hist := r.daily }, some { r with hist := r.daily })
    else if d.historySeedDropped then
      -- before the repair: an unmarked row of a new group resets the cursor (the stored values are not loaded)
      ({ grp := some (room, ent), daily := none, hist := none }, some r)
    else
      ({ grp := some (room, ent), daily := r.daily, hist := r.hist }, some r)
  else
    let s := sigs room ent r.day
    if s.isEmpty && !d.emptyDayRow then
      (if sameGroup c room ent then c else Cursor.start room ent, none)
    else
      let daily := dailyOf s
      let hist :=
        if sameForMarked d c room ent then
          match c.hist with
          | some h => some (chainHash h c.daily)
          | none => if d.emptyDayRow then none else daily
        else daily
      ({ grp := some (room, ent), daily := daily, hist := hist },
        some { day := r.day, count := s.length, daily := daily, hist := hist, dirty := false })

def walkRows (d : Defects) (sigs : Content) (room ent : Nat) : Cursor → List DayRow → Cursor × List DayRow
  | c, [] => (c, [])
  | c, r :: t =>
    let (c1, o) := stepRow d sigs room ent c r
    let (c2, os) := walkRows d sigs room ent c1 t
    (c2, o.toList ++ os)

def nextIsDirty : List DayRow → Bool
  | r' :: _ => r'.dirty
  | [] => false

/-- one row under the lazily evaluated `SELECT`: a marked row is recomputed and, when the next row of the
    group is marked and its entry count has grown, returned once more as an unmarked row; an unmarked row
    is returned only when the next row of the group is marked -/
def lazyStep (d : Defects) (sigs : Content) (room ent : Nat) (c : Cursor) (r : DayRow) (nextDirty : Bool) :
    Cursor × Option DayRow :=
  if r.dirty then
    match stepRow d sigs room ent c r with
    | (c1, some r1) => if nextDirty && r1.count > r.count then stepRow d sigs room ent c1 r1 else (c1, some r1)
    | (c1, none) => (c1, none)
  else if nextDirty then stepRow d sigs room ent c r
  else (c, some r)

/-- the rows the lazily evaluated `SELECT` returns for one group, each processed as it is returned -/
def walkLazy (d : Defects) (sigs : Content) (room ent : Nat) : Cursor → List DayRow → Cursor × List DayRow
  | c, [] => (c, [])
  | c, r :: t =>
    let s := lazyStep d sigs room ent c r (nextIsDirty t)
    let w := walkLazy d sigs room ent s.1 t
    (w.1, s.2.toList ++ w.2)

def cleanPrefix (rows : List DayRow) : List DayRow := rows.takeWhile (fun r => !r.dirty)
def fromFirstDirty (rows : List DayRow) : List DayRow := rows.dropWhile (fun r => !r.dirty)

/-! #### the window, literally as the `SELECT` of `compute` states it (one group = the correlated sub-queries) -/

/-- `SELECT min(date)` -/
def minDay : List Nat → Option Nat
  | [] => none
  | x :: t => match minDay t with
    | none => some x
    | some m => some (min x m)

/-- `SELECT max(date)` -/
def maxDay : List Nat → Option Nat
  | [] => none
  | x :: t => match maxDay t with
    | none => some x
    | some m => some (max x m)

/-- `WHERE date >= IFNULL((SELECT max(date) … AND date < (SELECT min(date) … AND need_recompute = 1)),
    (SELECT min(date) … AND need_recompute = 1))`; a comparison with NULL (no marked day) selects nothing -/
def windowLow (rows : List DayRow) : Option Nat :=
  match minDay ((rows.filter (·.dirty)).map (·.day)) with
  | none => none
  | some m => some ((maxDay ((rows.filter (fun r => r.day < m)).map (·.day))).getD m)

def windowSql (rows : List DayRow) : List DayRow :=
  match windowLow rows with
  | none => []
  | some lo => rows.filter (fun r => lo ≤ r.day)

/-- the rows of the group the `SELECT` does not return -/
def untouchedSql (rows : List DayRow) : List DayRow :=
  match windowLow rows with
  | none => rows
  | some lo => rows.filter (fun r => r.day < lo)

/-- the rows of one group: untouched rows before the window, then the walked window. The window is what the
    `SELECT` of `compute` returns for a group that has a marked day: the last unmarked row before the first
    marked one (if any), then every row from the first marked one onwards -/
def recomputeGroup (d : Defects) (sigs : Content) (c : Cursor) (g : Group) : Cursor × Group :=
  let pre := cleanPrefix g.rows
  let rest := fromFirstDirty g.rows
  if rest.isEmpty then (c, g)
  else if d.lazyScan then
    let (c', out) := walkLazy d sigs g.room g.ent c g.rows
    (c', { g with rows := out })
  else
    let (c', out) := walkRows d sigs g.room g.ent c (pre.getLast?.toList ++ rest)
    (c', { g with rows := pre.dropLast ++ out })

def recomputeFrom (d : Defects) (sigs : Content) : Cursor → Log → Log
  | _, [] => []
  | c, g :: t =>
    let (c', g') := recomputeGroup d sigs c g
    if g'.rows.isEmpty then recomputeFrom d sigs c' t else g' :: recomputeFrom d sigs c' t

def recompute (d : Defects) (sigs : Content) (log : Log) : Log := recomputeFrom d sigs Cursor.init log

/-! ### the specification: the log computed from scratch over a list of days -/

/-- rows of a group for the given ascending non-empty days:
    `history(d₁) = daily(d₁)`, `history(dₖ₊₁) = H(history(dₖ) ++ daily(dₖ))` -/
def nextHist (prev : Option (Hash × Option Hash)) (daily : Option Hash) : Option Hash :=
  match prev with
  | none => daily
  | some (h, dl) => some (chainHash h dl)

def specRowsFrom (sigs : Content) (room ent : Nat) : Option (Hash × Option Hash) → List Nat → List DayRow
  | _, [] => []
  | prev, day :: t =>
    let s := sigs room ent day
    let daily := dailyOf s
    let hist := nextHist prev daily
    { day, count := s.length, daily, hist, dirty := false } ::
      specRowsFrom sigs room ent (hist.map fun h => (h, daily)) t

def specRows (sigs : Content) (room ent : Nat) (days : List Nat) : List DayRow :=
  specRowsFrom sigs room ent none days

/-! ### flat view, lookups -/

structure FlatRow where
  room : Nat
  ent : Nat
  row : DayRow
deriving Repr, DecidableEq

def flatten (log : Log) : List FlatRow :=
  log.flatMap fun g => g.rows.map fun r => { room := g.room, ent := g.ent, row := r }

def findGroup (log : Log) (room ent : Nat) : Option Group :=
  log.find? fun g => g.room = room && g.ent = ent

def findRow (log : Log) (k : Key) : Option DayRow :=
  match findGroup log k.room k.ent with
  | some g => g.rows.find? fun r => r.day = k.day
  | none => none

end Discret.DailyLog
