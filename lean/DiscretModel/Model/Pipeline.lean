/-
Model of the mutation pipeline for updates of existing rows
(`graph_database.rs:1090-1142` mutate / mutate_stream, `mutation_query.rs:92-394` the read phase,
`authorisation_service.rs:194-252` validate + sign, `sqlite_database.rs` the batch write,
`node.rs:322-370` `Node::write` of a row that has a storage slot, `edge.rs:192-232`).

Three phases per mutation, run by three different threads with no per-row serialisation:
* `read`   (reader pool): the stored row is read; the NEW row is the whole old row with the assigned
           scalars overwritten, `room := given room or old room`, `mdate := now`; for an array field a
           reference is planned for each target not yet referenced; for a single-valued field, unless the
           target is already referenced, every reference of that field found NOW is planned for deletion
           and the new one for insertion; `null` plans the deletion of the references found now. Nothing
           is rewritten when no scalar and no reference changes.
* `validate` (authorisation actor): rights, signatures — does not look at the database (it is a function
           of the pending mutation alone, as in the code: `validate_mutation(&mut self, &mut MutationQuery)`).
* `commit` (writer thread): `UPDATE _node SET <every column> WHERE rowid = <slot read earlier>` (a no-op
           if the row has gone), `DELETE` of the planned references, `INSERT OR REPLACE` of the new ones.
The authorisation actor and the writer are FIFO: writes happen in the order of the validations.

Import-free (core Lean only).
-/
namespace Discret.Pipeline

abbrev Key := Nat

/-- scalar fields as an association list sorted by field id, one entry per field (a JSON object) -/
def setVal : List (Nat × Nat) → Nat → Nat → List (Nat × Nat)
  | [], f, v => [(f, v)]
  | (g, w) :: t, f, v =>
    if f < g then (f, v) :: (g, w) :: t else if f = g then (f, v) :: t else (g, w) :: setVal t f v

structure Row where
  room : Nat
  vals : List (Nat × Nat)
  mdate : Nat
deriving Repr, DecidableEq

/-- label 1 = the array field `parents`, label 2 = the single-valued field `pet` -/
abbrev Ref := Nat × Key

structure Db where
  rows : Key → Option Row
  refs : Key → List Ref

/-- an update of one existing row -/
structure Op where
  key : Key
  sets : List (Nat × Nat)       -- scalar assignments (field, value)
  room : Option Nat             -- `room_id: …` (a move when different from the stored one)
  adds : List Key               -- `parents: [{id: …}, …]`
  pet : Option (Option Key)     -- `pet: {id: …}` = some (some t) ; `pet: null` = some none
deriving Repr, DecidableEq

/-- what the read phase hands to the next phases -/
structure Pending where
  key : Key
  row : Option Row              -- the whole new row, or none when the row is not rewritten
  dels : List Ref
  ins : List Ref
deriving Repr, DecidableEq

def planAdds (cur : List Ref) : List Key → List Ref
  | [] => []
  | t :: ts => if cur.contains (1, t) then planAdds cur ts else (1, t) :: planAdds cur ts

def read (db : Db) (op : Op) (date : Nat) : Option Pending :=
  match db.rows op.key with
  | none => none                       -- UnknownEntity: the mutation is refused
  | some old =>
    let cur := db.refs op.key
    let addIns := planAdds cur op.adds
    let petDels : List Ref := match op.pet with
      | some (some t) => if cur.contains (2, t) then [] else cur.filter (fun r => r.1 = 2)
      | some none => cur.filter (fun r => r.1 = 2)
      | none => []
    let petIns : List Ref := match op.pet with
      | some (some t) => if cur.contains (2, t) then [] else [(2, t)]
      | _ => []
    let changed := !op.sets.isEmpty || !addIns.isEmpty || !petDels.isEmpty || !petIns.isEmpty
    some { key := op.key,
           row := if changed then
                    some { room := op.room.getD old.room,
                           vals := op.sets.foldl (fun vs fv => setVal vs fv.1 fv.2) old.vals,
                           mdate := date }
                  else none,
           dels := petDels, ins := addIns ++ petIns }

/-- validation and signature: a function of the pending mutation alone -/
def validate (p : Pending) : Pending := p

def insRefs (cur : List Ref) : List Ref → List Ref
  | [] => cur
  | r :: rs => insRefs (if cur.contains r then cur else cur ++ [r]) rs

def commit (db : Db) (p : Pending) : Db :=
  { rows := fun k =>
      if k = p.key then
        match p.row, db.rows k with
        | some r, some _ => some r      -- UPDATE … WHERE rowid = slot
        | _, x => x
      else db.rows k,
    refs := fun k =>
      if k = p.key then insRefs ((db.refs k).filter (fun r => !p.dels.contains r)) p.ins
      else db.refs k }

/-- the mutation run alone -/
def apply (db : Db) (op : Op) (date : Nat) : Db :=
  match read db op date with
  | some p => commit db (validate p)
  | none => db

/-! ### schedules -/

inductive Ev where
  | r (i : Nat) | v (i : Nat) | w (i : Nat)
deriving Repr, DecidableEq

structure St where
  db : Db
  clock : Nat
  pend : List (Nat × Nat × Pending)   -- (mutation, its date, what it read): read, not yet written
  queue : List Nat                    -- validated, in order
  done : List (Nat × Nat)             -- (mutation, date) in the order of the writes, latest first
  overlap : Bool                      -- a write happened while another mutation of the same row was pending
  err : Bool                          -- the event list is not a run of the pipeline

def keyOf (ops : List Op) (i : Nat) : Key := (ops[i]?.map (·.key)).getD 0

def step (ops : List Op) (st : St) : Ev → St
  | .r i =>
    match ops[i]? with
    | none => { st with err := true }
    | some op =>
      if st.pend.any (fun e => e.1 = i) || st.done.any (fun e => e.1 = i) then { st with err := true }
      else
        match read st.db op (st.clock + 1) with
        | some p => { st with clock := st.clock + 1, pend := (i, st.clock + 1, p) :: st.pend }
        | none => { st with clock := st.clock + 1, err := true }
  | .v i =>
    if st.pend.any (fun e => e.1 = i) && !st.queue.contains i then { st with queue := st.queue ++ [i] }
    else { st with err := true }
  | .w i =>
    match st.queue with
    | [] => { st with err := true }
    | j :: q =>
      if j ≠ i then { st with err := true }       -- the writer is FIFO
      else
        match st.pend.find? (fun e => e.1 = i) with
        | none => { st with err := true }
        | some (_, d, p) =>
          let others := st.pend.filter (fun e => e.1 ≠ i)
          { st with db := commit st.db (validate p), pend := others, queue := q, done := (i, d) :: st.done,
                    overlap := st.overlap || others.any (fun e => keyOf ops e.1 = keyOf ops i) }

def start (db : Db) : St := { db := db, clock := 0, pend := [], queue := [], done := [], overlap := false, err := false }

def exec (ops : List Op) (db : Db) (s : List Ev) : St := s.foldl (step ops) (start db)

/-- the mutations applied one after another, in the given order with the given dates -/
def serial (ops : List Op) (db : Db) : List (Nat × Nat) → Db
  | [] => db
  | (i, d) :: rest =>
    match ops[i]? with
    | some op => serial ops (apply db op d) rest
    | none => serial ops db rest

/-- the database the harness starts every C16 case from: rows 1..4 in room 1, fields 1 and 2 = 0 -/
def init : Db :=
  { rows := fun k => if 1 ≤ k ∧ k ≤ 4 then some { room := 1, vals := [(1, 0), (2, 0)], mdate := 0 } else none,
    refs := fun _ => [] }

end Discret.Pipeline
