/-
Model of `src/database/query_language/data_model_parser.rs` (`DataModel::{update, update_system,
update_with, parse_internal, insert, add_index, check_consistency}`, `Entity::{update, add_field,
insert_field}`) at AST level, and of the way `graph_database.rs` loads / updates / persists the model
(`GraphDatabase::{new, update_data_model}`), see DESIGN.md A.10.

Representation choices
* A model version is an AST (`Version`): namespace blocks → entities → fields / indexes, in text order.
  The harness renders the AST to data-model text; the pest grammar and the walk over the pest pairs are
  exercised by the correspondence run, not modelled (C14 covers the grammar).
  Two purely lexical checks of the parser (`name.starts_with('_')`, `is_reserved(name)`) are carried by
  the AST as a `NameCls` computed by the driver, because `String.toLower`/`startsWith` do not reduce in
  the kernel; everything else only uses string equality.
* Every `HashMap` is an association list kept in *canonical order* (namespaces and entities in insertion
  order, fields by short id). The order in which the Rust code iterates a hash map is NOT a function of
  the program state (`RandomState`), so every function that iterates one takes a priority list `pri`
  (`List Key`): the keys listed are visited first, in that order, the others afterwards in canonical
  order. The harness supplies `pri` from what it observed (which items were touched before a failure,
  which short ids new fields received). The model cannot predict Rust's hash order and does not try to:
  the theorems for `Defects.none` hold for *every* `pri`, the witnesses for `asImplemented` exhibit one.
* In-place mutation with early return is modelled declaratively: the items visited before the first
  failing one (`okPrefix`) are updated, the failing one gets its own partial state, the rest is untouched.
* `Defects.defaultDropAccepted`: `Entity::update` (data_model_parser.rs:1015-1025) asks for a default only when a
  field goes from nullable to not nullable; a version that REMOVES the default of a not nullable field is
  accepted, although the rows written before that field existed carry no value for it: they then read null for a
  not nullable field and no longer pass `validate_json_for_entity` (peers refuse them).
* `Defects.hashOrderIds`: new fields of an existing entity are numbered in visit order
  (`for field in new_entity.fields { self.insert_field(..) }`, data_model_parser.rs:1038-1051) instead of
  text order. `Defects.partialRefusal`: a refused version leaves the partially updated model in place
  (update_with / Entity::update mutate `self` before they return `Err`, :304-379, :987-1063).
This file is import-free.
-/
namespace Discret.DM

/-- `RESERVED_SHORT_NAMES` (checked against the regenerated constant in `Props/C15.lean`). -/
def reservedShort : Nat := 32

/-- keys of `SYSTEM_FIELDS` together with "may appear in an index" (`Index::add_field` refuses
    `Entity`/`Array`/`Json` typed fields: `sys_peer`, `sys_room`). -/
def systemFields : List (String × Bool) :=
  [("id", true), ("room_id", true), ("cdate", true), ("mdate", true), ("sys_peer", false),
   ("sys_room", false), ("_entity", true), ("_binary", true), ("_json", true),
   ("verifying_key", true), ("_signature", true)]

def sysNs : String := "sys"

inductive FType where
  | bool | float | int | str | b64 | json
  | ent (ns name : String)      -- `ns.Name` (ns = "" for the unnamed namespace)
  | arr (ns name : String)      -- `[ns.Name]`
deriving Repr, DecidableEq

def FType.isRef : FType → Bool
  | .ent _ _ => true
  | .arr _ _ => true
  | _ => false

def FType.target : FType → Option (String × String)
  | .ent n e => some (n, e)
  | .arr n e => some (n, e)
  | _ => none

inductive DKind where
  | bool | float | int | str
deriving Repr, DecidableEq

/-- a default value: the kind of literal and its text -/
structure Dflt where
  kind : DKind
  tok : String
deriving Repr, DecidableEq

inductive Err where
  | parser | reservedKeyword | invalidName | duplicatedField | systemFieldConflict | duplicatedEntity
  | invalidDefaultValue | invalidBase64 | invalidJson | invalidQuery | indexAllreadyExists
  | namespaceUpdate | invalidNamespaceOrdering | missingNamespace | invalidEntityOrdering | missingEntity
  | invalidFieldOrdering | cannotUpdateFieldType | missingDefaultValue | missingField
deriving Repr, DecidableEq

/-- lexical class of an identifier, computed by the driver from the text -/
inductive NameCls where
  | ok | underscore | reserved
deriving Repr, DecidableEq

/-! ### AST of a version -/

structure AField where
  name : String
  cls : NameCls
  ty : FType
  nullable : Bool
  dflt : Option Dflt
  deprecated : Bool
deriving Repr, DecidableEq

structure AEntity where
  name : String
  cls : NameCls
  deprecated : Bool
  fullText : Bool
  fields : List AField
  indexes : List (List String)
deriving Repr, DecidableEq

structure ANs where
  name : String            -- already lower-cased; "" for the unnamed namespace
  ents : List AEntity
deriving Repr, DecidableEq

abbrev Version := List ANs

/-! ### the data model -/

structure Field where
  name : String
  short : Nat
  ty : FType
  nullable : Bool
  dflt : Option Dflt
  deprecated : Bool
deriving Repr, DecidableEq

structure Entity where
  name : String            -- name inside its namespace
  k : Nat                  -- the entity part of `short_name` (`"{ns_id}.{k}"`, or `"{k}"` in namespace "")
  deprecated : Bool
  fullText : Bool
  fields : List Field
  indexes : List (List String)
  toRemove : List (List String)
deriving Repr, DecidableEq

structure Ns where
  name : String
  id : Nat
  ents : List Entity
deriving Repr, DecidableEq

structure Model where
  nss : List Ns
deriving Repr, DecidableEq

def Model.empty : Model := { nss := [] }

def Model.findNs (m : Model) (n : String) : Option Ns := m.nss.find? (·.name == n)

def Ns.findEnt (n : Ns) (e : String) : Option Entity := n.ents.find? (·.name == e)

def Entity.findField (e : Entity) (f : String) : Option Field := e.fields.find? (·.name == f)

def Model.findEntity (m : Model) (n e : String) : Option Entity := (m.findNs n).bind (·.findEnt e)

/-- the storage identifier of an entity: `(none, k)` prints as `"k"`, `(some id, k)` as `"id.k"` -/
def entShort (n : Ns) (e : Entity) : Option Nat × Nat := (if n.name == "" then none else some n.id, e.k)

/-! ### parse (positional assignment) -/

/-- only two string tokens are used as defaults of `Base64` / `Json` fields by the generator:
    `abcd` decodes as base64 and is not JSON, `[1]` is JSON and does not decode. The driver refuses
    (`bad-op`) any other token on such a field, so this table is total on the driver's domain. -/
def validB64 (tok : String) : Bool := tok == "abcd"
def validJson (tok : String) : Bool := tok == "[1]"

/-- `parse_field_type`, the `default` branch -/
def dfltCheck (ty : FType) (d : Dflt) : Except Err Dflt :=
  match d.kind, ty with
  | .bool, .bool => .ok d
  | .float, .float => .ok d
  | .int, .float => .ok { kind := .float, tok := d.tok ++ ".0" }
  | .int, .int => .ok d
  | .str, .str => .ok d
  | .str, .b64 => if validB64 d.tok then .ok d else .error .invalidBase64
  | .str, .json => if validJson d.tok then .ok d else .error .invalidJson
  | _, _ => .error .invalidDefaultValue

def dfltOpt (ty : FType) : Option Dflt → Except Err (Option Dflt)
  | none => .ok none
  | some d => (dfltCheck ty d).map some

/-- `parse_field_type` then `Entity::add_field` for the fields of one entity, in text order;
    `acc` holds the fields already added (canonical order) -/
def parseFields : List AField → List Field → Except Err (List Field)
  | [], acc => .ok acc
  | a :: rest, acc =>
    match a.cls with
    | .underscore => .error .invalidName
    | .reserved => .error .reservedKeyword
    | .ok =>
      match dfltOpt a.ty a.dflt with
      | .error e => .error e
      | .ok d =>
        if acc.any (·.name == a.name) then .error .duplicatedField
        else if systemFields.any (·.1 == a.name) then .error .systemFieldConflict
        else parseFields rest (acc ++ [{ name := a.name, short := reservedShort + acc.length, ty := a.ty,
                                          nullable := a.nullable, dflt := d, deprecated := a.deprecated }])

/-- may `name` be part of an index of an entity with these fields? (`get_field` + `Index::add_field`) -/
def indexable (fields : List Field) (name : String) : Bool :=
  match fields.find? (·.name == name) with
  | some f => !(f.ty.isRef || f.ty == .json)
  | none =>
    match systemFields.find? (·.1 == name) with
    | some s => s.2
    | none => false

def noDup : List String → Bool
  | [] => true
  | x :: xs => !xs.contains x && noDup xs

/-- the `for index_vec in entry.1` loop of `parse_internal` -/
def parseIndexes (fields : List Field) : List (List String) → List (List String) → Except Err (List (List String))
  | [], acc => .ok acc
  | ix :: rest, acc =>
    if !(ix.all (indexable fields) && noDup ix) then .error .invalidQuery
    else if acc.contains ix then .error .indexAllreadyExists
    else parseIndexes fields rest (acc ++ [ix])

/-- `DataModel::insert`: registers the namespace at its first entity (`id = #namespaces + decal`),
    the entity gets `k = #entities already in the namespace` -/
def insertEnt (decal : Nat) (nss : List Ns) (nsName : String) (e : Entity) : Except Err (List Ns) :=
  match nss.find? (·.name == nsName) with
  | none => .ok (nss ++ [{ name := nsName, id := nss.length + decal, ents := [{ e with k := 0 }] }])
  | some n =>
    if n.ents.any (·.name == e.name) then .error .duplicatedEntity
    else .ok (nss.map fun x => if x.name == nsName then { x with ents := x.ents ++ [{ e with k := x.ents.length }] } else x)

def parseEntity (decal : Nat) (nss : List Ns) (nsName : String) (a : AEntity) : Except Err (List Ns) :=
  match a.cls with
  | .reserved => .error .reservedKeyword
  | _ =>
    match parseFields a.fields [] with
    | .error e => .error e
    | .ok fields =>
      match insertEnt decal nss nsName { name := a.name, k := 0, deprecated := a.deprecated, fullText := a.fullText,
                                         fields := fields, indexes := [], toRemove := [] } with
      | .error e => .error e
      | .ok nss1 =>
        match parseIndexes fields a.indexes [] with
        | .error e => .error e
        | .ok ixs =>
          .ok (nss1.map fun x => if x.name == nsName then
                 { x with ents := x.ents.map fun y => if y.name == a.name then { y with indexes := ixs } else y } else x)

def parseEnts (decal : Nat) (nsName : String) : List AEntity → List Ns → Except Err (List Ns)
  | [], nss => .ok nss
  | a :: rest, nss =>
    match parseEntity decal nss nsName a with
    | .error e => .error e
    | .ok nss1 => parseEnts decal nsName rest nss1

def parseNss (decal : Nat) : Version → List Ns → Except Err (List Ns)
  | [], nss => .ok nss
  | b :: rest, nss =>
    match parseEnts decal b.name b.ents nss with
    | .error e => .error e
    | .ok nss1 => parseNss decal rest nss1

/-- `check_consistency`: every `Entity`/`Array` field names an entity of the *parsed* model -/
def consistent (nss : List Ns) : Bool :=
  nss.all fun n => n.ents.all fun e => e.fields.all fun f =>
    match f.ty.target with
    | none => true
    | some (tn, te) => nss.any fun n2 => n2.name == tn && n2.ents.any (·.name == te)

/-- the grammar needs at least one entry per entity (`entity = … "{" entry (comma entry)* … "}"`) -/
def grammarOk (v : Version) : Bool :=
  v.all fun b => b.ents.all fun e => !(e.fields.isEmpty && e.indexes.isEmpty)

/-- `parse_internal(model, decal)` -/
def parse (decal : Nat) (v : Version) : Except Err Model :=
  if !grammarOk v then .error .parser else
  match parseNss decal v [] with
  | .error e => .error e
  | .ok nss => if consistent nss then .ok { nss := nss } else .error .parser

/-! ### update -/

structure Defects where
  hashOrderIds : Bool
  partialRefusal : Bool
  defaultDropAccepted : Bool
deriving Repr, DecidableEq

/-- What /repo does and what the correspondence run validates. The three deviations were found by this check,
    confirmed on the real code (corpus/C15) and fixed in /repo (commits e35fd01 `hashOrderIds`,
    fb21964 `partialRefusal`, 9cb7f9f `defaultDropAccepted`); the switches are kept so that the witnesses
    `C15_breaks_*` and the regression replays keep describing what a revert of a fix would bring back. -/
def Defects.asImplemented : Defects := { hashOrderIds := false, partialRefusal := false, defaultDropAccepted := false }
def Defects.none : Defects := { hashOrderIds := false, partialRefusal := false, defaultDropAccepted := false }
/-- the code before the fixes -/
def Defects.beforeFixes : Defects := { hashOrderIds := true, partialRefusal := true, defaultDropAccepted := true }

/-- key of something iterated out of a hash map -/
inductive Key where
  | ns (n : String)
  | ent (n e : String)
  | fld (n e f : String)
deriving Repr, DecidableEq

/-- visit order: the items whose key is listed in `pri` first, in that order, then the rest in canonical
    order (a key listed twice counts once) -/
def prio {α : Type} (pri : List Key) (key : α → Key) (l : List α) : List α :=
  match pri with
  | [] => l
  | k :: ks => (l.filter fun x => key x == k) ++ prio ks key (l.filter fun x => key x != k)

/-- the items visited before the first failing one -/
def okPrefix {α : Type} (chk : α → Option Err) : List α → List α
  | [] => []
  | x :: xs => match chk x with
    | none => x :: okPrefix chk xs
    | some _ => []

def firstBad {α : Type} (chk : α → Option Err) : List α → Option α
  | [] => none
  | x :: xs => match chk x with
    | none => firstBad chk xs
    | some _ => some x

def firstErr {α : Type} (chk : α → Option Err) : List α → Option Err
  | [] => none
  | x :: xs => match chk x with
    | none => firstErr chk xs
    | some e => some e

/-- the checks of the first loop of `Entity::update` for one existing field. A row may lack a value for a field
    that is nullable or has a default (the field may be younger than the row): such a field must not become
    "not nullable, no default" — the code only checks the nullable case (`defaultDropAccepted`). -/
def checkField (d : Defects) (f : Field) (nfs : List Field) : Option Err :=
  match nfs.find? (·.name == f.name) with
  | none => some .missingField
  | some nf =>
    if nf.short != f.short then some .invalidFieldOrdering
    else if nf.ty != f.ty then some .cannotUpdateFieldType
    else if (f.nullable || (!d.defaultDropAccepted && f.dflt.isSome)) && !nf.nullable && nf.dflt.isNone && !f.ty.isRef then
      some .missingDefaultValue
    else none

def mergeField (f : Field) (nfs : List Field) : Field :=
  match nfs.find? (·.name == f.name) with
  | none => f
  | some nf => { f with nullable := nf.nullable, dflt := nf.dflt, deprecated := nf.deprecated }

def freshCheck (nf : Field) : Option Err :=
  if nf.nullable || nf.dflt.isSome || nf.ty.isRef then none else some .missingDefaultValue

/-- `insert_field`: `short = RESERVED_SHORT_NAMES + self.fields.len()`, one after the other -/
def renumber (start : Nat) : List Field → List Field
  | [] => []
  | f :: fs => { f with short := start } :: renumber (start + 1) fs

/-- `indexes_to_remove.insert(name, index)` for every old index that the new version dropped -/
def addRemoved (toRemove dropped : List (List String)) : List (List String) :=
  toRemove ++ (dropped.filter fun ix => !toRemove.contains ix)

/-- `Entity::update` (returns the entity as mutated when the error is returned) -/
def Entity.update (d : Defects) (pri : List Key) (nsName : String) (old new : Entity) : Entity × Option Err :=
  let key := fun (f : Field) => Key.fld nsName old.name f.name
  let vis := prio pri key old.fields
  let chk := fun f => checkField d f new.fields
  let done := okPrefix chk vis
  let fields1 := old.fields.map fun f => if done.any (·.name == f.name) then mergeField f new.fields else f
  -- /repo 0a9007e: `self.enable_full_text = new_entity.enable_full_text` next to `deprecated`
  let e1 := { old with deprecated := new.deprecated, fullText := new.fullText, fields := fields1 }
  match firstErr chk vis with
  | some e => (e1, some e)
  | none =>
    let fresh := new.fields.filter fun nf => !old.fields.any (·.name == nf.name)
    let visN := if d.hashOrderIds then prio pri key fresh else fresh
    let ins := okPrefix freshCheck visN
    let e2 := { e1 with fields := fields1 ++ renumber (reservedShort + fields1.length) ins }
    match firstErr freshCheck visN with
    | some e => (e2, some e)
    | none =>
      ({ e2 with indexes := new.indexes,
                 toRemove := addRemoved old.toRemove (old.indexes.filter fun ix => !new.indexes.contains ix) }, none)

/-- one iteration of `for entity in ns.1.iter_mut()` -/
def entStep (d : Defects) (pri : List Key) (nn : Ns) (e : Entity) : Entity × Option Err :=
  match nn.ents.find? (·.name == e.name) with
  | none => (e, some .missingEntity)
  | some ne => if ne.k != e.k then (e, some .invalidEntityOrdering) else e.update d pri nn.name ne

/-- one iteration of `for ns in &mut self.namespaces` of `update_with` -/
def nsStep (d : Defects) (pri : List Key) (system : Bool) (nv : Model) (old : Ns) : Ns × Option Err :=
  match nv.nss.find? (·.name == old.name) with
  | none => (old, if !system && old.name != sysNs then some .missingNamespace else none)
  | some nn =>
    if nn.id != old.id then (old, some .invalidNamespaceOrdering) else
    let vis := prio pri (fun (e : Entity) => Key.ent old.name e.name) old.ents
    let chk := fun e => (entStep d pri nn e).2
    let applied := okPrefix chk vis ++ (firstBad chk vis).toList
    let ents1 := old.ents.map fun e => if applied.any (·.name == e.name) then (entStep d pri nn e).1 else e
    match firstErr chk vis with
    | some e => ({ old with ents := ents1 }, some e)
    | none => ({ old with ents := ents1 ++ nn.ents.filter fun ne => !old.ents.any (·.name == ne.name) }, none)

/-- `update_with(new_data_model, system)` -/
def updateWith (d : Defects) (pri : List Key) (system : Bool) (m nv : Model) : Model × Option Err :=
  if nv.nss.any (fun n => if system then n.name != sysNs else n.name == sysNs) then (m, some .namespaceUpdate) else
  let vis := prio pri (fun (n : Ns) => Key.ns n.name) m.nss
  let chk := fun n => (nsStep d pri system nv n).2
  let applied := okPrefix chk vis ++ (firstBad chk vis).toList
  let nss1 := m.nss.map fun n => if applied.any (·.name == n.name) then (nsStep d pri system nv n).1 else n
  match firstErr chk vis with
  | some e => (if d.partialRefusal then { nss := nss1 } else m, some e)
  | none => ({ nss := nss1 ++ nv.nss.filter fun nn => !m.nss.any (·.name == nn.name) }, none)

/-- `DataModel::update(text)` -/
def update (d : Defects) (pri : List Key) (m : Model) (v : Version) : Model × Option Err :=
  match parse 1 v with
  | .error e => (m, some e)
  | .ok nv => updateWith d pri false m nv

/-- `DataModel::update_system(text)` -/
def updateSystem (d : Defects) (pri : List Key) (m : Model) (v : Version) : Model × Option Err :=
  match parse 0 v with
  | .error e => (m, some e)
  | .ok nv => updateWith d pri true m nv

/-- the common form of the two entry points: `update` is `applyV … false`, `update_system` is `applyV … true` -/
def applyV (d : Defects) (pri : List Key) (system : Bool) (m : Model) (v : Version) : Model × Option Err :=
  match parse (if system then 0 else 1) v with
  | .error e => (m, some e)
  | .ok nv => updateWith d pri system m nv

/-- one step of a history: is it a system update, the observed visit order, the version -/
abbrev Step := Bool × List Key × Version

/-- a history of versions (user and system), each with its own observed visit order -/
def runSteps (d : Defects) : Model → List Step → Model
  | m, [] => m
  | m, (sys, pri, v) :: rest => runSteps d (applyV d pri sys m v).1 rest

/-- the steps of a history that were accepted -/
def acceptedSteps (d : Defects) : Model → List Step → List Step
  | _, [] => []
  | m, (sys, pri, v) :: rest =>
    match (applyV d pri sys m v).2 with
    | none => (sys, pri, v) :: acceptedSteps d (applyV d pri sys m v).1 rest
    | some _ => acceptedSteps d m rest

/-! ### rows: what a stored row means under a model -/

/-- the `_json` object of a row: short id ↦ value (values are opaque tokens) -/
abbrev Row := List (Nat × String)

/-- the value a query returns for field `f` of a row: the stored value, else the default
    (`Ifnull(_json->'$.short', default)`), else null (`none`) -/
def readField (f : Field) (row : Row) : Option String :=
  match row.lookup f.short with
  | some v => some v
  | none => f.dflt.map (·.tok)

/-- read field `f` of entity `n.e` of a row under model `m`; `none` = no such entity/field -/
def read (m : Model) (n e f : String) (row : Row) : Option (Option String) :=
  ((m.findEntity n e).bind (·.findField f)).map (readField · row)

/-! ### conformance of a stored row (`validate_json_for_entity`, data_model_parser.rs:729-870) -/

/-- a row conforms to an entity: every scalar field is either present with a value of its type (`vok`, the
    per-type value check, is a parameter) or absent while the field is nullable or has a default -/
def rowConforms (vok : FType → String → Bool) (e : Entity) (row : Row) : Bool :=
  e.fields.all fun f =>
    f.ty.isRef ||
    match row.lookup f.short with
    | some v => vok f.ty v
    | none => f.nullable || f.dflt.isSome

/-! ### the reverse table `entities_short` (short name ↦ namespace, entity) -/

abbrev EShort := Option Nat × Nat

/-- the table the model should carry: one entry per entity -/
def Model.rev (m : Model) : List (EShort × String × String) :=
  m.nss.flatMap fun n => n.ents.map fun e => (entShort n e, n.name, e.name)

/-- `HashMap::insert` -/
def revInsert (rev : List (EShort × String × String)) (x : EShort × String × String) : List (EShort × String × String) :=
  x :: rev.filter fun y => y.1 != x.1

/-- the entities of `m'` that `m` does not have: those `update_with` inserts into `entities_short` -/
def addedEntities (m m' : Model) : List (EShort × String × String) :=
  m'.nss.flatMap fun n' => n'.ents.filterMap fun e' =>
    if (m.findEntity n'.name e'.name).isSome then none else some (entShort n' e', n'.name, e'.name)

/-- the `DataModel` of the code: the namespaces and the separately maintained reverse table -/
structure DataModel where
  core : Model
  rev : List (EShort × String × String)
deriving Repr, DecidableEq

def DataModel.empty : DataModel := { core := Model.empty, rev := [] }

/-- `update` / `update_system` on the whole structure: the reverse table receives one entry per inserted entity -/
def DataModel.apply (d : Defects) (pri : List Key) (system : Bool) (dm : DataModel) (v : Version) : DataModel × Option Err :=
  let r := applyV d pri system dm.core v
  ({ core := r.1, rev := (addedEntities dm.core r.1).foldl revInsert dm.rev }, r.2)

/-- `name_for(short)` -/
def DataModel.nameFor (dm : DataModel) (s : EShort) : Option (String × String) := dm.rev.lookup s

/-- every entity is found again through its short name -/
def DataModel.RevOk (dm : DataModel) : Prop :=
  ∀ n ∈ dm.core.nss, ∀ e ∈ n.ents, dm.nameFor (entShort n e) = some (n.name, e.name)

/-! ### an instance: stored model, live model, rows (graph_database.rs:899-1060) -/

structure RowRec where
  no : Nat
  ent : Option Nat × Nat
  vals : Row
deriving Repr, DecidableEq

structure Inst where
  stored : Option Model        -- `_configuration['Data Model']`
  live : Option Model          -- `GraphDatabase.data_model` of the running instance
  rows : List RowRec
deriving Repr, DecidableEq

def Inst.fresh : Inst := { stored := none, live := none, rows := [] }

/-- `GraphDatabase::update_data_model`: reload the stored model, `update_system`, `update`,
    persist only on success. Returns the model left in memory and the error. -/
def loadAndUpdate (d : Defects) (pri : List Key) (sysV : Version) (stored : Option Model) (v : Version) :
    Model × Option Err :=
  let base := stored.getD Model.empty
  match updateSystem d pri base sysV with
  | (m1, some e) => (m1, some e)
  | (m1, none) => update d pri m1 v

/-- start (or restart): a refused model aborts the start, nothing is written -/
def Inst.start (d : Defects) (pri : List Key) (sysV : Version) (s : Inst) (v : Version) : Inst × Option Err :=
  match loadAndUpdate d pri sysV s.stored v with
  | (_, some e) => ({ s with live := none }, some e)
  | (m, none) => ({ s with stored := some m, live := some m }, none)

/-- run-time `update_data_model` on a running instance -/
def Inst.updateLive (d : Defects) (pri : List Key) (sysV : Version) (s : Inst) (v : Version) : Inst × Option Err :=
  match s.live with
  | none => (s, none)
  | some _ =>
    match loadAndUpdate d pri sysV s.stored v with
    | (m, some e) => ({ s with live := some m }, some e)
    | (m, none) => ({ s with stored := some m, live := some m }, none)

inductive PutErr where
  | notRunning | unknownEntity | unknownField | missingField | typeMismatch
deriving Repr, DecidableEq

/-- the literal kinds the harness writes: an integer literal for `Integer`, a string for `String` -/
def valueFits (ty : FType) (k : DKind) : Bool :=
  match ty, k with
  | .int, .int => true
  | .str, .str => true
  | _, _ => false

/-- the per-field checks of the mutation parser, in the order the fields are written -/
def putCheck (e : Entity) : List (String × DKind × String) → Option PutErr
  | [] => none
  | (f, k, _) :: rest =>
    match e.findField f with
    | none => some .unknownField
    | some fd => if valueFits fd.ty k then putCheck e rest else some .typeMismatch

/-- `fill_not_nullable` + the write: given values by field name, the stored object is keyed by the
    live model's short ids; non-nullable absent fields get their default, or the creation is refused -/
def putRow (e : Entity) (vals : List (String × DKind × String)) : Except PutErr Row :=
  match putCheck e vals with
  | some err => .error err
  | none =>
    if e.fields.any (fun f => !f.nullable && f.dflt.isNone && !f.ty.isRef && (vals.lookup f.name).isNone) then
      .error .missingField else
    .ok (e.fields.filterMap fun f =>
      match vals.lookup f.name with
      | some v => some (f.short, v.2)
      | none => if !f.nullable then f.dflt.map (fun dv => (f.short, dv.tok)) else none)

def Inst.put (s : Inst) (n e : String) (no : Nat) (vals : List (String × DKind × String)) : Inst × Option PutErr :=
  match s.live with
  | none => (s, some .notRunning)
  | some m =>
    match m.findNs n with
    | none => (s, some .unknownEntity)
    | some ns =>
      match ns.findEnt e with
      | none => (s, some .unknownEntity)
      | some ent =>
        match putRow ent vals with
        | .error err => (s, some err)
        | .ok row => ({ s with rows := s.rows ++ [{ no := no, ent := entShort ns ent, vals := row }] }, none)

/-- the entity a stored row belongs to, found through its short name -/
def Model.entityOfShort (m : Model) (s : EShort) : Option Entity :=
  m.nss.findSome? fun n => n.ents.find? fun e => entShort n e == s

/-- the row numbers of the stored rows that do not conform to the live model (the check a peer applies to a
    row it receives), with the reason -/
def Inst.conf (vok : FType → String → Bool) (s : Inst) : Option (List (Nat × Bool)) :=
  s.live.map fun m => s.rows.filterMap fun r =>
    match m.entityOfShort r.ent with
    | none => some (r.no, false)                 -- unknown short name
    | some e => if rowConforms vok e r.vals then none else some (r.no, true)

/-- the rows of entity `n.e` with the requested fields, through the live model -/
def Inst.get (s : Inst) (n e : String) (fs : List String) : Except PutErr (List (Nat × List (String × Option String))) :=
  match s.live with
  | none => .error .notRunning
  | some m =>
    match m.findNs n with
    | none => .error .unknownEntity
    | some ns =>
      match ns.findEnt e with
      | none => .error .unknownEntity
      | some ent =>
        if fs.any (fun f => (ent.findField f).isNone) then .error .unknownField else
        .ok ((s.rows.filter fun r => r.ent == entShort ns ent).map fun r =>
          (r.no, fs.filterMap fun f => (ent.findField f).map fun fd => (f, readField fd r.vals)))


/-! ### observables used by the property statements -/

def Model.nsId (m : Model) (n : String) : Option Nat := (m.findNs n).map (·.id)

def Model.entK (m : Model) (n e : String) : Option Nat := (m.findEntity n e).map (·.k)

def Model.findField (m : Model) (n e f : String) : Option Field := (m.findEntity n e).bind (·.findField f)

def Model.fieldShort (m : Model) (n e f : String) : Option Nat := (m.findField n e f).map (·.short)

end Discret.DM

namespace Discret.DM

/-- the fields of `new` that `old` does not have -/
def Entity.fresh (old new : Entity) : List Field :=
  new.fields.filter fun nf => !old.fields.any (·.name == nf.name)

/-- decidable guard of `C15_partial`: no existing entity receives more than one new field -/
def atMostOneFresh (m nv : Model) : Bool :=
  m.nss.all fun n =>
    match nv.nss.find? (·.name == n.name) with
    | none => true
    | some nn => n.ents.all fun e =>
      match nn.ents.find? (·.name == e.name) with
      | none => true
      | some ne => (e.fresh ne).length ≤ 1

def oneFreshGuard (system : Bool) (m : Model) (v : Version) : Bool :=
  match parse (if system then 0 else 1) v with
  | .error _ => true
  | .ok nv => atMostOneFresh m nv

end Discret.DM
