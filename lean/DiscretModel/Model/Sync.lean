import DiscretModel.Model.DailyLog
/-
Model of the replicated room content and of one directed pull
(`peer_inbound_service.rs:509-1000`, `node.rs:469-574`, `graph_database.rs:1223-1354`,
`authorisation_service.rs:343-403, 443-539, 1124-1317`, `mutation_query.rs`, `deletion.rs`) — DESIGN.md A.1-A.6.

World of a case: peers `0..n-1`, all members of rooms 1 and 2 for the whole case; peer `p` may change
foreign rows iff `rights[p]`; everybody may change its own rows. Entity 0 (`Person`) has one reference
field, entity 1 (`Pet`) has none. Times are milliseconds, `dayOf t = t / 86400000`.
A signature is the number the op file gives it; two versions of one row with the same date are ordered
by that number (the harness makes the real bytes agree).
This file is import-free apart from the daily-log model.
-/
namespace Discret.Sync
open Discret.DailyLog

def dayMs : Nat := 86400000
def dayOf (t : Nat) : Nat := t / dayMs

def insertBy {α : Type} (lt : α → α → Bool) (x : α) : List α → List α
  | [] => [x]
  | y :: t => if lt y x then y :: insertBy lt x t else x :: y :: t

/-- stable insertion sort -/
def sortBy {α : Type} (lt : α → α → Bool) (l : List α) : List α := l.foldr (insertBy lt) []

def lexL : List Nat → List Nat → Bool
  | [], [] => false
  | [], _ :: _ => true
  | _ :: _, [] => false
  | a :: s, b :: t => a < b || (a = b && lexL s t)

structure Node where
  id : Nat
  room : Nat
  ent : Nat
  cdate : Nat
  mdate : Nat
  author : Nat
  val : Nat
  sig : Nat
deriving Repr, DecidableEq

structure Edge where
  src : Nat
  dest : Nat
  cdate : Nat
  author : Nat
deriving Repr, DecidableEq

structure NTomb where
  id : Nat
  room : Nat
  ent : Nat
  mdate : Nat
  ddate : Nat
  author : Nat
  sig : Nat
deriving Repr, DecidableEq

structure ETomb where
  src : Nat
  dest : Nat
  room : Nat
  cdate : Nat
  ddate : Nat
  author : Nat
  sig : Nat
deriving Repr, DecidableEq

structure Replica where
  nodes : List Node
  edges : List Edge
  ntombs : List NTomb
  etombs : List ETomb
  log : Log
deriving Repr, DecidableEq

def Replica.empty : Replica := { nodes := [], edges := [], ntombs := [], etombs := [], log := [] }

/-- the signatures hashed for `(room, entity, day)`: `compute_stmt` of `daily_log.rs:110-141` -/
def Replica.sigs (r : Replica) : Content := fun room ent day =>
  (r.ntombs.filter fun t => t.room = room && t.ent = ent && dayOf t.ddate = day).map (·.sig) ++
  (r.etombs.filter fun t => t.room = room && ent = 0 && dayOf t.ddate = day).map (·.sig) ++
  (r.nodes.filter fun n => n.room = room && n.ent = ent && dayOf n.mdate = day).map (·.sig)

def Replica.findNode (r : Replica) (id ent : Nat) : Option Node :=
  r.nodes.find? fun n => n.id = id && n.ent = ent

def Replica.findId (r : Replica) (id : Nat) : Option Node := r.nodes.find? fun n => n.id = id

/-- `UPDATE _node … WHERE rowid = ?` -/
def replaceNode (n : Node) (l : List Node) : List Node := l.map fun x => if x.id = n.id then n else x

/-- write over the local slot, or insert -/
def putNode (n : Node) (l : List Node) : List Node :=
  if l.any (·.id = n.id) then replaceNode n l else l ++ [n]

/-- `INSERT OR REPLACE INTO _edge`, primary key `(src, label, dest)` -/
def putEdge (e : Edge) (l : List Edge) : List Edge :=
  if l.any (fun x => x.src = e.src && x.dest = e.dest) then
    l.map fun x => if x.src = e.src && x.dest = e.dest then e else x
  else l ++ [e]

/-- primary key `(room_id, deletion_date, id, entity)` -/
def NTomb.samePk (t x : NTomb) : Bool := x.room = t.room && x.ddate = t.ddate && x.id = t.id && x.ent = t.ent

def putNTomb (t : NTomb) (l : List NTomb) : List NTomb :=
  if l.any t.samePk then l.map fun x => if t.samePk x then t else x else l ++ [t]

/-- primary key `(room_id, deletion_date, src, label, dest)` -/
def ETomb.samePk (t x : ETomb) : Bool := x.room = t.room && x.ddate = t.ddate && x.src = t.src && x.dest = t.dest

def putETomb (t : ETomb) (l : List ETomb) : List ETomb :=
  if l.any t.samePk then l.map fun x => if t.samePk x then t else x else l ++ [t]

/-- the rights of a case, per member: the date from which the member holds the all-rows right (`some 0`: from the
    start, `none`: never; every member holds the own-rows right). Rights are dated in the room definition
    (`EntityRight::valid_from`); the definition itself does not change during a case. -/
abbrev Rights := List (Option Nat)

/-- `Room::can(key, entity, date, right)`: own rows always, foreign rows with the all-rows right valid at `date` -/
def can (rights : Rights) (p : Nat) (own : Bool) (date : Nat) : Bool :=
  own || match rights.getD p none with
         | some t => decide (t ≤ date)
         | none => false

inductive Res where
  | ok | okNoChange | okNoRef | okNothing | errAuth | errUnknown
deriving Repr, DecidableEq

def Res.str : Res → String
  | .ok => "ok" | .okNoChange => "ok:nochange" | .okNoRef => "ok:noref" | .okNothing => "ok:nothing"
  | .errAuth => "err:auth" | .errUnknown => "err:unknown"

/-! ### local writes: planned on `snap` (the committed state the reader sees), applied to `cur`;
    the marks are written at the end of the writer batch -/

structure Effect where
  cur : Replica
  marks : List Key
  res : Res

def kNode (room ent t : Nat) : Key := { room, ent, day := dayOf t }

def opNew (cur : Replica) (p row room ent val sig now : Nat) : Effect :=
  let n : Node := { id := row, room, ent, cdate := now, mdate := now, author := p, val, sig }
  { cur := { cur with nodes := cur.nodes ++ [n] }, marks := [kNode room ent now], res := .ok }

def opUpd (rights : Rights) (snap cur : Replica) (p row ent val sig : Nat) (room : Option Nat)
    (now : Nat) : Effect :=
  match snap.findNode row ent with
  | none => { cur, marks := [], res := .errUnknown }
  | some old =>
    if !can rights p (old.author = p) now then { cur, marks := [], res := .errAuth }
    else
      let n : Node := { old with room := room.getD old.room, mdate := now, author := p, val, sig }
      { cur := { cur with nodes := replaceNode n cur.nodes },
        marks := [kNode n.room ent now, kNode old.room old.ent old.mdate], res := .ok }

def opRef (rights : Rights) (snap cur : Replica) (p row to sig now : Nat) : Effect :=
  match snap.findNode row 0 with
  | none => { cur, marks := [], res := .errUnknown }
  | some old =>
    match snap.findNode to 0 with
    | none => { cur, marks := [], res := .errUnknown }
    | some tgt =>
      if snap.edges.any (fun e => e.src = row && e.dest = to) then
        -- nothing changes, the days of both rows are marked all the same
        { cur, marks := [kNode tgt.room tgt.ent tgt.mdate, kNode old.room old.ent old.mdate], res := .okNoChange }
      else if !can rights p (old.author = p) now then { cur, marks := [], res := .errAuth }
      else
        let n : Node := { old with mdate := now, author := p, sig }
        { cur := { cur with nodes := replaceNode n cur.nodes,
                            edges := putEdge { src := row, dest := to, cdate := now, author := p } cur.edges },
          marks := [kNode tgt.room tgt.ent tgt.mdate, kNode old.room 0 now, kNode old.room old.ent old.mdate],
          res := .ok }

def opUnref (d : Defects) (rights : Rights) (snap cur : Replica) (p row to sig dsig now : Nat) : Effect :=
  match snap.findNode row 0 with
  | none => { cur, marks := [], res := .okNothing }
  | some old =>
    let n : Node := { old with mdate := now, author := p, sig }
    let rowMarks := if d.refDeletionUnmarked then [] else [kNode old.room 0 now, kNode old.room 0 old.mdate]
    match snap.edges.find? (fun e => e.src = row && e.dest = to) with
    | none =>
      -- no such reference: nothing happens (before 456214b the row was re-dated and re-signed by the caller all
      -- the same, without a right check)
      if d.refDeletionTouchesRowWithoutRef then
        { cur := { cur with nodes := replaceNode n cur.nodes }, marks := rowMarks, res := .okNoRef }
      else { cur, marks := [], res := .okNothing }
    | some e =>
      if !can rights p (e.author = p) now then { cur, marks := [], res := .errAuth }
      else
        let t : ETomb := { src := row, dest := to, room := old.room, cdate := e.cdate, ddate := now,
                           author := p, sig := dsig }
        { cur := { cur with nodes := replaceNode n cur.nodes,
                            edges := cur.edges.filter (fun x => !(x.src = row && x.dest = to)),
                            etombs := putETomb t cur.etombs },
          marks := kNode old.room 0 now :: rowMarks, res := .ok }

def opDel (rights : Rights) (snap cur : Replica) (p row ent dsig now : Nat) : Effect :=
  match snap.findNode row ent with
  | none => { cur, marks := [], res := .okNothing }
  | some old =>
    if !can rights p (old.author = p) now then { cur, marks := [], res := .errAuth }
    else
      -- the record of the same version at the same date by the same author is byte-identical: same signature
      let same := cur.ntombs.find? fun x => x.id = row && x.room = old.room && x.ent = old.ent &&
        x.mdate = old.mdate && x.ddate = now && x.author = p
      let t : NTomb := { id := row, room := old.room, ent := old.ent, mdate := old.mdate, ddate := now,
                         author := p, sig := match same with | some x => x.sig | none => dsig }
      { cur := { cur with nodes := cur.nodes.filter (·.id ≠ row),
                          edges := cur.edges.filter (fun x => !(x.src = row || x.dest = row)),
                          ntombs := putNTomb t cur.ntombs },
        marks := [kNode old.room old.ent old.mdate, kNode old.room old.ent now], res := .ok }

/-! ### one directed pull of one room -/

structure DefLog where
  lastDate : Option Nat
  daily : Option Hash
  hist : Option Hash
deriving Repr, DecidableEq

def maxDay : List FlatRow → Option Nat
  | [] => none
  | r :: t => match maxDay t with
    | none => some r.row.day
    | some m => some (if r.row.day > m then r.row.day else m)

/-- the data part of `RoomDefinitionLog::get`: the first (lowest entity) log row of the last day -/
def roomDef (r : Replica) (room : Nat) : DefLog :=
  let rows := (flatten r.log).filter (·.room = room)
  match maxDay rows with
  | none => { lastDate := none, daily := none, hist := none }
  | some m =>
    match rows.find? (·.row.day = m) with
    | some x => { lastDate := some m, daily := x.row.daily, hist := x.row.hist }
    | none => { lastDate := none, daily := none, hist := none }

/-- `ORDER BY date, entity` -/
def insertByDayEnt (x : FlatRow) : List FlatRow → List FlatRow
  | [] => [x]
  | y :: t =>
    if x.row.day < y.row.day || (x.row.day = y.row.day && x.ent ≤ y.ent) then x :: y :: t
    else y :: insertByDayEnt x t

def roomLog (r : Replica) (room : Nat) : List FlatRow :=
  ((flatten r.log).filter (·.room = room)).foldr insertByDayEnt []

structure DayResult where
  dst : Replica
  changed : Bool
  fetched : Nat

/-- reference deletion records of the day (`delete_edges`, `validate_edge_deletions`, `EdgeDeletionEntry::delete_all`) -/
def applyETombs (rights : Rights) (dst : Replica) (ts : List ETomb) : Replica :=
  let valid := ts.filter fun t =>
    match dst.edges.find? (fun e => e.src = t.src && e.dest = t.dest && e.cdate = t.cdate) with
    | some e => can rights t.author (e.author = t.author) t.ddate
    | none => can rights t.author true t.ddate
  valid.foldl (fun r t =>
    { r with edges := r.edges.filter (fun e => !(e.src = t.src && e.dest = t.dest && e.cdate = t.cdate)),
             etombs := putETomb t r.etombs,
             log := mark { room := t.room, ent := 0, day := dayOf t.ddate } r.log }) dst

/-- `with_previous_authors` keys the records by row id: of two records of one row the later one stays -/
def dedupById : List NTomb → List NTomb
  | [] => []
  | t :: rest => if rest.any (·.id = t.id) then dedupById rest else t :: dedupById rest

/-- `validate_node_deletions`: the right is judged on the author of the row stored locally (any room, any entity) -/
def validNTombs (rights : Rights) (dst : Replica) (ts : List NTomb) : List NTomb :=
  ts.filter fun t =>
    match dst.findId t.id with
    | some n => can rights t.author (n.author = t.author) t.ddate
    | none => can rights t.author true t.ddate

/-- `NodeDeletionEntry::delete_all` for one record -/
def applyNTomb (d : Defects) (r : Replica) (t : NTomb) : Replica :=
  let hit : Node → Bool := fun n => n.id = t.id && (!d.syncDeletionRoomScoped || n.room = t.room)
  let localDay : List Key :=
    if d.syncDeletionLocalDayUnmarked then []
    else (r.nodes.filter hit).map fun n => kNode n.room n.ent n.mdate
  { r with nodes := r.nodes.filter (fun n => !hit n),
           edges := if d.syncDeletionKeepsEdges then r.edges
                    else if r.nodes.any hit
                      then r.edges.filter (fun e => !(e.src = t.id || e.dest = t.id)) else r.edges,
           ntombs := putNTomb t r.ntombs,
           log := markAll ([kNode t.room t.ent t.ddate, kNode t.room t.ent t.mdate] ++ localDay) r.log }

/-- one pass of `GraphDatabaseService::delete_nodes` (repaired): `partition(|n| seen.insert(n.id))` — the first record of
    every row id, in answer order, and the records left over -/
def firstOfEachId : List NTomb → List Nat → List NTomb × List NTomb
  | [], _ => ([], [])
  | t :: rest, seen =>
    if seen.contains t.id then ((firstOfEachId rest seen).1, t :: (firstOfEachId rest seen).2)
    else (t :: (firstOfEachId rest (t.id :: seen)).1, (firstOfEachId rest (t.id :: seen)).2)

/-- the messages `delete_nodes` sends for one answer: sub-batches in which every row id occurs once -/
def subBatches : Nat → List NTomb → List (List NTomb)
  | 0, _ => []
  | fuel + 1, ts =>
    if ts.isEmpty then [] else (firstOfEachId ts []).1 :: subBatches fuel (firstOfEachId ts []).2

/-- node deletion records of the day (`delete_nodes`, `validate_node_deletions`, `NodeDeletionEntry::delete_all`).
    Before the repair (`deletionBatchKeyedById`) the whole answer was one message, keyed by row id; since the repair two
    records of one row travel in separate messages, each validated on the state the previous one left -/
def applyNTombs (d : Defects) (rights : Rights) (dst : Replica) (ts : List NTomb) : Replica :=
  if d.deletionBatchKeyedById then (validNTombs rights dst (dedupById ts)).foldl (applyNTomb d) dst
  else (subBatches ts.length ts).foldl (fun r b => (validNTombs rights r b).foldl (applyNTomb d) r) dst

/-- `Node::filter_existing`: `none` = not requested, `some old` = requested with the local row `old`.
    With #18 repaired (`ingestIgnoresTombstones := false`) an announced id that carries a deletion record is not
    requested; the deletion log is consulted the way a synchronised deletion deletes (`syncDeletionRoomScoped`):
    `WHERE room_id = ? AND id IN (..)` — the records of the synchronised room, which is the room of the announced
    row — or, in the intended behaviour, the records of that id in any room. (Two steps: an id without any record
    passes at once; otherwise the records of that id are looked at.) -/
def wanted (d : Defects) (dst : Replica) (n : Node) : Option (Option Node) :=
  if !d.ingestIgnoresTombstones && dst.ntombs.any (fun t => t.id = n.id) &&
      dst.ntombs.any (fun t => t.id = n.id && (!d.syncDeletionRoomScoped || t.room = n.room)) then none
  else
    match dst.findId n.id with
    | none => some none
    | some l =>
      if n.mdate < l.mdate then none
      else if n.mdate = l.mdate && n.sig ≤ l.sig then none
      else some (some l)

/-- the right `validate_node` asks for: own-rows right when no row is stored or its author is the same -/
def ingestOwn (d : Defects) (n : Node) : Option Node → Bool
  | some l => if d.rightDependsOnLocalAuthor then l.author = n.author else true
  | none => true

/-- `NodeToInsert::update_daily_logs`: the old day is marked only if the room changed -/
def ingestOldMarks (d : Defects) (n : Node) : Option Node → List Key
  | some l =>
    if l.room ≠ n.room then [kNode l.room n.ent l.mdate]
    else if d.oldDayUnmarked then [] else [kNode l.room l.ent l.mdate]
  | none => []

/-- `validate_node` + `NodeToInsert::write` + `update_daily_logs` for one fetched row -/
def ingestNode (d : Defects) (rights : Rights) (r : Replica) (n : Node) (old : Option Node) : Replica :=
  if can rights n.author (ingestOwn d n old) n.mdate then
    { r with nodes := putNode n r.nodes,
             log := markAll (kNode n.room n.ent n.mdate :: ingestOldMarks d n old) r.log }
  else r

/-- `synchronise_day` -/
def syncDay (d : Defects) (rights : Rights) (dst src : Replica) (room ent day : Nat) : DayResult :=
  let ets := src.etombs.filter fun t => t.room = room && ent = 0 && dayOf t.ddate = day
  let dst1 := if ets.isEmpty then dst else applyETombs rights dst ets
  -- answered in primary-key order `(room_id, deletion_date, id, entity)`
  let nts := sortBy (fun (a b : NTomb) => lexL [a.ddate, a.id, a.ent] [b.ddate, b.id, b.ent])
    (src.ntombs.filter fun t => t.room = room && t.ent = ent && dayOf t.ddate = day)
  let dst2 := if nts.isEmpty then dst1 else applyNTombs d rights dst1 nts
  let announced := src.nodes.filter fun n => n.room = room && n.ent = ent && dayOf n.mdate = day
  let req := announced.filterMap fun n => (wanted d dst2 n).map fun o => (n, o)
  if req.isEmpty && d.edgesOnlyForFetchedRows then { dst := dst2, changed := !ets.isEmpty || !nts.isEmpty, fetched := 0 }
  else
    let dst3 := req.foldl (fun r (x : Node × Option Node) => ingestNode d rights r x.1 x.2) dst2
    let edgeReq : List (Nat × Nat) :=
      if d.edgesOnlyForFetchedRows then
        req.map fun x => (x.1.id, match x.2 with | some l => l.mdate | none => 0)
      else announced.map fun n => (n.id, 0)
    let es := edgeReq.flatMap fun (x : Nat × Nat) => src.edges.filter fun e => e.src = x.1 && e.cdate ≥ x.2
    let dst4 := es.foldl (fun r e => { r with edges := putEdge e r.edges }) dst3
    { dst := dst4, changed := !req.isEmpty || !ets.isEmpty || !nts.isEmpty || !es.isEmpty, fetched := req.length }

structure PullResult where
  dst : Replica
  fetched : Nat

def syncDays (d : Defects) (rights : Rights) (src : Replica) (room : Nat) :
    List (Nat × Nat) → Replica → Bool → Nat → Replica × Bool × Nat
  | [], dst, ch, f => (dst, ch, f)
  | (ent, day) :: t, dst, ch, f =>
    let r := syncDay d rights dst src room ent day
    syncDays d rights src room t r.dst (ch || r.changed) (f + r.fetched)

/-- `synchronise_room` (the room definition and the peer rows do not change in a case) -/
def pull (d : Defects) (rights : Rights) (dst src : Replica) (room : Nat) : PullResult :=
  let rem := roomDef src room
  let loc := roomDef dst room
  -- intended: the shortcut through the last day is only sound when the summary covers every entity; without it
  -- the full history is compared
  let history := !d.summaryFirstEntityOnly ||
    !(rem.hist.isSome && loc.hist == rem.hist && loc.lastDate == rem.lastDate)
  let (dst', modified, f) :=
    if history then
      let days := (roomLog src room).filter fun x =>
        match findRow dst.log { room, ent := x.ent, day := x.row.day } with
        | some l => l.daily != x.row.daily
        | none => true
      syncDays d rights src room (days.map fun x => (x.ent, x.row.day)) dst false 0
    else
      let syncDay := !(loc.daily.isSome && loc.lastDate.isSome && loc.daily == rem.daily)
      if syncDay then
        match rem.lastDate with
        | some m =>
          let days := (roomLog src room).filter fun x => x.row.day = m
          let r := syncDays d rights src room (days.map fun x => (x.ent, x.row.day)) dst false 0
          (r.1, true, r.2.2)
        | none => (dst, false, 0)
      else (dst, false, 0)
  let dst'' := if modified then { dst' with log := recompute d dst'.sigs dst'.log } else dst'
  { dst := dst'', fetched := f }

/-! ### the world of a case -/

inductive Pending where
  | new (row ent : Nat) (res : Res)
  | other (res : Res)
  | computed
deriving Repr, DecidableEq

structure Batch where
  peer : Nat
  snap : Replica          -- the committed state (what readers and the dumps see while the batch is open)
  marks : List Key
  pend : List Pending
deriving Repr, DecidableEq

structure World where
  peers : List Replica
  rights : Rights
  now : Nat
  rows : List (Nat × Nat)       -- rows the harness knows: row ↦ entity
  batch : Option Batch
deriving Repr, DecidableEq

def World.initDated (rights : Rights) : World :=
  { peers := rights.map fun _ => Replica.empty, rights, now := 0, rows := [], batch := none }

/-- undated rights: `true` = the all-rows right from the start -/
def World.init (rights : List Bool) : World :=
  World.initDated (rights.map fun b => if b then some 0 else none)

def World.peer (w : World) (p : Nat) : Replica := w.peers.getD p Replica.empty
def World.setPeer (w : World) (p : Nat) (r : Replica) : World := { w with peers := w.peers.set p r }

/-- the state the dumps show: an open batch is not visible -/
def World.visible (w : World) : List Replica :=
  match w.batch with
  | some b => w.peers.set b.peer b.snap
  | none => w.peers

def World.entOf (w : World) (row : Nat) : Option Nat := (w.rows.find? (·.1 = row)).map (·.2)

def Pending.str : Pending → String
  | .new _ _ r => r.str
  | .other r => r.str
  | .computed => "computed"

/-- commit of the open batch: marks are written, results are delivered -/
def World.commit (w : World) : World × List Pending :=
  match w.batch with
  | none => (w, [])
  | some b =>
    let cur := w.peer b.peer
    let cur' := { cur with log := markAll b.marks cur.log }
    let newRows := b.pend.filterMap fun x => match x with
      | .new row ent .ok => some (row, ent)
      | _ => none
    ({ (w.setPeer b.peer cur') with batch := none, rows := w.rows ++ newRows }, b.pend)

inductive WOp where
  | new (row room ent val sig : Nat)
  | upd (row val sig : Nat) (room : Option Nat)
  | ref (row to sig : Nat)
  | unref (row to sig dsig : Nat)
  | del (row dsig : Nat)
deriving Repr, DecidableEq

/-- the harness refuses ops that name rows it does not know -/
def WOp.wellFormed (w : World) : WOp → Bool
  | .new row room ent _ _ => (room = 1 || room = 2) && ent ≤ 1 && (w.entOf row).isNone
  | .upd row _ _ room => (w.entOf row).isSome && (match room with | some r => r = 1 || r = 2 | none => true)
  | .ref row to _ => w.entOf row = some 0 && w.entOf to = some 0
  | .unref row to _ _ => w.entOf row = some 0 && (w.entOf to).isSome
  | .del row _ => (w.entOf row).isSome

def effectOf (d : Defects) (w : World) (snap cur : Replica) (p : Nat) : WOp → Effect
  | .new row room ent val sig => opNew cur p row room ent val sig w.now
  | .upd row val sig room => opUpd w.rights snap cur p row ((w.entOf row).getD 0) val sig room w.now
  | .ref row to sig => opRef w.rights snap cur p row to sig w.now
  | .unref row to sig dsig => opUnref d w.rights snap cur p row to sig dsig w.now
  | .del row dsig => opDel w.rights snap cur p row ((w.entOf row).getD 0) dsig w.now

def pendingOf (op : WOp) (res : Res) : Pending :=
  match op with
  | .new row _ ent _ _ => .new row ent res
  | _ => .other res

/-- a write of peer `p`: immediate (its own batch) or queued in the open batch of `p` -/
def World.write (d : Defects) (w : World) (p : Nat) (op : WOp) : World × Option Res :=
  match w.batch with
  | some b =>
    if b.peer = p then
      let e := effectOf d w b.snap (w.peer p) p op
      ({ (w.setPeer p e.cur) with
          batch := some { b with marks := b.marks ++ e.marks, pend := b.pend ++ [pendingOf op e.res] } }, none)
    else
      let w1 := w.commit.1
      let cur := w1.peer p
      let e := effectOf d w1 cur cur p op
      let w2 := w1.setPeer p { e.cur with log := markAll e.marks e.cur.log }
      let w3 := match op, e.res with
        | .new row _ ent _ _, .ok => { w2 with rows := w2.rows ++ [(row, ent)] }
        | _, _ => w2
      (w3, some e.res)
  | none =>
    let cur := w.peer p
    let e := effectOf d w cur cur p op
    let w2 := w.setPeer p { e.cur with log := markAll e.marks e.cur.log }
    let w3 := match op, e.res with
      | .new row _ ent _ _, .ok => { w2 with rows := w2.rows ++ [(row, ent)] }
      | _, _ => w2
    (w3, some e.res)

/-! ### one deletion query with several reference-deletion entries (`DeletionQuery::build` loops over its entries) -/

/-- one entry `(row, to, sig, dsig)` of the query -/
structure UnrefEntry where
  row : Nat
  to : Nat
  sig : Nat
  dsig : Nat
deriving Repr, DecidableEq

/-- every entry is looked up in the state the query was built on (`snap`), the entries that name an existing
    reference are applied one after the other at the one date of the query, each re-dated source row marks its
    new and its former day; one refused entry refuses the whole query (`validate_deletion` returns on the first
    reference the caller may not delete, nothing has been written yet) -/
def opUnrefs (d : Defects) (rights : Rights) (snap cur : Replica) (p now : Nat) (es : List UnrefEntry) : Effect :=
  let step := fun (acc : Effect × Bool) (e : UnrefEntry) =>
    let r := opUnref d rights snap acc.1.cur p e.row e.to e.sig e.dsig now
    ({ cur := r.cur, marks := acc.1.marks ++ r.marks,
       res := if r.res = .ok then .ok else if acc.1.res = .ok then .ok else if r.res = .okNoRef then .okNoRef
              else acc.1.res }, acc.2 || r.res = .errAuth)
  let (eff, refused) := es.foldl step ({ cur, marks := [], res := .okNothing }, false)
  if refused then { cur, marks := [], res := .errAuth } else eff

def UnrefEntry.wellFormed (w : World) (e : UnrefEntry) : Bool :=
  w.entOf e.row = some 0 && (w.entOf e.to).isSome

def unrefsWellFormed (w : World) (es : List UnrefEntry) : Bool :=
  !es.isEmpty && es.length ≤ 4 && es.all (UnrefEntry.wellFormed w) && ((es.map (·.row)).eraseDups.length = es.length)

/-- the query as its own writer batch (it is not issued while a batch of `p` is open); an open batch of another
    peer is committed first, as for every write -/
def World.unrefs (d : Defects) (w : World) (p : Nat) (es : List UnrefEntry) : World × Res :=
  let w1 := w.commit.1
  let cur := w1.peer p
  let e := opUnrefs d w1.rights cur cur p w1.now es
  (w1.setPeer p { e.cur with log := markAll e.marks e.cur.log }, e.res)

def World.inBatch (w : World) (p : Nat) : Bool :=
  match w.batch with
  | some b => b.peer = p
  | none => false

def World.recomputeAt (d : Defects) (w : World) (p : Nat) : World :=
  w.setPeer p { (w.peer p) with log := recompute d (w.peer p).sigs (w.peer p).log }

def World.compute (d : Defects) (w : World) (p : Nat) : World × Bool :=
  if w.inBatch p then
    let w2 := w.recomputeAt d p
    ({ w2 with batch := w2.batch.map fun b => { b with pend := b.pend ++ [.computed] } }, true)
  else ((w.commit.1).recomputeAt d p, false)

def World.pull (d : Defects) (w : World) (dst src room : Nat) : World × Nat :=
  let w1 := w.commit.1
  let r := Sync.pull d w1.rights (w1.peer dst) (w1.peer src) room
  (w1.setPeer dst r.dst, r.fetched)

/-! canonical (sorted) view of a replica: what a dump shows -/

def Replica.canon (r : Replica) : Replica :=
  { nodes := sortBy (fun a b => lexL [a.id, a.room, a.ent, a.mdate, a.sig] [b.id, b.room, b.ent, b.mdate, b.sig]) r.nodes,
    edges := sortBy (fun a b => lexL [a.src, a.dest, a.cdate, a.author] [b.src, b.dest, b.cdate, b.author]) r.edges,
    ntombs := sortBy (fun a b => lexL [a.id, a.ddate, a.author, a.sig] [b.id, b.ddate, b.author, b.sig]) r.ntombs,
    etombs := sortBy (fun a b => lexL [a.src, a.dest, a.ddate, a.author, a.sig] [b.src, b.dest, b.ddate, b.author, b.sig]) r.etombs,
    log := r.log }

def pairs (n : Nat) : List (Nat × Nat) :=
  (List.range n).flatMap fun a => ((List.range n).filter (· ≠ a)).map fun b => (a, b)

/-- one full round: every ordered pair `dst ← src`, for every room of `rooms` -/
def World.round (d : Defects) (w : World) (rooms : List Nat) : World × Nat :=
  (rooms.flatMap fun room => (pairs w.peers.length).map fun x => (x, room)).foldl
    (fun (acc : World × Nat) (x : (Nat × Nat) × Nat) =>
      let r := acc.1.pull d x.1.1 x.1.2 x.2
      (r.1, acc.2 + r.2)) (w, 0)

/-- `settle room=0` means both rooms -/
def settleRooms (room : Nat) : List Nat := if room = 0 then [1, 2] else [room]

/-- rounds until one changes nothing (at most `max`): (world, rounds, quiet, rows requested in the last round) -/
def World.settleLoop (d : Defects) (rooms : List Nat) : Nat → World → Nat → Nat → World × Nat × Bool × Nat
  | 0, w, n, f => (w, n, false, f)
  | fuel + 1, w, n, _ =>
    let r := w.round d rooms
    if r.1.peers.map Replica.canon = w.peers.map Replica.canon then (r.1, n + 1, true, r.2)
    else World.settleLoop d rooms fuel r.1 (n + 1) r.2

/-- every peer recomputes its log (as the API does after every write), then full rounds -/
def World.settle (d : Defects) (room : Nat) (max : Nat) (w : World) : World × Nat × Bool × Nat :=
  let w0 := (List.range w.peers.length).foldl (fun acc p => acc.recomputeAt d p) w.commit.1
  World.settleLoop d (settleRooms room) max w0 0 0

/-! ### op sequences (the op file of the harness, without its refusals) -/

inductive Op where
  | clock (t : Nat)
  | write (p : Nat) (op : WOp)
  | compute (p : Nat)
  | pull (dst src room : Nat)
  | begin (p : Nat)
  | commit (p : Nat)
  | settle (room max : Nat)
deriving Repr, DecidableEq

def World.exec (d : Defects) (w : World) : Op → World
  | .clock t => { w with now := t }
  | .write p op => (w.write d p op).1
  | .compute p => (w.compute d p).1
  | .pull dst src room => (w.pull d dst src room).1
  | .begin p =>
    let w1 := w.commit.1
    { w1 with batch := some { peer := p, snap := w1.peer p, marks := [], pend := [] } }
  | .commit p =>
    match w.batch with
    | some b => if b.peer = p then w.commit.1 else w
    | none => w
  | .settle room max => (World.settle d room max w).1

def World.run (d : Defects) (w : World) (ops : List Op) : World := ops.foldl (World.exec d) w

end Discret.Sync
