/-
C14, the admission matrix: what `Variables::validate_params` (parameter.rs:51-226) and the mutation parser
(mutation_parser.rs:487-653: literal values) admit for a scalar field, and what the binding step
(`MutationQuery::get_mutate_query`, mutation_query.rs:268-297) does with an admitted value.

A value is represented by the class the two steps can distinguish (`PV`). The key-import and signature-
import entry points of `security.rs` are modelled here too (they are the other "total on every input"
clauses of C14). This file is import-free.

Defect switches (call sites):
* `jsonNullPanics`  — mutation_query.rs:286-297: `serde_json::from_str(value.as_string().unwrap())` on a
  `Json` field; `as_string()` is `None` for `ParamValue::Null`, which `validate_params` admits for a
  nullable field (and the parser admits the literal `null`): the reader thread panics.
* `dateRangePanics` — date_utils.rs:16-30: `date()` / `date_next_day()` unwrap `DateTime::from_timestamp_millis`
  and add a day without a check; `Node::get_daily_nodes_for_room` (node.rs:415-431) and the two deletion-log
  readers apply them to a date taken from a peer's request, on a reader thread (found by the serve engine).
* `unboundedFirstFrame` — network/endpoint.rs:353-355: the acceptor of a QUIC connection (TLS without client
  authentication) reads the length of the first frame of the event stream and allocates `vec![0; len]` without the
  `max_buffer_size` check that the four other frame readers have.
* `emptyKeyPanics`  — security.rs:78-83: `import_verifying_key` reads `veriying_key[0]` before it checks
  the length: the empty byte string panics.
-/
namespace Discret.Adm

/-- scalar field types (`FieldType` without `Entity`/`Array`) -/
inductive FT where
  | bool | float | b64 | int | str | json
deriving Repr, DecidableEq

/-- value classes: booleans, integers, finite / non-finite floats, strings (is it base64? is it JSON?),
    `ParamValue::Binary` (is it base64?), null -/
inductive PV where
  | bool | int | float | floatNaN
  | str (b64 json : Bool)
  | binary (b64 : Bool)
  | null
deriving Repr, DecidableEq

inductive Src where
  | var   -- `field: $param`
  | lit   -- `field: <literal>`
deriving Repr, DecidableEq

/-- outcome of parse + `validate_params` -/
inductive Verdict where
  | admitted | notNullable | conflictingParameterType | invalidBase64 | invalidJson | invalidFieldType
  | invalidQuery | notALiteral
deriving Repr, DecidableEq

/-- outcome of the binding step for an admitted value -/
inductive Bound where
  | stored | errInvalidFloat | errJson | panic
deriving Repr, DecidableEq

structure Defects where
  jsonNullPanics : Bool
  emptyKeyPanics : Bool
  dateRangePanics : Bool
  unboundedFirstFrame : Bool
deriving Repr, DecidableEq

/-- What /repo does. Four deviations were confirmed on the real code by this check (corpus/C14) and fixed in
    /repo (e10cc1c `jsonNullPanics`, 8e31124 `emptyKeyPanics`, e1bf202 `dateRangePanics`, 10c32e2
    `unboundedFirstFrame`); the switches stay so that the witnesses `C14_breaks_*` and the regression replays
    describe what a revert brings back. -/
def Defects.asImplemented : Defects := { jsonNullPanics := false, emptyKeyPanics := false, dateRangePanics := false, unboundedFirstFrame := false }
def Defects.none : Defects := { jsonNullPanics := false, emptyKeyPanics := false, dateRangePanics := false, unboundedFirstFrame := false }
/-- the code before the two fixes -/
def Defects.beforeFixes : Defects := { jsonNullPanics := true, emptyKeyPanics := true, dateRangePanics := true, unboundedFirstFrame := true }

/-- `Variables::validate_params` for the `VariableType` of the field (`Field::get_variable_type`:
    `String` and `Json` fields are both `VariableType::String`) -/
def admitVar (ft : FT) (nullable : Bool) (pv : PV) : Verdict :=
  match pv with
  | .null => if nullable then .admitted else .notNullable
  | _ =>
    match ft, pv with
    | .bool, .bool => .admitted
    | .int, .int => .admitted
    | .float, .float => .admitted
    | .float, .floatNaN => .admitted
    | .float, .int => .admitted
    | .str, .str _ _ => .admitted
    | .json, .str _ _ => .admitted
    | .b64, .str b _ => if b then .admitted else .invalidBase64
    | _, _ => .conflictingParameterType

/-- the mutation parser on a literal (`parse_boolean_type` … `parse_null_type`) -/
def admitLit (ft : FT) (nullable : Bool) (pv : PV) : Verdict :=
  match pv with
  | .null => if nullable then .admitted else .notNullable
  | .bool => if ft == .bool then .admitted else .invalidFieldType
  | .float => if ft == .float then .admitted else .invalidFieldType
  | .int => if ft == .float || ft == .int then .admitted else .invalidFieldType
  | .str b j =>
    match ft with
    | .str => .admitted
    | .b64 => if b then .admitted else .invalidQuery
    | .json => if j then .admitted else .invalidJson
    | _ => .invalidFieldType
  | .floatNaN => .notALiteral
  | .binary _ => .notALiteral

def admission (src : Src) (ft : FT) (nullable : Bool) (pv : PV) : Verdict :=
  match src with
  | .var => admitVar ft nullable pv
  | .lit => admitLit ft nullable pv

/-- the binding step: `as_serde_json_value()` for plain scalars, `from_str(as_string().unwrap())` for `Json` -/
def bind (d : Defects) (ft : FT) (pv : PV) : Bound :=
  match ft with
  | .json =>
    match pv with
    | .str _ j => if j then .stored else .errJson
    | .binary _ => .errJson
    | _ => if d.jsonNullPanics then .panic else .stored
  | _ =>
    match pv with
    | .floatNaN => .errInvalidFloat
    | _ => .stored

/-- the whole request: refused, or bound -/
def request (d : Defects) (src : Src) (ft : FT) (nullable : Bool) (pv : PV) : Verdict × Option Bound :=
  match admission src ft nullable pv with
  | .admitted => (.admitted, some (bind d ft pv))
  | v => (v, none)

/-! ### parameters on system fields (`SYSTEM_FIELDS`, data_model_parser.rs:21-186; `Field::get_variable_type`) -/

/-- the system fields a request may name with a parameter (`sys_peer` / `sys_room` are entity typed: no variable) -/
inductive SysField where
  | id | roomId | cdate | mdate | entity | json | binary | verifyingKey | signature
deriving Repr, DecidableEq

/-- the `VariableType`s of the system fields: `Binary(nullable)`, `Integer(false)`, `String(false)` -/
inductive VT where
  | binary (nullable : Bool) | int | str
deriving Repr, DecidableEq

def sysVarType : SysField → VT
  | .id => .binary false
  | .roomId => .binary true            -- the only nullable binary variable
  | .cdate => .int | .mdate => .int
  | .entity => .str | .json => .str
  | .binary => .binary false | .verifyingKey => .binary false | .signature => .binary false

/-- `Field.mutable`: may a mutation name the field? -/
def sysMutable : SysField → Bool
  | .id => true | .roomId => true | .binary => true
  | _ => false

/-- `validate_params` on one parameter: the verdict, and the value it puts back into the parameter map (a valid
    base64 string becomes `Binary`); `none` = nothing is put back -/
def validateParam (vt : VT) (pv : PV) : Verdict × Option PV :=
  match vt, pv with
  | .binary n, .null => if n then (.admitted, some .null) else (.notNullable, none)
  | .binary _, .binary b => if b then (.admitted, some (.binary b)) else (.invalidBase64, none)
  | .binary _, .str b _ => if b then (.admitted, some (.binary b)) else (.invalidBase64, none)
  | .int, .int => (.admitted, some .int)
  | .int, .null => (.notNullable, none)
  | .str, .str b j => (.admitted, some (.str b j))
  | .str, .null => (.notNullable, none)
  | _, _ => (.conflictingParameterType, none)

inductive Ctx where
  | mutation   -- `field: $p`
  | filter     -- `field = $p`
deriving Repr, DecidableEq

inductive SysOutcome where
  | refused (v : Verdict)
  | defined           -- the request goes on with the parameter bound: a result or an error, no panic
  | panic             -- the binding step looks the parameter up and does not find it
deriving Repr, DecidableEq

/-- a parameter on a system field: the mutation parser refuses the non mutable ones; the binding step
    (`MutationQuery::base64_field`, `params.get(var).unwrap()`) needs the parameter in the map -/
def sysRequest (ctx : Ctx) (f : SysField) (pv : PV) : SysOutcome :=
  if ctx == .mutation && !sysMutable f then .refused .invalidQuery else
  match validateParam (sysVarType f) pv with
  | (.admitted, some _) => .defined
  | (.admitted, none) => .panic
  | (v, _) => .refused v

def allSysFields : List SysField := [.id, .roomId, .cdate, .mdate, .entity, .json, .binary, .verifyingKey, .signature]
def allVT : List VT := [.binary false, .binary true, .int, .str]

def allFT : List FT := [.bool, .float, .b64, .int, .str, .json]
def allPV : List PV :=
  [.bool, .int, .float, .floatNaN, .str false false, .str false true, .str true false, .str true true,
   .binary false, .binary true, .null]
def allSrc : List Src := [.var, .lit]

/-! ### key and signature import (security.rs:78-93, 205-217) -/

inductive KeyOutcome where
  | errKeyType | errKeyLength | reachesDalek | panic
deriving Repr, DecidableEq

def keyTypeEd25519 : Nat := 1

/-- `import_verifying_key`: only the first byte and the length matter before the bytes reach ed25519-dalek -/
def importVerifyingKey (d : Defects) (firstByte : Option Nat) (len : Nat) : KeyOutcome :=
  match firstByte with
  | none => if d.emptyKeyPanics then .panic else .errKeyLength
  | some b =>
    if d.emptyKeyPanics then
      (if b != keyTypeEd25519 then .errKeyType else if len != 33 then .errKeyLength else .reachesDalek)
    else
      (if len != 33 then .errKeyLength else if b != keyTypeEd25519 then .errKeyType else .reachesDalek)

inductive SigOutcome where
  | errLength | reachesDalek
deriving Repr, DecidableEq

/-- `Ed2519VerifyingKey::verify`: the signature length is checked before the conversion -/
def importSignature (len : Nat) : SigOutcome := if len != 64 then .errLength else .reachesDalek

/-! ### thread pools: a panic removes one worker for good (sqlite_database.rs:237-259,
signature_verification_service.rs:39-82) -/

/-- does a pool of `threads` plain OS threads still answer after `k` requests that each panic their worker? -/
def poolAlive (panics : Bool) (threads k : Nat) : Bool := !(panics && threads ≤ k)

/-! ### dates taken from a peer (date_utils.rs:16-30) -/

/-- `DateTime::<Utc>::MIN_UTC` / `MAX_UTC` in milliseconds: the range of `DateTime::from_timestamp_millis` -/
def chronoMinMillis : Int := -8334601228800000
def chronoMaxMillis : Int := 8210266876799999
def dayMillis : Int := 86400000

/-- `date(t)` and `date_next_day(t)` are both defined: `t` is representable and so is `t + 1 day` -/
def dateInRange (t : Int) : Bool := chronoMinMillis ≤ t && t + dayMillis ≤ chronoMaxMillis

/-- outcome of a reader closure that computes the day bounds of a peer-supplied date -/
def dayBoundsPanics (d : Defects) (t : Int) : Bool := d.dateRangePanics && !dateInRange t

/-! ### the first frame of an accepted connection (endpoint.rs:353-357) -/

/-- does the acceptor keep the connection (allocate `len` bytes and wait for them) after a client announced a
    first frame of `len` bytes? -/
def firstFrameAccepted (d : Defects) (len maxBuffer : Nat) : Bool := d.unboundedFirstFrame || len ≤ maxBuffer

/-! ### identifiers spliced bare into SQL (query.rs:107-135, 255-300: `FROM _node <alias>`) -/

/-- keywords SQLite does not accept as a bare table alias (its parser has no identifier fallback for them),
    lower case. The table was read off the engine with the `alias` op over the full keyword list of the SQLite
    documentation and is re-validated by every run (any difference is a model/implementation disagreement). -/
def reservedAlias : List (List Char) := [
  ['a', 'd', 'd'],
  ['a', 'l', 'l'],
  ['a', 'l', 't', 'e', 'r'],
  ['a', 'n', 'd'],
  ['a', 's'],
  ['a', 'u', 't', 'o', 'i', 'n', 'c', 'r', 'e', 'm', 'e', 'n', 't'],
  ['b', 'e', 't', 'w', 'e', 'e', 'n'],
  ['c', 'a', 's', 'e'],
  ['c', 'a', 's', 't'],
  ['c', 'h', 'e', 'c', 'k'],
  ['c', 'o', 'l', 'l', 'a', 't', 'e'],
  ['c', 'o', 'm', 'm', 'i', 't'],
  ['c', 'o', 'n', 's', 't', 'r', 'a', 'i', 'n', 't'],
  ['c', 'r', 'e', 'a', 't', 'e'],
  ['c', 'r', 'o', 's', 's'],
  ['c', 'u', 'r', 'r', 'e', 'n', 't', '_', 'd', 'a', 't', 'e'],
  ['c', 'u', 'r', 'r', 'e', 'n', 't', '_', 't', 'i', 'm', 'e'],
  ['c', 'u', 'r', 'r', 'e', 'n', 't', '_', 't', 'i', 'm', 'e', 's', 't', 'a', 'm', 'p'],
  ['d', 'e', 'f', 'a', 'u', 'l', 't'],
  ['d', 'e', 'f', 'e', 'r', 'r', 'a', 'b', 'l', 'e'],
  ['d', 'e', 'l', 'e', 't', 'e'],
  ['d', 'i', 's', 't', 'i', 'n', 'c', 't'],
  ['d', 'r', 'o', 'p'],
  ['e', 'l', 's', 'e'],
  ['e', 's', 'c', 'a', 'p', 'e'],
  ['e', 'x', 'c', 'e', 'p', 't'],
  ['e', 'x', 'i', 's', 't', 's'],
  ['f', 'o', 'r', 'e', 'i', 'g', 'n'],
  ['f', 'r', 'o', 'm'],
  ['f', 'u', 'l', 'l'],
  ['g', 'r', 'o', 'u', 'p'],
  ['h', 'a', 'v', 'i', 'n', 'g'],
  ['i', 'n'],
  ['i', 'n', 'd', 'e', 'x'],
  ['i', 'n', 'd', 'e', 'x', 'e', 'd'],
  ['i', 'n', 'n', 'e', 'r'],
  ['i', 'n', 's', 'e', 'r', 't'],
  ['i', 'n', 't', 'e', 'r', 's', 'e', 'c', 't'],
  ['i', 'n', 't', 'o'],
  ['i', 's'],
  ['i', 's', 'n', 'u', 'l', 'l'],
  ['j', 'o', 'i', 'n'],
  ['l', 'e', 'f', 't'],
  ['l', 'i', 'm', 'i', 't'],
  ['n', 'a', 't', 'u', 'r', 'a', 'l'],
  ['n', 'o', 't'],
  ['n', 'o', 't', 'h', 'i', 'n', 'g'],
  ['n', 'o', 't', 'n', 'u', 'l', 'l'],
  ['n', 'u', 'l', 'l'],
  ['o', 'n'],
  ['o', 'r'],
  ['o', 'r', 'd', 'e', 'r'],
  ['o', 'u', 't', 'e', 'r'],
  ['p', 'r', 'i', 'm', 'a', 'r', 'y'],
  ['r', 'a', 'i', 's', 'e'],
  ['r', 'e', 'f', 'e', 'r', 'e', 'n', 'c', 'e', 's'],
  ['r', 'e', 't', 'u', 'r', 'n', 'i', 'n', 'g'],
  ['r', 'i', 'g', 'h', 't'],
  ['s', 'e', 'l', 'e', 'c', 't'],
  ['s', 'e', 't'],
  ['t', 'a', 'b', 'l', 'e'],
  ['t', 'h', 'e', 'n'],
  ['t', 'o'],
  ['t', 'r', 'a', 'n', 's', 'a', 'c', 't', 'i', 'o', 'n'],
  ['u', 'n', 'i', 'o', 'n'],
  ['u', 'n', 'i', 'q', 'u', 'e'],
  ['u', 'p', 'd', 'a', 't', 'e'],
  ['u', 's', 'i', 'n', 'g'],
  ['v', 'a', 'l', 'u', 'e', 's'],
  ['w', 'h', 'e', 'n'],
  ['w', 'h', 'e', 'r', 'e']]

/-- ASCII lower-casing of one character (SQLite keywords are ASCII) -/
def lowerAscii (c : Char) : Char := if 65 ≤ c.toNat && c.toNat ≤ 90 then Char.ofNat (c.toNat + 32) else c

/-- does SQLite accept `s` as a bare table alias? An ASCII digit cannot start a bare identifier, code points
    above U+007F are identifier characters, reserved words are refused whatever their case -/
def bareAliasOk (s : List Char) : Bool :=
  match s with
  | [] => false
  | c :: _ => !(48 ≤ c.toNat && c.toNat ≤ 57) && !reservedAlias.contains (s.map lowerAscii)

/-- what the query parser and then the engine do with an identifier used as an entity alias: names starting
    with `_` are refused by the parser (`InvalidName`), the others are spliced bare into the SQL text -/
inductive AliasOutcome where
  | invalidName | ok | sqlError
deriving Repr, DecidableEq

def aliasOutcome (s : List Char) : AliasOutcome :=
  match s with
  | '_' :: _ => .invalidName
  | _ => if bareAliasOk s then .ok else .sqlError

end Discret.Adm
