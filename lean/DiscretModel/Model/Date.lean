/-! # Day arithmetic — model of `src/date_utils.rs` (`clamped`, `date`, `date_next_day`)

Every daily-log bucket, every per-day request of the synchronisation and every per-day SQL window
(`daily_log.rs:36,221`, `node.rs:460,937`, `edge.rs:464`) is computed with these two functions; the models of
Sync/Serve/DailyLog abstract them as `dayOf t = t / 86400000`. This file models the functions as they are written
(chrono's representable range included) so that `Lemmas/Date.lean` can prove that abstraction right, and the
correspondence (`dates` op of the sync engine) runs them against the real functions.

* `DateTime::from_timestamp_millis(t)` is `Some` exactly for `minMs ≤ t ≤ maxMs` (`DateTime::<Utc>::MIN_UTC`,
  `MAX_UTC`); `clamped` replaces anything else by the nearest bound.
* `date` floors to midnight UTC (`date_naive().and_hms_opt(0,0,0)`); chrono's calendar arithmetic is proleptic
  Gregorian over days of exactly 86 400 000 ms, so flooring is `t - t mod 86400000` with the Euclidean `mod`.
* `date_next_day` adds one day with `checked_add_signed`, falls back to `MAX_UTC` when the sum is not
  representable, then floors. -/
namespace Discret.Date

def minMs : Int := -8334601228800000
def maxMs : Int := 8210266876799999
def dayMs : Int := 86400000

/-- `clamped` (date_utils.rs:16-22) -/
def clamp (t : Int) : Int := if t < minMs then minMs else if maxMs < t then maxMs else t

/-- midnight UTC of the day that contains `c` -/
def floorDay (c : Int) : Int := c - c % dayMs

/-- `date` (date_utils.rs:25-29) -/
def date (t : Int) : Int := floorDay (clamp t)

/-- `date_next_day` (date_utils.rs:32-39) -/
def dateNextDay (t : Int) : Int :=
  let c := clamp t
  floorDay (if c + dayMs ≤ maxMs then c + dayMs else maxMs)

/-- `t` and `t + 1 day` are representable: everything except the part of the last representable day and beyond,
    and dates before year −262143 -/
def InRange (t : Int) : Prop := minMs ≤ t ∧ t + dayMs ≤ maxMs

instance (t : Int) : Decidable (InRange t) := by unfold InRange; infer_instance

/-- the abstraction used by the other models -/
def dayOf (t : Int) : Int := t / dayMs

end Discret.Date
