import DiscretModel.Model.Lock
/-
The outer loop of `acquire_lock` as it was BEFORE `fix: a waiting peer keeps its place in the lock queue`:
a peer that was visited and could not be served was re-queued at the FRONT of the queue at once, i.e.
behind every peer that arrived later. Kept only for the regression witness `C20_breaks_starvation`
(the correspondence run validates `Model/Lock.lean`, the model of the code as it is now; this file was
validated against the code of its time by the same run, see DESIGN.md §9.1).
-/
namespace Discret.LockOld
open Discret.Lock

/-- One iteration of the outer loop of `acquire_lock` for the popped peer `p` (queue rest `q`)
    whose request `req` has just been removed from the map. -/
def peerBody (s : State) (p : Peer) (q : List Peer) (req : Req) : State × Option (Ch × Room) :=
  let reqs' := erase p s.reqs
  let res := roomLoop s.locked (!s.dead.contains req.ch) req.rooms.length req.rooms
  let rooms' := res.1
  let reqs'' := if rooms'.isEmpty then reqs' else (p, { req with rooms := rooms' }) :: reqs'
  let q' := if rooms'.isEmpty then q else q ++ [p]
  match res.2 with
  | some r =>
    ({ s with reqs := reqs'', queue := q', locked := r :: s.locked, avail := s.avail - 1 },
      some (req.ch, r))
  | none => ({ s with reqs := reqs'', queue := q' }, none)

/-- The outer loop of `acquire_lock`. Returns the new state and the grant `(channel, room)`. -/
def peerLoop : Nat → State → State × Option (Ch × Room)
  | 0, s => (s, none)
  | fuel + 1, s =>
    match s.queue with
    | [] => (s, none)
    | p :: q =>
      match lookup p s.reqs with
      | none => peerLoop fuel { s with queue := q }
      | some req =>
        match peerBody s p q req with
        | (s', some g) => (s', some g)
        | (s', none) => peerLoop fuel s'

def acquire (s : State) : State × Option (Ch × Room) := peerLoop s.queue.length s

/-- `for _ in 0..n { acquire }`, collecting the grants in order. -/
def acquireN : Nat → State → State × List (Ch × Room)
  | 0, s => (s, [])
  | n + 1, s =>
    let (s1, g) := acquire s
    let (s2, gs) := acquireN n s1
    (s2, g.toList ++ gs)


def step (s : State) : Op → State × List (Ch × Room)
  | .request p rooms ch =>
    acquireN (requestPre s p rooms ch).avail (requestPre s p rooms ch)
  | .unlock r =>
    if s.locked.contains r then
      ((acquire (unlockPre s r)).1, (acquire (unlockPre s r)).2.toList)
    else (s, [])
  | .drop ch => ({ s with dead := ch :: s.dead }, [])

/-- run a sequence of operations, collecting per-step grants -/
def run : State → List Op → State × List (List (Ch × Room))
  | s, [] => (s, [])
  | s, op :: ops =>
    let (s1, g) := step s op
    let (s2, gs) := run s1 ops
    (s2, g :: gs)


end Discret.LockOld
