import DiscretModel.Model.Pipeline
/-
Lemmas about the pipeline model: frame properties of `read`/`commit`, and the invariant
"every pending mutation still holds what a read would return now", which is preserved as long as no
write happens while another mutation of the same row is pending.
-/
namespace Discret.Pipeline

/-- `read` looks at the row and at the references of that row only -/
theorem read_congr {db db' : Db} {op : Op} {d : Nat} (hr : db.rows op.key = db'.rows op.key)
    (hf : db.refs op.key = db'.refs op.key) : read db op d = read db' op d := by
  simp only [read, hr, hf]

theorem read_key {db : Db} {op : Op} {d : Nat} {p : Pending} (h : read db op d = some p) : p.key = op.key := by
  simp only [read] at h
  split at h
  · cases h
  · simp only [Option.some.injEq] at h
    rw [← h]

/-- `commit` changes the row and the references of that row only -/
theorem commit_rows_other (db : Db) (p : Pending) {k : Key} (h : k ≠ p.key) : (commit db p).rows k = db.rows k := by
  simp [commit, h]

theorem commit_refs_other (db : Db) (p : Pending) {k : Key} (h : k ≠ p.key) : (commit db p).refs k = db.refs k := by
  simp [commit, h]

theorem read_after_commit_other {db : Db} {p : Pending} {op : Op} {d : Nat} (h : op.key ≠ p.key) :
    read (commit db p) op d = read db op d :=
  read_congr (commit_rows_other db p h) (commit_refs_other db p h)

/-- writes to different rows commute -/
theorem commit_comm (db : Db) (p q : Pending) (h : p.key ≠ q.key) :
    commit (commit db p) q = commit (commit db q) p := by
  have h' : q.key ≠ p.key := fun e => h e.symm
  simp only [commit]
  congr 1
  · funext k
    by_cases h1 : k = p.key
    · have h2 : k ≠ q.key := by rw [h1]; exact h
      simp [h1, h]
    · by_cases h2 : k = q.key
      · simp [h2, h']
      · simp [h1, h2]
  · funext k
    by_cases h1 : k = p.key
    · simp [h1, h]
    · by_cases h2 : k = q.key
      · simp [h2, h']
      · simp [h1, h2]

/-- mutations of different rows commute, whatever their dates -/
theorem apply_comm (db : Db) (a b : Op) (da dbt : Nat) (h : a.key ≠ b.key) :
    apply (apply db a da) b dbt = apply (apply db b dbt) a da := by
  have h' : b.key ≠ a.key := fun e => h e.symm
  unfold apply
  cases ha : read db a da with
  | none =>
    cases hb : read db b dbt with
    | none => simp [ha]
    | some q =>
      have hq := read_key hb
      have : read (commit db (validate q)) a da = read db a da :=
        read_after_commit_other (p := validate q) (by simp only [validate]; rw [hq]; exact h)
      simp [this, ha]
  | some p =>
    have hp := read_key ha
    have hb1 : read (commit db (validate p)) b dbt = read db b dbt :=
      read_after_commit_other (p := validate p) (by simp only [validate]; rw [hp]; exact h')
    cases hb : read db b dbt with
    | none => simp [hb1, hb, ha]
    | some q =>
      have hq := read_key hb
      have ha1 : read (commit db (validate q)) a da = read db a da :=
        read_after_commit_other (p := validate q) (by simp only [validate]; rw [hq]; exact h)
      simp only [hb1, hb, ha1, ha]
      exact commit_comm db (validate p) (validate q) (by simp only [validate]; rw [hp, hq]; exact h)

theorem serial_append (ops : List Op) (db : Db) (l : List (Nat × Nat)) (i d : Nat) :
    serial ops db (l ++ [(i, d)]) =
      match ops[i]? with
      | some op => apply (serial ops db l) op d
      | none => serial ops db l := by
  induction l generalizing db with
  | nil => simp only [List.nil_append, serial]; split <;> simp [*]
  | cons x xs ih =>
    obtain ⟨j, e⟩ := x
    simp only [List.cons_append, serial]
    split <;> exact ih _

/-! ### the invariant of a run -/

/-- every pending mutation holds exactly what reading now would return, and the database is the serial
    result of the writes done so far -/
def Inv (ops : List Op) (db0 : Db) (st : St) : Prop :=
  st.db = serial ops db0 st.done.reverse ∧
  ∀ e ∈ st.pend, ∃ op, ops[e.1]? = some op ∧ read st.db op e.2.1 = some e.2.2

theorem step_err (ops : List Op) (st : St) (e : Ev) (h : st.err = true) : (step ops st e).err = true := by
  cases e with
  | r i =>
    simp only [step]
    split
    · rfl
    · split
      · rfl
      · split <;> first | exact h | rfl
  | v i => simp only [step]; split <;> first | exact h | rfl
  | w i =>
    simp only [step]
    split
    · rfl
    · split
      · rfl
      · split
        · rfl
        · exact h

theorem step_overlap (ops : List Op) (st : St) (e : Ev) (h : st.overlap = true) : (step ops st e).overlap = true := by
  cases e with
  | r i =>
    simp only [step]
    split
    · exact h
    · split
      · exact h
      · split <;> exact h
  | v i => simp only [step]; split <;> exact h
  | w i =>
    simp only [step]
    split
    · exact h
    · split
      · exact h
      · split
        · exact h
        · simp [h]

theorem step_inv (ops : List Op) (db0 : Db) (st : St) (e : Ev) (hi : Inv ops db0 st)
    (he : (step ops st e).err = false) (ho : (step ops st e).overlap = false) : Inv ops db0 (step ops st e) := by
  cases e with
  | r i =>
    cases hop : ops[i]? with
    | none => simp [step, hop] at he
    | some op =>
      by_cases hc : ((st.pend.any fun e => decide (e.1 = i)) || st.done.any fun e => decide (e.1 = i)) = true
      · simp [step, hop, hc] at he
      · cases hp : read st.db op (st.clock + 1) with
        | none => simp [step, hop, hc, hp] at he
        | some p =>
          simp only [step, hop, hc, hp]
          refine ⟨hi.1, ?_⟩
          intro e' he'
          rcases List.mem_cons.mp he' with rfl | he'
          · exact ⟨op, hop, hp⟩
          · exact hi.2 e' he'
  | v i =>
    by_cases hc : ((st.pend.any fun e => decide (e.1 = i)) && !st.queue.contains i) = true
    · simp only [step, hc, if_true]; exact hi
    · simp only [step] at he
      rw [if_neg hc] at he
      simp at he
  | w i =>
    cases hq : st.queue with
    | nil => simp [step, hq] at he
    | cons j q =>
      by_cases hji : j ≠ i
      · simp [step, hq, hji] at he
      · cases hf : st.pend.find? (fun e => decide (e.1 = i)) with
        | none => simp [step, hq, hji, hf] at he
        | some x =>
          obtain ⟨i', d, p⟩ := x
          have hmem := List.mem_of_find?_eq_some hf
          have hi' : i' = i := by
            have := List.find?_some hf
            simpa using this
          subst hi'
          obtain ⟨op, hop, hread⟩ := hi.2 _ hmem
          simp only [step, hq, hji, hf, if_false] at ho ⊢
          simp only [Bool.or_eq_false_iff] at ho
          have hkey : keyOf ops i' = op.key := by simp [keyOf, hop]
          constructor
          · simp only [List.reverse_cons, serial_append, hop]
            simp only [apply]
            rw [← hi.1, hread]
          · intro e' he'
            simp only [List.mem_filter] at he'
            obtain ⟨hm, hne⟩ := he'
            obtain ⟨op', hop', hread'⟩ := hi.2 e' hm
            refine ⟨op', hop', ?_⟩
            have hk : keyOf ops e'.1 ≠ keyOf ops i' := by
              have := ho.2
              simp only [List.any_eq_false, List.mem_filter] at this
              have h2 := this e' ⟨hm, hne⟩
              simpa using h2
            have hk' : op'.key ≠ (validate p).key := by
              simp only [validate]
              rw [read_key hread, ← hkey]
              simpa [keyOf, hop'] using hk
            simp only
            rw [read_after_commit_other hk']
            exact hread'

theorem exec_inv (ops : List Op) (db0 : Db) (s : List Ev) (st : St) (hi : Inv ops db0 st)
    (he : (s.foldl (step ops) st).err = false) (ho : (s.foldl (step ops) st).overlap = false) :
    Inv ops db0 (s.foldl (step ops) st) := by
  induction s generalizing st with
  | nil => exact hi
  | cons e s ih =>
    simp only [List.foldl_cons] at he ho ⊢
    have sticky_err : ∀ (l : List Ev) (t : St), t.err = true → (l.foldl (step ops) t).err = true := by
      intro l
      induction l with
      | nil => intro t h; exact h
      | cons x xs ihx => intro t h; exact ihx _ (step_err ops t x h)
    have sticky_ov : ∀ (l : List Ev) (t : St), t.overlap = true → (l.foldl (step ops) t).overlap = true := by
      intro l
      induction l with
      | nil => intro t h; exact h
      | cons x xs ihx => intro t h; exact ihx _ (step_overlap ops t x h)
    have he1 : (step ops st e).err = false := by
      cases h : (step ops st e).err with
      | false => rfl
      | true => rw [sticky_err s _ h] at he; cases he
    have ho1 : (step ops st e).overlap = false := by
      cases h : (step ops st e).overlap with
      | false => rfl
      | true => rw [sticky_ov s _ h] at ho; cases ho
    exact ih _ (step_inv ops db0 st e hi he1 ho1) he ho

theorem start_inv (ops : List Op) (db0 : Db) : Inv ops db0 (start db0) :=
  ⟨rfl, fun e he => by cases he⟩

/-! ### mutations of pairwise different rows never overlap -/

def Distinct (ops : List Op) : Prop :=
  ∀ i j, i < ops.length → j < ops.length → i ≠ j → keyOf ops i ≠ keyOf ops j

def PendValid (ops : List Op) (st : St) : Prop := ∀ e ∈ st.pend, e.1 < ops.length

theorem step_pendValid (ops : List Op) (st : St) (ev : Ev) (h : PendValid ops st) : PendValid ops (step ops st ev) := by
  cases ev with
  | r i =>
    cases hop : ops[i]? with
    | none => simp only [step, hop]; exact h
    | some op =>
      have hi : i < ops.length := by
        rcases Nat.lt_or_ge i ops.length with h' | h'
        · exact h'
        · rw [List.getElem?_eq_none h'] at hop; cases hop
      by_cases hc : ((st.pend.any fun e => decide (e.1 = i)) || st.done.any fun e => decide (e.1 = i)) = true
      · simp only [step, hop, hc]; exact h
      · cases hp : read st.db op (st.clock + 1) with
        | none => simp only [step, hop, hc, hp]; exact h
        | some p =>
          simp only [step, hop, hc, hp]
          intro e he
          rcases List.mem_cons.mp he with rfl | he
          · exact hi
          · exact h e he
  | v i =>
    by_cases hc : ((st.pend.any fun e => decide (e.1 = i)) && !st.queue.contains i) = true
    · simp only [step, hc]; exact h
    · simp only [step]; rw [if_neg hc]; exact h
  | w i =>
    cases hq : st.queue with
    | nil => simp only [step, hq]; exact h
    | cons j q =>
      by_cases hji : j ≠ i
      · simp only [step, hq]; rw [if_pos hji]; exact h
      · cases hf : st.pend.find? (fun e => decide (e.1 = i)) with
        | none => simp only [step, hq]; rw [if_neg hji]; simp only [hf]; exact h
        | some x =>
          simp only [step, hq]; rw [if_neg hji]; simp only [hf]
          intro e he
          exact h e (List.mem_filter.mp he).1

theorem step_noOverlap (ops : List Op) (st : St) (ev : Ev) (hd : Distinct ops) (hv : PendValid ops st)
    (ho : st.overlap = false) : (step ops st ev).overlap = false := by
  cases ev with
  | r i =>
    simp only [step]
    split
    · exact ho
    · split
      · exact ho
      · split <;> exact ho
  | v i => simp only [step]; split <;> exact ho
  | w i =>
    cases hq : st.queue with
    | nil => simp only [step, hq]; exact ho
    | cons j q =>
      by_cases hji : j ≠ i
      · simp only [step, hq]; rw [if_pos hji]; exact ho
      · cases hf : st.pend.find? (fun e => decide (e.1 = i)) with
        | none => simp only [step, hq]; rw [if_neg hji]; simp only [hf]; exact ho
        | some x =>
          obtain ⟨i', d, p⟩ := x
          have hmem := List.mem_of_find?_eq_some hf
          have hi' : i' = i := by
            have := List.find?_some hf
            simpa using this
          subst hi'
          simp only [step, hq]; rw [if_neg hji]; simp only [hf, ho, Bool.false_or]
          rw [List.any_eq_false]
          intro e he
          obtain ⟨hm, hne⟩ := List.mem_filter.mp he
          have hne' : e.1 ≠ i' := by simpa using hne
          have := hd e.1 i' (hv e hm) (hv _ hmem) hne'
          simpa using this

theorem exec_noOverlap (ops : List Op) (s : List Ev) (st : St) (hd : Distinct ops) (hv : PendValid ops st)
    (ho : st.overlap = false) : (s.foldl (step ops) st).overlap = false := by
  induction s generalizing st with
  | nil => exact ho
  | cons e s ih =>
    simp only [List.foldl_cons]
    exact ih _ (step_pendValid ops st e hv) (step_noOverlap ops st e hd hv ho)

end Discret.Pipeline
