import DiscretModel.Lemmas.SyncMarks
/-
C09 for the deletion query with several reference-deletion entries (`opUnrefs`, `DeletionQuery::build` looping over
its entries): every `(room, entity, day)` whose stored signatures change is marked — the day each re-dated source
row leaves as well as the day it arrives on — so the invariant of the daily log is kept.
-/
namespace Discret.Sync
open Discret.DailyLog

theorem covers_trans {r1 r2 r3 : Replica} {m1 m2 : List Key} (h1 : Covers r1 r2 m1) (h2 : Covers r2 r3 m2) :
    Covers r1 r3 (m1 ++ m2) := by
  intro room ent day hne
  by_cases e : r2.sigs room ent day = r1.sigs room ent day
  · exact List.mem_append_right _ (h2 room ent day (by rw [e]; exact hne))
  · exact List.mem_append_left _ (h1 room ent day e)

theorem replaceNode_ids (n : Node) (l : List Node) (h : ∀ x ∈ l, x.id = n.id → True) :
    (replaceNode n l).map (·.id) = l.map (·.id) := by
  unfold replaceNode
  rw [List.map_map]
  apply List.map_congr_left
  intro x _
  simp only [Function.comp]
  split
  · rename_i e; exact e.symm
  · rfl

/-- one entry, looked up in `snap`, applied to `cur`: covered as soon as the row `snap` shows is the row `cur` holds -/
theorem opUnref_covers_snap {snap cur : Replica} (hn : IdsNodup cur) {d : Defects} (hd : d.refDeletionUnmarked = false)
    (rights : Rights) (p row to sig dsig now : Nat)
    (hs : ∀ old, snap.findNode row 0 = some old → old ∈ cur.nodes) :
    Covers cur (opUnref d rights snap cur p row to sig dsig now).cur
      (opUnref d rights snap cur p row to sig dsig now).marks := by
  unfold opUnref
  split
  · exact covers_refl _ _
  · rename_i old ho
    obtain ⟨_, hid, hent⟩ := findNode_some ho
    have hm := hs old ho
    simp only [hd, Bool.false_eq_true, ↓reduceIte]
    split
    · split
      · apply covers_of_parts
        intro k hk
        simp only [List.mem_cons, List.not_mem_nil, or_false, not_or] at hk
        refine ⟨rfl, rfl, ?_⟩
        show part nKey (·.sig) (replaceNode _ cur.nodes) k = _
        apply replace_part hn hm
        · rfl
        · intro e; apply hk.2; rw [e]; simp [nKey, kNode, hent]
        · intro e; apply hk.1; rw [e]; simp [nKey, kNode, hent]
      · exact covers_refl _ _
    · split
      · exact covers_refl _ _
      · apply covers_of_parts
        intro k hk
        simp only [List.mem_cons, List.not_mem_nil, or_false, not_or] at hk
        refine ⟨rfl, ?_, ?_⟩
        · apply putETomb_part
          intro e; apply hk.1; rw [e]; rfl
        · show part nKey (·.sig) (replaceNode _ cur.nodes) k = _
          apply replace_part hn hm
          · rfl
          · intro e; apply hk.2.2; rw [e]; simp [nKey, kNode, hent]
          · intro e; apply hk.2.1; rw [e]; simp [nKey, kNode, hent]

/-- what one entry does to the rows: the row `row` may be replaced (same id), every other row stays -/
theorem opUnref_nodes (d : Defects) (rights : Rights) (snap cur : Replica) (p row to sig dsig now : Nat) :
    ((opUnref d rights snap cur p row to sig dsig now).cur.nodes.map (·.id) = cur.nodes.map (·.id)) ∧
    (∀ x ∈ cur.nodes, x.id ≠ row → x ∈ (opUnref d rights snap cur p row to sig dsig now).cur.nodes) ∧
    (opUnref d rights snap cur p row to sig dsig now).cur.log = cur.log := by
  have key : ∀ (n : Node), n.id = row →
      ((replaceNode n cur.nodes).map (·.id) = cur.nodes.map (·.id)) ∧
      (∀ x ∈ cur.nodes, x.id ≠ row → x ∈ replaceNode n cur.nodes) := by
    intro n hnid
    refine ⟨replaceNode_ids n cur.nodes (fun _ _ _ => trivial), ?_⟩
    intro x hx hne
    unfold replaceNode
    refine List.mem_map.mpr ⟨x, hx, ?_⟩
    have : ¬ x.id = n.id := by rw [hnid]; exact hne
    simp [this]
  unfold opUnref
  split
  · exact ⟨rfl, fun x hx _ => hx, rfl⟩
  · rename_i old ho
    obtain ⟨_, hid, _⟩ := findNode_some ho
    obtain ⟨a, b⟩ := key { old with mdate := now, author := p, sig := sig } hid
    simp only []
    repeat' split
    all_goals first | exact ⟨rfl, fun x hx _ => hx, rfl⟩ | exact ⟨a, b, rfl⟩

/-- the fold of `opUnrefs`, before the all-or-nothing decision -/
def unrefsFold (d : Defects) (rights : Rights) (snap : Replica) (p now : Nat) (es : List UnrefEntry)
    (acc : Effect × Bool) : Effect × Bool :=
  es.foldl (fun (acc : Effect × Bool) (e : UnrefEntry) =>
    let r := opUnref d rights snap acc.1.cur p e.row e.to e.sig e.dsig now
    ({ cur := r.cur, marks := acc.1.marks ++ r.marks,
       res := if r.res = .ok then .ok else if acc.1.res = .ok then .ok else if r.res = .okNoRef then .okNoRef
              else acc.1.res }, acc.2 || r.res = .errAuth)) acc

theorem unrefsFold_covers {d : Defects} (hd : d.refDeletionUnmarked = false) (rights : Rights) (snap : Replica)
    (p now : Nat) (base : Replica) (es : List UnrefEntry) (acc : Effect × Bool)
    (hrows : (es.map (·.row)).Nodup) (hn : IdsNodup acc.1.cur) (hc : Covers base acc.1.cur acc.1.marks)
    (hlog : acc.1.cur.log = base.log)
    (hs : ∀ e ∈ es, ∀ old, snap.findNode e.row 0 = some old → old ∈ acc.1.cur.nodes) :
    Covers base (unrefsFold d rights snap p now es acc).1.cur (unrefsFold d rights snap p now es acc).1.marks ∧
      (unrefsFold d rights snap p now es acc).1.cur.log = base.log := by
  induction es generalizing acc with
  | nil => exact ⟨hc, hlog⟩
  | cons e t ih =>
    simp only [unrefsFold, List.foldl_cons]
    simp only [List.map_cons, List.nodup_cons] at hrows
    obtain ⟨n1, n2, n3⟩ := opUnref_nodes d rights snap acc.1.cur p e.row e.to e.sig e.dsig now
    refine ih _ hrows.2 ?_ ?_ ?_ ?_
    · show IdsNodup _
      unfold IdsNodup at hn ⊢
      simp only; rw [n1]; exact hn
    · exact covers_trans hc (opUnref_covers_snap hn hd rights p e.row e.to e.sig e.dsig now
        (hs e List.mem_cons_self))
    · simp only; rw [n3]; exact hlog
    · intro e' he' old ho
      have hmem := hs e' (List.mem_cons_of_mem _ he') old ho
      refine n2 old hmem ?_
      obtain ⟨_, hid, _⟩ := findNode_some ho
      rw [hid]
      intro eq
      exact hrows.1 (List.mem_map.mpr ⟨e', he', eq⟩)

theorem opUnrefs_eq (d : Defects) (rights : Rights) (snap cur : Replica) (p now : Nat) (es : List UnrefEntry) :
    opUnrefs d rights snap cur p now es =
      if (unrefsFold d rights snap p now es ({ cur, marks := [], res := .okNothing }, false)).2
      then { cur, marks := [], res := .errAuth }
      else (unrefsFold d rights snap p now es ({ cur, marks := [], res := .okNothing }, false)).1 := by
  unfold opUnrefs unrefsFold
  simp only

/-- **C09 (one deletion query with several reference-deletion entries).** Distinct source rows, planned on the state
    they are applied to: the marks cover every day whose content changes, and the invariant holds again once the
    marks are written. For every version of the code that marks the re-dated row (`refDeletionUnmarked = false`). -/
theorem opUnrefs_winv {d : Defects} (hd : d.refDeletionUnmarked = false) (rights : Rights) {cur : Replica}
    (hn : IdsNodup cur) (h : WInv cur.sigs noPending cur.log) (p now : Nat) (es : List UnrefEntry)
    (hrows : (es.map (·.row)).Nodup) :
    WInv (opUnrefs d rights cur cur p now es).cur.sigs noPending
      (markAll (opUnrefs d rights cur cur p now es).marks (opUnrefs d rights cur cur p now es).cur.log) := by
  obtain ⟨hc, hl⟩ := unrefsFold_covers hd rights cur p now cur es ({ cur, marks := [], res := .okNothing }, false)
    hrows hn (covers_refl _ _) rfl (fun e _ old ho => (findNode_some ho).1)
  rw [opUnrefs_eq]
  split
  · exact winv_step h (covers_refl _ _) rfl
  · exact winv_step h hc hl

end Discret.Sync
