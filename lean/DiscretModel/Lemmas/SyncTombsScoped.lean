import DiscretModel.Lemmas.SyncTombs
/-
C11 for the code with #18 repaired (`ingestIgnoresTombstones := false`, every other switch as in the code — in
particular a synchronised deletion deletes `WHERE room_id = ? AND id = ?` and the deletion log is consulted per room):
a row is never stored again in a room in which the replica holds a deletion record of it — under every pull from any
source whatever, and under every local write that does not itself put the row there.
No hypothesis on the room-scoping switch: the lemmas hold for the code as it is and for the intended behaviour.
-/
namespace Discret.Sync
open Discret.DailyLog

/-- no stored row lives in a room in which the replica holds a deletion record of it -/
def NoZombieR (r : Replica) : Prop := ∀ t ∈ r.ntombs, ∀ n ∈ r.nodes, n.id = t.id → n.room ≠ t.room

/-- the `(row, room)` pairs that carry a deletion record -/
def Replica.deadPairs (r : Replica) : List (Nat × Nat) := r.ntombs.map fun t => (t.id, t.room)

/-- the replica holds no deletion record of row `id` in room `room` -/
def Clear (tombs : List NTomb) (id room : Nat) : Prop := ∀ t ∈ tombs, t.id = id → t.room ≠ room

theorem NoZombie.toR {r : Replica} (h : NoZombie r) : NoZombieR r :=
  fun t ht n hn e => absurd e (h t ht n hn)

theorem noZombieR_iff (r : Replica) : NoZombieR r ↔ ∀ n ∈ r.nodes, (n.id, n.room) ∉ r.deadPairs := by
  unfold NoZombieR Replica.deadPairs
  constructor
  · intro h n hn hm
    obtain ⟨t, ht, e⟩ := List.mem_map.mp hm
    simp only [Prod.mk.injEq] at e
    exact h t ht n hn e.1.symm e.2.symm
  · intro h t ht n hn e1 e2
    exact h n hn (List.mem_map.mpr ⟨t, ht, by rw [e1, e2]⟩)

theorem noZombieR_iff_clear (r : Replica) : NoZombieR r ↔ ∀ n ∈ r.nodes, Clear r.ntombs n.id n.room := by
  unfold NoZombieR Clear
  constructor
  · intro h n hn t ht e1 e2; exact h t ht n hn e1.symm e2.symm
  · intro h t ht n hn e1 e2; exact h n hn t ht e1.symm e2.symm

theorem pairs_putNTomb (t : NTomb) (l : List NTomb) (x : Nat × Nat) :
    x ∈ (putNTomb t l).map (fun u => (u.id, u.room)) ↔ x = (t.id, t.room) ∨ x ∈ l.map (fun u => (u.id, u.room)) := by
  unfold putNTomb
  split
  · rename_i hany
    constructor
    · intro h
      obtain ⟨y, hy, e⟩ := List.mem_map.mp h
      obtain ⟨z, hz, e2⟩ := List.mem_map.mp hy
      split at e2
      · left; rw [← e, ← e2]
      · right; rw [← e, ← e2]; exact List.mem_map.mpr ⟨z, hz, rfl⟩
    · intro h
      rcases h with h | h
      · obtain ⟨y, hy, hpk⟩ := List.any_eq_true.mp hany
        exact List.mem_map.mpr ⟨t, List.mem_map.mpr ⟨y, hy, by simp [hpk]⟩, h.symm⟩
      · obtain ⟨y, hy, e⟩ := List.mem_map.mp h
        by_cases hpk : t.samePk y = true
        · have hid : y.id = t.id ∧ y.room = t.room := by
            simp only [NTomb.samePk, Bool.and_eq_true, decide_eq_true_eq] at hpk; exact ⟨hpk.1.2, hpk.1.1.1⟩
          exact List.mem_map.mpr ⟨t, List.mem_map.mpr ⟨y, hy, by simp [hpk]⟩, by rw [← e, hid.1, hid.2]⟩
        · exact List.mem_map.mpr ⟨y, List.mem_map.mpr ⟨y, hy, by simp [hpk]⟩, e⟩
  · simp only [List.map_append, List.map_cons, List.map_nil, List.mem_append, List.mem_singleton]
    constructor
    · rintro (h | h)
      · exact Or.inr h
      · exact Or.inl h
    · rintro (h | h)
      · exact Or.inr h
      · exact Or.inl h

theorem noZombieR_congr {r r' : Replica} (h : NoZombieR r)
    (hn : ∀ x ∈ r'.nodes, x ∈ r.nodes) (ht : r'.ntombs = r.ntombs) : NoZombieR r' := by
  intro t ht' n hn' e
  rw [ht] at ht'
  exact h t ht' n (hn n hn') e

/-! ### pulls: any source, any model with the deletion log consulted -/

/-- deletion records of a day: whatever the switches, every record that is stored removes the row from its room -/
theorem applyNTombs_noZombieR (d : Defects) (rights : Rights) {dst : Replica} (h : NoZombieR dst) (ts : List NTomb) :
    NoZombieR (applyNTombs d rights dst ts) ∧ ∀ x ∈ dst.deadPairs, x ∈ (applyNTombs d rights dst ts).deadPairs := by
  refine applyNTombs_induct d rights ts (fun r : Replica => NoZombieR r ∧ ∀ x ∈ dst.deadPairs, x ∈ r.deadPairs) dst
    ⟨h, fun x hx => hx⟩ ?_
  intro r t _ ⟨hz, hm⟩
  unfold applyNTomb
  simp only
  constructor
  · intro u hu n hn e1 e2
    simp only [List.mem_filter, Bool.not_eq_eq_eq_not, Bool.not_true, Bool.and_eq_false_imp, decide_eq_true_eq] at hn
    rcases mem_putNTomb hu with e | e
    · -- the new record: the row of that room has just been removed
      subst e
      have := hn.2 e1
      cases hs : d.syncDeletionRoomScoped <;> simp [hs, e2] at this
    · exact hz u e n hn.1 e1 e2
  · intro x hx
    simp only [Replica.deadPairs]
    exact (pairs_putNTomb _ _ _).mpr (Or.inr (hm x hx))

theorem ingestNode_noZombieR (d : Defects) (rights : Rights) {r : Replica} (h : NoZombieR r) (n : Node)
    (old : Option Node) (hf : Clear r.ntombs n.id n.room) :
    NoZombieR (ingestNode d rights r n old) ∧ (ingestNode d rights r n old).ntombs = r.ntombs := by
  unfold ingestNode
  split
  · refine ⟨?_, rfl⟩
    intro t ht x hx e1 e2
    simp only at ht hx
    unfold putNode at hx
    split at hx
    · unfold replaceNode at hx
      obtain ⟨y, hy, e⟩ := List.mem_map.mp hx
      split at e
      · rw [← e] at e1 e2; exact hf t ht e1.symm e2.symm
      · rw [← e] at e1 e2; exact h t ht y hy e1 e2
    · rcases List.mem_append.mp hx with hx | hx
      · exact h t ht x hx e1 e2
      · simp only [List.mem_singleton] at hx
        rw [hx] at e1 e2; exact hf t ht e1.symm e2.symm
  · exact ⟨h, rfl⟩

section
variable {d : Defects} (hI : d.ingestIgnoresTombstones = false)

include hI in
/-- a requested row carries no deletion record in its room on the puller -/
theorem wanted_clear {dst : Replica} {n : Node} {o : Option Node} (h : wanted d dst n = some o) :
    Clear dst.ntombs n.id n.room := by
  unfold wanted at h
  simp only [hI, Bool.not_false, Bool.true_and] at h
  split at h
  · cases h
  · rename_i hany
    intro t ht e1 e2
    apply hany
    rw [Bool.and_eq_true]
    exact ⟨List.any_eq_true.mpr ⟨t, ht, by simp [e1]⟩, List.any_eq_true.mpr ⟨t, ht, by simp [e1, e2]⟩⟩

include hI in
theorem syncDay_noZombieR (rights : Rights) {dst : Replica} (src : Replica) (h : NoZombieR dst) (room ent day : Nat) :
    NoZombieR (syncDay d rights dst src room ent day).dst ∧
      ∀ x ∈ dst.deadPairs, x ∈ (syncDay d rights dst src room ent day).dst.deadPairs := by
  unfold syncDay
  simp only
  have h1 : ∀ ets : List ETomb, NoZombieR (if ets.isEmpty then dst else applyETombs rights dst ets) ∧
      (if ets.isEmpty then dst else applyETombs rights dst ets).deadPairs = dst.deadPairs := by
    intro ets
    split
    · exact ⟨h, rfl⟩
    · obtain ⟨a, b⟩ := applyETombs_same rights dst ets
      exact ⟨noZombieR_congr h (fun x hx => a ▸ hx) b, by simp [Replica.deadPairs, b]⟩
  generalize hets : (src.etombs.filter fun t => t.room = room && ent = 0 && dayOf t.ddate = day) = ets
  obtain ⟨z1, e1⟩ := h1 ets
  generalize hd1 : (if ets.isEmpty then dst else applyETombs rights dst ets) = dst1 at z1 e1
  generalize hnts : (sortBy (fun (a b : NTomb) => lexL [a.ddate, a.id, a.ent] [b.ddate, b.id, b.ent])
      (src.ntombs.filter fun t => t.room = room && t.ent = ent && dayOf t.ddate = day)) = nts
  have h2 : NoZombieR (if nts.isEmpty then dst1 else applyNTombs d rights dst1 nts) ∧
      ∀ x ∈ dst1.deadPairs, x ∈ (if nts.isEmpty then dst1 else applyNTombs d rights dst1 nts).deadPairs := by
    split
    · exact ⟨z1, fun x hx => hx⟩
    · exact applyNTombs_noZombieR d rights z1 nts
  obtain ⟨z2, m2⟩ := h2
  generalize hd2 : (if nts.isEmpty then dst1 else applyNTombs d rights dst1 nts) = dst2 at z2 m2
  have mono : ∀ x ∈ dst.deadPairs, x ∈ dst2.deadPairs := fun x hx => m2 x (e1 ▸ hx)
  split
  · exact ⟨z2, mono⟩
  · generalize hreq : ((src.nodes.filter fun n => n.room = room && n.ent = ent && dayOf n.mdate = day).filterMap
      fun n => (wanted d dst2 n).map fun o => (n, o)) = req
    have hfresh : ∀ x ∈ req, Clear dst2.ntombs x.1.id x.1.room := by
      intro x hx
      rw [← hreq] at hx
      obtain ⟨n, _, hn⟩ := List.mem_filterMap.mp hx
      cases hw : wanted d dst2 n with
      | none => rw [hw] at hn; cases hn
      | some o =>
        rw [hw] at hn
        simp only [Option.map_some, Option.some.injEq] at hn
        rw [← hn]; exact wanted_clear hI hw
    have h3 : ∀ (l : List (Node × Option Node)) (r : Replica), (∀ x ∈ l, Clear dst2.ntombs x.1.id x.1.room) →
        NoZombieR r → r.ntombs = dst2.ntombs →
        NoZombieR (l.foldl (fun r (x : Node × Option Node) => ingestNode d rights r x.1 x.2) r) ∧
        (l.foldl (fun r (x : Node × Option Node) => ingestNode d rights r x.1 x.2) r).ntombs = dst2.ntombs := by
      intro l
      induction l with
      | nil => intro r _ hz ht; exact ⟨hz, ht⟩
      | cons a t ih =>
        intro r hl hz ht
        simp only [List.foldl_cons]
        have hfa : Clear r.ntombs a.1.id a.1.room := by rw [ht]; exact hl a List.mem_cons_self
        obtain ⟨q1, q2⟩ := ingestNode_noZombieR d rights hz a.1 a.2 hfa
        exact ih _ (fun x hx => hl x (List.mem_cons_of_mem _ hx)) q1 (q2.trans ht)
    obtain ⟨z3, t3⟩ := h3 req dst2 hfresh z2 rfl
    have h4 : ∀ (es : List Edge) (r : Replica), NoZombieR r → r.ntombs = dst2.ntombs →
        NoZombieR (es.foldl (fun r e => { r with edges := putEdge e r.edges }) r) ∧
        (es.foldl (fun r e => { r with edges := putEdge e r.edges }) r).ntombs = dst2.ntombs := by
      intro es
      induction es with
      | nil => intro r hz ht; exact ⟨hz, ht⟩
      | cons a t ih =>
        intro r hz ht
        simp only [List.foldl_cons]
        exact ih _ (noZombieR_congr hz (fun x hx => hx) rfl) ht
    obtain ⟨z4, t4⟩ := h4 _ _ z3 t3
    refine ⟨z4, ?_⟩
    intro x hx
    simp only [Replica.deadPairs, t4]
    exact mono x hx

include hI in
theorem syncDays_noZombieR (rights : Rights) (src : Replica) (room : Nat) (l : List (Nat × Nat)) :
    ∀ (dst : Replica) (ch : Bool) (f : Nat), NoZombieR dst →
      NoZombieR (syncDays d rights src room l dst ch f).1 ∧
      ∀ x ∈ dst.deadPairs, x ∈ (syncDays d rights src room l dst ch f).1.deadPairs := by
  induction l with
  | nil => intro dst ch f h; exact ⟨h, fun x hx => hx⟩
  | cons a t ih =>
    intro dst ch f h
    obtain ⟨ent, day⟩ := a
    simp only [syncDays]
    obtain ⟨z, m⟩ := syncDay_noZombieR hI rights src h room ent day
    obtain ⟨z', m'⟩ := ih _ (ch || (syncDay d rights dst src room ent day).changed)
      (f + (syncDay d rights dst src room ent day).fetched) z
    exact ⟨z', fun x hx => m' x (m x hx)⟩

include hI in
/-- **one pull, any source**: no row is stored (again) in a room in which the puller holds a deletion record of it,
    and no deletion record is forgotten -/
theorem pull_noZombieR (rights : Rights) {dst : Replica} (src : Replica) (h : NoZombieR dst) (room : Nat) :
    NoZombieR (pull d rights dst src room).dst ∧
      ∀ x ∈ dst.deadPairs, x ∈ (pull d rights dst src room).dst.deadPairs := by
  have key : ∀ (x : Replica × Bool × Nat), NoZombieR x.1 → (∀ i ∈ dst.deadPairs, i ∈ x.1.deadPairs) →
      NoZombieR (if x.2.1 then { x.1 with log := recompute d x.1.sigs x.1.log } else x.1) ∧
      ∀ i ∈ dst.deadPairs, i ∈ (if x.2.1 then { x.1 with log := recompute d x.1.sigs x.1.log } else x.1).deadPairs := by
    intro x hz hm
    split
    · exact ⟨noZombieR_congr hz (fun y hy => hy) rfl, hm⟩
    · exact ⟨hz, hm⟩
  unfold pull
  simp only
  split
  · obtain ⟨z, m⟩ := syncDays_noZombieR hI rights src room _ dst false 0 h
    exact key _ z m
  · split
    · split
      · obtain ⟨z, m⟩ := syncDays_noZombieR hI rights src room _ dst false 0 h
        exact key (_, true, _) z m
      · exact key (dst, false, 0) h (fun i hi => hi)
    · exact key (dst, false, 0) h (fun i hi => hi)

end

/-! ### local writes: the version a write stores must not lie in a room where the writer holds its deletion record -/

/-- the guard of a local write, on the rows the planner sees (`snapNodes`) and the deletion records the writer
    holds (`tombs`): a created row has an id that carries no record in its room (fresh ids), an update that names a
    room does not move the row into a room where its deletion record is held, and a write that re-signs the stored
    version (update, reference change) finds no record of the row in the room of that version. The last clause is a
    consequence of the invariant whenever the write is a batch of its own (`WOp.safe_of_noZombieR`). -/
def WOp.safe (snapNodes : List Node) (tombs : List NTomb) : WOp → Prop
  | .new row room _ _ _ => Clear tombs row room
  | .upd row _ _ room => ∀ old ∈ snapNodes, old.id = row → Clear tombs row (room.getD old.room)
  | .ref row _ _ => ∀ old ∈ snapNodes, old.id = row → Clear tombs row old.room
  | .unref row _ _ _ => ∀ old ∈ snapNodes, old.id = row → Clear tombs row old.room
  | .del _ _ => True

/-- outside an open batch the guard only concerns creations and explicit room moves -/
theorem WOp.safe_of_noZombieR {r : Replica} (h : NoZombieR r) :
    (∀ row val sig, WOp.safe r.nodes r.ntombs (.upd row val sig none)) ∧
    (∀ row to sig, WOp.safe r.nodes r.ntombs (.ref row to sig)) ∧
    (∀ row to sig dsig, WOp.safe r.nodes r.ntombs (.unref row to sig dsig)) ∧
    (∀ row dsig, WOp.safe r.nodes r.ntombs (.del row dsig)) := by
  refine ⟨?_, ?_, ?_, fun _ _ => trivial⟩
  · intro row val sig old ho e t ht e1 e2
    exact h t ht old ho (e.trans e1.symm) e2.symm
  · intro row to sig old ho e t ht e1 e2
    exact h t ht old ho (e.trans e1.symm) e2.symm
  · intro row to sig dsig old ho e t ht e1 e2
    exact h t ht old ho (e.trans e1.symm) e2.symm

theorem findNode_mem {r : Replica} {id ent : Nat} {n : Node} (h : r.findNode id ent = some n) :
    n ∈ r.nodes ∧ n.id = id := by
  unfold Replica.findNode at h
  have hp := List.find?_some h
  simp only [Bool.and_eq_true, decide_eq_true_eq] at hp
  exact ⟨List.mem_of_find?_eq_some h, hp.1⟩

theorem replace_noZombieR {cur : Replica} (h : NoZombieR cur) (n : Node) (hc : Clear cur.ntombs n.id n.room) :
    NoZombieR { cur with nodes := replaceNode n cur.nodes } := by
  intro t ht x hx e1 e2
  simp only at ht hx
  unfold replaceNode at hx
  obtain ⟨y, hy, e⟩ := List.mem_map.mp hx
  split at e
  · rw [← e] at e1 e2; exact hc t ht e1.symm e2.symm
  · rw [← e] at e1 e2; exact h t ht y hy e1 e2

theorem effectOf_noZombieR (d : Defects) (w : World) (snap : Replica) {cur : Replica} (h : NoZombieR cur) (p : Nat)
    (op : WOp) (hs : op.safe snap.nodes cur.ntombs) :
    NoZombieR (effectOf d w snap cur p op).cur ∧
      ∀ x ∈ cur.deadPairs, x ∈ (effectOf d w snap cur p op).cur.deadPairs := by
  cases op with
  | new row room ent val sig =>
    refine ⟨?_, fun x hx => hx⟩
    intro t ht n hn e1 e2
    simp only [effectOf, opNew, List.mem_append, List.mem_singleton] at ht hn
    rcases hn with hn | hn
    · exact h t ht n hn e1 e2
    · subst hn; exact hs t ht e1.symm e2.symm
  | upd row val sig room =>
    simp only [effectOf, opUpd]
    split
    · exact ⟨h, fun x hx => hx⟩
    · rename_i old hf
      split
      · exact ⟨h, fun x hx => hx⟩
      · obtain ⟨hm, hid⟩ := findNode_mem hf
        refine ⟨replace_noZombieR h _ ?_, fun x hx => hx⟩
        simp only
        rw [hid]; exact hs old hm hid
  | ref row to sig =>
    simp only [effectOf, opRef]
    split
    · exact ⟨h, fun x hx => hx⟩
    · rename_i old hf
      split
      · exact ⟨h, fun x hx => hx⟩
      · split
        · exact ⟨h, fun x hx => hx⟩
        · split
          · exact ⟨h, fun x hx => hx⟩
          · obtain ⟨hm, hid⟩ := findNode_mem hf
            have hz := replace_noZombieR h { old with mdate := w.now, author := p, sig := sig }
              (by simp only; rw [hid]; exact hs old hm hid)
            exact ⟨noZombieR_congr hz (fun x hx => hx) rfl, fun x hx => hx⟩
  | unref row to sig dsig =>
    simp only [effectOf, opUnref]
    split
    · exact ⟨h, fun x hx => hx⟩
    · rename_i old hf
      obtain ⟨hm, hid⟩ := findNode_mem hf
      have hz := replace_noZombieR h { old with mdate := w.now, author := p, sig := sig }
        (by simp only; rw [hid]; exact hs old hm hid)
      split
      · split
        · exact ⟨hz, fun x hx => hx⟩
        · exact ⟨h, fun x hx => hx⟩
      · split
        · exact ⟨h, fun x hx => hx⟩
        · exact ⟨noZombieR_congr hz (fun x hx => hx) rfl, fun x hx => hx⟩
  | del row dsig =>
    simp only [effectOf, opDel]
    split
    · exact ⟨h, fun x hx => hx⟩
    · split
      · exact ⟨h, fun x hx => hx⟩
      · simp only
        constructor
        · intro t ht n hn e1 e2
          simp only [List.mem_filter, decide_eq_true_eq] at hn
          rcases mem_putNTomb ht with e | e
          · rw [e] at e1; exact hn.2 e1
          · exact h t e n hn.1 e1 e2
        · intro x hx
          simp only [Replica.deadPairs]
          exact (pairs_putNTomb _ _ _).mpr (Or.inr hx)

/-! ### the world of a case -/

/-- every replica (and the committed state hidden by an open batch) keeps deleted rows out of their rooms -/
def WZR (w : World) : Prop := (∀ r ∈ w.peers, NoZombieR r) ∧ ∀ b, w.batch = some b → NoZombieR b.snap

/-- the rows the planner of a write of peer `p` sees: the committed state behind an open batch of `p` -/
def World.snapOf (w : World) (p : Nat) : Replica :=
  match w.batch with
  | some b => if b.peer = p then b.snap else w.peer p
  | none => w.peer p

/-- the guard of an op: only local writes carry one -/
def Op.safe (w : World) : Op → Prop
  | .write p op => op.safe (w.snapOf p).nodes (w.peer p).ntombs
  | _ => True

theorem empty_noZombieR : NoZombieR Replica.empty := by intro t ht; cases ht

theorem WZR.peer {w : World} (h : WZR w) (p : Nat) : NoZombieR (w.peer p) := by
  unfold World.peer
  rw [List.getD_eq_getElem?_getD]
  cases hp : w.peers[p]? with
  | none => exact empty_noZombieR
  | some r => exact h.1 r (List.mem_of_getElem? hp)

theorem WZR.setPeer {w : World} (h : WZR w) (p : Nat) {r : Replica} (hr : NoZombieR r) : WZR (w.setPeer p r) := by
  refine ⟨?_, h.2⟩
  intro x hx
  simp only [World.setPeer] at hx
  rcases List.mem_or_eq_of_mem_set hx with e | e
  · exact h.1 x e
  · rw [e]; exact hr

theorem log_noZombieR {r : Replica} (h : NoZombieR r) (l : Log) : NoZombieR { r with log := l } :=
  noZombieR_congr h (fun x hx => hx) rfl

theorem commit_WZR {w : World} (h : WZR w) :
    WZR w.commit.1 ∧ ∀ q, (w.commit.1.peer q).ntombs = (w.peer q).ntombs ∧ (w.commit.1.peer q).nodes = (w.peer q).nodes := by
  unfold World.commit
  split
  · exact ⟨h, fun q => ⟨rfl, rfl⟩⟩
  · rename_i b hb
    constructor
    · refine ⟨?_, by intro b' hb'; cases hb'⟩
      have := (h.setPeer b.peer (log_noZombieR (h.peer b.peer) (markAll b.marks (w.peer b.peer).log))).1
      exact this
    · intro q
      show ((w.setPeer b.peer _).peer q).ntombs = _ ∧ ((w.setPeer b.peer _).peer q).nodes = _
      rw [peer_setPeer]
      split
      · rename_i hc; rw [hc.1]; exact ⟨rfl, rfl⟩
      · exact ⟨rfl, rfl⟩

/-- the step invariant: deleted rows stay out of their rooms, no deletion record is forgotten -/
def StepR (w w' : World) : Prop :=
  WZR w' ∧ ∀ q x, x ∈ (w.peer q).deadPairs → x ∈ (w'.peer q).deadPairs

theorem StepR.refl {w : World} (h : WZR w) : StepR w w := ⟨h, fun _ _ hi => hi⟩

theorem StepR.trans {a b c : World} (h1 : StepR a b) (h2 : StepR b c) : StepR a c :=
  ⟨h2.1, fun q i hi => h2.2 q i (h1.2 q i hi)⟩

theorem stepR_commit {w : World} (h : WZR w) : StepR w w.commit.1 :=
  ⟨(commit_WZR h).1, fun q i hi => by simp only [Replica.deadPairs] at hi ⊢; rw [((commit_WZR h).2 q).1]; exact hi⟩

theorem stepR_setPeer {w : World} (h : WZR w) (p : Nat) {r : Replica} (hr : NoZombieR r)
    (hm : ∀ i ∈ (w.peer p).deadPairs, i ∈ r.deadPairs) : StepR w (w.setPeer p r) := by
  refine ⟨h.setPeer p hr, ?_⟩
  intro q i hi
  rw [peer_setPeer]
  split
  · rename_i hc; rw [hc.1] at hi; exact hm i hi
  · exact hi

theorem stepR_rows {w : World} (h : WZR w) (rows : List (Nat × Nat)) : StepR w { w with rows := rows } :=
  ⟨⟨h.1, h.2⟩, fun _ _ hi => hi⟩

section
variable {d : Defects}

theorem write_stepR {w : World} (h : WZR w) (p : Nat) (op : WOp) (hs : Op.safe w (.write p op)) :
    StepR w (w.write d p op).1 := by
  unfold World.write
  unfold Op.safe World.snapOf at hs
  cases hb : w.batch with
  | some b =>
    rw [hb] at hs
    simp only at hs ⊢
    split
    · -- queued in the open batch of `p`
      rename_i hp
      simp only [hp, ↓reduceIte] at hs
      obtain ⟨e1, e2⟩ := effectOf_noZombieR d w b.snap (h.peer p) p op hs
      have s1 := stepR_setPeer h p e1 e2
      refine ⟨⟨s1.1.1, ?_⟩, s1.2⟩
      intro b' hb'
      simp only [Option.some.injEq] at hb'
      rw [← hb']
      exact h.2 b hb
    · rename_i hp
      simp only [hp, ↓reduceIte] at hs
      have hc := stepR_commit h
      obtain ⟨ct, cn⟩ := (commit_WZR h).2 p
      have hs' : op.safe (w.commit.1.peer p).nodes (w.commit.1.peer p).ntombs := by rw [ct, cn]; exact hs
      obtain ⟨e1, e2⟩ := effectOf_noZombieR d w.commit.1 (w.commit.1.peer p) (hc.1.peer p) p op hs'
      have s1 := stepR_setPeer hc.1 p
        (log_noZombieR e1 (markAll (effectOf d w.commit.1 (w.commit.1.peer p) (w.commit.1.peer p) p op).marks
          (effectOf d w.commit.1 (w.commit.1.peer p) (w.commit.1.peer p) p op).cur.log)) e2
      refine hc.trans ?_
      split
      · exact s1.trans (stepR_rows s1.1 _)
      · exact s1
  | none =>
    rw [hb] at hs
    simp only at hs ⊢
    obtain ⟨e1, e2⟩ := effectOf_noZombieR d w (w.peer p) (h.peer p) p op hs
    have s1 := stepR_setPeer h p
      (log_noZombieR e1 (markAll (effectOf d w (w.peer p) (w.peer p) p op).marks
        (effectOf d w (w.peer p) (w.peer p) p op).cur.log)) e2
    split
    · exact s1.trans (stepR_rows s1.1 _)
    · exact s1

theorem compute_stepR {w : World} (h : WZR w) (p : Nat) : StepR w (w.compute d p).1 := by
  have key : ∀ w1 : World, WZR w1 → StepR w1 (w1.recomputeAt d p) :=
    fun w1 h1 => stepR_setPeer h1 p (log_noZombieR (h1.peer p) _) (fun i hi => hi)
  unfold World.compute
  split
  · have s := key w h
    refine ⟨⟨s.1.1, ?_⟩, s.2⟩
    intro b' hb'
    simp only [World.recomputeAt, World.setPeer, Option.map_eq_some_iff] at hb'
    obtain ⟨b0, e0, e1⟩ := hb'
    rw [← e1]; exact h.2 b0 e0
  · exact (stepR_commit h).trans (key _ (stepR_commit h).1)

variable (hI : d.ingestIgnoresTombstones = false)

include hI in
theorem pull_stepR {w : World} (h : WZR w) (dst src room : Nat) : StepR w (w.pull d dst src room).1 := by
  unfold World.pull
  simp only
  have hc := stepR_commit h
  obtain ⟨z, m⟩ := pull_noZombieR hI w.commit.1.rights (w.commit.1.peer src) (hc.1.peer dst) room
  exact hc.trans (stepR_setPeer hc.1 dst z m)

include hI in
theorem round_stepR {w : World} (h : WZR w) (rooms : List Nat) : StepR w (w.round d rooms).1 := by
  unfold World.round
  refine foldl_preserves (fun acc : World × Nat => StepR w acc.1) _ _ _ (StepR.refl h) ?_
  intro acc x hacc
  exact hacc.trans (pull_stepR hI hacc.1 x.1.1 x.1.2 x.2)

include hI in
theorem settleLoop_stepR (rooms : List Nat) (fuel : Nat) :
    ∀ (w : World) (n f : Nat), WZR w → StepR w (World.settleLoop d rooms fuel w n f).1 := by
  induction fuel with
  | zero => intro w n f h; exact StepR.refl h
  | succ k ih =>
    intro w n f h
    simp only [World.settleLoop]
    have hr := round_stepR hI (d := d) h rooms
    split
    · exact hr
    · exact hr.trans (ih _ _ _ hr.1)

theorem recomputeAt_stepR {w : World} (h : WZR w) (p : Nat) : StepR w (w.recomputeAt d p) :=
  stepR_setPeer h p (log_noZombieR (h.peer p) _) (fun i hi => hi)

include hI in
theorem settle_stepR {w : World} (h : WZR w) (room max : Nat) : StepR w (World.settle d room max w).1 := by
  unfold World.settle
  simp only
  have hc := stepR_commit h
  have h0 : StepR w ((List.range w.peers.length).foldl (fun acc p => acc.recomputeAt d p) w.commit.1) := by
    refine foldl_preserves (fun acc : World => StepR w acc) _ _ _ hc ?_
    intro acc p hacc
    exact hacc.trans (recomputeAt_stepR hacc.1 p)
  exact h0.trans (settleLoop_stepR hI _ max _ 0 0 h0.1)

include hI in
/-- one op of a case -/
theorem exec_stepR {w : World} (h : WZR w) (op : Op) (hs : op.safe w) : StepR w (w.exec d op) := by
  cases op with
  | clock t => exact ⟨⟨h.1, h.2⟩, fun _ _ hi => hi⟩
  | write p wop => exact write_stepR h p wop hs
  | compute p => exact compute_stepR h p
  | pull dst src room => exact pull_stepR hI h dst src room
  | «begin» p =>
    simp only [World.exec]
    have hc := stepR_commit h
    refine ⟨⟨hc.1.1, ?_⟩, hc.2⟩
    intro b hb
    simp only [Option.some.injEq] at hb
    rw [← hb]; exact hc.1.peer p
  | commit p =>
    simp only [World.exec]
    split
    · split
      · exact stepR_commit h
      · exact StepR.refl h
    · exact StepR.refl h
  | settle room max =>
    simp only [World.exec]
    exact settle_stepR hI h room max

/-- every local write of the run passes its guard in the state in which it is made -/
def runSafe (d : Defects) : World → List Op → Prop
  | _, [] => True
  | w, op :: t => op.safe w ∧ runSafe d (w.exec d op) t

include hI in
theorem run_stepR (ops : List Op) : ∀ (w : World), WZR w → runSafe d w ops → StepR w (World.run d w ops) := by
  induction ops with
  | nil => intro w h _; exact StepR.refl h
  | cons op t ih =>
    intro w h hf
    rw [run_cons]
    have s := exec_stepR hI h op hf.1
    exact s.trans (ih _ s.1 hf.2)

end

theorem init_WZR (rights : Rights) : WZR (World.initDated rights) := by
  refine ⟨?_, by intro b hb; cases hb⟩
  intro r hr
  simp only [World.initDated, List.mem_map] at hr
  obtain ⟨_, _, e⟩ := hr
  rw [← e]; exact empty_noZombieR

theorem runSafe_append (d : Defects) (ops1 ops2 : List Op) :
    ∀ w, runSafe d w (ops1 ++ ops2) → runSafe d w ops1 ∧ runSafe d (World.run d w ops1) ops2 := by
  induction ops1 with
  | nil => intro w hf; exact ⟨trivial, hf⟩
  | cons op t ih =>
    intro w hf
    obtain ⟨a, b⟩ := hf
    obtain ⟨c, e⟩ := ih _ b
    exact ⟨⟨a, c⟩, e⟩

end Discret.Sync
