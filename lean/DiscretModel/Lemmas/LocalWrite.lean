import DiscretModel.Lemmas.Room
import DiscretModel.Model.LocalWrite
/-
Lemmas about the local write path (`Model/LocalWrite.lean`), used by C01 and C12.

* `Authorised`: what the right check of one change establishes (own-rows / all-rows right at the date of the
  operation, in the room the row enters and in the room it leaves);
* `validateChange_authorised`, `validateAll_authorised`: an accepted mutation (intended behaviour) has checked
  every change that writes a row;
* `applyAll_rows`, `applyAll_edges_*`: what the write touches is what the changes say;
* the shape of planned changes (`plan_*`).
-/
namespace Discret.LocalWrite
open Discret.Room

/-- room `rid` grants `caller` the right `rt` on `entity` at `now` -/
def Allowed (rooms : List Room) (caller : Key) (now : Int) (entity : Ent) (rt : RightType) (rid : Id) : Prop :=
  ∃ room, getRoom rooms rid = some room ∧ room.can caller entity now rt = true

/-- the change passed the right check: the needed right (own-rows when the caller creates the row or is the
    author of the stored row, all-rows otherwise) is granted at `now` in the room the row is in after the
    change, and in the room it was in before when that is another room -/
structure Authorised (rooms : List Room) (caller : Key) (now : Int) (c : Change) : Prop where
  enters : ∀ rid, c.roomId = some rid → Allowed rooms caller now c.entity (needed c caller) rid
  leaves : ∀ o rid0 rid, c.old = some o → o.room = some rid0 → c.roomId = some rid → rid0 ≠ rid →
    Allowed rooms caller now c.entity (needed c caller) rid0

/-- no room is left when the defect is off or the row does not change room -/
def NoMove (c : Change) : Prop := ∀ o rid0 rid, c.old = some o → o.room = some rid0 → c.roomId = some rid → rid0 = rid

theorem validateChange_authorised {df : Defects} {rooms : List Room} {caller : Key} {now : Int} {c : Change}
    {t : List EdgeTomb} (hdf : df.oldRoomLookup = false ∨ NoMove c)
    (h : validateChange df rooms caller now c = .ok t) : Authorised rooms caller now c := by
  unfold validateChange at h
  split at h
  · rename_i hr
    exact ⟨(by intro rid e; rw [hr] at e; cases e), (by intro o r0 rid _ _ e; rw [hr] at e; cases e)⟩
  · rename_i rid hr
    split at h
    · cases h
    · rename_i room hroom
      simp only at h
      split at h
      · cases h
      · rename_i hold
        split at h
        · rename_i hcan
          refine ⟨?_, ?_⟩
          · intro rid' e; rw [hr] at e; cases e; exact ⟨room, hroom, hcan⟩
          · intro o rid0 rid' ho hor e hne
            rw [hr] at e; cases e
            rcases hdf with hdf | hnm
            · rw [ho] at hold
              simp only [hor, hne, if_false, hdf, Bool.false_eq_true] at hold
              split at hold
              · cases hold
              · rename_i oldRoom hg
                split at hold
                · rename_i hc; exact ⟨oldRoom, hg, hc⟩
                · cases hold
            · exact absurd (hnm o rid0 rid ho hor hr) hne
        · cases h

theorem validateList_ok {df : Defects} {rooms : List Room} {caller : Key} {now : Int} {cs : List Change}
    {l : List (Change × List EdgeTomb)} (h : validateList df rooms caller now cs = .ok l) :
    l.map (·.1) = cs ∧
    ∀ ct ∈ l, (ct.1.node = none → ct.2 = []) ∧
      (ct.1.node ≠ none → validateChange df rooms caller now ct.1 = .ok ct.2) := by
  induction cs generalizing l with
  | nil => simp only [validateList] at h; cases h; simp
  | cons c t ih =>
    simp only [validateList] at h
    split at h
    · cases h
    · rename_i tombs hone
      split at h
      · cases h
      · rename_i rest hrest
        cases h
        obtain ⟨hm, hall⟩ := ih hrest
        refine ⟨by simp [hm], ?_⟩
        intro ct hct
        rcases List.mem_cons.mp hct with rfl | hct
        · simp only
          split at hone
          · rename_i hn; cases hone; exact ⟨fun _ => rfl, fun hne => absurd hn hne⟩
          · rename_i n hn; exact ⟨(fun e => by rw [hn] at e; cases e), fun _ => hone⟩
        · exact hall ct hct

/-- **every change that writes a row was checked** (intended behaviour, or the code as it is when the entity's
    own row changes or no sub-entity row changes, and no row changes room) -/
theorem validateAll_authorised {df : Defects} {rooms : List Room} {caller : Key} {now : Int} {top : Change}
    {subs : List Change} {l : List (Change × List EdgeTomb)}
    (hskip : df.subNodesSkipped = false ∨ top.node ≠ none ∨ ∀ c ∈ subs, c.node = none)
    (hmove : df.oldRoomLookup = false ∨ ∀ c ∈ top :: subs, NoMove c)
    (h : validateAll df rooms caller now top subs = .ok l) :
    l.map (·.1) = top :: subs ∧ ∀ ct ∈ l, ct.1.node ≠ none → Authorised rooms caller now ct.1 := by
  have hm : ∀ c ∈ top :: subs, df.oldRoomLookup = false ∨ NoMove c := by
    intro c hc
    rcases hmove with h1 | h1
    · exact Or.inl h1
    · exact Or.inr (h1 c hc)
  unfold validateAll at h
  split at h
  · rename_i htop
    split at h
    · rename_i hs
      cases h
      refine ⟨?_, ?_⟩
      · simp only [List.map_cons, List.map_map]
        congr 1
        conv => rhs; rw [← List.map_id subs]
        apply List.map_congr_left
        intro c _; rfl
      intro ct hct hne
      rcases List.mem_cons.mp hct with rfl | hct
      · exact absurd htop hne
      · obtain ⟨c, hc, rfl⟩ := List.mem_map.mp hct
        rcases hskip with h1 | h1 | h1
        · rw [hs] at h1; cases h1
        · exact absurd htop h1
        · exact absurd (h1 c hc) hne
    · split at h
      · cases h
      · rename_i l' hl
        cases h
        obtain ⟨hmap, hall⟩ := validateList_ok hl
        refine ⟨by simp [hmap], ?_⟩
        intro ct hct hne
        rcases List.mem_cons.mp hct with rfl | hct
        · exact absurd htop hne
        · have hcin : ct.1 ∈ subs := by rw [← hmap]; exact List.mem_map.mpr ⟨ct, hct, rfl⟩
          exact validateChange_authorised (hm ct.1 (List.mem_cons_of_mem _ hcin)) ((hall ct hct).2 hne)
  · obtain ⟨hmap, hall⟩ := validateList_ok h
    refine ⟨hmap, ?_⟩
    intro ct hct hne
    have hcin : ct.1 ∈ top :: subs := by rw [← hmap]; exact List.mem_map.mpr ⟨ct, hct, rfl⟩
    exact validateChange_authorised (hm ct.1 hcin) ((hall ct hct).2 hne)

/-! ### what the write touches -/

theorem upsertRow_mem {rows : List Row} {x r : Row} (h : r ∈ upsertRow rows x) : r ∈ rows ∨ r = x := by
  unfold upsertRow at h
  split at h
  · obtain ⟨y, hy, rfl⟩ := List.mem_map.mp h
    split
    · exact Or.inr rfl
    · exact Or.inl hy
  · rcases List.mem_append.mp h with h | h
    · exact Or.inl h
    · simp at h; exact Or.inr h

theorem upsertEdge_mem {edges : List EdgeRow} {x e : EdgeRow} (h : e ∈ upsertEdge edges x) : e ∈ edges ∨ e = x := by
  unfold upsertEdge at h
  split at h
  · obtain ⟨y, hy, rfl⟩ := List.mem_map.mp h
    split
    · exact Or.inr rfl
    · exact Or.inl hy
  · rcases List.mem_append.mp h with h | h
    · exact Or.inl h
    · simp at h; exact Or.inr h

theorem foldl_upsertEdge_mem {caller : Key} {ins : List EdgeRow} {edges : List EdgeRow} {e : EdgeRow}
    (h : e ∈ ins.foldl (fun acc x => upsertEdge acc { x with author := caller }) edges) :
    e ∈ edges ∨ ∃ x ∈ ins, e = { x with author := caller } := by
  induction ins generalizing edges with
  | nil => exact Or.inl h
  | cons x t ih =>
    simp only [List.foldl_cons] at h
    rcases ih h with h1 | ⟨y, hy, rfl⟩
    · rcases upsertEdge_mem h1 with h2 | h2
      · exact Or.inl h2
      · exact Or.inr ⟨x, List.mem_cons_self .., h2⟩
    · exact Or.inr ⟨y, List.mem_cons_of_mem _ hy, rfl⟩

/-- a row of the database after the write is a row of the database before, or the signed new row of a change -/
theorem applyAll_rows {caller : Key} {l : List (Change × List EdgeTomb)} {db : Db} {r : Row}
    (h : r ∈ (applyAll caller db l).rows) :
    r ∈ db.rows ∨ ∃ ct ∈ l, ∃ n, ct.1.node = some n ∧ r = { n with author := caller } := by
  induction l generalizing db with
  | nil => exact Or.inl h
  | cons ct t ih =>
    simp only [applyAll, List.foldl_cons] at h
    rcases ih h with h1 | ⟨ct', hct', n, hn, rfl⟩
    · simp only [applyChange] at h1
      split at h1
      · rename_i n hn
        rcases upsertRow_mem h1 with h2 | h2
        · exact Or.inl h2
        · exact Or.inr ⟨ct, List.mem_cons_self .., n, hn, h2⟩
      · exact Or.inl h1
    · exact Or.inr ⟨ct', List.mem_cons_of_mem _ hct', n, hn, rfl⟩

/-- a reference of the database after the write is a reference of the database before, or a signed added
    reference of a change -/
theorem applyAll_edges {caller : Key} {l : List (Change × List EdgeTomb)} {db : Db} {e : EdgeRow}
    (h : e ∈ (applyAll caller db l).edges) :
    e ∈ db.edges ∨ ∃ ct ∈ l, ∃ x ∈ ct.1.edgeIns, e = { x with author := caller } := by
  induction l generalizing db with
  | nil => exact Or.inl h
  | cons ct t ih =>
    simp only [applyAll, List.foldl_cons] at h
    rcases ih h with h1 | ⟨ct', hct', x, hx, rfl⟩
    · simp only [applyChange] at h1
      rcases foldl_upsertEdge_mem h1 with h2 | ⟨x, hx, rfl⟩
      · exact Or.inl (List.mem_filter.mp h2).1
      · exact Or.inr ⟨ct, List.mem_cons_self .., x, hx, rfl⟩
    · exact Or.inr ⟨ct', List.mem_cons_of_mem _ hct', x, hx, rfl⟩

/-! ### the shape of planned changes -/

theorem planNode_shape {db : Db} {now : Int} {handle : Nat} {isNew : Bool} {entity : Ent} {room : Option Id}
    {val : Option Int} {touched : Bool} {roomId : Option Id} {old node : Option Row}
    (h : planNode db now handle isNew entity room val touched = .ok (roomId, old, node)) :
    (∀ n, node = some n → n.id = handle ∧ n.entity = entity ∧ n.room = roomId) ∧
    (∀ o, old = some o → isNew = false ∧ db.getRow handle entity = some o) ∧
    (isNew = true → old = none) ∧
    (touched = true → node ≠ none) := by
  unfold planNode at h
  by_cases hn : isNew = true
  · simp only [hn, if_true, Except.ok.injEq, Prod.mk.injEq] at h
    obtain ⟨rfl, rfl, rfl⟩ := h
    refine ⟨?_, (by intro o e; cases e), (fun _ => rfl), (by intro _ e; cases e)⟩
    intro n e; cases e; exact ⟨rfl, rfl, rfl⟩
  · have hn' : isNew = false := by simpa using hn
    simp only [hn', Bool.false_eq_true, if_false] at h
    cases ho : db.getRow handle entity with
    | none => rw [ho] at h; cases h
    | some o =>
      rw [ho] at h
      simp only at h
      have hoid : o.id = handle ∧ o.entity = entity := by
        have := List.find?_some ho
        simpa using this
      by_cases hv : (val.isSome || touched) = true
      · simp only [hv, if_true, Except.ok.injEq, Prod.mk.injEq] at h
        obtain ⟨rfl, rfl, rfl⟩ := h
        refine ⟨?_, ?_, (by intro e; rw [hn'] at e; cases e), (by intro _ e; cases e)⟩
        · intro n e; cases e; exact ⟨hoid.1, hoid.2, rfl⟩
        · intro o' e; cases e; exact ⟨hn', rfl⟩
      · simp only [hv, Bool.false_eq_true, if_false, Except.ok.injEq, Prod.mk.injEq] at h
        obtain ⟨rfl, rfl, rfl⟩ := h
        refine ⟨(by intro n e; cases e), ?_, (by intro e; rw [hn'] at e; cases e), ?_⟩
        · intro o' e; cases e; exact ⟨hn', rfl⟩
        · intro ht; simp [ht] at hv

/-- the planned change of one entity -/
structure Planned (db : Db) (c : Change) : Prop where
  node : ∀ n, c.node = some n → n.entity = c.entity ∧ n.room = c.roomId
  old : ∀ o, c.old = some o → ∀ n, c.node = some n → db.getRow n.id c.entity = some o
  fresh : c.old = none → ∀ n, c.node = some n → True
  quiet : c.node = none → c.edgeDels = [] ∧ c.edgeIns = []
  src : ∀ n, c.node = some n → (∀ e ∈ c.edgeIns, e.src = n.id) ∧ (∀ e ∈ c.edgeDels, e.src = n.id)

theorem planLeaf_planned {db : Db} {now : Int} {pr : Option Id} {l : Leaf} {c : Change}
    (h : planLeaf db now pr l = .ok c) : Planned db c := by
  unfold planLeaf at h
  simp only at h
  split at h
  · cases h
  · rename_i roomId old node hp
    cases h
    obtain ⟨h1, h2, _, _⟩ := planNode_shape hp
    refine ⟨?_, ?_, fun _ _ _ => trivial, fun _ => ⟨rfl, rfl⟩, ?_⟩
    · intro n hn; exact ⟨(h1 n hn).2.1, (h1 n hn).2.2⟩
    · intro o ho n hn
      rw [(h1 n hn).1]; exact (h2 o ho).2
    · intro n _; exact ⟨(by intro e he; cases he), (by intro e he; cases he)⟩

theorem planLeaves_planned {db : Db} {now : Int} {pr : Option Id} {ls : List Leaf} {cs : List Change}
    (h : planLeaves db now pr ls = .ok cs) : ∀ c ∈ cs, Planned db c := by
  induction ls generalizing cs with
  | nil => simp only [planLeaves] at h; cases h; intro c hc; cases hc
  | cons l t ih =>
    simp only [planLeaves] at h
    split at h
    · cases h
    · rename_i c hc
      split at h
      · cases h
      · rename_i rest hrest
        cases h
        intro x hx
        rcases List.mem_cons.mp hx with rfl | hx
        · exact planLeaf_planned hc
        · exact ih hrest x hx

theorem plan_planned {db : Db} {now : Int} {m : Mut} {top : Change} {subs : List Change}
    (h : plan db now m = .ok (top, subs)) : ∀ c ∈ top :: subs, Planned db c := by
  unfold plan at h
  simp only at h
  split at h
  · cases h
  · split at h
    · cases h
    · rename_i cs dels ins hsubs
      split at h
      · cases h
      · rename_i roomId old node hp
        simp only [Except.ok.injEq, Prod.mk.injEq] at h
        obtain ⟨rfl, rfl⟩ := h
        obtain ⟨h1, h2, _, h4⟩ := planNode_shape hp
        -- the sub-entities
        have hsubsP : ∀ c ∈ cs, Planned db c := by
          split at hsubs
          · cases hsubs; intro c hc; cases hc
          · split at hsubs
            · cases hsubs
            · rename_i cs' hl; cases hsubs; exact planLeaves_planned hl
          · split at hsubs
            · cases hsubs
            · rename_i c hl
              split at hsubs <;> (cases hsubs; intro x hx; simp at hx; subst hx; exact planLeaf_planned hl)
          · cases hsubs; intro c hc; cases hc
        -- the references are stored at the mutated row
        have hsrc : (∀ e ∈ ins, e.src = m.handle) ∧ (∀ e ∈ dels, e.src = m.handle) := by
          split at hsubs
          · cases hsubs; exact ⟨(by intro e he; cases he), (by intro e he; cases he)⟩
          · split at hsubs
            · cases hsubs
            · cases hsubs
              refine ⟨?_, (by intro e he; cases he)⟩
              intro e he
              obtain ⟨c, _, rfl⟩ := List.mem_map.mp he
              rfl
          · split at hsubs
            · cases hsubs
            · split at hsubs
              · cases hsubs; exact ⟨(by intro e he; cases he), (by intro e he; cases he)⟩
              · cases hsubs
                refine ⟨(by intro e he; simp at he; subst he; rfl), ?_⟩
                intro e he
                have := (List.mem_filter.mp he).2
                simp only [Bool.and_eq_true, decide_eq_true_eq] at this
                exact this.1
          · cases hsubs
            refine ⟨(by intro e he; cases he), ?_⟩
            intro e he
            have := (List.mem_filter.mp he).2
            simp only [Bool.and_eq_true, decide_eq_true_eq] at this
            exact this.1
        intro c hc
        rcases List.mem_cons.mp hc with rfl | hc
        · refine ⟨?_, ?_, fun _ _ _ => trivial, ?_, ?_⟩
          · intro n hn; exact ⟨(h1 n hn).2.1, (h1 n hn).2.2⟩
          · intro o ho n hn
            rw [(h1 n hn).1]; exact (h2 o ho).2
          · intro hn
            simp only at hn
            by_cases ht : (!dels.isEmpty || !ins.isEmpty) = true
            · exact absurd hn (h4 ht)
            · simp only [Bool.or_eq_true, Bool.not_eq_true', not_or, Bool.not_eq_false] at ht
              exact ⟨List.isEmpty_iff.mp ht.1, List.isEmpty_iff.mp ht.2⟩
          · intro n hn
            rw [(h1 n hn).1]; exact hsrc
        · exact hsubsP c hc

end Discret.LocalWrite
