import DiscretModel.Lemmas.Room
import DiscretModel.Model.LocalWrite
/-
Lemmas about the local write path (`Model/LocalWrite.lean`), used by C01 and C12.

* `Authorised`: what the right check of one change establishes (own-rows / all-rows right at the date of the
  operation, in the room the row enters and in the room it leaves);
* `validateChange_authorised`, `validateList_authorised`: an accepted mutation (intended behaviour) has checked
  every change that writes a row;
* `applyAll_rows`, `applyAll_edges_*`: what the write touches is what the changes say;
* the shape of planned changes (`plan_*`).
-/
namespace Discret.LocalWrite
open Discret.Room

/-- room `rid` grants `caller` the right `rt` on `entity` at `now` -/
def Allowed (rooms : List Room) (caller : Key) (now : Int) (entity : Ent) (rt : RightType) (rid : Id) : Prop :=
  ∃ room, getRoom rooms rid = some room ∧ room.can caller entity now rt = true

/-- the change passed the right check: the needed right (own-rows when the caller creates the row or is the
    author of the stored row, all-rows otherwise) is granted at `now` in the room the row is in after the
    change, and in the room it was in before when that is another room -/
structure Authorised (rooms : List Room) (caller : Key) (now : Int) (c : Change) : Prop where
  enters : ∀ rid, c.roomId = some rid → Allowed rooms caller now c.entity (needed c caller) rid
  leaves : ∀ o rid0 rid, c.old = some o → o.room = some rid0 → c.roomId = some rid → rid0 ≠ rid →
    Allowed rooms caller now c.entity (needed c caller) rid0

/-- no room is left when the defect is off or the row does not change room -/
def NoMove (c : Change) : Prop := ∀ o rid0 rid, c.old = some o → o.room = some rid0 → c.roomId = some rid → rid0 = rid

theorem validateChange_authorised {df : Defects} {rooms : List Room} {caller : Key} {now : Int} {c : Change}
    {t : List EdgeTomb} (hdf : df.oldRoomLookup = false ∨ NoMove c)
    (h : validateChange df rooms caller now c = .ok t) : Authorised rooms caller now c := by
  unfold validateChange at h
  split at h
  · rename_i hr
    exact ⟨(by intro rid e; rw [hr] at e; cases e), (by intro o r0 rid _ _ e; rw [hr] at e; cases e)⟩
  · rename_i rid hr
    split at h
    · cases h
    · rename_i room hroom
      simp only at h
      split at h
      · cases h
      · rename_i hold
        split at h
        · rename_i hcan
          refine ⟨?_, ?_⟩
          · intro rid' e; rw [hr] at e; cases e; exact ⟨room, hroom, hcan⟩
          · intro o rid0 rid' ho hor e hne
            rw [hr] at e; cases e
            rcases hdf with hdf | hnm
            · rw [ho] at hold
              simp only [hor, hne, if_false, hdf, Bool.false_eq_true] at hold
              split at hold
              · cases hold
              · rename_i oldRoom hg
                split at hold
                · rename_i hc; exact ⟨oldRoom, hg, hc⟩
                · cases hold
            · exact absurd (hnm o rid0 rid ho hor hr) hne
        · cases h

theorem validateList_ok {df : Defects} {rooms : List Room} {caller : Key} {now : Int} {cs : List Change}
    {l : List (Change × List EdgeTomb)} (h : validateList df rooms caller now cs = .ok l) :
    l.map (·.1) = cs ∧
    ∀ ct ∈ l, (ct.1.node = none → ct.2 = []) ∧
      (ct.1.node ≠ none → (df.subNodesSkipped && ct.1.shadowed) = false →
        validateChange df rooms caller now ct.1 = .ok ct.2) := by
  induction cs generalizing l with
  | nil => simp only [validateList] at h; cases h; simp
  | cons c t ih =>
    simp only [validateList] at h
    split at h
    · cases h
    · rename_i tombs hone
      split at h
      · cases h
      · rename_i rest hrest
        cases h
        obtain ⟨hm, hall⟩ := ih hrest
        refine ⟨by simp [hm], ?_⟩
        intro ct hct
        rcases List.mem_cons.mp hct with rfl | hct
        · simp only
          split at hone
          · rename_i hn; cases hone; exact ⟨fun _ => rfl, fun hne => absurd hn hne⟩
          · rename_i n hn
            refine ⟨(fun e => by rw [hn] at e; cases e), fun _ hs => ?_⟩
            rw [hs] at hone
            simpa using hone
        · exact hall ct hct

/-- **every change that writes a row was checked** (intended behaviour, or the code as it is when no changed row
    lies below an unchanged one in the tree, and no row changes room) -/
theorem validateList_authorised {df : Defects} {rooms : List Room} {caller : Key} {now : Int}
    {cs : List Change} {l : List (Change × List EdgeTomb)}
    (hskip : df.subNodesSkipped = false ∨ ∀ c ∈ cs, c.shadowed = true → c.node = none)
    (hmove : df.oldRoomLookup = false ∨ ∀ c ∈ cs, NoMove c)
    (h : validateList df rooms caller now cs = .ok l) :
    l.map (·.1) = cs ∧ ∀ ct ∈ l, ct.1.node ≠ none → Authorised rooms caller now ct.1 := by
  obtain ⟨hmap, hall⟩ := validateList_ok h
  refine ⟨hmap, ?_⟩
  intro ct hct hne
  have hcin : ct.1 ∈ cs := by rw [← hmap]; exact List.mem_map.mpr ⟨ct, hct, rfl⟩
  have hm : df.oldRoomLookup = false ∨ NoMove ct.1 := by
    rcases hmove with h1 | h1
    · exact Or.inl h1
    · exact Or.inr (h1 ct.1 hcin)
  have hs : (df.subNodesSkipped && ct.1.shadowed) = false := by
    rcases hskip with h1 | h1
    · simp [h1]
    · cases hsh : ct.1.shadowed with
      | false => simp
      | true => exact absurd (h1 ct.1 hcin hsh) hne
  exact validateChange_authorised hm ((hall ct hct).2 hne hs)

/-! ### what the write touches -/

theorem upsertRow_mem {rows : List Row} {x r : Row} (h : r ∈ upsertRow rows x) : r ∈ rows ∨ r = x := by
  unfold upsertRow at h
  split at h
  · obtain ⟨y, hy, rfl⟩ := List.mem_map.mp h
    split
    · exact Or.inr rfl
    · exact Or.inl hy
  · rcases List.mem_append.mp h with h | h
    · exact Or.inl h
    · simp at h; exact Or.inr h

theorem upsertEdge_mem {edges : List EdgeRow} {x e : EdgeRow} (h : e ∈ upsertEdge edges x) : e ∈ edges ∨ e = x := by
  unfold upsertEdge at h
  split at h
  · obtain ⟨y, hy, rfl⟩ := List.mem_map.mp h
    split
    · exact Or.inr rfl
    · exact Or.inl hy
  · rcases List.mem_append.mp h with h | h
    · exact Or.inl h
    · simp at h; exact Or.inr h

theorem foldl_upsertEdge_mem {caller : Key} {ins : List EdgeRow} {edges : List EdgeRow} {e : EdgeRow}
    (h : e ∈ ins.foldl (fun acc x => upsertEdge acc { x with author := caller }) edges) :
    e ∈ edges ∨ ∃ x ∈ ins, e = { x with author := caller } := by
  induction ins generalizing edges with
  | nil => exact Or.inl h
  | cons x t ih =>
    simp only [List.foldl_cons] at h
    rcases ih h with h1 | ⟨y, hy, rfl⟩
    · rcases upsertEdge_mem h1 with h2 | h2
      · exact Or.inl h2
      · exact Or.inr ⟨x, List.mem_cons_self .., h2⟩
    · exact Or.inr ⟨y, List.mem_cons_of_mem _ hy, rfl⟩

/-- a row of the database after the write is a row of the database before, or the signed new row of a change -/
theorem applyAll_rows {caller : Key} {l : List (Change × List EdgeTomb)} {db : Db} {r : Row}
    (h : r ∈ (applyAll caller db l).rows) :
    r ∈ db.rows ∨ ∃ ct ∈ l, ∃ n, ct.1.node = some n ∧ r = { n with author := caller } := by
  induction l generalizing db with
  | nil => exact Or.inl h
  | cons ct t ih =>
    simp only [applyAll, List.foldl_cons] at h
    rcases ih h with h1 | ⟨ct', hct', n, hn, rfl⟩
    · simp only [applyChange] at h1
      split at h1
      · rename_i n hn
        rcases upsertRow_mem h1 with h2 | h2
        · exact Or.inl h2
        · exact Or.inr ⟨ct, List.mem_cons_self .., n, hn, h2⟩
      · exact Or.inl h1
    · exact Or.inr ⟨ct', List.mem_cons_of_mem _ hct', n, hn, rfl⟩

/-- a reference of the database after the write is a reference of the database before, or a signed added
    reference of a change -/
theorem applyAll_edges {caller : Key} {l : List (Change × List EdgeTomb)} {db : Db} {e : EdgeRow}
    (h : e ∈ (applyAll caller db l).edges) :
    e ∈ db.edges ∨ ∃ ct ∈ l, ∃ x ∈ ct.1.edgeIns, e = { x with author := caller } := by
  induction l generalizing db with
  | nil => exact Or.inl h
  | cons ct t ih =>
    simp only [applyAll, List.foldl_cons] at h
    rcases ih h with h1 | ⟨ct', hct', x, hx, rfl⟩
    · simp only [applyChange] at h1
      rcases foldl_upsertEdge_mem h1 with h2 | ⟨x, hx, rfl⟩
      · exact Or.inl (List.mem_filter.mp h2).1
      · exact Or.inr ⟨ct, List.mem_cons_self .., x, hx, rfl⟩
    · exact Or.inr ⟨ct', List.mem_cons_of_mem _ hct', x, hx, rfl⟩

/-! ### the shape of planned changes -/

theorem planNode_shape {db : Db} {now : Int} {handle : Nat} {isNew : Bool} {entity : Ent} {room : Option Id}
    {val : Option Int} {touched : Bool} {roomId : Option Id} {old node : Option Row}
    (h : planNode db now handle isNew entity room val touched = .ok (roomId, old, node)) :
    (∀ n, node = some n → n.id = handle ∧ n.entity = entity ∧ n.room = roomId) ∧
    (∀ o, old = some o → isNew = false ∧ db.getRow handle entity = some o) ∧
    (isNew = true → old = none) ∧
    (touched = true → node ≠ none) := by
  unfold planNode at h
  by_cases hn : isNew = true
  · simp only [hn, if_true, Except.ok.injEq, Prod.mk.injEq] at h
    obtain ⟨rfl, rfl, rfl⟩ := h
    refine ⟨?_, (by intro o e; cases e), (fun _ => rfl), (by intro _ e; cases e)⟩
    intro n e; cases e; exact ⟨rfl, rfl, rfl⟩
  · have hn' : isNew = false := by simpa using hn
    simp only [hn', Bool.false_eq_true, if_false] at h
    cases ho : db.getRow handle entity with
    | none => rw [ho] at h; cases h
    | some o =>
      rw [ho] at h
      simp only at h
      have hoid : o.id = handle ∧ o.entity = entity := by
        have := List.find?_some ho
        simpa using this
      by_cases hv : (val.isSome || touched) = true
      · simp only [hv, if_true, Except.ok.injEq, Prod.mk.injEq] at h
        obtain ⟨rfl, rfl, rfl⟩ := h
        refine ⟨?_, ?_, (by intro e; rw [hn'] at e; cases e), (by intro _ e; cases e)⟩
        · intro n e; cases e; exact ⟨hoid.1, hoid.2, rfl⟩
        · intro o' e; cases e; exact ⟨hn', rfl⟩
      · simp only [hv, Bool.false_eq_true, if_false, Except.ok.injEq, Prod.mk.injEq] at h
        obtain ⟨rfl, rfl, rfl⟩ := h
        refine ⟨(by intro n e; cases e), ?_, (by intro e; rw [hn'] at e; cases e), ?_⟩
        · intro o' e; cases e; exact ⟨hn', rfl⟩
        · intro ht; simp [ht] at hv

/-- the planned change of one entity -/
structure Planned (db : Db) (c : Change) : Prop where
  node : ∀ n, c.node = some n → n.entity = c.entity ∧ n.room = c.roomId
  old : ∀ o, c.old = some o → ∀ n, c.node = some n → db.getRow n.id c.entity = some o
  fresh : c.old = none → ∀ n, c.node = some n → True
  quiet : c.node = none → c.edgeDels = [] ∧ c.edgeIns = []
  src : ∀ n, c.node = some n → (∀ e ∈ c.edgeIns, e.src = n.id) ∧ (∀ e ∈ c.edgeDels, e.src = n.id)

theorem refChanges_src {db : Db} {now : Int} {handle : Nat} {sh : Shape} :
    (∀ e ∈ (refChanges db now handle sh).2, e.src = handle) ∧ (∀ e ∈ (refChanges db now handle sh).1, e.src = handle) := by
  cases sh with
  | none => exact ⟨(by intro e he; cases he), (by intro e he; cases he)⟩
  | arr label dests =>
    refine ⟨?_, (by intro e he; cases he)⟩
    intro e he
    simp only [refChanges] at he
    obtain ⟨c, _, rfl⟩ := List.mem_map.mp he
    rfl
  | ent label dest =>
    simp only [refChanges]
    split
    · exact ⟨(by intro e he; cases he), (by intro e he; cases he)⟩
    · refine ⟨(by intro e he; simp at he; subst he; rfl), ?_⟩
      intro e he
      have := (List.mem_filter.mp he).2
      simp only [Bool.and_eq_true, decide_eq_true_eq] at this
      exact this.1
  | null label =>
    refine ⟨(by intro e he; cases he), ?_⟩
    intro e he
    have := (List.mem_filter.mp he).2
    simp only [Bool.and_eq_true, decide_eq_true_eq] at this
    exact this.1

/-- the references a field adds are new: none of them is stored -/
theorem refChanges_ins_fresh {db : Db} {now : Int} {handle : Nat} {sh : Shape} :
    ∀ e ∈ (refChanges db now handle sh).2, db.edgeExists e.src e.label e.dest = false := by
  cases sh with
  | none => intro e he; cases he
  | arr label dests =>
    intro e he
    simp only [refChanges] at he
    obtain ⟨c, hc, rfl⟩ := List.mem_map.mp he
    have := (List.mem_filter.mp hc).2
    simpa using this
  | ent label dest =>
    simp only [refChanges]
    split
    · intro e he; cases he
    · rename_i hx
      intro e he
      simp at he; subst he
      simpa using hx
  | null label => intro e he; cases he

/-- the references a field removes are stored references -/
theorem refChanges_dels_stored {db : Db} {now : Int} {handle : Nat} {sh : Shape} :
    ∀ e ∈ (refChanges db now handle sh).1, e ∈ db.edges := by
  cases sh with
  | none => intro e he; cases he
  | arr label dests => intro e he; cases he
  | ent label dest =>
    simp only [refChanges]
    split
    · intro e he; cases he
    · intro e he; exact (List.mem_filter.mp he).1
  | null label => intro e he; exact (List.mem_filter.mp he).1

theorem planItem_planned {db : Db} {now : Int} {it : Item} {c : Change}
    (h : planItem db now it = .ok c) : Planned db c := by
  unfold planItem at h
  simp only at h
  split at h
  · cases h
  · rename_i roomId old node hp
    cases h
    obtain ⟨h1, h2, _, h4⟩ := planNode_shape hp
    refine ⟨?_, ?_, fun _ _ _ => trivial, ?_, ?_⟩
    · intro n hn; exact ⟨(h1 n hn).2.1, (h1 n hn).2.2⟩
    · intro o ho n hn
      rw [(h1 n hn).1]; exact (h2 o ho).2
    · intro hn
      simp only at hn
      by_cases ht : (!(refChanges db now it.handle it.shape).1.isEmpty || !(refChanges db now it.handle it.shape).2.isEmpty) = true
      · exact absurd hn (h4 ht)
      · simp only [Bool.or_eq_true, Bool.not_eq_true', not_or, Bool.not_eq_false] at ht
        exact ⟨List.isEmpty_iff.mp ht.1, List.isEmpty_iff.mp ht.2⟩
    · intro n hn
      rw [(h1 n hn).1]; exact refChanges_src

theorem planItems_mem {db : Db} {now : Int} {its : List Item} {cs : List Change}
    (h : planItems db now its = .ok cs) : ∀ c ∈ cs, ∃ it ∈ its, planItem db now it = .ok c := by
  induction its generalizing cs with
  | nil => simp only [planItems] at h; cases h; intro c hc; cases hc
  | cons it t ih =>
    simp only [planItems] at h
    split at h
    · cases h
    · rename_i c hc
      split at h
      · cases h
      · rename_i rest hrest
        cases h
        intro x hx
        rcases List.mem_cons.mp hx with rfl | hx
        · exact ⟨it, List.mem_cons_self .., hc⟩
        · obtain ⟨it', hit', hp⟩ := ih hrest x hx
          exact ⟨it', List.mem_cons_of_mem _ hit', hp⟩

/-- every change of the plan of a mutation tree — whatever its depth — has the shape `get_mutate_query` gives it -/
theorem plan_planned {db : Db} {now : Int} {m : Mut} {cs : List Change}
    (h : plan db now m = .ok cs) : ∀ c ∈ cs, Planned db c := by
  intro c hc
  obtain ⟨it, _, hp⟩ := planItems_mem h c hc
  exact planItem_planned hp

/-- the references a planned change adds are not stored, those it removes are -/
theorem plan_refs {db : Db} {now : Int} {m : Mut} {cs : List Change}
    (h : plan db now m = .ok cs) : ∀ c ∈ cs,
      (∀ e ∈ c.edgeIns, db.edgeExists e.src e.label e.dest = false) ∧ (∀ e ∈ c.edgeDels, e ∈ db.edges) := by
  intro c hc
  obtain ⟨it, _, hp⟩ := planItems_mem h c hc
  unfold planItem at hp
  simp only at hp
  split at hp
  · cases hp
  · cases hp
    exact ⟨refChanges_ins_fresh, refChanges_dels_stored⟩

/-- the mutated entity itself (the root of the tree) is the first change of the plan and has no ancestor -/
theorem plan_root {db : Db} {now : Int} {m : Mut} {cs : List Change}
    (h : plan db now m = .ok cs) : ∃ top rest, cs = top :: rest ∧ top.shadowed = false ∧ top.entity = m.entity := by
  cases m with
  | mk handle isNew entity room val field =>
    unfold plan at h
    simp only [flatten, planItems] at h
    split at h
    · cases h
    · rename_i c hc
      split at h
      · cases h
      · rename_i rest _
        cases h
        refine ⟨c, rest, rfl, ?_, ?_⟩
        · unfold planItem at hc
          simp only at hc
          split at hc
          · cases hc
          · cases hc; rfl
        · unfold planItem at hc
          simp only at hc
          split at hc
          · cases hc
          · cases hc; rfl

end Discret.LocalWrite
