import DiscretModel.Model.Value
/-
Lemmas about the value layer of `Model/Value.lean`: escaping, integers, literals.
-/
namespace Discret.Value

/-! ### escape / unescape -/

theorem escape_cons (c : Char) (s : List Char) : escape (c :: s) = escChar c ++ escape s := rfl

theorem hexVal_hexDigit : ∀ n, n < 16 → hexVal (hexDigit n) = some n := by decide

theorem hex4_ctrl : ∀ n, n < 32 →
    hex4 '0' '0' (hexDigit (n / 16)) (hexDigit (n % 16)) = some n := by decide

theorem not_surrogate_ctrl : ∀ n, n < 32 → isSurrogate n = false := by decide

/-- generic unfolding of `unescape` on a list with at least two characters -/
theorem unescape_cons_cons (len : Bool) (c e : Char) (t : List Char) : unescape len (c :: e :: t) =
    if c = '\\' then
      if e = 'u' then
        match t with
        | h1 :: h2 :: h3 :: h4 :: t' =>
          match hex4 h1 h2 h3 h4 with
          | some n => if isSurrogate n then none else (unescape len t').map (Char.ofNat n :: ·)
          | none => none
        | _ => none
      else
        match simpleEsc e with
        | some x => (unescape len t).map (x :: ·)
        | none => none
    else if c = '"' then none
    else if !len && c.toNat < 32 then none
    else (unescape len (e :: t)).map (c :: ·) := by
  rcases t with _ | ⟨h1, _ | ⟨h2, _ | ⟨h3, _ | ⟨h4, t'⟩⟩⟩⟩ <;> rfl

/-- reading one more raw character -/
theorem unescape_raw (len : Bool) (c : Char) (t : List Char)
    (h1 : c ≠ '\\') (h2 : c ≠ '"') (h3 : len = true ∨ ¬ c.toNat < 32) :
    unescape len (c :: t) = (unescape len t).map (c :: ·) := by
  have h3' : (!len && decide (c.toNat < 32)) = false := by
    rcases h3 with h | h
    · simp [h]
    · simp [h]
  cases t with
  | nil => rw [unescape.eq_2, unescape.eq_1]; simp [h1, h2, h3']
  | cons e t => rw [unescape_cons_cons]; simp [h1, h2, h3']

theorem unescape_simple (len : Bool) (e x : Char) (t : List Char) (he : e ≠ 'u')
    (hx : simpleEsc e = some x) :
    unescape len ('\\' :: e :: t) = (unescape len t).map (x :: ·) := by
  rw [unescape_cons_cons]; simp [he, hx]

theorem unescape_u (len : Bool) (h1 h2 h3 h4 : Char) (n : Nat) (t : List Char)
    (hh : hex4 h1 h2 h3 h4 = some n) (hs : isSurrogate n = false) :
    unescape len ('\\' :: 'u' :: h1 :: h2 :: h3 :: h4 :: t) = (unescape len t).map (Char.ofNat n :: ·) := by
  rw [unescape_cons_cons]; simp [hh, hs]

theorem char_eq_of_toNat {c d : Char} (h : c.toNat = d.toNat) : c = d := by
  apply Char.ext
  apply UInt32.toNat_inj.mp
  exact h

theorem ofNat_toNat_ctrl (c : Char) (h : c.toNat < 32) : Char.ofNat c.toNat = c := by
  apply char_eq_of_toNat
  have hv : c.toNat.isValidChar := by left; omega
  rw [Char.ofNat, dif_pos hv]
  rfl

/-- one escaped character is read back as that character -/
theorem unescape_escChar (len : Bool) (c : Char) (t : List Char) :
    unescape len (escChar c ++ t) = (unescape len t).map (c :: ·) := by
  unfold escChar
  split
  · next h => subst h; exact unescape_simple len '"' '"' t (by decide) (by decide)
  split
  · next h => subst h; exact unescape_simple len '\\' '\\' t (by decide) (by decide)
  split
  · next _ _ h =>
    have : c = Char.ofNat 8 := char_eq_of_toNat (by simpa using h)
    subst this; exact unescape_simple len 'b' _ t (by decide) (by decide)
  split
  · next _ _ _ h =>
    have : c = Char.ofNat 9 := char_eq_of_toNat (by simpa using h)
    subst this; exact unescape_simple len 't' _ t (by decide) (by decide)
  split
  · next _ _ _ _ h =>
    have : c = Char.ofNat 10 := char_eq_of_toNat (by simpa using h)
    subst this; exact unescape_simple len 'n' _ t (by decide) (by decide)
  split
  · next _ _ _ _ _ h =>
    have : c = Char.ofNat 12 := char_eq_of_toNat (by simpa using h)
    subst this; exact unescape_simple len 'f' _ t (by decide) (by decide)
  split
  · next _ _ _ _ _ _ h =>
    have : c = Char.ofNat 13 := char_eq_of_toNat (by simpa using h)
    subst this; exact unescape_simple len 'r' _ t (by decide) (by decide)
  split
  · next h =>
    have := unescape_u len '0' '0' (hexDigit (c.toNat / 16)) (hexDigit (c.toNat % 16)) c.toNat t
      (hex4_ctrl _ h) (not_surrogate_ctrl _ h)
    rw [ofNat_toNat_ctrl c h] at this
    exact this
  · next h1 h2 _ _ _ _ _ h3 =>
    exact unescape_raw len c t h2 h1 (Or.inr h3)

/-- **Round trip of strings**: what `serde_json` writes for any string (every Unicode scalar,
    any length) is read back as exactly that string. -/
theorem unescape_escape (len : Bool) (s : List Char) : unescape len (escape s) = some s := by
  induction s with
  | nil => simp [escape, unescape]
  | cons c s ih => rw [escape_cons, unescape_escChar, ih]; rfl

end Discret.Value
