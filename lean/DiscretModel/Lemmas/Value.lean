import DiscretModel.Model.Value
/-
Lemmas about the value layer of `Model/Value.lean`: escaping, integers, literals.
-/
namespace Discret.Value

/-! ### escape / unescape -/

theorem escape_cons (c : Char) (s : List Char) : escape (c :: s) = escChar c ++ escape s := rfl

theorem hexVal_hexDigit : ∀ n, n < 16 → hexVal (hexDigit n) = some n := by decide

theorem hex4_ctrl : ∀ n, n < 32 →
    hex4 '0' '0' (hexDigit (n / 16)) (hexDigit (n % 16)) = some n := by decide

theorem not_surrogate_ctrl : ∀ n, n < 32 → isSurrogate n = false := by decide

/-- generic unfolding of `unescape` on a list with at least two characters -/
theorem unescape_cons_cons (len : Bool) (c e : Char) (t : List Char) : unescape len (c :: e :: t) =
    if c = '\\' then
      if e = 'u' then
        match t with
        | h1 :: h2 :: h3 :: h4 :: t' =>
          match hex4 h1 h2 h3 h4 with
          | some n => if isSurrogate n then none else (unescape len t').map (Char.ofNat n :: ·)
          | none => none
        | _ => none
      else
        match simpleEsc e with
        | some x => (unescape len t).map (x :: ·)
        | none => none
    else if c = '"' then none
    else if !len && c.toNat < 32 then none
    else (unescape len (e :: t)).map (c :: ·) := by
  rcases t with _ | ⟨h1, _ | ⟨h2, _ | ⟨h3, _ | ⟨h4, t'⟩⟩⟩⟩ <;> rfl

/-- reading one more raw character -/
theorem unescape_raw (len : Bool) (c : Char) (t : List Char)
    (h1 : c ≠ '\\') (h2 : c ≠ '"') (h3 : len = true ∨ ¬ c.toNat < 32) :
    unescape len (c :: t) = (unescape len t).map (c :: ·) := by
  have h3' : (!len && decide (c.toNat < 32)) = false := by
    rcases h3 with h | h
    · simp [h]
    · simp [h]
  cases t with
  | nil => rw [unescape.eq_2, unescape.eq_1]; simp [h1, h2, h3']
  | cons e t => rw [unescape_cons_cons]; simp [h1, h2, h3']

theorem unescape_simple (len : Bool) (e x : Char) (t : List Char) (he : e ≠ 'u')
    (hx : simpleEsc e = some x) :
    unescape len ('\\' :: e :: t) = (unescape len t).map (x :: ·) := by
  rw [unescape_cons_cons]; simp [he, hx]

theorem unescape_u (len : Bool) (h1 h2 h3 h4 : Char) (n : Nat) (t : List Char)
    (hh : hex4 h1 h2 h3 h4 = some n) (hs : isSurrogate n = false) :
    unescape len ('\\' :: 'u' :: h1 :: h2 :: h3 :: h4 :: t) = (unescape len t).map (Char.ofNat n :: ·) := by
  rw [unescape_cons_cons]; simp [hh, hs]

theorem char_eq_of_toNat {c d : Char} (h : c.toNat = d.toNat) : c = d := by
  apply Char.ext
  apply UInt32.toNat_inj.mp
  exact h

theorem ofNat_toNat_ctrl (c : Char) (h : c.toNat < 32) : Char.ofNat c.toNat = c := by
  apply char_eq_of_toNat
  have hv : c.toNat.isValidChar := by left; omega
  rw [Char.ofNat, dif_pos hv]
  rfl

/-- one escaped character is read back as that character -/
theorem unescape_escChar (len : Bool) (c : Char) (t : List Char) :
    unescape len (escChar c ++ t) = (unescape len t).map (c :: ·) := by
  unfold escChar
  split
  · next h => subst h; exact unescape_simple len '"' '"' t (by decide) (by decide)
  split
  · next h => subst h; exact unescape_simple len '\\' '\\' t (by decide) (by decide)
  split
  · next _ _ h =>
    have : c = Char.ofNat 8 := char_eq_of_toNat (by simpa using h)
    subst this; exact unescape_simple len 'b' _ t (by decide) (by decide)
  split
  · next _ _ _ h =>
    have : c = Char.ofNat 9 := char_eq_of_toNat (by simpa using h)
    subst this; exact unescape_simple len 't' _ t (by decide) (by decide)
  split
  · next _ _ _ _ h =>
    have : c = Char.ofNat 10 := char_eq_of_toNat (by simpa using h)
    subst this; exact unescape_simple len 'n' _ t (by decide) (by decide)
  split
  · next _ _ _ _ _ h =>
    have : c = Char.ofNat 12 := char_eq_of_toNat (by simpa using h)
    subst this; exact unescape_simple len 'f' _ t (by decide) (by decide)
  split
  · next _ _ _ _ _ _ h =>
    have : c = Char.ofNat 13 := char_eq_of_toNat (by simpa using h)
    subst this; exact unescape_simple len 'r' _ t (by decide) (by decide)
  split
  · next h =>
    have := unescape_u len '0' '0' (hexDigit (c.toNat / 16)) (hexDigit (c.toNat % 16)) c.toNat t
      (hex4_ctrl _ h) (not_surrogate_ctrl _ h)
    rw [ofNat_toNat_ctrl c h] at this
    exact this
  · next h1 h2 _ _ _ _ _ h3 =>
    exact unescape_raw len c t h2 h1 (Or.inr h3)

/-- **Round trip of strings**: what `serde_json` writes for any string (every Unicode scalar,
    any length) is read back as exactly that string. -/
theorem unescape_escape (len : Bool) (s : List Char) : unescape len (escape s) = some s := by
  induction s with
  | nil => simp [escape, unescape]
  | cons c s ih => rw [escape_cons, unescape_escChar, ih]; rfl

/-! ### integers -/

theorem digitVal_digitChar : ∀ d, d < 10 → digitVal (digitChar d) = some d := by decide

theorem parseDigits_append (acc : Nat) (s : List Char) (c : Char) :
    parseDigits acc (s ++ [c]) =
      (parseDigits acc s).bind fun n => (digitVal c).map fun d => n * 10 + d := by
  induction s generalizing acc with
  | nil =>
    simp only [List.nil_append, parseDigits]
    cases digitVal c <;> simp
  | cons x s ih =>
    simp only [List.cons_append, parseDigits]
    cases digitVal x with
    | none => simp
    | some d => simp [ih]

theorem natDigits_lt (n : Nat) (h : n < 10) : natDigits n = [digitChar n] := by
  rw [natDigits]; simp [h]

theorem natDigits_ge (n : Nat) (h : ¬ n < 10) :
    natDigits n = natDigits (n / 10) ++ [digitChar (n % 10)] := by
  rw [natDigits]; simp [h]

theorem parseDigits_natDigits (n : Nat) : parseDigits 0 (natDigits n) = some n := by
  induction n using Nat.strongRecOn with
  | _ n ih =>
    by_cases h : n < 10
    · rw [natDigits_lt n h]; simp [parseDigits, digitVal_digitChar n h]
    · rw [natDigits_ge n h, parseDigits_append, ih (n / 10) (by omega)]
      simp [digitVal_digitChar (n % 10) (by omega)]
      omega

theorem natDigits_ne_nil (n : Nat) : natDigits n ≠ [] := by
  by_cases h : n < 10
  · rw [natDigits_lt n h]; simp
  · rw [natDigits_ge n h]; simp

theorem natDigits_all_digits (n : Nat) : ∀ c ∈ natDigits n, ∃ d, d < 10 ∧ c = digitChar d := by
  induction n using Nat.strongRecOn with
  | _ n ih =>
    by_cases h : n < 10
    · rw [natDigits_lt n h]; intro c hc; simp at hc; exact ⟨n, h, hc⟩
    · rw [natDigits_ge n h]; intro c hc
      rcases List.mem_append.mp hc with hc | hc
      · exact ih (n / 10) (by omega) c hc
      · simp at hc; exact ⟨n % 10, by omega, hc⟩

theorem parseNat_natDigits (n : Nat) : parseNat (natDigits n) = some n := by
  unfold parseNat
  have := natDigits_ne_nil n
  cases hd : natDigits n with
  | nil => exact absurd hd this
  | cons c t => simp [← hd, parseDigits_natDigits, this]

theorem digitChar_ne_minus : ∀ d, d < 10 → digitChar d ≠ '-' := by decide

theorem parseInt_natDigits (n : Nat) : parseInt (natDigits n) = some (n : Int) := by
  cases hd : natDigits n with
  | nil => exact absurd hd (natDigits_ne_nil n)
  | cons c t =>
    have hc : c ≠ '-' := by
      obtain ⟨d, hd10, hcd⟩ := natDigits_all_digits n c (by rw [hd]; simp)
      rw [hcd]; exact digitChar_ne_minus d hd10
    have : parseInt (c :: t) = (parseNat (c :: t)).map fun n => (n : Int) := by
      unfold parseInt
      split
      · next h => injection h with h1 _; exact absurd h1 hc
      · rfl
    rw [this, ← hd, parseNat_natDigits]; rfl

/-- **Round trip of integers**: the decimal text of any integer is read back as that integer. -/
theorem parseInt_printInt (i : Int) : parseInt (printInt i) = some i := by
  cases i with
  | ofNat n => exact parseInt_natDigits n
  | negSucc n =>
    simp only [printInt, parseInt, parseNat_natDigits]
    congr 1

theorem parseI64_printInt (i : Int) (h : inI64 i = true) : parseI64 (printInt i) = some i := by
  simp [parseI64, parseInt_printInt, h]

/-! ### literals -/

theorem litDecode_cons_cons (c e : Char) (t : List Char) :
    litDecode (c :: e :: t) = if c = '\\' ∧ e = '"' then '"' :: litDecode t else c :: litDecode (e :: t) := rfl

theorem litDecode_cons_of_ne (c : Char) (r : List Char) (h : c ≠ '\\') :
    litDecode (c :: r) = c :: litDecode r := by
  cases r with
  | nil => rfl
  | cons e t => rw [litDecode_cons_cons]; simp [h]

theorem litDecode_bs (r : List Char) (h : r.head? ≠ some '"') :
    litDecode ('\\' :: r) = '\\' :: litDecode r := by
  cases r with
  | nil => rfl
  | cons e t =>
    rw [litDecode_cons_cons]
    have : e ≠ '"' := by intro he; apply h; simp [he]
    simp [this]

/-- what a character of the value becomes when it is spelled as a JSON escape and decoded by the parsers -/
def litImage (c : Char) : List Char := if c = '"' then ['"'] else escChar c

theorem escChar_head_ne_quote (c : Char) : (escChar c).head? ≠ some '"' := by
  unfold escChar
  repeat' split
  all_goals simp_all
  all_goals (intro h; simp_all)

theorem escChar_ne_nil (c : Char) : escChar c ≠ [] := by
  unfold escChar
  repeat' split
  all_goals simp

theorem escape_head_ne_quote (s : List Char) : (escape s).head? ≠ some '"' := by
  cases s with
  | nil => simp [escape]
  | cons c s =>
    rw [escape_cons]
    have h1 := escChar_head_ne_quote c
    have h2 := escChar_ne_nil c
    cases h : escChar c with
    | nil => exact absurd h h2
    | cons x xs => rw [h] at h1; simpa using h1

theorem hexDigit_ne_bs : ∀ n, n < 16 → hexDigit n ≠ '\\' := by decide

theorem litDecode_escChar (c : Char) (r : List Char) (hr : r.head? ≠ some '"') :
    litDecode (escChar c ++ r) = litImage c ++ litDecode r := by
  unfold litImage escChar
  split
  · next h => subst h; rfl
  split
  · next h =>
    subst h
    show litDecode ('\\' :: '\\' :: r) = _
    rw [litDecode_cons_cons, if_neg (by decide), litDecode_bs r hr]; rfl
  split
  · show litDecode ('\\' :: 'b' :: r) = _
    rw [litDecode_bs _ (by simp), litDecode_cons_of_ne _ _ (by decide)]; rfl
  split
  · show litDecode ('\\' :: 't' :: r) = _
    rw [litDecode_bs _ (by simp), litDecode_cons_of_ne _ _ (by decide)]; rfl
  split
  · show litDecode ('\\' :: 'n' :: r) = _
    rw [litDecode_bs _ (by simp), litDecode_cons_of_ne _ _ (by decide)]; rfl
  split
  · show litDecode ('\\' :: 'f' :: r) = _
    rw [litDecode_bs _ (by simp), litDecode_cons_of_ne _ _ (by decide)]; rfl
  split
  · show litDecode ('\\' :: 'r' :: r) = _
    rw [litDecode_bs _ (by simp), litDecode_cons_of_ne _ _ (by decide)]; rfl
  split
  · next h =>
    show litDecode ('\\' :: 'u' :: '0' :: '0' :: hexDigit (c.toNat / 16) :: hexDigit (c.toNat % 16) :: r) = _
    rw [litDecode_bs _ (by simp), litDecode_cons_of_ne _ _ (by decide), litDecode_cons_of_ne _ _ (by decide),
      litDecode_cons_of_ne _ _ (by decide), litDecode_cons_of_ne _ _ (hexDigit_ne_bs _ (by omega)),
      litDecode_cons_of_ne _ _ (hexDigit_ne_bs _ (by omega))]
    rfl
  · next h1 h2 _ _ _ _ _ _ =>
    show litDecode (c :: r) = _
    rw [litDecode_cons_of_ne _ _ h2]; rfl

theorem litDecode_escape (s : List Char) : litDecode (escape s) = s.flatMap litImage := by
  induction s with
  | nil => rfl
  | cons c s ih =>
    rw [escape_cons, litDecode_escChar c _ (escape_head_ne_quote s), ih]; rfl

theorem litImage_length_pos (c : Char) : 1 ≤ (litImage c).length := by
  unfold litImage escChar
  repeat' split
  all_goals simp

theorem litImage_eq_self (c : Char) (h : c ≠ '\\' ∧ 32 ≤ c.toNat) : litImage c = [c] := by
  unfold litImage escChar
  obtain ⟨h1, h2⟩ := h
  by_cases hq : c = '"'
  · simp [hq]
  · have : ¬ c.toNat = 8 ∧ ¬ c.toNat = 9 ∧ ¬ c.toNat = 10 ∧ ¬ c.toNat = 12 ∧ ¬ c.toNat = 13 ∧ ¬ c.toNat < 32 := by omega
    simp [hq, h1, this]

theorem litImage_length_one (c : Char) (h : (litImage c).length = 1) : c ≠ '\\' ∧ 32 ≤ c.toNat := by
  unfold litImage escChar at h
  by_cases hq : c = '"'
  · subst hq; decide
  · simp only [hq, if_false] at h
    by_cases h1 : c = '\\'
    · simp [h1] at h
    · simp only [h1, if_false] at h
      refine ⟨h1, ?_⟩
      by_cases h8 : c.toNat = 8
      · simp [h8] at h
      by_cases h9 : c.toNat = 9
      · simp [h9] at h
      by_cases h10 : c.toNat = 10
      · simp [h10] at h
      by_cases h12 : c.toNat = 12
      · simp [h12] at h
      by_cases h13 : c.toNat = 13
      · simp [h13] at h
      by_cases h32 : c.toNat < 32
      · simp [h8, h9, h10, h12, h13, h32] at h
      · omega

theorem flatMap_litImage_length (s : List Char) : s.length ≤ (s.flatMap litImage).length := by
  induction s with
  | nil => simp
  | cons c s ih =>
    simp only [List.flatMap_cons, List.length_append, List.length_cons]
    have := litImage_length_pos c
    omega

theorem flatMap_litImage_eq_iff (s : List Char) :
    s.flatMap litImage = s ↔ ∀ c ∈ s, c ≠ '\\' ∧ 32 ≤ c.toNat := by
  induction s with
  | nil => simp
  | cons c s ih =>
    constructor
    · intro h
      have hl := congrArg List.length h
      simp only [List.flatMap_cons, List.length_append, List.length_cons] at hl
      have h1 := litImage_length_pos c
      have h2 := flatMap_litImage_length s
      have hc1 : (litImage c).length = 1 := by omega
      have hc := litImage_length_one c hc1
      rw [List.flatMap_cons, litImage_eq_self c hc] at h
      simp only [List.singleton_append, List.cons.injEq, true_and] at h
      intro x hx
      rcases List.mem_cons.mp hx with hx | hx
      · subst hx; exact hc
      · exact (ih.mp h) x hx
    · intro h
      rw [List.flatMap_cons, litImage_eq_self c (h c (by simp)), (ih.mpr fun x hx => h x (by simp [hx]))]
      rfl

/-- a string literal body in which every backslash is followed by a double quote (and no raw quote) -/
def plainLit : List Char → Bool
  | [] => true
  | [c] => !(c = '\\' || c = '"')
  | c :: e :: t =>
    if c = '\\' then e = '"' && plainLit t
    else c != '"' && plainLit (e :: t)

theorem plainLit_cons_cons (c e : Char) (t : List Char) :
    plainLit (c :: e :: t) = if c = '\\' then (decide (e = '"') && plainLit t) else (c != '"' && plainLit (e :: t)) := rfl

theorem plainLit_unescape (b : List Char) (h : plainLit b = true) :
    unescape true b = some (litDecode b) := by
  induction hn : b.length using Nat.strongRecOn generalizing b with
  | _ n ih =>
    match b, h, hn with
    | [], _, _ => rfl
    | [c], h, _ =>
      simp only [plainLit, Bool.not_eq_true', Bool.or_eq_false_iff, decide_eq_false_iff_not] at h
      rw [unescape.eq_2]; simp [h.1, h.2, litDecode]
    | c :: e :: t, h, hn =>
      rw [plainLit_cons_cons] at h
      by_cases hc : c = '\\'
      · simp only [hc, if_true, Bool.and_eq_true, decide_eq_true_eq] at h
        obtain ⟨he, ht⟩ := h
        subst hc; subst he
        rw [unescape_simple true '"' '"' t (by decide) (by decide), litDecode_cons_cons]
        simp only [and_self, if_true]
        rw [ih t.length (by simp at hn; omega) t ht rfl]; rfl
      · simp only [hc, if_false, Bool.and_eq_true, bne_iff_ne, ne_eq] at h
        obtain ⟨hq, ht⟩ := h
        rw [unescape_raw true c (e :: t) hc hq (Or.inl rfl), litDecode_cons_of_ne c (e :: t) hc]
        rw [ih (e :: t).length (by simp at hn ⊢; omega) (e :: t) ht rfl]; rfl

/-! ### storage and read-back -/

theorem readJson_str (s : List Char) : readJson ('"' :: (escape s ++ ['"'])) = some (.str s) := by
  simp [readJson, unescape_escape]

theorem digitChar_not_special : ∀ d, d < 10 →
    digitChar d ≠ '"' ∧ digitChar d ≠ 'n' ∧ digitChar d ≠ 't' ∧ digitChar d ≠ 'f' := by decide

theorem printInt_head (i : Int) : ∃ c t, printInt i = c :: t ∧ (c = '-' ∨ ∃ d, d < 10 ∧ c = digitChar d) := by
  cases i with
  | ofNat n =>
    cases hd : natDigits n with
    | nil => exact absurd hd (natDigits_ne_nil n)
    | cons c t =>
      refine ⟨c, t, by simp [printInt, hd], Or.inr ?_⟩
      exact natDigits_all_digits n c (by rw [hd]; simp)
  | negSucc n => exact ⟨'-', natDigits (n + 1), rfl, Or.inl rfl⟩

theorem readJson_int (i : Int) : readJson (printInt i) = some (.int i) := by
  obtain ⟨c, t, hp, hc⟩ := printInt_head i
  have h4 : c ≠ '"' ∧ c ≠ 'n' ∧ c ≠ 't' ∧ c ≠ 'f' := by
    rcases hc with hc | ⟨d, hd, hc⟩
    · subst hc; decide
    · subst hc; exact digitChar_not_special d hd
  have hpi := parseInt_printInt i
  rw [hp] at hpi ⊢
  unfold readJson
  split
  · next rest heq => injection heq with h1 _; exact absurd h1 h4.1
  · have n1 : ¬ (c :: t = "null".toList) := by
      intro h; injection h with h1 _; exact h4.2.1 h1
    have n2 : ¬ (c :: t = "true".toList) := by
      intro h; injection h with h1 _; exact h4.2.2.1 h1
    have n3 : ¬ (c :: t = "false".toList) := by
      intro h; injection h with h1 _; exact h4.2.2.2 h1
    simp only [n1, n2, n3, if_false, hpi, Option.map_some]

/-- the scalars whose JSON text the model renders -/
def Scalar.transparent : Scalar → Bool
  | .float _ _ => false
  | .json _ => false
  | _ => true

/-- **Round trip of a stored scalar**: the JSON text written for it, re-emitted by SQLite and read by
    the client, is that scalar. -/
theorem readJson_jsonText (v : Scalar) (h : v.transparent = true) :
    readJson (reemit (jsonText v)) = some v := by
  cases v with
  | null => rfl
  | bool b => cases b <;> rfl
  | int i => exact readJson_int i
  | str s => exact readJson_str s
  | float b t => simp [Scalar.transparent] at h
  | json t => simp [Scalar.transparent] at h

theorem admitParam_eq (ty : FieldTy) (nul : Bool) (v s : Scalar) (h : admitParam ty nul v = .ok s) : s = v := by
  cases v <;> cases ty <;> simp only [admitParam] at h <;>
    first
      | (split at h <;> first | (injection h with h; exact h.symm) | (cases h))
      | (injection h with h; exact h.symm)
      | (cases h)

/-! ### filters -/

theorem sqlEq_refl (a : Scalar) (h : a ≠ .null) : sqlEq (some a) a = true := by
  cases a <;> simp_all [sqlEq]

theorem sqlEq_eq (a b : Scalar) (ha : a.transparent = true) (h : sqlEq (some a) b = true) : a = b := by
  cases a <;> cases b <;> simp_all [sqlEq, Scalar.transparent]

theorem digitChar_range : ∀ d, d < 10 → 48 ≤ (digitChar d).toNat ∧ (digitChar d).toNat ≤ 57 := by decide

theorem natDigits_chars (n : Nat) : ∀ c ∈ natDigits n, 48 ≤ c.toNat ∧ c.toNat ≤ 57 := by
  intro c hc
  obtain ⟨d, hd, hcd⟩ := natDigits_all_digits n c hc
  subst hcd
  exact digitChar_range d hd

/-! ### updates -/

theorem setField_other (row : RowVals) (j k : Nat) (v : Scalar) (h : k ≠ j) :
    (setField row j v)[k]? = row[k]? := by
  induction row generalizing j k with
  | nil => simp [setField]
  | cons x t ih =>
    cases j with
    | zero =>
      cases k with
      | zero => exact absurd rfl h
      | succ k => simp [setField]
    | succ j =>
      cases k with
      | zero => simp [setField]
      | succ k => simp only [setField, List.getElem?_cons_succ]; exact ih j k (by omega)

theorem setField_same (row : RowVals) (j : Nat) (v : Scalar) (h : j < row.length) :
    (setField row j v)[j]? = some (some v) := by
  induction row generalizing j with
  | nil => simp at h
  | cons x t ih =>
    cases j with
    | zero => simp [setField]
    | succ j => simp only [setField, List.getElem?_cons_succ]; exact ih j (by simpa using h)

theorem applyUpdate_other (row : RowVals) (sets : List (Nat × Scalar)) (k : Nat)
    (h : ∀ p ∈ sets, p.1 ≠ k) : (applyUpdate row sets)[k]? = row[k]? := by
  induction sets generalizing row with
  | nil => rfl
  | cons p rest ih =>
    obtain ⟨j, v⟩ := p
    simp only [applyUpdate]
    rw [ih (setField row j v) (fun q hq => h q (by simp [hq]))]
    exact setField_other row j k v (fun hk => h (j, v) (by simp) hk.symm)

end Discret.Value
