import DiscretModel.Model.Date
/-! Lemmas about the day arithmetic of `date_utils.rs`; all by linear integer arithmetic (`omega`). -/
namespace Discret.Date

theorem clamp_of_inRange {t : Int} (h : InRange t) : clamp t = t := by
  simp only [InRange, minMs, maxMs, dayMs] at h
  simp only [clamp, minMs, maxMs]; repeat' split
  all_goals omega

theorem clamp_of_bounds {x : Int} (h1 : minMs ≤ x) (h2 : x ≤ maxMs) : clamp x = x := by
  simp only [minMs, maxMs] at h1 h2
  simp only [clamp, minMs, maxMs]; repeat' split
  all_goals omega

theorem floorDay_floorDay (c : Int) : floorDay (floorDay c) = floorDay c := by
  simp only [floorDay, dayMs]; omega

theorem clamp_bounds (t : Int) : minMs ≤ clamp t ∧ clamp t ≤ maxMs := by
  simp only [clamp, minMs, maxMs]; repeat' split
  all_goals omega

theorem clamp_mono {t u : Int} (h : t ≤ u) : clamp t ≤ clamp u := by
  simp only [clamp, minMs, maxMs]; repeat' split
  all_goals omega

theorem floorDay_le (c : Int) : floorDay c ≤ c ∧ c < floorDay c + dayMs := by
  simp only [floorDay, dayMs]; omega

theorem floorDay_eq (c : Int) : floorDay c = (c / dayMs) * dayMs := by
  simp only [floorDay, dayMs]; omega

theorem floorDay_mono {c d : Int} (h : c ≤ d) : floorDay c ≤ floorDay d := by
  simp only [floorDay, dayMs]; omega

/-- the lower bound of chrono's range is a midnight -/
theorem floorDay_min : floorDay minMs = minMs := by decide

theorem date_of_inRange {t : Int} (h : InRange t) : date t = t - t % dayMs := by
  simp only [date, clamp_of_inRange h, floorDay]

theorem dateNextDay_of_inRange {t : Int} (h : InRange t) : dateNextDay t = date t + dayMs := by
  have hc := clamp_of_inRange h
  simp only [InRange, minMs, maxMs, dayMs] at h
  simp only [dateNextDay, date, hc, floorDay, dayMs, maxMs]
  split <;> omega

end Discret.Date
