import DiscretModel.Model.Serve
/-
Lemmas for C08 (serving side of a connection): the table discipline (`GoodTable`), what each database
read returns (`fetch_room`), the connection invariant `Inv` (allowed rooms are justified by a membership
at some earlier time) and its preservation by every operation. Core Lean only.
-/
namespace Discret.Serve
open Discret.Room

/-- the source a request kind must read -/
def sourceFor : QueryKind → Source
  | .proveIdentity => .sign | .hardwareFingerprint => .fingerprint | .roomList => .roomsForPeer
  | .roomDefinition => .roomDefinition | .roomNode => .roomNode | .roomLog => .roomLog | .roomLogAt => .roomLogAt
  | .edgeDeletionLog => .edgeDeletionLog | .nodeDeletionLog => .nodeDeletionLog
  | .roomDailyNodes => .roomDailyNodes | .nodes => .nodes | .edges => .edges | .peersForRoom => .peersForRoom

/-- the guard a request kind must carry -/
def guardFor : QueryKind → Guard
  | .proveIdentity => .none | .hardwareFingerprint => .keyIsOwn | .roomList => .keyProvenAndReady
  | _ => .allowedContainsRoom

def goodEntry (e : Entry) : Bool :=
  e.guard == guardFor e.kind && e.source == sourceFor e.kind && e.guardedRoomIsQueried

def GoodTable (tbl : List Entry) : Prop := tbl.all goodEntry = true

instance (tbl : List Entry) : Decidable (GoodTable tbl) := by unfold GoodTable; infer_instance

theorem lookup_good {tbl : List Entry} (h : GoodTable tbl) {k : QueryKind} {e : Entry}
    (hl : lookup tbl k = some e) : e.kind = k ∧ e.guard = guardFor k ∧ e.source = sourceFor k := by
  unfold lookup at hl
  have hm := List.mem_of_find?_eq_some hl
  have hk : e.kind = k := by simpa using List.find?_some hl
  have hg := (List.all_eq_true.mp h) e hm
  simp only [goodEntry, Bool.and_eq_true, beq_iff_eq] at hg
  exact ⟨hk, hk ▸ hg.1.1, hk ▸ hg.1.2⟩

/-! ### what a fetch returns -/

theorem fetch_room (w : World) (q : Query) (r : RoomId) (hq : q.room? = some r) :
    ∀ it ∈ fetch w q, it.room = some r ∨ (q.kind = .peersForRoom ∧ it.room = none) := by
  intro it hit
  cases q <;> simp only [Query.room?, Option.some.injEq, reduceCtorEq] at hq <;> subst hq <;>
    simp only [fetch, List.mem_map, List.mem_filter, List.mem_flatMap, decide_eq_true_eq] at hit
  case roomDefinition => obtain ⟨x, ⟨_, hx⟩, rfl⟩ := hit; exact Or.inl (by simp [hx])
  case roomNode => obtain ⟨x, ⟨_, hx⟩, rfl⟩ := hit; exact Or.inl (by simp [hx])
  case roomLog => obtain ⟨x, ⟨_, hx⟩, rfl⟩ := hit; exact Or.inl (by simp [hx])
  case roomLogAt => obtain ⟨x, ⟨_, hx⟩, rfl⟩ := hit; exact Or.inl (by simp [hx.1])
  case edgeDeletionLog => obtain ⟨x, ⟨_, hx⟩, rfl⟩ := hit; exact Or.inl (by simp [hx.1])
  case nodeDeletionLog => obtain ⟨x, ⟨_, hx⟩, rfl⟩ := hit; exact Or.inl (by simp [hx.1])
  case roomDailyNodes => obtain ⟨x, ⟨_, hx⟩, rfl⟩ := hit; exact Or.inl hx.1
  case nodes => obtain ⟨x, ⟨_, hx⟩, rfl⟩ := hit; exact Or.inl hx.2
  case edges => obtain ⟨sc, _, e, ⟨_, he⟩, rfl⟩ := hit; exact Or.inl he.2.2
  case peersForRoom =>
    right
    refine ⟨rfl, ?_⟩
    split at hit
    · simp only [List.mem_map, List.mem_filter] at hit; obtain ⟨k, _, rfl⟩ := hit; rfl
    · simp at hit


/-! ### invariants of a connection over any sequence of operations -/

/-- every current definition was installed in the past; no installation lies in the future -/
structure WInv (w : World) : Prop where
  current : ∀ room ∈ w.rooms, ∃ t, (t, room) ∈ w.history ∧ t ≤ w.now
  past : ∀ p ∈ w.history, p.1 ≤ w.now

/-- why room `r` is in the allowed table of a connection bound to key `k` -/
def Admitted (d : Defects) (w : World) (k : Key) (r : RoomId) : Prop :=
  ∃ p ∈ w.history, ∃ t, p.2.id = r ∧ p.1 ≤ t ∧ t ≤ w.now ∧
    (p.2.isUserValidAt k t = true ∨ (d.hasUserCountsDisabled = true ∧ p.2.hasUser k = true))

structure Inv (d : Defects) (s : State) : Prop where
  world : WInv s.w
  unauth : s.c.key = none → s.c.allowed = []
  admitted : ∀ r ∈ s.c.allowed, ∃ k, s.c.key = some k ∧ Admitted d s.w k r

theorem mem_insertRoom {l : List RoomId} {r x : RoomId} (h : x ∈ insertRoom l r) : x ∈ l ∨ x = r := by
  unfold insertRoom at h
  split at h
  · exact Or.inl h
  · simpa using h

theorem mem_foldl_insertRoom {rooms l : List RoomId} {x : RoomId} (h : x ∈ rooms.foldl insertRoom l) :
    x ∈ l ∨ x ∈ rooms := by
  induction rooms generalizing l with
  | nil => exact Or.inl h
  | cons a rest ih =>
    simp only [List.foldl_cons] at h
    rcases ih h with h1 | h1
    · rcases mem_insertRoom h1 with h2 | h2
      · exact Or.inl h2
      · exact Or.inr (by simp [h2])
    · exact Or.inr (by simp [h1])

theorem admitted_mono {d : Defects} {w w' : World} {k : Key} {r : RoomId}
    (hh : ∀ p ∈ w.history, p ∈ w'.history) (hn : w.now ≤ w'.now) (h : Admitted d w k r) : Admitted d w' k r := by
  obtain ⟨p, hp, t, h1, h2, h3, h4⟩ := h
  exact ⟨p, hh p hp, t, h1, h2, Int.le_trans h3 hn, h4⟩

/-- the allowed table after a request: unchanged, or (first room list) the rooms valid now -/
theorem serve_allowed {d : Defects} {tbl : List Entry} {w : World} {own : Key} {c : Conn} {q : Query} :
    (serve d tbl w own c q).1.key = c.key ∧ (serve d tbl w own c q).1.ready = c.ready ∧
    ∀ x ∈ (serve d tbl w own c q).1.allowed, x ∈ c.allowed ∨ ∃ k, c.key = some k ∧ x ∈ roomsForPeer w k := by
  unfold serve
  split
  · exact ⟨rfl, rfl, fun x hx => Or.inl hx⟩
  · split
    · split
      · exact ⟨rfl, rfl, fun x hx => Or.inl hx⟩
      · exact ⟨rfl, rfl, fun x hx => Or.inl hx⟩
      · split
        · rename_i k hk
          refine ⟨rfl, rfl, fun x hx => ?_⟩
          simp only at hx
          split at hx
          · rcases mem_foldl_insertRoom hx with h | h
            · exact Or.inl h
            · exact Or.inr ⟨k, hk, h⟩
          · exact Or.inl hx
        · exact ⟨rfl, rfl, fun x hx => Or.inl hx⟩
      · split <;> exact ⟨rfl, rfl, fun x hx => Or.inl hx⟩
    · split <;> exact ⟨rfl, rfl, fun x hx => Or.inl hx⟩

theorem roomsForPeer_admitted {d : Defects} {w : World} (hw : WInv w) {k : Key} {x : RoomId}
    (h : x ∈ roomsForPeer w k) : Admitted d w k x := by
  simp only [roomsForPeer, List.mem_map, List.mem_filter] at h
  obtain ⟨room, ⟨hm, hv⟩, rfl⟩ := h
  obtain ⟨t, ht, htn⟩ := hw.current room hm
  exact ⟨(t, room), ht, w.now, rfl, htn, Int.le_refl _, Or.inl hv⟩

theorem winv_install {w : World} (hw : WInv w) (room : Room) : WInv (installRoom w room) := by
  constructor
  · intro x hx
    simp only [installRoom, List.mem_cons, List.mem_filter] at hx
    rcases hx with rfl | ⟨hx, _⟩
    · exact ⟨w.now, by simp [installRoom], Int.le_refl _⟩
    · obtain ⟨t, ht, htn⟩ := hw.current x hx
      exact ⟨t, by simp [installRoom, ht], htn⟩
  · intro p hp
    simp only [installRoom, List.mem_cons] at hp
    rcases hp with rfl | hp
    · exact Int.le_refl _
    · exact hw.past p hp

theorem roomEvent_spec (d : Defects) (w : World) (c : Conn) (room : Room) :
    (roomEvent d w c room).key = c.key ∧ (roomEvent d w c room).ready = c.ready ∧
    ∀ x ∈ (roomEvent d w c room).allowed,
      x ∈ c.allowed ∨ (x = room.id ∧ ∃ k, c.key = some k ∧ admits d w room k = true) := by
  unfold roomEvent
  split
  · exact ⟨rfl, rfl, fun x hx => Or.inl hx⟩
  · rename_i k hk
    split
    · rename_i ha
      refine ⟨rfl, rfl, fun x hx => ?_⟩
      rcases mem_insertRoom hx with h | h
      · exact Or.inl h
      · exact Or.inr ⟨h, k, hk, ha⟩
    · split
      · exact ⟨rfl, rfl, fun x hx => Or.inl hx⟩
      · refine ⟨rfl, rfl, fun x hx => Or.inl ?_⟩
        exact (List.mem_filter.mp hx).1

theorem step_inv {d : Defects} {tbl : List Entry} {own : Key} {s : State} (hi : Inv d s) (op : Op) :
    Inv d (step d tbl own s op).1 := by
  cases op with
  | auth k ready =>
    simp only [step]
    split
    · rename_i hk
      refine ⟨hi.world, fun h => by simp at h, fun r hr => ?_⟩
      have := hi.unauth hk
      simp only [this] at hr
      cases hr
    · exact hi
  | setReady b => exact ⟨hi.world, hi.unauth, hi.admitted⟩
  | query q =>
    simp only [step]
    obtain ⟨hk, _, ha⟩ := @serve_allowed d tbl s.w own s.c q
    refine ⟨hi.world, fun hn => ?_, fun r hr => ?_⟩
    · simp only [hk] at hn
      have h0 := hi.unauth hn
      cases hl : (serve d tbl s.w own s.c q).1.allowed with
      | nil => rfl
      | cons x rest =>
        have : x ∈ (serve d tbl s.w own s.c q).1.allowed := by simp [hl]
        rcases ha x this with h | ⟨k, hk', _⟩
        · simp [h0] at h
        · simp [hn] at hk'
    · rcases ha r hr with h | ⟨k, hk', hx⟩
      · simpa only [hk] using hi.admitted r h
      · exact ⟨k, by simp only [hk, hk'], roomsForPeer_admitted hi.world hx⟩
  | advance t =>
    have hle : s.w.now ≤ max t s.w.now := Int.le_max_right _ _
    refine ⟨⟨fun room hm => ?_, fun p hp => Int.le_trans (hi.world.past p hp) hle⟩, hi.unauth, fun r hr => ?_⟩
    · obtain ⟨t', ht, htn⟩ := hi.world.current room hm
      exact ⟨t', ht, Int.le_trans htn hle⟩
    · obtain ⟨k, hk, had⟩ := hi.admitted r hr
      exact ⟨k, hk, admitted_mono (w := s.w) (w' := { s.w with now := max t s.w.now }) (fun p hp => hp) hle had⟩
  | install room =>
    simp only [step]
    have hw' := winv_install hi.world room
    have hmono : ∀ k r, Admitted d s.w k r → Admitted d (installRoom s.w room) k r := fun k r h =>
      admitted_mono (fun p hp => by simp [installRoom, hp]) (by simp [installRoom]) h
    obtain ⟨hk, _, ha⟩ := roomEvent_spec d (installRoom s.w room) s.c room
    refine ⟨hw', fun hn => ?_, fun r hr => ?_⟩
    · simp only [hk] at hn
      have h0 := hi.unauth hn
      cases hl : (roomEvent d (installRoom s.w room) s.c room).allowed with
      | nil => rfl
      | cons x rest =>
        have : x ∈ (roomEvent d (installRoom s.w room) s.c room).allowed := by simp [hl]
        rcases ha x this with h | ⟨_, k, hk', _⟩
        · simp [h0] at h
        · simp [hn] at hk'
    · rcases ha r hr with h | ⟨hr', k, hk', hadm⟩
      · obtain ⟨k', hk'', had⟩ := hi.admitted r h
        exact ⟨k', by simp only [hk, hk''], hmono _ _ had⟩
      · refine ⟨k, by simp only [hk, hk'], (s.w.now, room), by simp [installRoom], s.w.now, hr'.symm, Int.le_refl _,
          by simp [installRoom], ?_⟩
        unfold admits at hadm
        split at hadm
        · rename_i hd; exact Or.inr ⟨hd, hadm⟩
        · exact Or.inl (by simpa [installRoom] using hadm)
  | world f =>
    simp only [step]
    refine ⟨⟨hi.world.current, hi.world.past⟩, hi.unauth, hi.admitted⟩


/-! ### what an answer can contain -/

theorem serve_data_sound {d : Defects} {tbl : List Entry} {w : World} {own : Key} {c : Conn} {q : Query}
    {r : RoomId} {items : List Item} (hg : GoodTable tbl) (h : (serve d tbl w own c q).2 = .data r items) :
    q.room? = some r ∧ c.allowed.contains r = true ∧ items = fetch w q ∧
      (d.allowedNeverRevoked = false → ∃ k, c.key = some k ∧ memberNow w k r = true) := by
  unfold serve at h
  split at h
  · simp at h
  · rename_i e he
    obtain ⟨_, hgd, hsrc⟩ := lookup_good hg he
    cases q <;> simp only [Query.kind, guardFor, sourceFor] at hgd hsrc <;>
      simp only [hgd, hsrc, guardHolds, Query.room?] at h
    all_goals (repeat' split at h)
    all_goals simp_all [Query.room?]
    all_goals (obtain ⟨h1, h2⟩ := h; subst h1; subst h2; simp_all)
    all_goals (intro hd; rename_i hh; rcases hh.2 with h3 | h3
               · rw [hd] at h3; cases h3
               · exact h3)


theorem serve_roomList_sound {d : Defects} {tbl : List Entry} {w : World} {own : Key} {c : Conn} {q : Query}
    {rooms : List RoomId} (hg : GoodTable tbl) (h : (serve d tbl w own c q).2 = .roomList rooms) :
    ∃ k, c.key = some k ∧ c.ready = true ∧ rooms = roomsForPeer w k := by
  unfold serve at h
  split at h
  · simp at h
  · rename_i e he
    obtain ⟨_, hgd, hsrc⟩ := lookup_good hg he
    cases q <;> simp only [Query.kind, guardFor, sourceFor] at hgd hsrc <;>
      simp only [hgd, hsrc, guardHolds, Query.room?] at h
    all_goals (repeat' split at h)
    all_goals simp_all

theorem serve_fingerprint_sound {d : Defects} {tbl : List Entry} {w : World} {own : Key} {c : Conn} {q : Query}
    (hg : GoodTable tbl) (h : (serve d tbl w own c q).2 = .fingerprint) : c.key = some own := by
  unfold serve at h
  split at h
  · simp at h
  · rename_i e he
    obtain ⟨_, hgd, hsrc⟩ := lookup_good hg he
    cases q <;> simp only [Query.kind, guardFor, sourceFor] at hgd hsrc <;>
      simp only [hgd, hsrc, guardHolds, Query.room?] at h
    all_goals (repeat' split at h)
    all_goals simp_all

/-- before authentication: nothing but silence, a refusal, or the identity proof -/
theorem serve_unauth {d : Defects} {tbl : List Entry} {w : World} {own : Key} {c : Conn} {q : Query}
    (hg : GoodTable tbl) (hk : c.key = none) (ha : c.allowed = []) :
    (serve d tbl w own c q).2 = .silent ∨ (serve d tbl w own c q).2 = .refused ∨
      (serve d tbl w own c q).2 = .identity := by
  cases h : (serve d tbl w own c q).2 with
  | silent => exact Or.inl rfl
  | refused => exact Or.inr (Or.inl rfl)
  | identity => exact Or.inr (Or.inr rfl)
  | fingerprint => have := serve_fingerprint_sound hg h; simp [hk] at this
  | roomList rooms => obtain ⟨k, hk', _⟩ := serve_roomList_sound hg h; simp [hk] at hk'
  | data r items => have := (serve_data_sound hg h).2.1; simp [ha] at this

theorem run_inv {d : Defects} {tbl : List Entry} {own : Key} {s : State} (hi : Inv d s) (ops : List Op) :
    Inv d (run d tbl own s ops).1 := by
  induction ops generalizing s with
  | nil => exact hi
  | cons op ops ih => simp only [run]; exact ih (step_inv hi op)

theorem inv_init {d : Defects} {w : World} (hw : WInv w) : Inv d (State.init w) :=
  ⟨hw, fun _ => rfl, fun r hr => by simp [State.init, Conn.init] at hr⟩

end Discret.Serve
