import DiscretModel.Model.Serve
/-
Lemmas for C08 (serving side of a connection): the table discipline (`GoodTable`, `Rechecked`), what each
database read returns (`fetch_room`), what the membership re-check of the prelude leaves in the allowed
table (`recheck_spec`), the connection invariant `Inv` (allowed rooms are justified by a membership at some
earlier time) and its preservation by every operation. Core Lean only.
-/
namespace Discret.Serve
open Discret.Room

/-- the source a request kind must read -/
def sourceFor : QueryKind → Source
  | .proveIdentity => .sign | .hardwareFingerprint => .fingerprint | .roomList => .roomsForPeer
  | .roomDefinition => .roomDefinition | .roomNode => .roomNode | .roomLog => .roomLog | .roomLogAt => .roomLogAt
  | .edgeDeletionLog => .edgeDeletionLog | .nodeDeletionLog => .nodeDeletionLog
  | .roomDailyNodes => .roomDailyNodes | .nodes => .nodes | .edges => .edges | .peersForRoom => .peersForRoom

/-- the guard a request kind must carry -/
def guardFor : QueryKind → Guard
  | .proveIdentity => .none | .hardwareFingerprint => .keyIsOwn | .roomList => .keyProvenAndReady
  | _ => .allowedContainsRoom

def goodEntry (e : Entry) : Bool :=
  e.guard == guardFor e.kind && e.source == sourceFor e.kind && e.guardedRoomIsQueried

def GoodTable (tbl : List Entry) : Prop := tbl.all goodEntry = true

instance (tbl : List Entry) : Decidable (GoodTable tbl) := by unfold GoodTable; infer_instance

/-- every request kind guarded by the allowed table is covered by the membership re-check of the prelude -/
def Rechecked (tbl : List Entry) : Prop :=
  tbl.all (fun e => e.guard != .allowedContainsRoom || e.recheck) = true

instance (tbl : List Entry) : Decidable (Rechecked tbl) := by unfold Rechecked; infer_instance

/-- the code re-validates membership at every request: the defect switch is off and the regenerated
    table lists every room-guarded request kind in the re-check -/
def Rechecks (d : Defects) (cd : Code) : Prop := d.allowedNeverRevoked = false ∧ Rechecked cd.table

instance (d : Defects) (cd : Code) : Decidable (Rechecks d cd) := by unfold Rechecks; infer_instance

theorem lookup_rechecked {tbl : List Entry} (h : Rechecked tbl) {k : QueryKind} {e : Entry}
    (hl : lookup tbl k = some e) (hg : e.guard = .allowedContainsRoom) : e.recheck = true := by
  unfold lookup at hl
  have hm := List.mem_of_find?_eq_some hl
  have := (List.all_eq_true.mp h) e hm
  simpa [hg] using this

theorem lookup_good {tbl : List Entry} (h : GoodTable tbl) {k : QueryKind} {e : Entry}
    (hl : lookup tbl k = some e) : e.kind = k ∧ e.guard = guardFor k ∧ e.source = sourceFor k := by
  unfold lookup at hl
  have hm := List.mem_of_find?_eq_some hl
  have hk : e.kind = k := by simpa using List.find?_some hl
  have hg := (List.all_eq_true.mp h) e hm
  simp only [goodEntry, Bool.and_eq_true, beq_iff_eq] at hg
  exact ⟨hk, hk ▸ hg.1.1, hk ▸ hg.1.2⟩

/-! ### what a fetch returns -/

theorem fetch_room (w : World) (q : Query) (r : RoomId) (hq : q.room? = some r) :
    ∀ it ∈ fetch w q, it.room = some r ∨ (q.kind = .peersForRoom ∧ it.room = none) := by
  intro it hit
  cases q <;> simp only [Query.room?, Option.some.injEq, reduceCtorEq] at hq <;> subst hq <;>
    simp only [fetch, List.mem_map, List.mem_filter, List.mem_flatMap, decide_eq_true_eq] at hit
  case roomDefinition => obtain ⟨x, ⟨_, hx⟩, rfl⟩ := hit; exact Or.inl (by simp [hx])
  case roomNode => obtain ⟨x, ⟨_, hx⟩, rfl⟩ := hit; exact Or.inl (by simp [hx])
  case roomLog => obtain ⟨x, ⟨_, hx⟩, rfl⟩ := hit; exact Or.inl (by simp [hx])
  case roomLogAt => obtain ⟨x, ⟨_, hx⟩, rfl⟩ := hit; exact Or.inl (by simp [hx.1])
  case edgeDeletionLog => obtain ⟨x, ⟨_, hx⟩, rfl⟩ := hit; exact Or.inl (by simp [hx.1])
  case nodeDeletionLog => obtain ⟨x, ⟨_, hx⟩, rfl⟩ := hit; exact Or.inl (by simp [hx.1])
  case roomDailyNodes => obtain ⟨x, ⟨_, hx⟩, rfl⟩ := hit; exact Or.inl hx.1
  case nodes => obtain ⟨x, ⟨_, hx⟩, rfl⟩ := hit; exact Or.inl hx.2
  case edges => obtain ⟨sc, _, e, ⟨_, he⟩, rfl⟩ := hit; exact Or.inl he.2.2
  case peersForRoom =>
    right
    refine ⟨rfl, ?_⟩
    split at hit
    · simp only [List.mem_map, List.mem_filter] at hit; obtain ⟨k, _, rfl⟩ := hit; rfl
    · simp at hit


/-! ### invariants of a connection over any sequence of operations -/

/-- every current definition was installed in the past; no installation lies in the future -/
structure WInv (w : World) : Prop where
  current : ∀ room ∈ w.rooms, ∃ t, (t, room) ∈ w.history ∧ t ≤ w.now
  past : ∀ p ∈ w.history, p.1 ≤ w.now

/-- the event handler admits a key that is merely named in a user list, enabled or not -/
def countsDisabled (d : Defects) (ev : EventRule) : Bool := d.hasUserCountsDisabled || ev.admitBy == .hasUser

/-- why room `r` is in the allowed table of a connection bound to key `k` -/
def Admitted (d : Defects) (ev : EventRule) (w : World) (k : Key) (r : RoomId) : Prop :=
  ∃ p ∈ w.history, ∃ t, p.2.id = r ∧ p.1 ≤ t ∧ t ≤ w.now ∧
    (p.2.isUserValidAt k t = true ∨ (countsDisabled d ev = true ∧ p.2.hasUser k = true))

structure Inv (d : Defects) (ev : EventRule) (s : State) : Prop where
  world : WInv s.w
  unauth : s.c.key = none → s.c.allowed = []
  admitted : ∀ r ∈ s.c.allowed, ∃ k, s.c.key = some k ∧ Admitted d ev s.w k r

theorem mem_insertRoom {l : List RoomId} {r x : RoomId} (h : x ∈ insertRoom l r) : x ∈ l ∨ x = r := by
  unfold insertRoom at h
  split at h
  · exact Or.inl h
  · simpa using h

theorem mem_foldl_insertRoom {rooms l : List RoomId} {x : RoomId} (h : x ∈ rooms.foldl insertRoom l) :
    x ∈ l ∨ x ∈ rooms := by
  induction rooms generalizing l with
  | nil => exact Or.inl h
  | cons a rest ih =>
    simp only [List.foldl_cons] at h
    rcases ih h with h1 | h1
    · rcases mem_insertRoom h1 with h2 | h2
      · exact Or.inl h2
      · exact Or.inr (by simp [h2])
    · exact Or.inr (by simp [h1])

theorem admitted_mono {d : Defects} {ev : EventRule} {w w' : World} {k : Key} {r : RoomId}
    (hh : ∀ p ∈ w.history, p ∈ w'.history) (hn : w.now ≤ w'.now) (h : Admitted d ev w k r) :
    Admitted d ev w' k r := by
  obtain ⟨p, hp, t, h1, h2, h3, h4⟩ := h
  exact ⟨p, hh p hp, t, h1, h2, Int.le_trans h3 hn, h4⟩

/-- the membership re-check of the prelude: it keeps the key and the readiness, only ever removes rooms,
    and — when the entry is covered and the defect switch is off — a requested room that is still in the
    table afterwards is one of which the proven key is a valid member NOW -/
theorem recheck_spec (d : Defects) (e : Entry) (w : World) (c : Conn) (room : Option RoomId) :
    (recheck d e w c room).key = c.key ∧ (recheck d e w c room).ready = c.ready ∧
    (∀ x ∈ (recheck d e w c room).allowed, x ∈ c.allowed) ∧
    (e.recheck = true → d.allowedNeverRevoked = false → ∀ r, room = some r →
      r ∈ (recheck d e w c room).allowed → ∃ k, c.key = some k ∧ memberNow w k r = true) := by
  unfold recheck
  split
  · cases room with
    | none => exact ⟨rfl, rfl, fun x hx => hx, fun _ _ r hr => by cases hr⟩
    | some r0 =>
      simp only
      split
      · cases hk : c.key with
        | none =>
          refine ⟨by simp, rfl, fun x hx => ?_, fun _ _ r hr hm => ?_⟩
          · simp only [Bool.false_eq_true, if_false] at hx
            exact (List.mem_filter.mp hx).1
          · cases hr
            simp only [Bool.false_eq_true, if_false] at hm
            have := (List.mem_filter.mp hm).2
            simp at this
        | some k =>
          simp only
          split
          · rename_i hm
            exact ⟨hk, rfl, fun x hx => hx, fun _ _ r hr _ => by cases hr; exact ⟨k, rfl, hm⟩⟩
          · refine ⟨rfl, rfl, fun x hx => (List.mem_filter.mp hx).1, fun _ _ r hr hm => ?_⟩
            cases hr
            have := (List.mem_filter.mp hm).2
            simp at this
      · rename_i hnc
        refine ⟨rfl, rfl, fun x hx => hx, fun _ _ r hr hm => ?_⟩
        cases hr
        exact absurd (by simpa using hm) hnc
  · rename_i hoff
    refine ⟨rfl, rfl, fun x hx => hx, fun h1 h2 => ?_⟩
    simp [h1, h2] at hoff

/-- the allowed table after an arm: unchanged, or (first room list) the rooms valid now -/
theorem serveArm_allowed {e : Entry} {w : World} {own : Key} {c : Conn} {q : Query} :
    (serveArm e w own c q).1.key = c.key ∧ (serveArm e w own c q).1.ready = c.ready ∧
    ∀ x ∈ (serveArm e w own c q).1.allowed, x ∈ c.allowed ∨ ∃ k, c.key = some k ∧ x ∈ roomsForPeer w k := by
  unfold serveArm
  split
  · split
    · exact ⟨rfl, rfl, fun x hx => Or.inl hx⟩
    · exact ⟨rfl, rfl, fun x hx => Or.inl hx⟩
    · split
      · rename_i k hk
        refine ⟨rfl, rfl, fun x hx => ?_⟩
        simp only at hx
        split at hx
        · rcases mem_foldl_insertRoom hx with h | h
          · exact Or.inl h
          · exact Or.inr ⟨k, hk, h⟩
        · exact Or.inl hx
      · exact ⟨rfl, rfl, fun x hx => Or.inl hx⟩
    · split <;> exact ⟨rfl, rfl, fun x hx => Or.inl hx⟩
  · split <;> exact ⟨rfl, rfl, fun x hx => Or.inl hx⟩

/-- the allowed table after a request: nothing new, except (first room list) the rooms valid now -/
theorem serve_allowed {d : Defects} {cd : Code} {w : World} {own : Key} {c : Conn} {q : Query} :
    (serve d cd w own c q).1.key = c.key ∧ (serve d cd w own c q).1.ready = c.ready ∧
    ∀ x ∈ (serve d cd w own c q).1.allowed, x ∈ c.allowed ∨ ∃ k, c.key = some k ∧ x ∈ roomsForPeer w k := by
  unfold serve
  split
  · exact ⟨rfl, rfl, fun x hx => Or.inl hx⟩
  · rename_i e _
    obtain ⟨hk, hr, ha, _⟩ := recheck_spec d e w c q.room?
    obtain ⟨hk', hr', ha'⟩ := @serveArm_allowed e w own (recheck d e w c q.room?) q
    refine ⟨hk'.trans hk, hr'.trans hr, fun x hx => ?_⟩
    rcases ha' x hx with h | ⟨k, hkk, h⟩
    · exact Or.inl (ha x h)
    · exact Or.inr ⟨k, hk ▸ hkk, h⟩

theorem roomsForPeer_admitted {d : Defects} {ev : EventRule} {w : World} (hw : WInv w) {k : Key} {x : RoomId}
    (h : x ∈ roomsForPeer w k) : Admitted d ev w k x := by
  simp only [roomsForPeer, List.mem_map, List.mem_filter] at h
  obtain ⟨room, ⟨hm, hv⟩, rfl⟩ := h
  obtain ⟨t, ht, htn⟩ := hw.current room hm
  exact ⟨(t, room), ht, w.now, rfl, htn, Int.le_refl _, Or.inl hv⟩

theorem winv_install {w : World} (hw : WInv w) (room : Room) : WInv (installRoom w room) := by
  constructor
  · intro x hx
    simp only [installRoom, List.mem_cons, List.mem_filter] at hx
    rcases hx with rfl | ⟨hx, _⟩
    · exact ⟨w.now, by simp [installRoom], Int.le_refl _⟩
    · obtain ⟨t, ht, htn⟩ := hw.current x hx
      exact ⟨t, by simp [installRoom, ht], htn⟩
  · intro p hp
    simp only [installRoom, List.mem_cons] at hp
    rcases hp with rfl | hp
    · exact Int.le_refl _
    · exact hw.past p hp

theorem roomEvent_spec (d : Defects) (ev : EventRule) (w : World) (c : Conn) (room : Room) :
    (roomEvent d ev w c room).key = c.key ∧ (roomEvent d ev w c room).ready = c.ready ∧
    ∀ x ∈ (roomEvent d ev w c room).allowed,
      x ∈ c.allowed ∨ (x = room.id ∧ ∃ k, c.key = some k ∧ admits d ev w room k = true) := by
  unfold roomEvent
  split
  · exact ⟨rfl, rfl, fun x hx => Or.inl hx⟩
  · rename_i k hk
    split
    · rename_i ha
      refine ⟨rfl, rfl, fun x hx => ?_⟩
      rcases mem_insertRoom hx with h | h
      · exact Or.inl h
      · exact Or.inr ⟨h, k, hk, ha⟩
    · split
      · refine ⟨rfl, rfl, fun x hx => Or.inl ?_⟩
        exact (List.mem_filter.mp hx).1
      · exact ⟨rfl, rfl, fun x hx => Or.inl hx⟩

/-- an admission by the event handler is a valid membership now, or (handler counting disabled entries)
    a mere mention in a user list -/
theorem admits_spec {d : Defects} {ev : EventRule} {w : World} {room : Room} {k : Key}
    (h : admits d ev w room k = true) :
    room.isUserValidAt k w.now = true ∨ (countsDisabled d ev = true ∧ room.hasUser k = true) := by
  unfold admits at h
  split at h
  · rename_i hd; exact Or.inr ⟨by simp [countsDisabled, hd], h⟩
  · split at h
    · exact Or.inl h
    · rename_i he; exact Or.inr ⟨by simp [countsDisabled, he], h⟩

theorem step_inv {d : Defects} {cd : Code} {own : Key} {s : State} (hi : Inv d cd.event s) (op : Op) :
    Inv d cd.event (step d cd own s op).1 := by
  cases op with
  | auth k ready =>
    simp only [step]
    split
    · rename_i hk
      refine ⟨hi.world, fun h => by simp at h, fun r hr => ?_⟩
      have := hi.unauth hk
      simp only [this] at hr
      cases hr
    · exact hi
  | setReady b => exact ⟨hi.world, hi.unauth, hi.admitted⟩
  | query q =>
    simp only [step]
    obtain ⟨hk, _, ha⟩ := @serve_allowed d cd s.w own s.c q
    refine ⟨hi.world, fun hn => ?_, fun r hr => ?_⟩
    · simp only [hk] at hn
      have h0 := hi.unauth hn
      cases hl : (serve d cd s.w own s.c q).1.allowed with
      | nil => rfl
      | cons x rest =>
        have : x ∈ (serve d cd s.w own s.c q).1.allowed := by simp [hl]
        rcases ha x this with h | ⟨k, hk', _⟩
        · simp [h0] at h
        · simp [hn] at hk'
    · rcases ha r hr with h | ⟨k, hk', hx⟩
      · simpa only [hk] using hi.admitted r h
      · exact ⟨k, by simp only [hk, hk'], roomsForPeer_admitted hi.world hx⟩
  | advance t =>
    have hle : s.w.now ≤ max t s.w.now := Int.le_max_right _ _
    refine ⟨⟨fun room hm => ?_, fun p hp => Int.le_trans (hi.world.past p hp) hle⟩, hi.unauth, fun r hr => ?_⟩
    · obtain ⟨t', ht, htn⟩ := hi.world.current room hm
      exact ⟨t', ht, Int.le_trans htn hle⟩
    · obtain ⟨k, hk, had⟩ := hi.admitted r hr
      exact ⟨k, hk, admitted_mono (w := s.w) (w' := { s.w with now := max t s.w.now }) (fun p hp => hp) hle had⟩
  | install room =>
    simp only [step]
    have hw' := winv_install hi.world room
    have hmono : ∀ k r, Admitted d cd.event s.w k r → Admitted d cd.event (installRoom s.w room) k r := fun k r h =>
      admitted_mono (fun p hp => by simp [installRoom, hp]) (by simp [installRoom]) h
    obtain ⟨hk, _, ha⟩ := roomEvent_spec d cd.event (installRoom s.w room) s.c room
    refine ⟨hw', fun hn => ?_, fun r hr => ?_⟩
    · simp only [hk] at hn
      have h0 := hi.unauth hn
      cases hl : (roomEvent d cd.event (installRoom s.w room) s.c room).allowed with
      | nil => rfl
      | cons x rest =>
        have : x ∈ (roomEvent d cd.event (installRoom s.w room) s.c room).allowed := by simp [hl]
        rcases ha x this with h | ⟨_, k, hk', _⟩
        · simp [h0] at h
        · simp [hn] at hk'
    · rcases ha r hr with h | ⟨hr', k, hk', hadm⟩
      · obtain ⟨k', hk'', had⟩ := hi.admitted r h
        exact ⟨k', by simp only [hk, hk''], hmono _ _ had⟩
      · refine ⟨k, by simp only [hk, hk'], (s.w.now, room), by simp [installRoom], s.w.now, hr'.symm, Int.le_refl _,
          by simp [installRoom], ?_⟩
        simpa [installRoom] using admits_spec hadm
  | world f =>
    simp only [step]
    refine ⟨⟨hi.world.current, hi.world.past⟩, hi.unauth, hi.admitted⟩


/-! ### what an answer can contain -/

theorem serveArm_data_sound {e : Entry} {w : World} {own : Key} {c : Conn} {q : Query}
    {r : RoomId} {items : List Item} (hgd : e.guard = guardFor q.kind) (hsrc : e.source = sourceFor q.kind)
    (h : (serveArm e w own c q).2 = .data r items) :
    q.room? = some r ∧ c.allowed.contains r = true ∧ items = fetch w q := by
  unfold serveArm at h
  cases q <;> simp only [Query.kind, guardFor, sourceFor] at hgd hsrc <;>
    simp only [hgd, hsrc, guardHolds, Query.room?] at h
  all_goals (repeat' split at h)
  all_goals simp_all [Query.room?]
  all_goals (obtain ⟨h1, h2⟩ := h; subst h1; subst h2; simp_all)

/-- a data-bearing answer: the request names the room, the room was in the allowed table, the items are
    what the room-filtered read returns; and when the code re-checks (`Rechecks`), the proven key is a
    valid member of the room NOW -/
theorem serve_data_sound {d : Defects} {cd : Code} {w : World} {own : Key} {c : Conn} {q : Query}
    {r : RoomId} {items : List Item} (hg : GoodTable cd.table) (h : (serve d cd w own c q).2 = .data r items) :
    q.room? = some r ∧ c.allowed.contains r = true ∧ items = fetch w q ∧
      (Rechecks d cd → ∃ k, c.key = some k ∧ memberNow w k r = true) := by
  unfold serve at h
  split at h
  · simp at h
  · rename_i e he
    obtain ⟨hkind, hgd, hsrc⟩ := lookup_good hg he
    obtain ⟨hq, hc, hit⟩ := serveArm_data_sound hgd hsrc h
    obtain ⟨_, _, hsub, hmem⟩ := recheck_spec d e w c q.room?
    have hc' : r ∈ (recheck d e w c q.room?).allowed := by simpa using hc
    refine ⟨hq, by simpa using hsub r hc', hit, fun hr => ?_⟩
    have hguard : e.guard = .allowedContainsRoom := by
      rw [hgd]
      cases q <;> simp [Query.room?] at hq <;> rfl
    exact hmem (lookup_rechecked hr.2 he hguard) hr.1 r hq hc'

theorem serveArm_roomList_sound {e : Entry} {w : World} {own : Key} {c : Conn} {q : Query}
    {rooms : List RoomId} (hgd : e.guard = guardFor q.kind) (hsrc : e.source = sourceFor q.kind)
    (h : (serveArm e w own c q).2 = .roomList rooms) :
    ∃ k, c.key = some k ∧ c.ready = true ∧ rooms = roomsForPeer w k := by
  unfold serveArm at h
  cases q <;> simp only [Query.kind, guardFor, sourceFor] at hgd hsrc <;>
    simp only [hgd, hsrc, guardHolds, Query.room?] at h
  all_goals (repeat' split at h)
  all_goals simp_all

theorem serve_roomList_sound {d : Defects} {cd : Code} {w : World} {own : Key} {c : Conn} {q : Query}
    {rooms : List RoomId} (hg : GoodTable cd.table) (h : (serve d cd w own c q).2 = .roomList rooms) :
    ∃ k, c.key = some k ∧ c.ready = true ∧ rooms = roomsForPeer w k := by
  unfold serve at h
  split at h
  · simp at h
  · rename_i e he
    obtain ⟨_, hgd, hsrc⟩ := lookup_good hg he
    obtain ⟨hk, hr, _, _⟩ := recheck_spec d e w c q.room?
    obtain ⟨k, h1, h2, h3⟩ := serveArm_roomList_sound hgd hsrc h
    exact ⟨k, hk ▸ h1, hr ▸ h2, h3⟩

theorem serveArm_fingerprint_sound {e : Entry} {w : World} {own : Key} {c : Conn} {q : Query}
    (hgd : e.guard = guardFor q.kind) (hsrc : e.source = sourceFor q.kind)
    (h : (serveArm e w own c q).2 = .fingerprint) : c.key = some own := by
  unfold serveArm at h
  cases q <;> simp only [Query.kind, guardFor, sourceFor] at hgd hsrc <;>
    simp only [hgd, hsrc, guardHolds, Query.room?] at h
  all_goals (repeat' split at h)
  all_goals simp_all

theorem serve_fingerprint_sound {d : Defects} {cd : Code} {w : World} {own : Key} {c : Conn} {q : Query}
    (hg : GoodTable cd.table) (h : (serve d cd w own c q).2 = .fingerprint) : c.key = some own := by
  unfold serve at h
  split at h
  · simp at h
  · rename_i e he
    obtain ⟨_, hgd, hsrc⟩ := lookup_good hg he
    obtain ⟨hk, _, _, _⟩ := recheck_spec d e w c q.room?
    exact hk ▸ serveArm_fingerprint_sound hgd hsrc h

/-- before authentication: nothing but silence, a refusal, or the identity proof -/
theorem serve_unauth {d : Defects} {cd : Code} {w : World} {own : Key} {c : Conn} {q : Query}
    (hg : GoodTable cd.table) (hk : c.key = none) (ha : c.allowed = []) :
    (serve d cd w own c q).2 = .silent ∨ (serve d cd w own c q).2 = .refused ∨
      (serve d cd w own c q).2 = .identity := by
  cases h : (serve d cd w own c q).2 with
  | silent => exact Or.inl rfl
  | refused => exact Or.inr (Or.inl rfl)
  | identity => exact Or.inr (Or.inr rfl)
  | fingerprint => have := serve_fingerprint_sound hg h; simp [hk] at this
  | roomList rooms => obtain ⟨k, hk', _⟩ := serve_roomList_sound hg h; simp [hk] at hk'
  | data r items => have := (serve_data_sound hg h).2.1; simp [ha] at this

/-- after a request that names room `r`, served or refused: if the code re-checks, `r` is in the allowed
    table of the connection only if the proven key is a valid member of it NOW -/
theorem serve_post_allowed {d : Defects} {cd : Code} {w : World} {own : Key} {c : Conn} {q : Query} {r : RoomId}
    (hg : GoodTable cd.table) (hr : Rechecks d cd) (hq : q.room? = some r)
    (hmem : r ∈ (serve d cd w own c q).1.allowed) :
    lookup cd.table q.kind = none ∨ ∃ k, c.key = some k ∧ memberNow w k r = true := by
  unfold serve at hmem
  split at hmem
  · exact Or.inl (by assumption)
  · rename_i e he
    right
    obtain ⟨_, hgd, hsrc⟩ := lookup_good hg he
    have hguard : e.guard = .allowedContainsRoom := by
      rw [hgd]
      cases q <;> simp [Query.room?] at hq <;> rfl
    obtain ⟨hk, _, _, hm⟩ := recheck_spec d e w c q.room?
    have hsame : (serveArm e w own (recheck d e w c q.room?) q).1.allowed = (recheck d e w c q.room?).allowed := by
      unfold serveArm
      cases q <;> simp only [Query.kind, guardFor, sourceFor] at hgd hsrc <;> simp [Query.room?] at hq <;>
        simp only [hgd, hsrc] <;> (repeat' split) <;> rfl
    rw [hsame] at hmem
    exact hm (lookup_rechecked hr.2 he hguard) hr.1 r hq hmem

theorem run_inv {d : Defects} {cd : Code} {own : Key} {s : State} (hi : Inv d cd.event s) (ops : List Op) :
    Inv d cd.event (run d cd own s ops).1 := by
  induction ops generalizing s with
  | nil => exact hi
  | cons op ops ih => simp only [run]; exact ih (step_inv hi op)

theorem inv_init {d : Defects} {ev : EventRule} {w : World} (hw : WInv w) : Inv d ev (State.init w) :=
  ⟨hw, fun _ => rfl, fun r hr => by simp [State.init, Conn.init] at hr⟩

/-- the answer to the `i`-th operation of a run is the answer of `step` in the state reached by the
    first `i` operations -/
theorem run_answer {d : Defects} {cd : Code} {own : Key} (s : State) (ops : List Op) (i : Nat) (op : Op)
    (h : ops[i]? = some op) :
    (run d cd own s ops).2[i]? = some (step d cd own (run d cd own s (ops.take i)).1 op).2 := by
  induction ops generalizing s i with
  | nil => simp at h
  | cons o rest ih =>
    cases i with
    | zero =>
      simp only [List.getElem?_cons_zero, Option.some.injEq] at h
      subst h
      simp [run]
    | succ j =>
      simp only [List.getElem?_cons_succ] at h
      simp only [run, List.take_succ_cons, List.getElem?_cons_succ]
      exact ih _ j h

/-! ### the key of a connection changes only through the handshake -/

def Op.isAuth : Op → Bool
  | .auth _ _ => true
  | _ => false

theorem step_key {d : Defects} {cd : Code} {own : Key} {s : State} {op : Op} (h : op.isAuth = false) :
    (step d cd own s op).1.c.key = s.c.key := by
  cases op with
  | auth k r => simp [Op.isAuth] at h
  | setReady b => rfl
  | query q => simp only [step]; exact (@serve_allowed d cd s.w own s.c q).1
  | advance t => rfl
  | install room => simp only [step]; exact (roomEvent_spec d cd.event _ s.c room).1
  | world f => rfl

theorem run_key {d : Defects} {cd : Code} {own : Key} (ops : List Op) :
    ∀ (s : State), (∀ op ∈ ops, op.isAuth = false) → (run d cd own s ops).1.c.key = s.c.key := by
  induction ops with
  | nil => intro s _; rfl
  | cons op rest ih =>
    intro s h
    simp only [run]
    rw [ih _ (fun o ho => h o (List.mem_cons_of_mem _ ho))]
    exact step_key (h op List.mem_cons_self)

theorem run_append {d : Defects} {cd : Code} {own : Key} (a b : List Op) :
    ∀ (s : State), (run d cd own s (a ++ b)).1 = (run d cd own (run d cd own s a).1 b).1 := by
  induction a with
  | nil => intro s; rfl
  | cons op rest ih => intro s; simp only [List.cons_append, run]; exact ih _

end Discret.Serve
