import DiscretModel.Lemmas.DailyLog
/-
The recomputation of the intended behaviour (`Defects.none`) turns a table satisfying the invariant,
with nothing pending, into the specification of the stored content.
-/
namespace Discret.DailyLog

/-- the log computed from scratch: one group per `(room, entity)` that has content, one row per day that
    has content, count / daily hash of that day, chained history -/
structure IsLogOf (sigs : Content) (log : Log) : Prop where
  groups : GroupsSorted log
  nonemptyGroups : ∀ g ∈ log, g.rows ≠ []
  rows : ∀ g ∈ log, RowsSorted g.rows ∧ (∀ r ∈ g.rows, sigs g.room g.ent r.day ≠ []) ∧
    g.rows = specRows sigs g.room g.ent (g.rows.map (·.day))
  covers : ∀ room ent day, sigs room ent day ≠ [] →
    ∃ g ∈ log, g.room = room ∧ g.ent = ent ∧ ∃ r ∈ g.rows, r.day = day

def noPending : Pending := fun _ _ _ => False

/-- the cursor after the seed row of a group (the last unmarked row before the first marked one): its stored
    hashes; without a seed row the cursor is still the one of the previous group -/
def seedCursor (c : Cursor) (room ent : Nat) : Option DayRow → Cursor
  | some s => { grp := some (room, ent), daily := s.daily, hist := s.hist }
  | none => c

/-- how the loop cursor encodes "the last row of this group kept so far": `none` = no row of the group precedes
    (the cursor is still in another group, or it is in the group without a history) -/
def CurIs (c : Cursor) (room ent : Nat) : Option (Hash × Option Hash) → Prop
  | none => sameGroup c room ent = false ∨ (c.grp = some (room, ent) ∧ c.hist = none)
  | some (h, dl) => c.grp = some (room, ent) ∧ c.hist = some h ∧ c.daily = dl

theorem sameGroup_false_iff (c : Cursor) (room ent : Nat) :
    sameGroup c room ent = false ↔ c.grp ≠ some (room, ent) := by
  unfold sameGroup
  cases hg : c.grp with
  | none => simp
  | some x =>
    obtain ⟨a, b⟩ := x
    simp only [Option.some.injEq, Prod.mk.injEq, ne_eq]
    constructor
    · intro h e; simp [e.1, e.2] at h
    · intro h
      cases h1 : decide (a = room) <;> cases h2 : decide (b = ent) <;> simp_all

theorem sameForMarked_eq {d : Defects} (h2 : d.entityNotCompared = false) (c : Cursor) (room ent : Nat) :
    sameForMarked d c room ent = sameGroup c room ent := by
  unfold sameForMarked sameGroup
  cases c.grp with
  | none => rfl
  | some x => obtain ⟨a, b⟩ := x; simp [h2]

/-- a row the intended recomputation keeps: every row except a marked one whose day is now empty -/
def survives (sigs : Content) (room ent : Nat) (r : DayRow) : Bool :=
  !(r.dirty && (sigs room ent r.day).isEmpty)

def specRow (sigs : Content) (room ent : Nat) (prev : Option (Hash × Option Hash)) (day : Nat) : DayRow :=
  { day, count := (sigs room ent day).length, daily := dailyOf (sigs room ent day),
    hist := nextHist prev (dailyOf (sigs room ent day)), dirty := false }

theorem specRowsFrom_cons (sigs : Content) (room ent : Nat) (prev : Option (Hash × Option Hash))
    (day : Nat) (t : List Nat) :
    specRowsFrom sigs room ent prev (day :: t) = specRow sigs room ent prev day ::
      specRowsFrom sigs room ent ((nextHist prev (dailyOf (sigs room ent day))).map fun h =>
        (h, dailyOf (sigs room ent day))) t := rfl

theorem dailyOf_some {s : List Sig} (h : s ≠ []) : ∃ x, dailyOf s = some x := by
  unfold dailyOf
  cases s with
  | nil => exact absurd rfl h
  | cons a t => exact ⟨.daily (sortSigs (a :: t)), by simp⟩

theorem nextHist_some (prev : Option (Hash × Option Hash)) (x : Hash) : ∃ y, nextHist prev (some x) = some y := by
  unfold nextHist
  cases prev with
  | none => exact ⟨x, rfl⟩
  | some p => obtain ⟨h, dl⟩ := p; exact ⟨_, rfl⟩

theorem sameGroup_true_iff (c : Cursor) (room ent : Nat) :
    sameGroup c room ent = true ↔ c.grp = some (room, ent) := by
  have := sameGroup_false_iff c room ent
  cases h : sameGroup c room ent with
  | true =>
    simp only [true_iff]
    cases hg : decide (c.grp = some (room, ent)) with
    | true => simpa using hg
    | false =>
      have hne : c.grp ≠ some (room, ent) := by simpa using hg
      rw [← this] at hne; rw [h] at hne; cases hne
  | false =>
    have hne := this.mp h
    simp only [Bool.false_eq_true, false_iff]; exact hne

section step
variable {d : Defects} (h1 : d.historySeedDropped = false) (h2 : d.entityNotCompared = false)
  (h3 : d.emptyDayRow = false) {sigs : Content} {room ent : Nat} {c : Cursor} {r : DayRow}

theorem stepRow_clean_same {h : Hash} (hd : r.dirty = false) (hg : c.grp = some (room, ent))
    (hh : c.hist = some h) :
    stepRow d sigs room ent c r =
      ({ grp := some (room, ent), daily := r.daily, hist := some (chainHash h c.daily) },
        some { r with hist := some (chainHash h c.daily) }) := by
  have hsg : sameGroup c room ent = true := by simp [sameGroup, hg]
  simp only [stepRow, hd, Bool.not_false, ↓reduceIte, hsg, hh]

include h3 in
/-- an unmarked row met by a cursor that is in the group without a history: the chain starts at this row -/
theorem stepRow_clean_first (hd : r.dirty = false) (hg : c.grp = some (room, ent)) (hh : c.hist = none) :
    stepRow d sigs room ent c r =
      ({ grp := some (room, ent), daily := r.daily, hist := r.daily }, some { r with hist := r.daily }) := by
  have hsg : sameGroup c room ent = true := by simp [sameGroup, hg]
  simp only [stepRow, hd, Bool.not_false, ↓reduceIte, hsg, hh, h3, Bool.false_eq_true]

include h1 in
/-- the seed row: an unmarked row met by a cursor that is in another group loads its stored hashes -/
theorem stepRow_seed (hd : r.dirty = false) (hg : sameGroup c room ent = false) :
    stepRow d sigs room ent c r = (seedCursor c room ent (some r), some r) := by
  simp only [stepRow, hd, Bool.not_false, ↓reduceIte, hg, Bool.false_eq_true, h1, seedCursor]

include h3 in
theorem stepRow_dirty_empty (hd : r.dirty = true) (he : sigs room ent r.day = []) :
    stepRow d sigs room ent c r = (if sameGroup c room ent then c else Cursor.start room ent, none) := by
  simp [stepRow, hd, he, h3]

/-- the history a marked, non-empty day gets -/
def histOf (c : Cursor) (room ent : Nat) (daily : Option Hash) : Option Hash :=
  if sameGroup c room ent then
    match c.hist with
    | some h => some (chainHash h c.daily)
    | none => daily
  else daily

include h2 h3 in
theorem stepRow_dirty (hd : r.dirty = true) (hne : sigs room ent r.day ≠ []) :
    stepRow d sigs room ent c r =
      ({ grp := some (room, ent), daily := dailyOf (sigs room ent r.day),
         hist := histOf c room ent (dailyOf (sigs room ent r.day)) },
        some { day := r.day, count := (sigs room ent r.day).length, daily := dailyOf (sigs room ent r.day),
               hist := histOf c room ent (dailyOf (sigs room ent r.day)), dirty := false }) := by
  have hne' : (sigs room ent r.day).isEmpty = false := by
    cases hs : sigs room ent r.day with
    | nil => exact absurd hs hne
    | cons a t => rfl
  simp only [stepRow, hd, Bool.not_true, Bool.false_eq_true, ↓reduceIte, hne', h3, sameForMarked_eq h2, histOf,
    Bool.and_true, Bool.not_false]
  rfl

include h2 h3 in
/-- one iteration of the loop, the code with the three repairs -/
theorem stepRow_spec {prev : Option (Hash × Option Hash)}
    (hc : CurIs c room ent prev) (hr : r.dirty = false → RowRight sigs room ent r ∧ c.grp = some (room, ent)) :
    (survives sigs room ent r = true →
      (stepRow d sigs room ent c r).2 = some (specRow sigs room ent prev r.day) ∧
      CurIs (stepRow d sigs room ent c r).1 room ent
        ((nextHist prev (dailyOf (sigs room ent r.day))).map fun h => (h, dailyOf (sigs room ent r.day)))) ∧
    (survives sigs room ent r = false →
      (stepRow d sigs room ent c r).2 = none ∧ CurIs (stepRow d sigs room ent c r).1 room ent prev) ∧
    (stepRow d sigs room ent c r).1.grp = some (room, ent) := by
  cases hd : r.dirty with
  | false =>
    obtain ⟨hrr, hcg⟩ := hr hd
    obtain ⟨x, hx⟩ := dailyOf_some hrr.1
    have hrd : r.daily = some x := by rw [hrr.2.2, hx]
    have hcnt := hrr.2.1
    cases prev with
    | none =>
      have hh : c.hist = none := by
        rcases hc with hc | hc
        · rw [(sameGroup_true_iff _ _ _).mpr hcg] at hc; cases hc
        · exact hc.2
      rw [stepRow_clean_first h3 hd hcg hh]
      refine ⟨fun _ => ⟨?_, ?_⟩, fun h => by simp [survives, hd] at h, rfl⟩
      · simp only [specRow, nextHist, hx]
        cases r; simp only at hrd hcnt hd ⊢; simp [hrd, hcnt, hd]
      · simp only [hx, nextHist, Option.map_some, CurIs, hrd]
        exact ⟨trivial, trivial, trivial⟩
    | some p =>
      obtain ⟨h, dl⟩ := p
      obtain ⟨g1, g2, g3⟩ := hc
      rw [stepRow_clean_same hd g1 g2]
      refine ⟨fun _ => ⟨?_, ?_⟩, fun h => by simp [survives, hd] at h, rfl⟩
      · simp only [specRow, nextHist, hx, g3]
        cases r; simp only at hrd hcnt hd ⊢; simp [hrd, hcnt, hd]
      · simp only [hx, nextHist, Option.map_some, CurIs, hrd, g3]
        exact ⟨trivial, trivial, trivial⟩
  | true =>
    refine ⟨fun hs => ?_, fun hs => ?_, ?_⟩
    · have hne' : sigs room ent r.day ≠ [] := by
        intro e; simp [survives, hd, e] at hs
      obtain ⟨x, hx⟩ := dailyOf_some hne'
      rw [stepRow_dirty h2 h3 hd hne']
      cases prev with
      | none =>
        have hh : histOf c room ent (dailyOf (sigs room ent r.day)) = dailyOf (sigs room ent r.day) := by
          unfold histOf
          rcases hc with hc | hc
          · simp [hc]
          · simp [(sameGroup_true_iff _ _ _).mpr hc.1, hc.2]
        rw [hh]
        simp only [specRow, nextHist, hx, Option.map_some, CurIs]
        exact ⟨trivial, trivial, trivial, trivial⟩
      | some p =>
        obtain ⟨h, dl⟩ := p
        obtain ⟨g1, g2, g3⟩ := hc
        have hsg : sameGroup c room ent = true := by simp [sameGroup, g1]
        simp only [histOf, hsg, ↓reduceIte, g2, g3, specRow, nextHist, hx, Option.map_some, CurIs]
        exact ⟨trivial, trivial, trivial, trivial⟩
    · have he : sigs room ent r.day = [] := by
        cases hs' : sigs room ent r.day with
        | nil => rfl
        | cons a t => simp [survives, hd, hs'] at hs
      rw [stepRow_dirty_empty h3 hd he]
      refine ⟨rfl, ?_⟩
      cases hsg : sameGroup c room ent with
      | true =>
        simp only [↓reduceIte]; exact hc
      | false =>
        simp only [Bool.false_eq_true, ↓reduceIte]
        cases prev with
        | none => exact Or.inr ⟨rfl, rfl⟩
        | some p =>
          obtain ⟨h, dl⟩ := p
          have := (sameGroup_true_iff _ _ _).mpr hc.1
          rw [hsg] at this; cases this
    · cases hs' : sigs room ent r.day with
      | nil =>
        rw [stepRow_dirty_empty h3 hd hs']
        cases hsg : sameGroup c room ent with
        | true => simp only [↓reduceIte]; exact (sameGroup_true_iff _ _ _).mp hsg
        | false => rfl
      | cons a t =>
        rw [stepRow_dirty h2 h3 hd (by rw [hs']; exact List.cons_ne_nil _ _)]

end step


def survivorDays (sigs : Content) (room ent : Nat) (l : List DayRow) : List Nat :=
  (l.filter (survives sigs room ent)).map (·.day)

section walk
variable {d : Defects} (h2 : d.entityNotCompared = false)
  (h3 : d.emptyDayRow = false) {sigs : Content} {room ent : Nat}

include h2 h3 in
/-- the loop over the rows of one group computes the specification rows of the days it keeps. The cursor is in
    the group already (a seed row was read), or the first row is a marked one -/
theorem walkRows_spec (l : List DayRow) (c : Cursor) (prev : Option (Hash × Option Hash))
    (hc : CurIs c room ent prev) (hr : ∀ r ∈ l, r.dirty = false → RowRight sigs room ent r)
    (hfirst : c.grp = some (room, ent) ∨ ∀ r, l.head? = some r → r.dirty = true) :
    (walkRows d sigs room ent c l).2 = specRowsFrom sigs room ent prev (survivorDays sigs room ent l) ∧
    ((walkRows d sigs room ent c l).1.grp = c.grp ∨ (walkRows d sigs room ent c l).1.grp = some (room, ent)) := by
  induction l generalizing c prev with
  | nil => simp [walkRows, survivorDays, specRowsFrom]
  | cons r t ih =>
    have hrr : r.dirty = false → RowRight sigs room ent r ∧ c.grp = some (room, ent) := by
      intro hd
      refine ⟨hr r List.mem_cons_self hd, ?_⟩
      rcases hfirst with h | h
      · exact h
      · have := h r rfl; rw [hd] at this; cases this
    obtain ⟨hs1, hs2, hs3⟩ := stepRow_spec h2 h3 (d := d) hc hrr
    have hrt : ∀ x ∈ t, x.dirty = false → RowRight sigs room ent x :=
      fun x hx => hr x (List.mem_cons_of_mem _ hx)
    simp only [walkRows]
    cases hs : survives sigs room ent r with
    | true =>
      obtain ⟨e1, e2⟩ := hs1 hs
      obtain ⟨i1, i2⟩ := ih _ _ e2 hrt (Or.inl hs3)
      have hsd : survivorDays sigs room ent (r :: t) = r.day :: survivorDays sigs room ent t := by
        simp [survivorDays, hs]
      rw [hsd, specRowsFrom_cons]
      refine ⟨?_, Or.inr ?_⟩
      · simp only [e1, Option.toList_some, List.singleton_append, i1]
      · rcases i2 with i2 | i2
        · rw [i2]; exact hs3
        · exact i2
    | false =>
      obtain ⟨e1, e2⟩ := hs2 hs
      have hsd : survivorDays sigs room ent (r :: t) = survivorDays sigs room ent t := by
        simp [survivorDays, hs]
      rw [hsd]
      obtain ⟨i1, i2⟩ := ih _ prev e2 hrt (Or.inl hs3)
      refine ⟨by simp only [e1, Option.toList_none, List.nil_append, i1], Or.inr ?_⟩
      rcases i2 with i2 | i2
      · rw [i2]; exact hs3
      · exact i2

end walk

/-- rows of specification rows all have a history -/
theorem specRowsFrom_hist_some {sigs : Content} {room ent : Nat} (l : List Nat)
    (prev : Option (Hash × Option Hash)) (hne : ∀ dd ∈ l, sigs room ent dd ≠ []) :
    ∀ r ∈ specRowsFrom sigs room ent prev l, ∃ h, r.hist = some h := by
  induction l generalizing prev with
  | nil => intro r hr; simp [specRowsFrom] at hr
  | cons dd t ih =>
    intro r hr
    rw [specRowsFrom_cons] at hr
    rcases List.mem_cons.mp hr with hr | hr
    · subst hr
      obtain ⟨x, hx⟩ := dailyOf_some (hne dd List.mem_cons_self)
      obtain ⟨y, hy⟩ := nextHist_some prev x
      exact ⟨y, by simp [specRow, hx, hy]⟩
    · exact ih _ (fun x hx => hne x (List.mem_cons_of_mem _ hx)) r hr

/-- the cursor state after some days is read off the last specification row -/
theorem stateAfter_last {sigs : Content} {room ent : Nat} (l : List Nat)
    (prev : Option (Hash × Option Hash)) {s : DayRow}
    (hl : (specRowsFrom sigs room ent prev l).getLast? = some s) :
    stateAfter sigs room ent prev l = s.hist.map fun h => (h, s.daily) := by
  induction l generalizing prev with
  | nil => simp [specRowsFrom] at hl
  | cons dd t ih =>
    cases t with
    | nil =>
      simp only [specRowsFrom, List.getLast?_singleton, Option.some.injEq] at hl
      subst hl
      simp [stateAfter]
    | cons d2 t2 =>
      rw [specRowsFrom_cons] at hl
      rw [show specRowsFrom sigs room ent
          (Option.map (fun h => (h, dailyOf (sigs room ent dd))) (nextHist prev (dailyOf (sigs room ent dd))))
          (d2 :: t2) = specRow sigs room ent _ d2 :: specRowsFrom sigs room ent _ t2 from specRowsFrom_cons ..] at hl
      rw [List.getLast?_cons_cons] at hl
      rw [← specRowsFrom_cons] at hl
      simp only [stateAfter]
      exact ih _ hl


theorem rowsSorted_iff (l : List DayRow) : RowsSorted l ↔ (l.map (·.day)).Pairwise (· < ·) := by
  unfold RowsSorted; rw [List.pairwise_map]

/-- what the recomputation makes of one group -/
structure GroupDone (sigs : Content) (g g' : Group) : Prop where
  room : g'.room = g.room
  ent : g'.ent = g.ent
  spec : g'.rows = specRows sigs g.room g.ent (g'.rows.map (·.day))
  sorted : RowsSorted g'.rows
  nonempty : ∀ r ∈ g'.rows, sigs g.room g.ent r.day ≠ []
  keeps : ∀ r ∈ g.rows, sigs g.room g.ent r.day ≠ [] → ∃ r' ∈ g'.rows, r'.day = r.day

theorem survives_nonempty {sigs : Content} {room ent : Nat} {r : DayRow}
    (hr : r.dirty = false → RowRight sigs room ent r) (hs : survives sigs room ent r = true) :
    sigs room ent r.day ≠ [] := by
  cases hd : r.dirty with
  | false => exact (hr hd).1
  | true => intro e; simp [survives, hd, e] at hs

theorem survives_of_nonempty {sigs : Content} {room ent : Nat} {r : DayRow}
    (hne : sigs room ent r.day ≠ []) : survives sigs room ent r = true := by
  unfold survives
  cases hs : sigs room ent r.day with
  | nil => exact absurd hs hne
  | cons a t => simp

theorem mem_cleanPrefix_clean {rows : List DayRow} {r : DayRow} (h : r ∈ cleanPrefix rows) : r.dirty = false := by
  induction rows with
  | nil => simp [cleanPrefix] at h
  | cons a t ih =>
    unfold cleanPrefix at h ih
    rw [List.takeWhile_cons] at h
    split at h
    · rename_i ha
      rcases List.mem_cons.mp h with h | h
      · subst h; simpa using ha
      · exact ih h
    · cases h

theorem recomputeGroup_clean {d : Defects} {sigs : Content} {c : Cursor} {g : Group}
    (hre : (fromFirstDirty g.rows).isEmpty = true) : recomputeGroup d sigs c g = (c, g) := by
  simp [recomputeGroup, hre]

theorem fromFirstDirty_head_dirty (rows : List DayRow) :
    ∀ r, (fromFirstDirty rows).head? = some r → r.dirty = true := by
  induction rows with
  | nil => intro r h; simp [fromFirstDirty] at h
  | cons a t ih =>
    intro r h
    unfold fromFirstDirty at h ih
    rw [List.dropWhile_cons] at h
    split at h
    · exact ih r h
    · rename_i ha
      simp only [List.head?_cons, Option.some.injEq] at h
      subst h; simpa using ha

theorem dropLast_append_getLast {α} (l : List α) (s : α) (h : l.getLast? = some s) : l.dropLast ++ [s] = l := by
  obtain ⟨ys, hys⟩ := List.getLast?_eq_some_iff.mp h
  subst hys
  simp

theorem walkRows_cons (d : Defects) (sigs : Content) (room ent : Nat) (c : Cursor) (r : DayRow) (t : List DayRow) :
    walkRows d sigs room ent c (r :: t) =
      ((walkRows d sigs room ent (stepRow d sigs room ent c r).1 t).1,
       (stepRow d sigs room ent c r).2.toList ++ (walkRows d sigs room ent (stepRow d sigs room ent c r).1 t).2) := rfl

/-- the window of a group as the loop sees it: when the cursor comes from another group, reading the seed row
    (if there is one) loads its stored hashes and leaves the row as it is; the walk proper starts at the first
    marked row -/
theorem recomputeGroup_static {d : Defects} {sigs : Content} {c : Cursor} {g : Group}
    (h1 : d.historySeedDropped = false) (h4 : d.lazyScan = false) (hc : sameGroup c g.room g.ent = false)
    (hre : (fromFirstDirty g.rows).isEmpty = false) :
    recomputeGroup d sigs c g =
      ((walkRows d sigs g.room g.ent (seedCursor c g.room g.ent (cleanPrefix g.rows).getLast?)
          (fromFirstDirty g.rows)).1,
       { g with rows := cleanPrefix g.rows ++
          (walkRows d sigs g.room g.ent (seedCursor c g.room g.ent (cleanPrefix g.rows).getLast?)
            (fromFirstDirty g.rows)).2 }) := by
  cases hl : (cleanPrefix g.rows).getLast? with
  | none =>
    have hnil : cleanPrefix g.rows = [] := List.getLast?_eq_none_iff.mp hl
    simp [recomputeGroup, hre, h4, hnil, seedCursor]
  | some s =>
    have hsd : s.dirty = false := mem_cleanPrefix_clean (List.mem_of_getLast? hl)
    have hdl : (cleanPrefix g.rows).dropLast ++ [s] = cleanPrefix g.rows :=
      dropLast_append_getLast _ s hl
    simp only [recomputeGroup, hre, h4, hl, Bool.false_eq_true, ↓reduceIte, Option.toList_some, List.singleton_append]
    rw [walkRows_cons, stepRow_seed h1 hsd hc]
    simp only [Option.toList_some, List.singleton_append]
    rw [← List.singleton_append, ← List.append_assoc, hdl]

section group
variable {d : Defects} (h1 : d.historySeedDropped = false) (h2 : d.entityNotCompared = false)
  (h3 : d.emptyDayRow = false) (h4 : d.lazyScan = false)

include h1 h2 h3 h4 in
theorem recomputeGroup_done {sigs : Content} {g : Group} {c : Cursor} (hg : GInv sigs noPending g)
    (hc : sameGroup c g.room g.ent = false) :
    GroupDone sigs g (recomputeGroup d sigs c g).2 ∧
      ((recomputeGroup d sigs c g).1.grp = c.grp ∨ (recomputeGroup d sigs c g).1.grp = some (g.room, g.ent)) := by
  have hrows : g.rows = cleanPrefix g.rows ++ fromFirstDirty g.rows :=
    (List.takeWhile_append_dropWhile).symm
  have hpreclean : ∀ r ∈ cleanPrefix g.rows, r.dirty = false := fun r hr => mem_cleanPrefix_clean hr
  have hright : ∀ r ∈ g.rows, r.dirty = false → RowRight sigs g.room g.ent r :=
    fun r hr hd => hg.right r hr hd (fun h => h)
  have hpre : cleanPrefix g.rows = specRows sigs g.room g.ent ((cleanPrefix g.rows).map (·.day)) :=
    hg.chain _ _ hrows (fun r hr => ⟨hpreclean r hr, fun _ _ h => h⟩)
  have hpremem : ∀ r ∈ cleanPrefix g.rows, r ∈ g.rows := fun r hr => by rw [hrows]; simp [hr]
  have hrestmem : ∀ r ∈ fromFirstDirty g.rows, r ∈ g.rows := fun r hr => by rw [hrows]; simp [hr]
  cases hre : (fromFirstDirty g.rows).isEmpty with
  | true =>
    rw [recomputeGroup_clean hre]
    have hrest : fromFirstDirty g.rows = [] := List.isEmpty_iff.mp hre
    have hall : g.rows = cleanPrefix g.rows := by rw [hrest, List.append_nil] at hrows; exact hrows
    refine ⟨⟨rfl, rfl, ?_, hg.sorted, ?_, fun r hr _ => ⟨r, hr, rfl⟩⟩, Or.inl rfl⟩
    · show g.rows = specRows sigs g.room g.ent (g.rows.map (·.day))
      rw [hall]; exact hpre
    · intro r hr
      have hr' : r ∈ cleanPrefix g.rows := by rw [← hall]; exact hr
      exact (hright r hr (hpreclean r hr')).1
  | false =>
    rw [recomputeGroup_static h1 h4 hc hre]
    -- the cursor the walk starts with
    have hdays : ∀ dd ∈ (cleanPrefix g.rows).map (·.day), sigs g.room g.ent dd ≠ [] := by
      intro dd hd
      obtain ⟨r, hr, hrd⟩ := List.mem_map.mp hd
      subst hrd
      exact (hright r (hpremem r hr) (hpreclean r hr)).1
    have hcur : ∃ c0, seedCursor c g.room g.ent (cleanPrefix g.rows).getLast? = c0 ∧
        CurIs c0 g.room g.ent (stateAfter sigs g.room g.ent none ((cleanPrefix g.rows).map (·.day))) ∧
        (c0.grp = c.grp ∨ c0.grp = some (g.room, g.ent)) ∧
        (c0.grp = some (g.room, g.ent) ∨ ∀ r, (fromFirstDirty g.rows).head? = some r → r.dirty = true) := by
      cases hl : (cleanPrefix g.rows).getLast? with
      | none =>
        have : cleanPrefix g.rows = [] := List.getLast?_eq_none_iff.mp hl
        refine ⟨c, rfl, ?_, Or.inl rfl, Or.inr (fromFirstDirty_head_dirty g.rows)⟩
        rw [this]; exact Or.inl hc
      | some s =>
        refine ⟨_, rfl, ?_, Or.inr rfl, Or.inl rfl⟩
        have hl' : (specRowsFrom sigs g.room g.ent none ((cleanPrefix g.rows).map (·.day))).getLast? = some s := by
          have := hpre; unfold specRows at this; rw [← this]; exact hl
        rw [stateAfter_last _ _ hl']
        have hsmem : s ∈ specRowsFrom sigs g.room g.ent none ((cleanPrefix g.rows).map (·.day)) :=
          List.mem_of_getLast? hl'
        obtain ⟨h, hh⟩ := specRowsFrom_hist_some _ _ hdays s hsmem
        rw [hh]; exact ⟨rfl, hh, rfl⟩
    obtain ⟨c0, hc0, hcur, hgrp0, hfirst⟩ := hcur
    rw [hc0]
    obtain ⟨w1, w2⟩ := walkRows_spec h2 h3 (d := d) (fromFirstDirty g.rows) c0 _ hcur
      (fun r hr hd => hright r (hrestmem r hr) hd) hfirst
    have hdaysOut : ((walkRows d sigs g.room g.ent c0 (fromFirstDirty g.rows)).2).map (·.day) =
        survivorDays sigs g.room g.ent (fromFirstDirty g.rows) := by
      rw [w1, specRowsFrom_days]
    refine ⟨⟨rfl, rfl, ?_, ?_, ?_, ?_⟩, ?_⟩
    · simp only [List.map_append, hdaysOut]
      rw [specRows, specRowsFrom_append, ← w1]
      congr 1
    · rw [rowsSorted_iff]
      simp only [List.map_append, hdaysOut]
      have hs := (rowsSorted_iff g.rows).mp hg.sorted
      rw [hrows, List.map_append] at hs
      refine List.Pairwise.sublist ?_ hs
      exact List.Sublist.append (List.Sublist.refl _) (List.Sublist.map _ List.filter_sublist)
    · intro r hr
      rcases List.mem_append.mp hr with hr | hr
      · exact (hright r (hpremem r hr) (hpreclean r hr)).1
      · have : r.day ∈ survivorDays sigs g.room g.ent (fromFirstDirty g.rows) := by
          rw [← hdaysOut]; exact List.mem_map_of_mem hr
        obtain ⟨x, hx, hxd⟩ := List.mem_map.mp this
        obtain ⟨hx1, hx2⟩ := List.mem_filter.mp hx
        rw [← hxd]
        exact survives_nonempty (fun hd => hright x (hrestmem x hx1) hd) hx2
    · intro r hr hne
      rw [hrows] at hr
      rcases List.mem_append.mp hr with hr | hr
      · exact ⟨r, by simp [hr], rfl⟩
      · have : r.day ∈ survivorDays sigs g.room g.ent (fromFirstDirty g.rows) :=
          List.mem_map.mpr ⟨r, List.mem_filter.mpr ⟨hr, survives_of_nonempty hne⟩, rfl⟩
        rw [← hdaysOut] at this
        obtain ⟨r', hr', hd'⟩ := List.mem_map.mp this
        exact ⟨r', by simp [hr'], hd'⟩
    · rcases w2 with w2 | w2
      · rcases hgrp0 with h5 | h5
        · exact Or.inl (w2.trans h5)
        · exact Or.inr (w2.trans h5)
      · exact Or.inr w2

end group


section log
variable {d : Defects} (h1 : d.historySeedDropped = false) (h2 : d.entityNotCompared = false)
  (h3 : d.emptyDayRow = false) (h4 : d.lazyScan = false)

theorem recomputeFrom_cons (sigs : Content) (c : Cursor) (g : Group) (t : Log) :
    recomputeFrom d sigs c (g :: t) =
      if (recomputeGroup d sigs c g).2.rows.isEmpty then recomputeFrom d sigs (recomputeGroup d sigs c g).1 t
      else (recomputeGroup d sigs c g).2 :: recomputeFrom d sigs (recomputeGroup d sigs c g).1 t := rfl

include h1 h2 h3 h4 in
theorem recomputeFrom_done {sigs : Content} (log : Log) (c : Cursor) (hs : GroupsSorted log)
    (hg : ∀ g ∈ log, GInv sigs noPending g) (hc : ∀ g ∈ log, c.grp ≠ some (g.room, g.ent)) :
    (∀ g' ∈ recomputeFrom d sigs c log, g'.rows ≠ [] ∧ ∃ g ∈ log, GroupDone sigs g g') ∧
    GroupsSorted (recomputeFrom d sigs c log) ∧
    (∀ g ∈ log, ∀ r ∈ g.rows, sigs g.room g.ent r.day ≠ [] →
      ∃ g' ∈ recomputeFrom d sigs c log, g'.room = g.room ∧ g'.ent = g.ent ∧ ∃ r' ∈ g'.rows, r'.day = r.day) := by
  induction log generalizing c with
  | nil => simp [recomputeFrom, GroupsSorted]
  | cons g t ih =>
    have hs' : GroupsSorted t := (List.pairwise_cons.mp hs).2
    have hgt : ∀ b ∈ t, keyLt g.room g.ent b.room b.ent := (List.pairwise_cons.mp hs).1
    obtain ⟨hdone, hgrp⟩ := recomputeGroup_done h1 h2 h3 h4 (d := d) (c := c) (hg g List.mem_cons_self)
      ((sameGroup_false_iff _ _ _).mpr (hc g List.mem_cons_self))
    have hc' : ∀ x ∈ t, (recomputeGroup d sigs c g).1.grp ≠ some (x.room, x.ent) := by
      intro x hx
      rcases hgrp with e | e
      · rw [e]; exact hc x (List.mem_cons_of_mem _ hx)
      · rw [e]; intro e2
        simp only [Option.some.injEq, Prod.mk.injEq] at e2
        have := hgt x hx
        rw [e2.1, e2.2] at this
        exact keyLt_irrefl _ _ this
    obtain ⟨i1, i2, i3⟩ := ih (recomputeGroup d sigs c g).1 hs'
      (fun x hx => hg x (List.mem_cons_of_mem _ hx)) hc'
    rw [recomputeFrom_cons]
    cases he : (recomputeGroup d sigs c g).2.rows.isEmpty with
    | true =>
      simp only [↓reduceIte]
      have hnil : (recomputeGroup d sigs c g).2.rows = [] := List.isEmpty_iff.mp he
      refine ⟨?_, i2, ?_⟩
      · intro g' hg'
        obtain ⟨a, x, hx, b⟩ := i1 g' hg'
        exact ⟨a, x, List.mem_cons_of_mem _ hx, b⟩
      · intro x hx r hr hne
        rcases List.mem_cons.mp hx with hx | hx
        · subst hx
          obtain ⟨r', hr', _⟩ := hdone.keeps r hr hne
          rw [hnil] at hr'; cases hr'
        · exact i3 x hx r hr hne
    | false =>
      simp only [Bool.false_eq_true, ↓reduceIte]
      have hne : (recomputeGroup d sigs c g).2.rows ≠ [] := by
        intro e; rw [e] at he; simp at he
      refine ⟨?_, ?_, ?_⟩
      · intro g' hg'
        rcases List.mem_cons.mp hg' with hg' | hg'
        · subst hg'; exact ⟨hne, g, List.mem_cons_self, hdone⟩
        · obtain ⟨a, x, hx, b⟩ := i1 g' hg'
          exact ⟨a, x, List.mem_cons_of_mem _ hx, b⟩
      · refine List.pairwise_cons.mpr ⟨?_, i2⟩
        intro x' hx'
        obtain ⟨_, x, hx, hxd⟩ := i1 x' hx'
        rw [hdone.room, hdone.ent, hxd.room, hxd.ent]
        exact hgt x hx
      · intro x hx r hr hne'
        rcases List.mem_cons.mp hx with hx | hx
        · subst hx
          obtain ⟨r', hr', hd'⟩ := hdone.keeps r hr hne'
          exact ⟨_, List.mem_cons_self, hdone.room, hdone.ent, r', hr', hd'⟩
        · obtain ⟨g', hg', a, b, cc⟩ := i3 x hx r hr hne'
          exact ⟨g', List.mem_cons_of_mem _ hg', a, b, cc⟩

include h1 h2 h3 h4 in
/-- **the recomputation barrier**: with nothing pending, the recomputed table is the specification -/
theorem recompute_isLogOf {sigs : Content} {log : Log} (h : WInv sigs noPending log) :
    IsLogOf sigs (recompute d sigs log) := by
  obtain ⟨a, b, c⟩ := recomputeFrom_done h1 h2 h3 h4 (d := d) log Cursor.init h.groups h.ginv
    (fun g _ => by simp [Cursor.init])
  refine ⟨b, fun g' hg' => (a g' hg').1, ?_, ?_⟩
  · intro g' hg'
    obtain ⟨_, g, _, hd⟩ := a g' hg'
    refine ⟨hd.sorted, ?_, ?_⟩
    · intro r hr; rw [hd.room, hd.ent]; exact hd.nonempty r hr
    · rw [hd.room, hd.ent]; exact hd.spec
  · intro room ent day hne
    rcases h.covers room ent day hne with hp | ⟨g, hg, hr, he, r, hrm, hrd⟩
    · exact absurd hp (fun x => x)
    · subst hr he hrd
      exact c g hg r hrm hne

end log

/-- a specification table satisfies the invariant with nothing pending -/
theorem IsLogOf.winv {sigs : Content} {log : Log} (h : IsLogOf sigs log) : WInv sigs noPending log := by
  refine ⟨h.groups, ?_, fun room ent day hne => Or.inr (h.covers room ent day hne)⟩
  intro g hg
  obtain ⟨hs, hn, he⟩ := h.rows g hg
  refine ⟨hs, ?_, ?_⟩
  · intro r hr _ _
    -- every row of a specification table carries the values of its day
    have : ∀ (l : List Nat) (prev : Option (Hash × Option Hash)), ∀ x ∈ specRowsFrom sigs g.room g.ent prev l,
        x.count = (sigs g.room g.ent x.day).length ∧ x.daily = dailyOf (sigs g.room g.ent x.day) := by
      intro l
      induction l with
      | nil => intro prev x hx; simp [specRowsFrom] at hx
      | cons dd t ih =>
        intro prev x hx
        rw [specRowsFrom_cons] at hx
        rcases List.mem_cons.mp hx with hx | hx
        · subst hx; exact ⟨rfl, rfl⟩
        · exact ih _ x hx
    have hr' : r ∈ specRowsFrom sigs g.room g.ent none (g.rows.map (·.day)) := by
      have := he; unfold specRows at this; rw [← this]; exact hr
    exact ⟨hn r hr, (this _ _ r hr').1, (this _ _ r hr').2⟩
  · intro pre post hpp _
    have := he
    rw [hpp] at this
    exact specRows_prefix (days := (pre ++ post).map (·.day)) this.symm

end Discret.DailyLog
