import DiscretModel.Model.Events
/-
Lemmas about the announcement model (`Model/Events.lean`), core Lean only.
-/
namespace Discret.Events

/-! ### writer level -/

@[simp] theorem passW_marks (k : Ent → Bool) (w : W) : (passW k w).marks = [] := rfl

@[simp] theorem passW_events (k : Ent → Bool) (w : W) :
    (passW k w).events = w.events ++ [w.marks.filter fun c => k c.ent] := rfl

/-- everything one needs to know about the items of a batch -/
theorem runItems_spec (k : Ent → Bool) (b : List Item) : ∀ (w : W) (p : List Cell),
    ∃ l, (runItems k w p b).1.events = w.events ++ l ∧
      (∀ c, c ∈ w.marks → k c.ent = true → c ∈ (runItems k w p b).1.marks ∨ ∃ e ∈ l, c ∈ e) ∧
      (Item.pass ∈ b → (∀ c, c ∈ w.marks → k c.ent = true → ∃ e ∈ l, c ∈ e)) ∧
      (∀ c, c ∈ p → c ∈ (runItems k w p b).2) ∧
      (∀ m, Item.write m ∈ b → ∀ c, c ∈ m → c ∈ (runItems k w p b).2) ∧
      (∀ e ∈ l, ∀ c ∈ e, c ∈ w.marks ∧ k c.ent = true) ∧
      (∀ c, c ∈ (runItems k w p b).1.marks → c ∈ w.marks) ∧
      (∀ c, c ∈ (runItems k w p b).2 → c ∈ p ∨ ∃ m, Item.write m ∈ b ∧ c ∈ m) := by
  induction b with
  | nil =>
    intro w p
    refine ⟨[], by simp [runItems], ?_, ?_, ?_, ?_, ?_, ?_, ?_⟩
    · intro c hc _; exact Or.inl (by simpa [runItems] using hc)
    · intro h; cases h
    · intro c hc; simpa [runItems] using hc
    · intro m h; cases h
    · intro e he; cases he
    · intro c hc; simpa [runItems] using hc
    · intro c hc; exact Or.inl (by simpa [runItems] using hc)
  | cons it rest ih =>
    intro w p
    cases it with
    | write m =>
      obtain ⟨l, h1, h2, h3, h4, h5, h6, h7, h8⟩ := ih w (p ++ m)
      refine ⟨l, by simpa [runItems] using h1, ?_, ?_, ?_, ?_, ?_, ?_, ?_⟩
      · intro c hc hk; simpa [runItems] using h2 c hc hk
      · intro hp
        have : Item.pass ∈ rest := by
          rcases List.mem_cons.mp hp with h | h
          · cases h
          · exact h
        exact h3 this
      · intro c hc; simpa [runItems] using h4 c (List.mem_append.mpr (Or.inl hc))
      · intro m' hm' c hc
        rcases List.mem_cons.mp hm' with h | h
        · cases h; simpa [runItems] using h4 c (List.mem_append.mpr (Or.inr hc))
        · simpa [runItems] using h5 m' h c hc
      · exact h6
      · intro c hc; exact h7 c (by simpa [runItems] using hc)
      · intro c hc
        have := h8 c (by simpa [runItems] using hc)
        rcases this with h | ⟨m', hm', hc'⟩
        · rcases List.mem_append.mp h with h | h
          · exact Or.inl h
          · exact Or.inr ⟨m, List.mem_cons_self, h⟩
        · exact Or.inr ⟨m', List.mem_cons_of_mem _ hm', hc'⟩
    | pass =>
      obtain ⟨l, h1, _, _, h4, h5, h6, h7, h8⟩ := ih (passW k w) p
      have hcov : ∀ c, c ∈ w.marks → k c.ent = true →
          ∃ e ∈ (w.marks.filter fun c => k c.ent) :: l, c ∈ e := by
        intro c hc hk
        exact ⟨_, List.mem_cons_self, List.mem_filter.mpr ⟨hc, hk⟩⟩
      refine ⟨(w.marks.filter fun c => k c.ent) :: l, ?_, ?_, ?_, ?_, ?_, ?_, ?_, ?_⟩
      · simp only [runItems]; rw [h1]; simp
      · intro c hc hk; exact Or.inr (hcov c hc hk)
      · intro _; exact hcov
      · intro c hc; simpa [runItems] using h4 c hc
      · intro m' hm' c hc
        rcases List.mem_cons.mp hm' with h | h
        · cases h
        · simpa [runItems] using h5 m' h c hc
      · intro e he c hc
        rcases List.mem_cons.mp he with h | h
        · subst h; exact ⟨(List.mem_filter.mp hc).1, (List.mem_filter.mp hc).2⟩
        · have := h6 e h c hc
          simp at this
      · intro c hc
        have := h7 c (by simpa [runItems] using hc)
        simp at this
      · intro c hc
        have := h8 c (by simpa [runItems] using hc)
        rcases this with h | ⟨m', hm', hc'⟩
        · exact Or.inl h
        · exact Or.inr ⟨m', List.mem_cons_of_mem _ hm', hc'⟩

/-- one committed batch: the events only grow; a marked cell stays marked or is in a new event; a pass
    in the batch reports every cell marked before the batch; the cells the batch's changes mark are
    marked afterwards; new events contain only cells marked before; marks come from before or from the
    batch's changes. -/
theorem commit_spec (k : Ent → Bool) (w : W) (b : List Item) :
    ∃ l, (commit k w b).events = w.events ++ l ∧
      (∀ c, c ∈ w.marks → k c.ent = true → c ∈ (commit k w b).marks ∨ ∃ e ∈ l, c ∈ e) ∧
      (Item.pass ∈ b → (∀ c, c ∈ w.marks → k c.ent = true → ∃ e ∈ l, c ∈ e)) ∧
      (∀ m, Item.write m ∈ b → ∀ c, c ∈ m → c ∈ (commit k w b).marks) ∧
      (∀ e ∈ l, ∀ c ∈ e, c ∈ w.marks ∧ k c.ent = true) ∧
      (∀ c, c ∈ (commit k w b).marks → c ∈ w.marks ∨ ∃ m, Item.write m ∈ b ∧ c ∈ m) := by
  obtain ⟨l, h1, h2, h3, _, h5, h6, h7, h8⟩ := runItems_spec k b w []
  refine ⟨l, h1, ?_, h3, ?_, h6, ?_⟩
  · intro c hc hk
    rcases h2 c hc hk with h | h
    · exact Or.inl (List.mem_append.mpr (Or.inl h))
    · exact Or.inr h
  · intro m hm c hc
    exact List.mem_append.mpr (Or.inr (h5 m hm c hc))
  · intro c hc
    rcases List.mem_append.mp hc with h | h
    · exact Or.inl (h7 c h)
    · rcases h8 c h with h | h
      · cases h
      · exact Or.inr h

theorem run_append (k : Ent → Bool) (w : W) (a b : List (List Item)) :
    run k w (a ++ b) = run k (run k w a) b := by
  induction a generalizing w with
  | nil => rfl
  | cons x xs ih => simp [run, ih]

/-- any sequence of batches -/
theorem run_spec (k : Ent → Bool) (bs : List (List Item)) : ∀ (w : W),
    ∃ l, (run k w bs).events = w.events ++ l ∧
      (∀ c, c ∈ w.marks → k c.ent = true → c ∈ (run k w bs).marks ∨ ∃ e ∈ l, c ∈ e) ∧
      ((∃ b ∈ bs, Item.pass ∈ b) → (∀ c, c ∈ w.marks → k c.ent = true → ∃ e ∈ l, c ∈ e)) ∧
      (∀ e ∈ l, ∀ c ∈ e, k c.ent = true ∧ (c ∈ w.marks ∨ ∃ b ∈ bs, ∃ m, Item.write m ∈ b ∧ c ∈ m)) := by
  induction bs with
  | nil =>
    intro w
    refine ⟨[], by simp [run], ?_, ?_, ?_⟩
    · intro c hc _; exact Or.inl hc
    · rintro ⟨b, hb, _⟩; cases hb
    · intro e he; cases he
  | cons b rest ih =>
    intro w
    obtain ⟨l1, a1, a2, a3, _, a5, a6⟩ := commit_spec k w b
    obtain ⟨l2, b1, b2, b3, b4⟩ := ih (commit k w b)
    refine ⟨l1 ++ l2, ?_, ?_, ?_, ?_⟩
    · simp only [run]; rw [b1, a1]; simp
    · intro c hc hk
      rcases a2 c hc hk with h | ⟨e, he, hce⟩
      · rcases b2 c h hk with h | ⟨e, he, hce⟩
        · exact Or.inl h
        · exact Or.inr ⟨e, List.mem_append.mpr (Or.inr he), hce⟩
      · exact Or.inr ⟨e, List.mem_append.mpr (Or.inl he), hce⟩
    · rintro ⟨b', hb', hp⟩ c hc hk
      rcases List.mem_cons.mp hb' with h | h
      · subst h
        obtain ⟨e, he, hce⟩ := a3 hp c hc hk
        exact ⟨e, List.mem_append.mpr (Or.inl he), hce⟩
      · rcases a2 c hc hk with h' | ⟨e, he, hce⟩
        · obtain ⟨e, he, hce⟩ := b3 ⟨b', h, hp⟩ c h' hk
          exact ⟨e, List.mem_append.mpr (Or.inr he), hce⟩
        · exact ⟨e, List.mem_append.mpr (Or.inl he), hce⟩
    · intro e he c hc
      rcases List.mem_append.mp he with h | h
      · have := a5 e h c hc
        exact ⟨this.2, Or.inl this.1⟩
      · obtain ⟨hk, h'⟩ := b4 e h c hc
        refine ⟨hk, ?_⟩
        rcases h' with h' | ⟨b', hb', m, hm, hcm⟩
        · rcases a6 c h' with h'' | ⟨m, hm, hcm⟩
          · exact Or.inl h''
          · exact Or.inr ⟨b, List.mem_cons_self, m, hm, hcm⟩
        · exact Or.inr ⟨b', List.mem_cons_of_mem _ hb', m, hm, hcm⟩

end Discret.Events

namespace Discret.Events

/-! ### API level: shape of what an operation does -/

@[simp] theorem commit_write (w : W) (m : List Cell) :
    commit allKnown w [.write m] = { marks := w.marks ++ m, events := w.events } := by
  simp [commit, runItems]

@[simp] theorem commit_pass (w : W) :
    commit allKnown w [.pass] = { marks := [], events := w.events ++ [w.marks.filter fun c => allKnown c.ent] } := by
  simp [commit, runItems, passW]

/-- a room event, or a change that marks every cell it touches -/
def GoodW : Act → Prop
  | .write t m => ∀ c, c ∈ t → c ∈ m
  | .roomEv _ => True
  | _ => False

/-- every change marks what it touches and, if it touches something, a recompute request follows it
    with no stream marker in between or after -/
def WR : List Act → Prop
  | [] => True
  | .write t m :: B => (∀ c, c ∈ t → c ∈ m) ∧ (t ≠ [] → Act.pass ∈ B ∧ Act.mark ∉ B) ∧ WR B
  | _ :: B => WR B

/-- `c` is announced by a data event of the output, and no stream marker comes after that event -/
def Announced (evs : List Ev) (c : Cell) : Prop :=
  ∃ pre cells post, evs = pre ++ Ev.data cells :: post ∧ c ∈ cells ∧ Ev.mark ∉ post

theorem Announced.cons {evs : List Ev} {c : Cell} (e : Ev) (h : Announced evs c) : Announced (e :: evs) c := by
  obtain ⟨pre, cells, post, h1, h2, h3⟩ := h
  exact ⟨e :: pre, cells, post, by simp [h1], h2, h3⟩

theorem execActs_noMark (acts : List Act) : ∀ (s : Site), Act.mark ∉ acts → Ev.mark ∉ (execActs s acts).2 := by
  induction acts with
  | nil => intro s _; simp [execActs]
  | cons a rest ih =>
    intro s h
    have hr : Act.mark ∉ rest := fun h' => h (List.mem_cons_of_mem _ h')
    cases a with
    | write t m => simpa [execActs] using ih _ hr
    | pass => simp only [execActs]; intro hm; rcases List.mem_cons.mp hm with h' | h'
              · cases h'
              · exact ih _ hr h'
    | roomEv d => simp only [execActs]; intro hm; rcases List.mem_cons.mp hm with h' | h'
                  · cases h'
                  · exact ih _ hr h'
    | mark => exact absurd List.mem_cons_self h

/-- a marked cell is announced by the next request -/
theorem execActs_marked (acts : List Act) : ∀ (s : Site) (c : Cell), c ∈ s.w.marks →
    Act.pass ∈ acts → Act.mark ∉ acts → Announced (execActs s acts).2 c := by
  induction acts with
  | nil => intro s c _ h; cases h
  | cons a rest ih =>
    intro s c hc hp hm
    have hr : Act.mark ∉ rest := fun h' => hm (List.mem_cons_of_mem _ h')
    cases a with
    | write t m =>
      have hp' : Act.pass ∈ rest := by
        rcases List.mem_cons.mp hp with h | h
        · cases h
        · exact h
      simp only [execActs]
      exact ih _ c (by simp [hc]) hp' hr
    | pass =>
      simp only [execActs]
      exact ⟨[], _, _, rfl, List.mem_filter.mpr ⟨hc, rfl⟩, execActs_noMark rest _ hr⟩
    | roomEv d =>
      have hp' : Act.pass ∈ rest := by
        rcases List.mem_cons.mp hp with h | h
        · cases h
        · exact h
      simp only [execActs]
      exact (ih s c hc hp' hr).cons _
    | mark => exact absurd List.mem_cons_self hm

/-- **every touched cell of a well-requested action list is announced** -/
theorem execActs_announces (acts : List Act) : ∀ (s : Site), WR acts →
    ∀ c, c ∈ touchedOf acts → Announced (execActs s acts).2 c := by
  induction acts with
  | nil => intro s _ c h; cases h
  | cons a rest ih =>
    intro s hw c hc
    cases a with
    | write t m =>
      obtain ⟨h1, h2, h3⟩ := hw
      simp only [touchedOf] at hc
      simp only [execActs]
      rcases List.mem_append.mp hc with h | h
      · have hne : t ≠ [] := by intro e; subst e; cases h
        obtain ⟨hp, hm⟩ := h2 hne
        exact execActs_marked rest _ c (by simp [h1 c h]) hp hm
      · exact ih _ h3 c h
    | pass => simp only [execActs]; exact (ih _ hw c hc).cons _
    | roomEv d => simp only [execActs]; exact (ih _ hw c hc).cons _
    | mark => simp only [execActs]; exact (ih _ hw c hc).cons _

theorem GoodW.ne_pass {a : Act} (h : GoodW a) : a ≠ .pass := by
  intro e; subst e; exact h

theorem GoodW.ne_mark {a : Act} (h : GoodW a) : a ≠ .mark := by
  intro e; subst e; exact h

theorem mem_replicate_pass {k : Nat} {a : Act} (h : a ∈ List.replicate k Act.pass) : a = .pass :=
  (List.mem_replicate.mp h).2

/-- good actions followed by at least one request -/
theorem WR_good_passes (l : List Act) (k : Nat) (hk : 0 < k) (hg : ∀ a, a ∈ l → GoodW a) :
    WR (l ++ List.replicate k Act.pass) := by
  induction l with
  | nil =>
    induction k with
    | zero => trivial
    | succ n ih =>
      cases n with
      | zero => simp [List.replicate, WR]
      | succ n => simp only [List.replicate, List.nil_append, WR] at ih ⊢; exact ih (Nat.succ_pos n)
  | cons a rest ih =>
    have hrest := ih (fun a ha => hg a (List.mem_cons_of_mem _ ha))
    have ha := hg a List.mem_cons_self
    cases a with
    | write t m =>
      refine ⟨ha, ?_, hrest⟩
      intro _
      constructor
      · exact List.mem_append.mpr (Or.inr (List.mem_replicate.mpr ⟨Nat.pos_iff_ne_zero.mp hk, rfl⟩))
      · intro hm
        rcases List.mem_append.mp hm with h | h
        · exact (hg _ (List.mem_cons_of_mem _ h)).ne_mark rfl
        · cases mem_replicate_pass h
    | roomEv d => exact hrest
    | pass => exact absurd rfl ha.ne_pass
    | mark => exact absurd rfl ha.ne_mark

/-- only room events: nothing to request -/
theorem WR_roomEvs (l : List Act) (h : ∀ a, a ∈ l → ∃ d, a = .roomEv d) : WR l := by
  induction l with
  | nil => trivial
  | cons a rest ih =>
    obtain ⟨d, rfl⟩ := h a List.mem_cons_self
    exact ih (fun a ha => h a (List.mem_cons_of_mem _ ha))

end Discret.Events
