import DiscretModel.Lemmas.Fts
/-
The agreement between rows and index along runs of the full-text model: global invariant (every site agrees,
a row number means the same entity everywhere), preserved by every operation for the intended behaviour and,
for any defects, by local creations/updates, model versions and searches.
-/
namespace Discret.Fts

/-- every site's index agrees with its rows; a row number means the same entity everywhere; used numbers are recorded -/
def GInv (st : State) : Prop :=
  (∀ s, s ∈ st.sites → SInv s) ∧
  (∀ s1, s1 ∈ st.sites → ∀ s2, s2 ∈ st.sites → Compat s1.rows s2.rows) ∧
  (∀ s, s ∈ st.sites → ∀ r, r ∈ s.rows → r.n ∈ st.usedRows)

theorem ginv_init (d : Defects) (n : Nat) : GInv (init d n) := by
  have hs : ∀ s, s ∈ (init d n).sites → s = Site.empty := by
    intro s hs
    exact (List.mem_replicate.mp hs).2
  refine ⟨?_, ?_, ?_⟩
  · intro s h; rw [hs s h]
    refine ⟨List.nodup_nil, ?_, ?_, ?_, ?_⟩
    · intro r1 h1; cases h1
    · intro p hp; cases hp
    · intro r hr; cases hr
    · intro r hr; cases hr
  · intro s1 h1 s2 _ a ha; rw [hs s1 h1] at ha; cases ha
  · intro s h r hr; rw [hs s h] at hr; cases hr

theorem prevOf_ok (r : Row) : prevOf r = some r.text ∨ (prevOf r = none ∧ r.text = []) := by
  unfold prevOf
  by_cases h : (r.str || !r.text.isEmpty) = true
  · left; simp only [h, ↓reduceIte]
  · right
    simp only [h, Bool.false_eq_true, ↓reduceIte, true_and]
    simp only [Bool.or_eq_true, Bool.not_eq_true', not_or, Bool.not_eq_true] at h
    exact List.isEmpty_iff.mp (by simpa using h.2)

/-- operations of the guard of `C17_partial`: local creations and updates, model versions, searches -/
def Op.localOnly : Op → Bool
  | .del _ _ | .pull _ _ => false
  | _ => true

/-- (number, entity) of every row of `A` occurs at some site of `st` -/
def KeysG (A : List Row) (st : State) : Prop :=
  ∀ x, x ∈ A → ∃ y, y ∈ st.sites ∧ ∃ r, r ∈ y.rows ∧ r.n = x.n ∧ r.ent = x.ent

/-- replacing a site by one that agrees with its index and whose rows are known rows -/
theorem ginv_set {st : State} (h : GInv st) (i : Nat) (s1 : Site)
    (hinv : SInv s1) (hk : KeysG s1.rows st) (tick : Nat) (words : List Word) :
    GInv { st with sites := st.sites.set i s1, tick := tick, words := words } := by
  obtain ⟨g1, g2, g3⟩ := h
  have hset : ∀ x, x ∈ st.sites.set i s1 → x ∈ st.sites ∨ x = s1 := fun x hx => List.mem_or_eq_of_mem_set hx
  have hkeys : ∀ x, x ∈ st.sites.set i s1 → KeysG x.rows st := by
    intro x hx
    rcases hset x hx with h' | h'
    · exact fun r hr => ⟨x, h', r, hr, rfl, rfl⟩
    · subst h'; exact hk
  refine ⟨?_, ?_, ?_⟩
  · intro x hx
    rcases hset x hx with h' | h'
    · exact g1 x h'
    · subst h'; exact hinv
  · intro x hx y hy a ha b hb hn
    obtain ⟨x', hx', a', ha', e1, e2⟩ := hkeys x hx a ha
    obtain ⟨y', hy', b', hb', f1, f2⟩ := hkeys y hy b hb
    rw [← e2, ← f2]
    exact g2 x' hx' y' hy' a' ha' b' hb' (e1.trans (hn.trans f1.symm))
  · intro x hx r hr
    obtain ⟨x', hx', r', hr', e1, _⟩ := hkeys x hx r hr
    rw [← e1]
    exact g3 x' hx' r' hr'

theorem keysG_of_keys {st : State} {s : Site} {A : List Row} (hs : s ∈ st.sites) (h : Keys A s.rows) :
    KeysG A st := fun x hx => by
  obtain ⟨y, hy, a, b⟩ := h x hx
  exact ⟨s, hs, y, hy, a, b⟩

/-- a new row with an unused number -/
theorem ginv_new {st : State} (h : GInv st) (i : Nat) (s s1 : Site) (hs : st.sites[i]? = some s)
    (hinv : SInv s1) (n : Nat) (hn : n ∉ st.usedRows)
    (hrows : ∀ x, x ∈ s1.rows → x ∈ s.rows ∨ x.n = n) (hone : ∀ x, x ∈ s1.rows → ∀ y, y ∈ s1.rows → x.n = n → y.n = n → x.ent = y.ent)
    (tick : Nat) (words : List Word) :
    GInv { st with sites := st.sites.set i s1, tick := tick, usedRows := st.usedRows ++ [n], words := words } := by
  obtain ⟨g1, g2, g3⟩ := h
  have hmem : s ∈ st.sites := List.mem_of_getElem? hs
  have hset : ∀ x, x ∈ st.sites.set i s1 → x ∈ st.sites ∨ x = s1 := fun x hx => List.mem_or_eq_of_mem_set hx
  -- a row of the new state is an old row of an old site, or has the new number (and is in `s1`)
  have hrow : ∀ x, x ∈ st.sites.set i s1 → ∀ r, r ∈ x.rows →
      (∃ y, y ∈ st.sites ∧ r ∈ y.rows) ∨ (r.n = n ∧ r ∈ s1.rows) := by
    intro x hx r hr
    rcases hset x hx with h' | h'
    · exact Or.inl ⟨x, h', hr⟩
    · subst h'
      rcases hrows r hr with h'' | h''
      · exact Or.inl ⟨s, hmem, h''⟩
      · exact Or.inr ⟨h'', hr⟩
  refine ⟨?_, ?_, ?_⟩
  · intro x hx
    rcases hset x hx with h' | h'
    · exact g1 x h'
    · subst h'; exact hinv
  · intro x hx y hy a ha b hb hab
    rcases hrow x hx a ha with ⟨x', hx', ha'⟩ | ⟨ha1, ha2⟩ <;> rcases hrow y hy b hb with ⟨y', hy', hb'⟩ | ⟨hb1, hb2⟩
    · exact g2 x' hx' y' hy' a ha' b hb' hab
    · exact absurd (by rw [← hb1, ← hab]; exact g3 x' hx' a ha') hn
    · exact absurd (by rw [← ha1, hab]; exact g3 y' hy' b hb') hn
    · exact hone a ha2 b hb2 ha1 hb1
  · intro x hx r hr
    rcases hrow x hx r hr with ⟨x', hx', hr'⟩ | ⟨h1, _⟩
    · exact List.mem_append.mpr (Or.inl (g3 x' hx' r hr'))
    · exact List.mem_append.mpr (Or.inr (by simp [h1]))

/-- what a creation leaves alone -/
theorem newOp_fields {tick : Nat} {used : List Nat} {s s1 : Site} {n : Nat} {e : Ent} {text : List Word} {str : Bool}
    (hl : newOp tick used s n e text str = some s1) :
    s1.tombs = s.tombs ∧ s1.indexOn = s.indexOn ∧ s1.declared = s.declared := by
  unfold newOp at hl
  split at hl
  · cases hl
  · simp only [Option.some.injEq] at hl
    subst hl
    exact ⟨rfl, rfl, rfl⟩

theorem newOp_ginv (st : State) (h : GInv st) (si : Nat) (s : Site) (hs : st.sites[si]? = some s)
    (n : Nat) (e : Ent) (text : List Word) (str : Bool) (s1 : Site)
    (hl : newOp st.tick st.usedRows s n e text str = some s1) (tick : Nat) (words : List Word) :
    GInv { st with sites := st.sites.set si s1, tick := tick, usedRows := st.usedRows ++ [n], words := words } := by
  have g1 := h.1
  have hsm : s ∈ st.sites := List.mem_of_getElem? hs
  unfold newOp at hl
  split at hl
  · cases hl
  · rename_i hc
    simp only [Option.some.injEq] at hl
    subst hl
    simp only [Bool.or_eq_true, List.contains_iff_mem, decide_eq_true_eq, Option.isSome_iff_ne_none, ne_eq,
      not_or, Decidable.not_not] at hc
    obtain ⟨⟨hu, _⟩, hf⟩ := hc
    have hinv := writeInsert_inv (g1 s hsm)
      ({ n := n, ent := e, text := text, str := str, ver := st.tick, ctick := st.tick, slot := 0 } : Row) (findRow_none hf)
    apply ginv_new h si s _ hs ?_ n hu ?_ ?_
    · exact hinv
    · intro x hx
      dsimp only at hx
      unfold writeInsert at hx
      rcases List.mem_append.mp hx with h' | h'
      · exact Or.inl h'
      · rcases List.mem_singleton.mp h' with rfl
        exact Or.inr rfl
    · intro x hx y hy hxn hyn
      dsimp only at hx hy
      unfold writeInsert at hx hy
      have hx' : x = { n := n, ent := e, text := text, str := str, ver := st.tick, ctick := st.tick, slot := nextSlot s.rows } := by
        rcases List.mem_append.mp hx with h' | h'
        · exact absurd hxn (findRow_none hf x h')
        · exact List.mem_singleton.mp h'
      have hy' : y = { n := n, ent := e, text := text, str := str, ver := st.tick, ctick := st.tick, slot := nextSlot s.rows } := by
        rcases List.mem_append.mp hy with h' | h'
        · exact absurd hyn (findRow_none hf y h')
        · exact List.mem_singleton.mp h'
      rw [hx', hy']

theorem stepNested_d (st : State) (op : Op) : (stepNested st op).1.d = st.d := by
  unfold stepNested
  split
  · rfl
  · cases op <;> simp only <;> (repeat' split) <;> rfl

theorem step_d (st : State) (op : Op) : (step st op).1.d = st.d := by
  unfold step
  cases op <;> simp only <;> (repeat' split) <;> first | rfl | exact stepNested_d _ _

theorem stepNested_ginv (st : State) (h : GInv st) (op : Op) : GInv (stepNested st op).1 := by
  have g1 := h.1
  unfold stepNested
  split
  · exact h
  · cases op with
    | link si n m =>
      simp only
      split
      · exact h
      · rename_i s hs
        have hsm : s ∈ st.sites := List.mem_of_getElem? hs
        split
        · exact h
        · rename_i s1 hl
          simp only [localOp] at hl
          split at hl
          · rename_i old child hf _
            split at hl
            · cases hl
            · split at hl
              · simp only [Option.some.injEq] at hl
                subst hl
                dsimp only
                apply ginv_set h si
                · exact g1 s hsm
                · exact keysG_of_keys hsm (Keys.refl _)
              · simp only [Option.some.injEq] at hl
                subst hl
                obtain ⟨ho, _⟩ := findRow_some hf
                have hinv := writeUpdate_inv (g1 s hsm) st.d.deleteUnguarded old { old with ver := st.tick } ho rfl rfl
                  (prevOf old) (prevOf_ok old)
                dsimp only
                apply ginv_set h si
                · exact hinv
                apply keysG_of_keys hsm
                intro x hx
                dsimp only at hx
                unfold writeUpdate at hx
                rcases List.mem_append.mp hx with h' | h'
                · exact ⟨x, (mem_eraseRow.mp h').1, rfl, rfl⟩
                · rcases List.mem_singleton.mp h' with rfl
                  exact ⟨old, ho, rfl, rfl⟩
          · cases hl
    | qn si t => simp only; split <;> exact h
    | qnall si => simp only; split <;> exact h
    | model _ _ => exact h
    | new _ _ _ _ => exact h
    | newx _ _ _ => exact h
    | upd _ _ _ => exact h
    | clr _ _ => exact h
    | del _ _ => exact h
    | pull _ _ => exact h
    | q _ _ _ => exact h
    | qall _ => exact h

/-- no site holds a deletion record -/
def NoTombs (st : State) : Prop := ∀ s, s ∈ st.sites → s.tombs = []

/-- one operation keeps every site's index in agreement with its rows — whatever the defects, as long as the
    operation is one the code handles with them (`Op.admissible`); while deletions are not handled there is no
    deletion record anywhere -/
theorem step_ginv (st : State) (h : GInv st) (hn : st.d.deleteLeavesIndex = true → NoTombs st) (op : Op)
    (ha : op.admissible st.d st = true) :
    GInv (step st op).1 := by
  have g1 := h.1
  cases op with
  | q si e t =>
    unfold step
    simp only
    split
    · exact h
    · split
      · exact h
      · split <;> exact h
  | qall si =>
    unfold step
    simp only
    split <;> exact h
  | link si n m => exact stepNested_ginv st h _
  | qn si t => exact stepNested_ginv st h _
  | qnall si => exact stepNested_ginv st h _
  | pull si ti =>
    unfold step
    simp only
    split
    · rename_i dst src hd hs
      split
      · exact h
      · have hdm : dst ∈ st.sites := List.mem_of_getElem? hd
        have hsm : src ∈ st.sites := List.mem_of_getElem? hs
        have hd2 : st.d.ingestUnindexed = false := by
          simp only [Op.admissible, Bool.not_eq_true'] at ha
          exact ha
        have hd1 : st.d.deleteLeavesIndex = false ∨ src.tombs = [] := by
          cases hdl : st.d.deleteLeavesIndex with
          | false => exact Or.inl rfl
          | true => exact Or.inr (hn hdl src hsm)
        obtain ⟨a1, _, a3⟩ := pullOp_inv st.d src hd1 hd2 (g1 src hsm) (g1 dst hdm) (h.2.1 dst hdm src hsm)
        refine ginv_set h si _ a1 ?_ _ _
        intro x hx
        obtain ⟨y, hy, e1, e2⟩ := a3 x hx
        rcases List.mem_append.mp hy with h' | h'
        · exact ⟨dst, hdm, y, h', e1, e2⟩
        · exact ⟨src, hsm, y, h', e1, e2⟩
    · exact h
  | model si v =>
    unfold step
    simp only
    split
    · exact h
    · rename_i s hs
      have hsm : s ∈ st.sites := List.mem_of_getElem? hs
      split
      · exact h
      · rename_i s1 hl
        simp only [localOp] at hl
        split at hl
        · cases hl
        · split at hl
          · simp only [Option.some.injEq] at hl
            subst hl
            dsimp only
            apply ginv_set h si
            · exact g1 s hsm
            · exact keysG_of_keys hsm (Keys.refl _)
          · rename_i hti
            split at hl
            · rename_i hnr
              simp only [Option.some.injEq] at hl
              subst hl
              dsimp only
              apply ginv_set h si
              · apply flagOnly_inv (g1 s hsm) (declaredOn v)
                simp only [Op.admissible, hs, hnr, Bool.not_true, Bool.or_false] at ha
                have hall : (s.rows.all fun r => declaredOn v r.ent == s.indexOn r.ent) = true := by
                  cases hb : st.d.toggleIgnored with
                  | true => exact absurd hb hti
                  | false => rw [hb] at ha; simpa using ha
                intro r hr
                exact beq_iff_eq.mp (List.all_eq_true.mp hall r hr)
              · exact keysG_of_keys hsm (Keys.refl _)
            · simp only [Option.some.injEq] at hl
              subst hl
              dsimp only
              apply ginv_set h si
              · exact toggle_inv (g1 s hsm) (declaredOn v)
              · exact keysG_of_keys hsm (Keys.refl _)
  | new si n e text =>
    unfold step
    simp only
    split
    · exact h
    · rename_i s hs
      split
      · exact h
      · rename_i s1 hl
        simp only [localOp] at hl
        exact newOp_ginv st h si s hs n e text true s1 hl _ _
  | newx si n e =>
    unfold step
    simp only
    split
    · exact h
    · rename_i s hs
      split
      · exact h
      · rename_i s1 hl
        simp only [localOp] at hl
        exact newOp_ginv st h si s hs n e [] _ s1 hl _ _
  | upd si n text =>
    unfold step
    simp only
    split
    · exact h
    · rename_i s hs
      have hsm : s ∈ st.sites := List.mem_of_getElem? hs
      split
      · exact h
      · rename_i s1 hl
        simp only [localOp] at hl
        split at hl
        · cases hl
        · rename_i old hf
          simp only [Option.some.injEq] at hl
          subst hl
          obtain ⟨ho, _⟩ := findRow_some hf
          have hinv := writeUpdate_inv (g1 s hsm) st.d.deleteUnguarded old
            { old with text := text, str := true, ver := st.tick } ho rfl rfl (prevOf old) (prevOf_ok old)
          dsimp only
          apply ginv_set h si
          · exact hinv
          apply keysG_of_keys hsm
          intro x hx
          dsimp only at hx
          unfold writeUpdate at hx
          rcases List.mem_append.mp hx with h' | h'
          · exact ⟨x, (mem_eraseRow.mp h').1, rfl, rfl⟩
          · rcases List.mem_singleton.mp h' with rfl
            exact ⟨old, ho, rfl, rfl⟩
  | clr si n =>
    unfold step
    simp only
    split
    · exact h
    · rename_i s hs
      have hsm : s ∈ st.sites := List.mem_of_getElem? hs
      split
      · exact h
      · rename_i s1 hl
        simp only [localOp] at hl
        split at hl
        · cases hl
        · rename_i old hf
          simp only [Option.some.injEq] at hl
          subst hl
          obtain ⟨ho, _⟩ := findRow_some hf
          have hinv := writeUpdate_inv (g1 s hsm) st.d.deleteUnguarded old
            { old with text := [], str := (st.sites.length != 1), ver := st.tick } ho rfl rfl (prevOf old) (prevOf_ok old)
          dsimp only
          apply ginv_set h si
          · exact hinv
          apply keysG_of_keys hsm
          intro x hx
          dsimp only at hx
          unfold writeUpdate at hx
          rcases List.mem_append.mp hx with h' | h'
          · exact ⟨x, (mem_eraseRow.mp h').1, rfl, rfl⟩
          · rcases List.mem_singleton.mp h' with rfl
            exact ⟨old, ho, rfl, rfl⟩
  | del si n =>
    unfold step
    simp only
    split
    · exact h
    · rename_i s hs
      have hsm : s ∈ st.sites := List.mem_of_getElem? hs
      split
      · exact h
      · rename_i s1 hl
        simp only [localOp] at hl
        split at hl
        · cases hl
        · rename_i old hf
          simp only [Option.some.injEq] at hl
          subst hl
          obtain ⟨ho, hon⟩ := findRow_some hf
          have hd1 : st.d.deleteLeavesIndex = false := by
            simp only [Op.admissible, Bool.not_eq_true'] at ha
            exact ha
          have hinv := del_inv (g1 s hsm) old ho
          simp only [hd1, Bool.false_eq_true, ↓reduceIte]
          rw [← hon]
          apply ginv_set h si
          · exact hinv
          apply keysG_of_keys hsm
          intro x hx
          exact ⟨x, (mem_eraseRow.mp hx).1, rfl, rfl⟩

/-! #### while deletions are not handled (and therefore not admissible) no deletion record appears -/

theorem writeUpdate_tombs (u i : Bool) (o nw : Row) (p : Option (List Word)) (s : Site) :
    (writeUpdate u i o nw p s).tombs = s.tombs := rfl

theorem writeInsert_tombs (i : Bool) (nw : Row) (s : Site) : (writeInsert i nw s).tombs = s.tombs := rfl

theorem foldl_ingest_tombs (d : Defects) (l : List Row) : ∀ (s : Site), (l.foldl (ingestRow d) s).tombs = s.tombs := by
  induction l with
  | nil => intro s; rfl
  | cons r rest ih =>
    intro s
    simp only [List.foldl_cons]
    rw [ih]
    unfold ingestRow
    dsimp only
    split
    · exact writeUpdate_tombs _ _ _ _ _ _
    · exact writeInsert_tombs _ _ _

theorem pullOp_tombs (d : Defects) (src dst : Site) (hn : src.tombs = []) : (pullOp d src dst).tombs = dst.tombs := by
  unfold pullOp
  have key : ∀ (l : List Ent) (acc : Site),
      (l.foldl (fun acc e => pullRows d src e (pullTombs d src e acc)) acc).tombs = acc.tombs := by
    intro l
    induction l with
    | nil => intro acc; rfl
    | cons e rest ih =>
      intro acc
      simp only [List.foldl_cons]
      rw [ih]
      have h1 : (pullRows d src e (pullTombs d src e acc)).tombs = (pullTombs d src e acc).tombs := by
        unfold pullRows
        dsimp only
        exact foldl_ingest_tombs d _ _
      rw [h1]
      exact (pullTombs_noTombs d src e acc hn).2.2.2.2
  exact key _ dst

theorem stepNested_noTombs (st : State) (h : NoTombs st) (op : Op) : NoTombs (stepNested st op).1 := by
  have hset : ∀ (i : Nat) (s1 : Site), s1.tombs = [] → ∀ s, s ∈ st.sites.set i s1 → s.tombs = [] := by
    intro i s1 h1 s hs
    rcases List.mem_or_eq_of_mem_set hs with h' | h'
    · exact h s h'
    · subst h'; exact h1
  unfold stepNested
  split
  · exact h
  · cases op with
    | link si n m =>
      simp only
      split
      · exact h
      · rename_i s hs
        split
        · exact h
        · rename_i s1 hl
          simp only [localOp] at hl
          split at hl
          · split at hl
            · cases hl
            · split at hl
              · simp only [Option.some.injEq] at hl
                subst hl
                exact hset _ _ (h s (List.mem_of_getElem? hs))
              · simp only [Option.some.injEq] at hl
                subst hl
                exact hset _ _ (h s (List.mem_of_getElem? hs))
          · cases hl
    | qn si t => simp only; split <;> exact h
    | qnall si => simp only; split <;> exact h
    | model _ _ => exact h
    | new _ _ _ _ => exact h
    | newx _ _ _ => exact h
    | upd _ _ _ => exact h
    | clr _ _ => exact h
    | del _ _ => exact h
    | pull _ _ => exact h
    | q _ _ _ => exact h
    | qall _ => exact h

theorem step_noTombs (st : State) (hd : st.d.deleteLeavesIndex = true) (h : NoTombs st) (op : Op)
    (ha : op.admissible st.d st = true) : NoTombs (step st op).1 := by
  have hset : ∀ (i : Nat) (s1 : Site), s1.tombs = [] → ∀ s, s ∈ st.sites.set i s1 → s.tombs = [] := by
    intro i s1 h1 s hs
    rcases List.mem_or_eq_of_mem_set hs with h' | h'
    · exact h s h'
    · subst h'; exact h1
  cases op with
  | q si e t => unfold step; simp only; split; exact h; split; exact h; split <;> exact h
  | qall si => unfold step; simp only; split <;> exact h
  | qn si t => exact stepNested_noTombs st h _
  | qnall si => exact stepNested_noTombs st h _
  | link si n m => exact stepNested_noTombs st h _
  | del si n =>
    simp only [Op.admissible, hd, Bool.not_true] at ha
    cases ha
  | pull si ti =>
    unfold step
    simp only
    split
    · rename_i dst src hdst hsrc
      split
      · exact h
      · apply hset
        rw [pullOp_tombs st.d src dst (h src (List.mem_of_getElem? hsrc))]
        exact h dst (List.mem_of_getElem? hdst)
    · exact h
  | model si v =>
    unfold step; simp only
    split
    · exact h
    · rename_i s hs
      split
      · exact h
      · rename_i s1 hl
        simp only [localOp] at hl
        split at hl
        · cases hl
        · split at hl
          · simp only [Option.some.injEq] at hl
            subst hl
            exact hset _ _ (h s (List.mem_of_getElem? hs))
          · split at hl
            · simp only [Option.some.injEq] at hl
              subst hl
              exact hset _ _ (h s (List.mem_of_getElem? hs))
            · simp only [Option.some.injEq] at hl
              subst hl
              exact hset _ _ (h s (List.mem_of_getElem? hs))
  | new si n e text =>
    unfold step; simp only
    split
    · exact h
    · rename_i s hs
      split
      · exact h
      · rename_i s1 hl
        simp only [localOp] at hl
        exact hset _ _ ((newOp_fields hl).1.trans (h s (List.mem_of_getElem? hs)))
  | newx si n e =>
    unfold step; simp only
    split
    · exact h
    · rename_i s hs
      split
      · exact h
      · rename_i s1 hl
        simp only [localOp] at hl
        exact hset _ _ ((newOp_fields hl).1.trans (h s (List.mem_of_getElem? hs)))
  | upd si n text =>
    unfold step; simp only
    split
    · exact h
    · rename_i s hs
      split
      · exact h
      · rename_i s1 hl
        simp only [localOp] at hl
        split at hl
        · cases hl
        · simp only [Option.some.injEq] at hl
          subst hl
          exact hset _ _ (h s (List.mem_of_getElem? hs))
  | clr si n =>
    unfold step; simp only
    split
    · exact h
    · rename_i s hs
      split
      · exact h
      · rename_i s1 hl
        simp only [localOp] at hl
        split at hl
        · cases hl
        · simp only [Option.some.injEq] at hl
          subst hl
          exact hset _ _ (h s (List.mem_of_getElem? hs))

theorem noTombs_init (d : Defects) (n : Nat) : NoTombs (init d n) := by
  intro s hs
  rw [(List.mem_replicate.mp hs).2]
  rfl

/-- **along every admissible history** every site's index agrees with its rows -/
theorem runOps_ginv (ops : List Op) : ∀ (st : State), GInv st → (st.d.deleteLeavesIndex = true → NoTombs st) →
    admissibleRun st ops = true → GInv (runOps st ops).1 := by
  induction ops with
  | nil => intro st h _ _; exact h
  | cons op rest ih =>
    intro st h hn ha
    simp only [admissibleRun, Bool.and_eq_true] at ha
    simp only [runOps]
    apply ih (step st op).1
    · exact step_ginv st h hn op ha.1
    · rw [step_d]
      intro hd
      exact step_noTombs st hd (hn hd) op ha.1
    · exact ha.2

/-- with the intended behaviour every history is admissible -/
theorem admissibleRun_none (ops : List Op) : ∀ (st : State), st.d = Defects.none → admissibleRun st ops = true := by
  induction ops with
  | nil => intro st _; rfl
  | cons op rest ih =>
    intro st hd
    simp only [admissibleRun, Bool.and_eq_true]
    refine ⟨?_, ih _ (by rw [step_d]; exact hd)⟩
    cases op <;> simp only [Op.admissible, hd, Defects.none] <;> first | rfl | (split <;> rfl)

/-- while later model versions are ignored, local creations/updates, model versions and searches are admissible -/
theorem admissibleRun_of_localOnly (ops : List Op) : ∀ (st : State), st.d.toggleIgnored = true →
    (∀ op, op ∈ ops → op.localOnly = true) → admissibleRun st ops = true := by
  induction ops with
  | nil => intro st _ _; rfl
  | cons op rest ih =>
    intro st hd hl
    simp only [admissibleRun, Bool.and_eq_true]
    refine ⟨?_, ih _ (by rw [step_d]; exact hd) (fun o ho => hl o (List.mem_cons_of_mem _ ho))⟩
    have h1 := hl op List.mem_cons_self
    cases op <;> simp only [Op.admissible, hd, Bool.true_or] <;> first | rfl | (split <;> rfl) | cases h1

/-! with `Defects.none` the flag the engine uses is the one the model version in force declares -/

theorem writeUpdate_flags (u i : Bool) (o nw : Row) (p : Option (List Word)) (s : Site) :
    (writeUpdate u i o nw p s).indexOn = s.indexOn ∧ (writeUpdate u i o nw p s).declared = s.declared := ⟨rfl, rfl⟩

theorem writeInsert_flags (i : Bool) (nw : Row) (s : Site) :
    (writeInsert i nw s).indexOn = s.indexOn ∧ (writeInsert i nw s).declared = s.declared := ⟨rfl, rfl⟩

theorem ingestRow_flags (d : Defects) (s : Site) (r : Row) :
    (ingestRow d s r).indexOn = s.indexOn ∧ (ingestRow d s r).declared = s.declared := by
  unfold ingestRow
  dsimp only
  split
  · exact writeUpdate_flags _ _ _ _ _ _
  · exact writeInsert_flags _ _ _

theorem foldl_ingest_flags (d : Defects) (l : List Row) : ∀ (s : Site),
    (l.foldl (ingestRow d) s).indexOn = s.indexOn ∧ (l.foldl (ingestRow d) s).declared = s.declared := by
  induction l with
  | nil => intro s; exact ⟨rfl, rfl⟩
  | cons r rest ih =>
    intro s
    simp only [List.foldl_cons]
    exact ⟨(ih _).1.trans (ingestRow_flags d s r).1, (ih _).2.trans (ingestRow_flags d s r).2⟩

theorem pullOp_flags (d : Defects) (src dst : Site) :
    (pullOp d src dst).indexOn = dst.indexOn ∧ (pullOp d src dst).declared = dst.declared := by
  unfold pullOp
  have key : ∀ (l : List Ent) (acc : Site),
      (l.foldl (fun acc e => pullRows d src e (pullTombs d src e acc)) acc).indexOn = acc.indexOn ∧
      (l.foldl (fun acc e => pullRows d src e (pullTombs d src e acc)) acc).declared = acc.declared := by
    intro l
    induction l with
    | nil => intro acc; exact ⟨rfl, rfl⟩
    | cons e rest ih =>
      intro acc
      simp only [List.foldl_cons]
      have h1 : (pullRows d src e (pullTombs d src e acc)).indexOn = acc.indexOn ∧
          (pullRows d src e (pullTombs d src e acc)).declared = acc.declared := by
        unfold pullRows
        dsimp only
        exact ⟨(foldl_ingest_flags d _ _).1, (foldl_ingest_flags d _ _).2⟩
      exact ⟨(ih _).1.trans h1.1, (ih _).2.trans h1.2⟩
  exact key _ dst

/-- the flag follows the declaration of the model version in force -/
def FlagOK (s : Site) : Prop := s.indexOn = declaredOn s.declared

theorem step_flag (st : State) (h : ∀ s, s ∈ st.sites → FlagOK s) (op : Op)
    (hf : op.flagSafe st.d st = true) :
    ∀ s, s ∈ (step st op).1.sites → FlagOK s := by
  have hset : ∀ (i : Nat) (s1 : Site), FlagOK s1 → ∀ s, s ∈ st.sites.set i s1 → FlagOK s := by
    intro i s1 h1 s hs
    rcases List.mem_or_eq_of_mem_set hs with h' | h'
    · exact h s h'
    · subst h'; exact h1
  cases op with
  | q si e t => unfold step; simp only; split; exact h; split; exact h; split <;> exact h
  | qall si => unfold step; simp only; split <;> exact h
  | qn si t => unfold step stepNested; simp only; split; exact h; split <;> exact h
  | qnall si => unfold step stepNested; simp only; split; exact h; split <;> exact h
  | link si n m =>
    unfold step stepNested
    simp only
    split
    · exact h
    · split
      · exact h
      · rename_i s hs
        split
        · exact h
        · rename_i s1 hl
          simp only [localOp] at hl
          split at hl
          · split at hl
            · cases hl
            · split at hl
              · simp only [Option.some.injEq] at hl
                subst hl
                exact hset _ _ (h s (List.mem_of_getElem? hs))
              · simp only [Option.some.injEq] at hl
                subst hl
                exact hset _ _ (h s (List.mem_of_getElem? hs))
          · cases hl
  | pull si ti =>
    unfold step
    simp only
    split
    · rename_i dst src hdst _
      split
      · exact h
      · apply hset
        unfold FlagOK
        rw [(pullOp_flags st.d src dst).1, (pullOp_flags st.d src dst).2]
        exact h dst (List.mem_of_getElem? hdst)
    · exact h
  | model si v =>
    unfold step; simp only
    split
    · exact h
    · rename_i s hs
      split
      · exact h
      · rename_i s1 hl
        simp only [localOp] at hl
        split at hl
        · cases hl
        · split at hl
          · rename_i hti
            simp only [Option.some.injEq] at hl
            subst hl
            simp only [Op.flagSafe, hs, hti, Bool.not_true, Bool.false_or, decide_eq_true_eq] at hf
            apply hset
            have := h s (List.mem_of_getElem? hs)
            unfold FlagOK at this ⊢
            rw [hf]
            exact this
          · split at hl
            · simp only [Option.some.injEq] at hl
              subst hl
              exact hset _ _ rfl
            · simp only [Option.some.injEq] at hl
              subst hl
              exact hset _ _ rfl
  | new si n e text =>
    unfold step; simp only
    split
    · exact h
    · rename_i s hs
      split
      · exact h
      · rename_i s1 hl
        simp only [localOp] at hl
        apply hset
        have := h s (List.mem_of_getElem? hs)
        unfold FlagOK at this ⊢
        rw [(newOp_fields hl).2.1, (newOp_fields hl).2.2]
        exact this
  | newx si n e =>
    unfold step; simp only
    split
    · exact h
    · rename_i s hs
      split
      · exact h
      · rename_i s1 hl
        simp only [localOp] at hl
        apply hset
        have := h s (List.mem_of_getElem? hs)
        unfold FlagOK at this ⊢
        rw [(newOp_fields hl).2.1, (newOp_fields hl).2.2]
        exact this
  | upd si n text =>
    unfold step; simp only
    split
    · exact h
    · rename_i s hs
      split
      · exact h
      · rename_i s1 hl
        simp only [localOp] at hl
        split at hl
        · cases hl
        · simp only [Option.some.injEq] at hl
          subst hl
          exact hset _ _ (h s (List.mem_of_getElem? hs))
  | clr si n =>
    unfold step; simp only
    split
    · exact h
    · rename_i s hs
      split
      · exact h
      · rename_i s1 hl
        simp only [localOp] at hl
        split at hl
        · cases hl
        · simp only [Option.some.injEq] at hl
          subst hl
          exact hset _ _ (h s (List.mem_of_getElem? hs))
  | del si n =>
    unfold step; simp only
    split
    · exact h
    · rename_i s hs
      split
      · exact h
      · rename_i s1 hl
        simp only [localOp] at hl
        split at hl
        · cases hl
        · simp only [Option.some.injEq] at hl
          subst hl
          exact hset _ _ (h s (List.mem_of_getElem? hs))

theorem flagOK_init (d : Defects) (n : Nat) : ∀ s, s ∈ (init d n).sites → FlagOK s := by
  intro s hs
  rw [(List.mem_replicate.mp hs).2]
  rfl

/-- **along every history whose model versions the engine's flags follow**, the flag the engine uses is the one the
    model version in force declares -/
theorem runOps_flag (ops : List Op) : ∀ (st : State), (∀ s, s ∈ st.sites → FlagOK s) →
    flagSafeRun st ops = true → ∀ s, s ∈ (runOps st ops).1.sites → FlagOK s := by
  induction ops with
  | nil => intro st h _; exact h
  | cons op rest ih =>
    intro st h hf
    simp only [flagSafeRun, Bool.and_eq_true] at hf
    simp only [runOps]
    exact ih (step st op).1 (step_flag st h op hf.1) hf.2

/-- when later model versions are not ignored every history is one the flags follow -/
theorem flagSafeRun_of_followed (ops : List Op) : ∀ (st : State), st.d.toggleIgnored = false →
    flagSafeRun st ops = true := by
  induction ops with
  | nil => intro st _; rfl
  | cons op rest ih =>
    intro st hd
    simp only [flagSafeRun, Bool.and_eq_true]
    refine ⟨?_, ih _ (by rw [step_d]; exact hd)⟩
    cases op <;> simp only [Op.flagSafe, hd, Bool.not_false, Bool.true_or] <;> first | rfl | (split <;> rfl)

end Discret.Fts
