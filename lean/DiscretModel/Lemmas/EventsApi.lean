import DiscretModel.Lemmas.Events
/-
Lemmas about the API level of the announcement model: for every operation, the shape of what it does
(changes that mark what they touch, followed by a recompute request).
-/
namespace Discret.Events

/-- the reference named by a reference deletion exists at the site -/
def refdelGuard (s : Site) : Op → Bool
  | .refdel _ n m => hasRef n m s.refs
  | _ => true

theorem find_none_of_hasRef {n m : Nat} {l : List Ref} (h : hasRef n m l = true) :
    l.find? (fun r => r.src = n && r.dst = m) ≠ none := by
  intro hn
  rw [List.find?_eq_none] at hn
  simp only [hasRef, List.any_eq_true] at h
  obtain ⟨x, hx, hp⟩ := h
  exact hn x hx hp

/-- a local operation = good actions, then exactly one request -/
theorem localOp_shape (d : Defects) (tick : Nat) (day : Day) (used : List Nat) (rooms : List (Room × Nat))
    (si : Nat) (s : Site) (op : Op) (s1 : Site) (acts : List Act)
    (hg : d.refdelUnmarked = false ∨ refdelGuard s op = true)
    (h : localOp d tick day used rooms si s op = some (s1, acts)) :
    ∃ l, acts = l ++ [Act.pass] ∧ ∀ a, a ∈ l → GoodW a := by
  cases op with
  | day k => simp [localOp] at h
  | room s' r =>
    simp only [localOp] at h
    split at h
    · cases h
    · simp only [Option.some.injEq, Prod.mk.injEq] at h
      obtain ⟨_, rfl⟩ := h
      exact ⟨[_, _], rfl, by simp [GoodW]⟩
  | roomadd s' r =>
    simp only [localOp] at h
    split at h
    · split at h
      · simp only [Option.some.injEq, Prod.mk.injEq] at h
        obtain ⟨_, rfl⟩ := h
        exact ⟨[_, _], rfl, by simp [GoodW]⟩
      · cases h
    · cases h
  | new s' n r e =>
    simp only [localOp] at h
    split at h
    · cases h
    · simp only [Option.some.injEq, Prod.mk.injEq] at h
      obtain ⟨_, rfl⟩ := h
      exact ⟨[_], rfl, by simp [GoodW]⟩
  | upd s' n r' =>
    simp only [localOp] at h
    split at h
    · cases h
    · split at h
      · cases h
      · simp only [Option.some.injEq, Prod.mk.injEq] at h
        obtain ⟨_, rfl⟩ := h
        exact ⟨[_], rfl, by simp [GoodW]⟩
  | nop s' n =>
    simp only [localOp] at h
    split at h
    · cases h
    · simp only [Option.some.injEq, Prod.mk.injEq] at h
      obtain ⟨_, rfl⟩ := h
      exact ⟨[_], rfl, by simp [GoodW]⟩
  | ref s' n m =>
    simp only [localOp] at h
    split at h
    · split at h
      · cases h
      · split at h
        · simp only [Option.some.injEq, Prod.mk.injEq] at h
          obtain ⟨_, rfl⟩ := h
          exact ⟨[_], rfl, by simp [GoodW]⟩
        · simp only [Option.some.injEq, Prod.mk.injEq] at h
          obtain ⟨_, rfl⟩ := h
          exact ⟨[_], rfl, by simp [GoodW]⟩
    · cases h
  | unref s' n =>
    simp only [localOp] at h
    split at h
    · cases h
    · split at h
      · cases h
      · split at h
        · simp only [Option.some.injEq, Prod.mk.injEq] at h
          obtain ⟨_, rfl⟩ := h
          exact ⟨[_], rfl, by simp [GoodW]⟩
        · simp only [Option.some.injEq, Prod.mk.injEq] at h
          obtain ⟨_, rfl⟩ := h
          exact ⟨[_], rfl, by simp [GoodW]⟩
  | del s' n =>
    simp only [localOp] at h
    split at h
    · cases h
    · simp only [Option.some.injEq, Prod.mk.injEq] at h
      obtain ⟨_, rfl⟩ := h
      exact ⟨[_], rfl, by simp [GoodW]⟩
  | refdel s' n m =>
    simp only [localOp] at h
    split at h
    · split at h
      · cases h
      · split at h
        · simp only [Option.some.injEq, Prod.mk.injEq] at h
          obtain ⟨_, rfl⟩ := h
          exact ⟨[_], rfl, by simp [GoodW]⟩
        · rename_i hfind
          rcases hg with hd | hg
          · simp only [hd, Bool.false_eq_true, ↓reduceIte, Option.some.injEq, Prod.mk.injEq] at h
            obtain ⟨_, rfl⟩ := h
            exact ⟨[_], rfl, by simp [GoodW]⟩
          · exact absurd hfind (find_none_of_hasRef (by simpa [refdelGuard] using hg))
    · cases h
  | stream s' mode rows => simp [localOp] at h
  | pull s' t r => simp [localOp] at h
  | flush s' =>
    simp only [localOp, Option.some.injEq, Prod.mk.injEq] at h
    obtain ⟨_, rfl⟩ := h
    exact ⟨[], rfl, by simp⟩
  | mix s' subs => simp [localOp] at h


/-! #### streams -/

theorem streamActs_WR (d : Defects) (mode : Mode) (rows : List Row)
    (h : d.streamCloseEarly = false ∨ mode = .acked) : WR (streamActs d mode rows) := by
  have key : WR (Act.mark :: (rows.map fun r => Act.write [cellOf r] [cellOf r]) ++ [Act.pass]) := by
    show WR ((rows.map fun r => Act.write [cellOf r] [cellOf r]) ++ List.replicate 1 Act.pass)
    apply WR_good_passes _ 1 (by decide)
    intro a ha
    obtain ⟨r, _, rfl⟩ := List.mem_map.mp ha
    intro c hc; exact hc
  unfold streamActs
  rcases h with h | h
  · rw [h]; cases mode <;> exact key
  · subst h; cases d.streamCloseEarly <;> exact key

/-! #### ingestion -/

def PInv (a : PullAcc) : Prop :=
  (∀ x, x ∈ a.acts → GoodW x) ∧ ((∃ t m, Act.write t m ∈ a.acts) → a.modified = true)

theorem PInv.snoc {a : PullAcc} (h : PInv a) (dst : Site) (t m : List Cell) (htm : ∀ c, c ∈ t → c ∈ m) :
    PInv { dst := dst, acts := a.acts ++ [.write t m], modified := true, orig := a.orig } := by
  refine ⟨?_, fun _ => rfl⟩
  intro x hx
  rcases List.mem_append.mp hx with h' | h'
  · exact h.1 x h'
  · rcases List.mem_singleton.mp h' with rfl
    exact htm

theorem pullETombs_inv (src : Site) (c : Cell) (a : PullAcc) (h : PInv a) : PInv (pullETombs src c a) := by
  unfold pullETombs
  dsimp only
  split
  · exact h
  · apply h.snoc
    intro x hx
    obtain ⟨t, ht, rfl⟩ := List.mem_map.mp hx
    have : t ∈ src.etombs.filter fun t => t.room = c.room && c.ent = 0 && t.dday = c.day :=
      (List.mem_filter.mp ht).1
    exact List.mem_map.mpr ⟨t, this, rfl⟩

theorem pullTombs_inv (src : Site) (c : Cell) (a : PullAcc) (h : PInv a) : PInv (pullTombs src c a) := by
  unfold pullTombs
  dsimp only
  split
  · exact h
  · apply h.snoc
    intro x hx
    obtain ⟨t, ht, rfl⟩ := List.mem_map.mp hx
    have : t ∈ src.tombs.filter fun t => t.room = c.room && t.ent = c.ent && t.dday = c.day :=
      (List.mem_filter.mp ht).1
    exact List.mem_append.mpr (Or.inl (List.mem_flatMap.mpr ⟨t, this, List.mem_cons_self⟩))

theorem pullRows_inv (src : Site) (c : Cell) (a : PullAcc) (h : PInv a) : PInv (pullRows src c a) := by
  unfold pullRows
  dsimp only
  split
  · exact h
  · apply h.snoc
    intro x hx
    obtain ⟨r, hr, rfl⟩ := List.mem_map.mp hx
    refine List.mem_flatMap.mpr ⟨r, (List.mem_filter.mp hr).1, ?_⟩
    split <;> simp

theorem pullEntry_inv (src : Site) (a : PullAcc) (c : Cell) (h : PInv a) : PInv (pullEntry src a c) :=
  pullRows_inv _ _ _ (pullTombs_inv _ _ _ (pullETombs_inv _ _ _ h))

theorem foldl_pullEntry_inv (src : Site) (l : List Cell) : ∀ (a : PullAcc), PInv a → PInv (l.foldl (pullEntry src) a) := by
  induction l with
  | nil => intro a h; exact h
  | cons c rest ih => intro a h; exact ih _ (pullEntry_inv src a c h)

theorem pullStart_inv (dst : Site) (r : Room) (rd : RoomDef) : PInv (pullStart dst r rd) := by
  unfold pullStart
  split
  · refine ⟨?_, ?_⟩
    · intro x hx; rcases List.mem_singleton.mp hx with rfl; trivial
    · rintro ⟨t, m, hx⟩; rcases List.mem_singleton.mp hx with h'; cases h'
  · refine ⟨?_, ?_⟩
    · intro x hx; cases hx
    · rintro ⟨t, m, hx⟩; cases hx

theorem restrictTouched_good (cells : List Cell) (l : List Act) (h : ∀ x, x ∈ l → GoodW x) :
    (∀ x, x ∈ restrictTouched cells l → GoodW x) ∧
    ((∃ t m, Act.write t m ∈ restrictTouched cells l) → ∃ t m, Act.write t m ∈ l) := by
  induction l with
  | nil =>
    refine ⟨?_, ?_⟩
    · intro x hx; cases hx
    · rintro ⟨t, m, hx⟩; cases hx
  | cons a rest ih =>
    obtain ⟨i1, i2⟩ := ih (fun x hx => h x (List.mem_cons_of_mem _ hx))
    have ha := h a List.mem_cons_self
    cases a with
    | write t m =>
      simp only [restrictTouched]
      refine ⟨?_, fun _ => ⟨t, m, List.mem_cons_self⟩⟩
      intro x hx
      rcases List.mem_cons.mp hx with h' | h'
      · subst h'
        intro c hc
        exact ha c (List.mem_filter.mp hc).1
      · exact i1 x h'
    | roomEv d =>
      simp only [restrictTouched]
      refine ⟨?_, ?_⟩
      · intro x hx
        rcases List.mem_cons.mp hx with h' | h'
        · subst h'; trivial
        · exact i1 x h'
      · rintro ⟨t, m, hx⟩
        rcases List.mem_cons.mp hx with h' | h'
        · cases h'
        · obtain ⟨t', m', h''⟩ := i2 ⟨t, m, h'⟩
          exact ⟨t', m', List.mem_cons_of_mem _ h''⟩
    | pass => exact absurd rfl ha.ne_pass
    | mark => exact absurd rfl ha.ne_mark

theorem pullFinish_good (a : PullAcc) (h : PInv a) : ∀ x, x ∈ (pullFinish a).2 → GoodW x ∨ x = Act.pass := by
  intro x hx
  unfold pullFinish at hx
  dsimp only at hx
  split at hx
  · rcases List.mem_append.mp hx with h' | h'
    · exact Or.inl ((restrictTouched_good _ _ h.1).1 x h')
    · exact Or.inr (List.mem_singleton.mp h')
  · exact Or.inl ((restrictTouched_good _ _ h.1).1 x hx)

theorem pullFinish_WR (a : PullAcc) (h : PInv a) : WR (pullFinish a).2 := by
  unfold pullFinish
  dsimp only
  split
  · exact WR_good_passes _ 1 (by decide) (restrictTouched_good _ _ h.1).1
  · rename_i hm
    apply WR_roomEvs
    intro x hx
    have hg := (restrictTouched_good _ _ h.1).1 x hx
    cases x with
    | write t m =>
      obtain ⟨t', m', h'⟩ := (restrictTouched_good _ _ h.1).2 ⟨t, m, hx⟩
      exact absurd (h.2 ⟨t', m', h'⟩) hm
    | roomEv d => exact ⟨d, rfl⟩
    | pass => exact absurd rfl hg.ne_pass
    | mark => exact absurd rfl hg.ne_mark

theorem pullOp_WR (src dst : Site) (r : Room) (s1 : Site) (acts : List Act)
    (h : pullOp src dst r = some (s1, acts)) : WR acts := by
  unfold pullOp at h
  split at h
  · cases h
  · rename_i rd _
    simp only [Option.some.injEq] at h
    have := pullFinish_WR _ (foldl_pullEntry_inv src (roomLog r src.log) _ (pullStart_inv dst r rd))
    rw [h] at this
    exact this

/-! #### concurrent mixes -/

theorem sub_guard (s : Site) (si : Nat) (sub : Sub) : refdelGuard s (sub.toOp si) = true := by
  cases sub <;> rfl

theorem subApply_good (d : Defects) (tick : Nat) (day : Day) (used : List Nat) (rooms : List (Room × Nat))
    (si : Nat) (s : Site) (sub : Sub) (s1 : Site) (acts : List Act)
    (h : subApply d tick day used rooms si s sub = some (s1, acts)) : ∀ a, a ∈ acts → GoodW a := by
  have local_case : ∀ (op : Op), refdelGuard s op = true →
      (localOp d tick day used rooms si s op).map (fun x => (x.1, x.2.filter fun a => a ≠ Act.pass)) = some (s1, acts) →
      ∀ a, a ∈ acts → GoodW a := by
    intro op hgd hl a ha
    cases hlo : localOp d tick day used rooms si s op with
    | none => simp [hlo] at hl
    | some x =>
      simp only [hlo, Option.map_some, Option.some.injEq, Prod.mk.injEq] at hl
      obtain ⟨_, rfl⟩ := hl
      obtain ⟨l, hx, hg⟩ := localOp_shape d tick day used rooms si s op x.1 x.2 (Or.inr hgd) hlo
      rw [hx] at ha
      obtain ⟨hm, hne⟩ := List.mem_filter.mp ha
      rcases List.mem_append.mp hm with h' | h'
      · exact hg a h'
      · rcases List.mem_singleton.mp h' with rfl
        simp at hne
  cases sub with
  | stream rows =>
    simp only [subApply] at h
    split at h
    · cases h
    · simp only [Option.some.injEq, Prod.mk.injEq] at h
      obtain ⟨_, rfl⟩ := h
      intro a ha
      obtain ⟨r, _, rfl⟩ := List.mem_map.mp ha
      intro c hc; exact hc
  | new n r e => exact local_case _ rfl h
  | upd n => exact local_case _ rfl h
  | del n => exact local_case _ rfl h
  | roomadd r => exact local_case _ rfl h

theorem mixApply_good (d : Defects) (tick : Nat) (day : Day) (used : List Nat) (rooms : List (Room × Nat))
    (si : Nat) (subs : List Sub) : ∀ (s : Site), ∀ a, a ∈ (mixApply d tick day used rooms si s subs).2 → GoodW a := by
  induction subs with
  | nil => intro s a h; cases h
  | cons sub rest ih =>
    intro s a ha
    simp only [mixApply] at ha
    split at ha
    · exact ih s a ha
    · rename_i s1 acts hl
      rcases List.mem_append.mp ha with h | h
      · exact subApply_good d tick day used rooms si s sub s1 acts hl a h
      · exact ih s1 a h

theorem pullOp_good (src dst : Site) (r : Room) (x : Site × List Act) (h : pullOp src dst r = some x) :
    ∀ a, a ∈ x.2 → GoodW a ∨ a = Act.pass := by
  unfold pullOp at h
  split at h
  · cases h
  · rename_i rd _
    simp only [Option.some.injEq] at h
    subst h
    exact pullFinish_good _ (foldl_pullEntry_inv src (roomLog r src.log) _ (pullStart_inv dst r rd))

theorem mixPull_good (st : State) (si : Nat) (s : Site) (pull : Option (Nat × Room)) :
    ∀ a, a ∈ ((mixPull st si s pull).getD (s, [])).2 → GoodW a ∨ a = Act.pass := by
  intro a ha
  cases hp : mixPull st si s pull with
  | none => simp [hp] at ha
  | some x =>
    simp only [hp, Option.getD_some] at ha
    unfold mixPull at hp
    split at hp
    · cases hp
    · split at hp
      · cases hp
      · split at hp
        · cases hp
        · exact pullOp_good _ _ _ x hp a ha

/-! #### every operation -/

/-- the guard of `C18_partial`: no reference deletion naming an absent reference, no stream closed early -/
def opGuard (st : State) : Op → Bool
  | .refdel s n m =>
    match st.sites[s]? with
    | some site => hasRef n m site.refs
    | none => true
  | .stream _ .early _ => false
  | _ => true

theorem plan_WR (st : State) (op : Op) (si : Nat) (s1 : Site) (acts : List Act)
    (hg : (st.d.refdelUnmarked = false ∧ st.d.streamCloseEarly = false) ∨ opGuard st op = true)
    (h : plan st op = some (si, s1, acts)) : WR acts := by
  have local_case : ∀ (s : Site), st.sites[si]? = some s → (∀ n m s', op = .refdel s' n m → s' = si) →
      localOp st.d st.tick st.day st.usedRows st.rooms si s op = some (s1, acts) → WR acts := by
    intro s hs hsame hl
    have hguard : st.d.refdelUnmarked = false ∨ refdelGuard s op = true := by
      rcases hg with hg | hg
      · exact Or.inl hg.1
      · right
        cases op <;> try rfl
        rename_i s' n m
        have := hsame n m s' rfl
        subst this
        simpa [opGuard, hs, refdelGuard] using hg
    obtain ⟨l, rfl, hgood⟩ := localOp_shape _ _ _ _ _ _ _ _ _ _ hguard hl
    exact WR_good_passes l 1 (by decide) hgood
  cases op with
  | day k => simp [plan] at h
  | stream s' mode rows =>
    simp only [plan] at h
    split at h
    · cases h
    · split at h
      · cases h
      · simp only [Option.some.injEq, Prod.mk.injEq] at h
        obtain ⟨_, _, rfl⟩ := h
        apply streamActs_WR
        rcases hg with hg | hg
        · exact Or.inl hg.2
        · right; cases mode
          · rfl
          · simp [opGuard] at hg
  | pull s' t r =>
    simp only [plan] at h
    split at h
    · split at h
      · cases h
      · rename_i dst src _ _ _
        cases hp : pullOp src dst r with
        | none => simp [hp] at h
        | some x =>
          simp only [hp, Option.map_some, Option.some.injEq, Prod.mk.injEq] at h
          obtain ⟨_, _, rfl⟩ := h
          exact pullOp_WR src dst r x.1 x.2 hp
    · cases h
  | mix s' subs pull =>
    simp only [plan] at h
    split at h
    · cases h
    · split at h
      · cases h
      · rename_i s hs hne
        simp only [Option.some.injEq, Prod.mk.injEq] at h
        obtain ⟨_, _, rfl⟩ := h
        apply WR_good_passes
        · cases hsel : mixSel st s' s subs pull with
          | nil => simp [hsel] at hne
          | cons a b => simp only [List.length_cons]; omega
        · intro a ha
          rcases List.mem_append.mp ha with h' | h'
          · obtain ⟨hm, hne'⟩ := List.mem_filter.mp h'
            rcases mixPull_good st s' s pull a hm with hg' | hg'
            · exact hg'
            · subst hg'; simp at hne'
          · exact mixApply_good _ _ _ _ _ _ _ _ a h'
  | room s' r =>
    simp only [plan, siteOf] at h
    split at h
    · cases h
    · rename_i s hs
      cases hl : localOp st.d st.tick st.day st.usedRows st.rooms s' s (.room s' r) with
      | none => simp [hl] at h
      | some x =>
        simp only [hl, Option.map_some, Option.some.injEq, Prod.mk.injEq] at h
        obtain ⟨rfl, rfl, rfl⟩ := h
        exact local_case s hs (by intro _ _ _ e; cases e) hl
  | roomadd s' r =>
    simp only [plan, siteOf] at h
    split at h
    · cases h
    · rename_i s hs
      cases hl : localOp st.d st.tick st.day st.usedRows st.rooms s' s (.roomadd s' r) with
      | none => simp [hl] at h
      | some x =>
        simp only [hl, Option.map_some, Option.some.injEq, Prod.mk.injEq] at h
        obtain ⟨rfl, rfl, rfl⟩ := h
        exact local_case s hs (by intro _ _ _ e; cases e) hl
  | new s' n r e =>
    simp only [plan, siteOf] at h
    split at h
    · cases h
    · rename_i s hs
      cases hl : localOp st.d st.tick st.day st.usedRows st.rooms s' s (.new s' n r e) with
      | none => simp [hl] at h
      | some x =>
        simp only [hl, Option.map_some, Option.some.injEq, Prod.mk.injEq] at h
        obtain ⟨rfl, rfl, rfl⟩ := h
        exact local_case s hs (by intro _ _ _ e; cases e) hl
  | upd s' n r' =>
    simp only [plan, siteOf] at h
    split at h
    · cases h
    · rename_i s hs
      cases hl : localOp st.d st.tick st.day st.usedRows st.rooms s' s (.upd s' n r') with
      | none => simp [hl] at h
      | some x =>
        simp only [hl, Option.map_some, Option.some.injEq, Prod.mk.injEq] at h
        obtain ⟨rfl, rfl, rfl⟩ := h
        exact local_case s hs (by intro _ _ _ e; cases e) hl
  | nop s' n =>
    simp only [plan, siteOf] at h
    split at h
    · cases h
    · rename_i s hs
      cases hl : localOp st.d st.tick st.day st.usedRows st.rooms s' s (.nop s' n) with
      | none => simp [hl] at h
      | some x =>
        simp only [hl, Option.map_some, Option.some.injEq, Prod.mk.injEq] at h
        obtain ⟨rfl, rfl, rfl⟩ := h
        exact local_case s hs (by intro _ _ _ e; cases e) hl
  | ref s' n m =>
    simp only [plan, siteOf] at h
    split at h
    · cases h
    · rename_i s hs
      cases hl : localOp st.d st.tick st.day st.usedRows st.rooms s' s (.ref s' n m) with
      | none => simp [hl] at h
      | some x =>
        simp only [hl, Option.map_some, Option.some.injEq, Prod.mk.injEq] at h
        obtain ⟨rfl, rfl, rfl⟩ := h
        exact local_case s hs (by intro _ _ _ e; cases e) hl
  | unref s' n =>
    simp only [plan, siteOf] at h
    split at h
    · cases h
    · rename_i s hs
      cases hl : localOp st.d st.tick st.day st.usedRows st.rooms s' s (.unref s' n) with
      | none => simp [hl] at h
      | some x =>
        simp only [hl, Option.map_some, Option.some.injEq, Prod.mk.injEq] at h
        obtain ⟨rfl, rfl, rfl⟩ := h
        exact local_case s hs (by intro _ _ _ e; cases e) hl
  | del s' n =>
    simp only [plan, siteOf] at h
    split at h
    · cases h
    · rename_i s hs
      cases hl : localOp st.d st.tick st.day st.usedRows st.rooms s' s (.del s' n) with
      | none => simp [hl] at h
      | some x =>
        simp only [hl, Option.map_some, Option.some.injEq, Prod.mk.injEq] at h
        obtain ⟨rfl, rfl, rfl⟩ := h
        exact local_case s hs (by intro _ _ _ e; cases e) hl
  | refdel s' n m =>
    simp only [plan, siteOf] at h
    split at h
    · cases h
    · rename_i s hs
      cases hl : localOp st.d st.tick st.day st.usedRows st.rooms s' s (.refdel s' n m) with
      | none => simp [hl] at h
      | some x =>
        simp only [hl, Option.map_some, Option.some.injEq, Prod.mk.injEq] at h
        obtain ⟨rfl, rfl, rfl⟩ := h
        exact local_case s hs (by intro _ _ _ e; cases e; rfl) hl
  | flush s' =>
    simp only [plan, siteOf] at h
    split at h
    · cases h
    · rename_i s hs
      cases hl : localOp st.d st.tick st.day st.usedRows st.rooms s' s (.flush s') with
      | none => simp [hl] at h
      | some x =>
        simp only [hl, Option.map_some, Option.some.injEq, Prod.mk.injEq] at h
        obtain ⟨rfl, rfl, rfl⟩ := h
        exact local_case s hs (by intro _ _ _ e; cases e) hl

/-! #### schedules, and what a step returns -/

/-- every batch containing a change is followed by a later batch containing a recompute item -/
def Requested : List (List Item) → Prop
  | [] => True
  | b :: rest => ((∃ m, Item.write m ∈ b) → ∃ b' ∈ rest, Item.pass ∈ b') ∧ Requested rest

theorem Requested.at {pre : List (List Item)} {b : List Item} {post : List (List Item)}
    (h : Requested (pre ++ b :: post)) (m : List Cell) (hw : Item.write m ∈ b) :
    ∃ b' ∈ post, Item.pass ∈ b' := by
  induction pre with
  | nil => exact h.1 ⟨m, hw⟩
  | cons x xs ih => exact ih h.2

theorem step_obs {st st' : State} {op : Op} {evs : List Ev} {g : List Cell}
    (h : step st op = (st', .obs evs g)) :
    ∃ si s1 acts, plan st op = some (si, s1, acts) ∧ evs = (execActs s1 acts).2 ∧ g = touchedOf acts ∧
      st'.sites = setSite si (execActs s1 acts).1 st.sites := by
  unfold step at h
  split at h
  · cases h
  · split at h
    · cases h
    · rename_i si s1 acts hp
      simp only [Prod.mk.injEq, Out.obs.injEq] at h
      obtain ⟨rfl, h2, h3⟩ := h
      exact ⟨si, s1, acts, hp, h2.symm, h3.symm, rfl⟩

theorem step_d (st : State) (op : Op) : (step st op).1.d = st.d := by
  unfold step
  split
  · rfl
  · split <;> rfl

theorem execActs_defs (acts : List Act) : ∀ (s : Site), (execActs s acts).1.defs = s.defs := by
  induction acts with
  | nil => intro s; rfl
  | cons a rest ih =>
    intro s
    cases a <;> simp only [execActs] <;> rw [ih]

theorem execActs_roomEv (acts : List Act) (d : RoomDef) (h : Act.roomEv d ∈ acts) :
    ∀ (s : Site), Ev.roomEv d ∈ (execActs s acts).2 := by
  induction acts with
  | nil => cases h
  | cons a rest ih =>
    intro s
    rcases List.mem_cons.mp h with h' | h'
    · subst h'; simp [execActs]
    · cases a <;> simp only [execActs] <;> first
        | exact ih h' _
        | exact List.mem_cons_of_mem _ (ih h' _)

theorem findDef_setDef (d : RoomDef) (l : List RoomDef) : findDef d.room (setDef d l) = some d := by
  unfold setDef
  induction l with
  | nil => simp [findDef]
  | cons x xs ih =>
    by_cases hx : x.room = d.room
    · simpa [List.filter, hx] using ih
    · simpa [List.filter, hx, findDef] using ih

theorem getElem?_setSite (i : Nat) (s : Site) (l : List Site) (x : Site) (h : l[i]? = some x) :
    (setSite i s l)[i]? = some s := by
  unfold setSite
  have : i < l.length := by
    rcases Nat.lt_or_ge i l.length with h' | h'
    · exact h'
    · rw [List.getElem?_eq_none h'] at h; cases h
  simp [this]

end Discret.Events
