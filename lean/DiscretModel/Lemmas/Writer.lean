import DiscretModel.Model.Writer
/-
Lemmas about the batch-writer model (`Model/Writer.lean`), core Lean only.

* `runGroups`: when no arm loses an error, the loop either ran the whole batch or stopped at the failing group;
* the daily-log invariant `LogInv` (every entry that is not flagged agrees with the content of its day,
  every day with content has an entry) and its working-copy form `WorkInv` (… unless the day is in the
  marks collected so far), preserved statement by statement and re-established by the marks write;
* recomputation turns `LogInv` into `LogClean` (nothing flagged, everything agrees).
-/
namespace Discret.Writer
open Discret.Gen.WriterTable (OnError)

/-! ### content of a day depends on rows and tombstones only -/

theorem count_congr {a b : Db} (hr : a.rows = b.rows) (ht : a.tombs = b.tombs) (d : Day) :
    count a d = count b d := by
  simp [count, dayRows, dayTombs, hr, ht]

theorem digest_congr {a b : Db} (hr : a.rows = b.rows) (ht : a.tombs = b.tombs) (d : Day) :
    digest a d = digest b d := by
  unfold digest
  rw [count_congr hr ht]
  simp [dayRows, dayTombs, hr, ht]

theorem count_of_day {a b : Db} {d : Day} (hr : dayRows a d = dayRows b d) (ht : dayTombs a d = dayTombs b d) :
    count a d = count b d := by
  simp [count, hr, ht]

theorem digest_of_day {a b : Db} {d : Day} (hr : dayRows a d = dayRows b d) (ht : dayTombs a d = dayTombs b d) :
    digest a d = digest b d := by
  simp only [digest, count_of_day hr ht, hr, ht]

def Fresh (db : Db) (e : LogEntry) : Prop := e.count = count db e.day ∧ e.hash = digest db e.day

theorem Fresh.congr {a b : Db} (hr : a.rows = b.rows) (ht : a.tombs = b.tombs) {e : LogEntry}
    (h : Fresh a e) : Fresh b e := by
  unfold Fresh at *
  rw [← count_congr hr ht, ← digest_congr hr ht]; exact h

theorem Fresh.of_day {a b : Db} {e : LogEntry} (hr : dayRows a e.day = dayRows b e.day)
    (ht : dayTombs a e.day = dayTombs b e.day) (h : Fresh a e) : Fresh b e := by
  unfold Fresh at *
  rw [← count_of_day hr ht, ← digest_of_day hr ht]; exact h

/-- the invariant of the committed database: what is not flagged is right, every day with content has an entry -/
def LogInv (db : Db) : Prop :=
  (∀ e ∈ db.log, e.dirty = false → Fresh db e) ∧ (∀ d, 0 < count db d → ∃ e ∈ db.log, e.day = d)

/-- the same inside a transaction, up to the days collected for the marks write -/
def WorkInv (w : Work) : Prop :=
  (∀ e ∈ w.1.log, e.dirty = false → e.day ∈ w.2 ∨ Fresh w.1 e) ∧
  (∀ d, 0 < count w.1 d → d ∈ w.2 ∨ ∃ e ∈ w.1.log, e.day = d)

/-- nothing flagged, everything right: the log is the log of the content -/
def LogClean (db : Db) : Prop :=
  (∀ e ∈ db.log, e.dirty = false ∧ Fresh db e) ∧ (∀ d, 0 < count db d → ∃ e ∈ db.log, e.day = d)

theorem LogInv.toWork {db : Db} (h : LogInv db) : WorkInv (db, []) :=
  ⟨fun e he hd => Or.inr (h.1 e he hd), fun d hd => Or.inr (h.2 d hd)⟩

/-! ### a put / a deletion changes the content of the old and the new day only -/

theorem filter_day_of_key {rows : List Row} {k : Key} {d : Day} (h : d ∉ oldDays rows k) :
    (rows.filter (fun r => r.key ≠ k)).filter (fun r => r.day = d) = rows.filter (fun r => r.day = d) := by
  rw [List.filter_filter]
  apply List.filter_congr
  intro r hr
  by_cases hd : r.day = d
  · have : r.key ≠ k := by
      intro hk; apply h
      simp only [oldDays, List.mem_map, List.mem_filter]
      exact ⟨r, ⟨hr, by simp [hk]⟩, hd⟩
    simp [hd, this]
  · simp [hd]

theorem put_dayRows (db : Db) (k : Key) (v : Nat) (d d' : Day) (h1 : d' ≠ d) (h2 : d' ∉ oldDays db.rows k) :
    dayRows { db with rows := { key := k, val := v, day := d } :: db.rows.filter (fun r => r.key ≠ k) } d'
      = dayRows db d' := by
  simp only [dayRows]
  rw [List.filter_cons]
  have : ¬ (decide (d = d') = true) := by simpa using fun h => h1 h.symm
  simp only [this, if_false, Bool.false_eq_true]
  rw [filter_day_of_key h2]

theorem del_dayRows (db : Db) (k : Key) (d' : Day) (h2 : d' ∉ oldDays db.rows k) (tombs : List (Key × Day))
    (aux : List Aux) :
    dayRows { db with rows := db.rows.filter (fun r => r.key ≠ k), tombs := tombs, aux := aux } d'
      = dayRows db d' := by
  simp only [dayRows]
  rw [filter_day_of_key h2]

theorem cons_dayTombs (db : Db) (k : Key) (d d' : Day) (h1 : d' ≠ d) (rows : List Row) (aux : List Aux) :
    dayTombs { db with rows := rows, tombs := (k, d) :: db.tombs, aux := aux } d' = dayTombs db d' := by
  simp only [dayTombs]
  rw [List.filter_cons]
  have : ¬ (decide (d = d') = true) := by simpa using fun h => h1 h.symm
  simp only [this, if_false, Bool.false_eq_true]

/-! ### statements preserve the working invariant -/

theorem recomputeLog_mem {db : Db} {e' : LogEntry} (h : e' ∈ recomputeLog db) :
    ∃ e ∈ db.log, e'.day = e.day ∧
      ((e.dirty = true ∧ e'.dirty = false ∧ Fresh db e') ∨ (e.dirty = false ∧ e' = e)) := by
  simp only [recomputeLog, List.mem_filterMap] at h
  obtain ⟨e, he, h2⟩ := h
  refine ⟨e, he, ?_⟩
  by_cases hd : e.dirty = true
  · simp only [hd, ↓reduceIte] at h2
    split at h2
    · cases h2
    · simp only [Option.some.injEq] at h2
      subst h2
      simp [hd, Fresh]
  · simp at hd
    simp only [hd, Bool.false_eq_true, ↓reduceIte, Option.some.injEq] at h2
    subst h2
    simp [hd]

/-- an entry survives the recomputation unless it is flagged and its day holds nothing -/
theorem recomputeLog_days {db : Db} {e : LogEntry} (h : e ∈ db.log) (hc : 0 < count db e.day) :
    ∃ e' ∈ recomputeLog db, e'.day = e.day := by
  simp only [recomputeLog, List.mem_filterMap]
  by_cases hd : e.dirty = true
  · have : ¬ count db e.day = 0 := by omega
    exact ⟨{ day := e.day, count := count db e.day, hash := digest db e.day, dirty := false },
      ⟨e, h, by simp [hd, this]⟩, rfl⟩
  · simp at hd
    exact ⟨e, ⟨e, h, by simp [hd]⟩, rfl⟩

theorem applyStmt_workInv (marks : Bool) (w : Work) (s : Stmt) (hw : WorkInv w)
    (hm : marks = true ∨ s.touchesLog = false) : WorkInv (applyStmt marks w s) := by
  cases s with
  | put k v d =>
    have hm : marks = true := by rcases hm with h | h; exact h; simp [Stmt.touchesLog] at h
    subst hm
    simp only [applyStmt, if_true]
    constructor
    · intro e he hd
      simp only at he
      rcases hw.1 e he hd with h | h
      · left; simp [h]
      · by_cases h1 : e.day = d
        · left; simp [h1]
        · by_cases h2 : e.day ∈ oldDays w.1.rows k
          · left; simp [h2]
          · right
            exact h.of_day (put_dayRows w.1 k v d e.day h1 h2).symm rfl
    · intro d' hd'
      by_cases h1 : d' = d
      · left; simp [h1]
      · by_cases h2 : d' ∈ oldDays w.1.rows k
        · left; simp [h2]
        · have : count w.1 d' = count { w.1 with rows := { key := k, val := v, day := d } :: w.1.rows.filter (fun r => r.key ≠ k) } d' :=
            count_of_day (put_dayRows w.1 k v d d' h1 h2).symm rfl
          rw [← this] at hd'
          rcases hw.2 d' hd' with h | h
          · left; simp [h]
          · right; exact h
  | del k d loc =>
    have hm : marks = true := by rcases hm with h | h; exact h; simp [Stmt.touchesLog] at h
    subst hm
    simp only [applyStmt, if_true]
    split
    · constructor
      · intro e he hd
        simp only at he
        rcases hw.1 e he hd with h | h
        · left; simp [h]
        · by_cases h1 : e.day = d
          · left; simp [h1]
          · by_cases h2 : e.day ∈ oldDays w.1.rows k
            · left; simp [h2]
            · right
              exact h.of_day (del_dayRows w.1 k e.day h2 _ _).symm (cons_dayTombs w.1 k d e.day h1 _ _).symm
      · intro d' hd'
        by_cases h1 : d' = d
        · left; simp [h1]
        · by_cases h2 : d' ∈ oldDays w.1.rows k
          · left; simp [h2]
          · rw [count_of_day (del_dayRows w.1 k d' h2 _ _) (cons_dayTombs w.1 k d d' h1 _ _)] at hd'
            rcases hw.2 d' hd' with h | h
            · left; simp [h]
            · right; exact h
    · exact hw
  | aux a =>
    simp only [applyStmt]
    constructor
    · intro e he hd
      rcases hw.1 e he hd with h | h
      · exact Or.inl h
      · exact Or.inr (h.congr rfl rfl)
    · intro d' hd'
      have hd2 : 0 < count w.1 d' := hd'
      exact hw.2 d' hd2
  | recompute =>
    simp only [applyStmt]
    constructor
    · intro e' he' hd'
      obtain ⟨e, he, hday, h⟩ := recomputeLog_mem he'
      rcases h with ⟨_, _, hf⟩ | ⟨hc, rfl⟩
      · exact Or.inr (hf.congr rfl rfl)
      · rcases hw.1 e' he hc with h | h
        · exact Or.inl h
        · exact Or.inr (h.congr rfl rfl)
    · intro d' hd'
      have hd2 : 0 < count w.1 d' := hd'
      rcases hw.2 d' hd2 with h | ⟨e, he, hday⟩
      · exact Or.inl h
      · obtain ⟨e', he', hd3⟩ := recomputeLog_days (db := w.1) he (by rw [hday]; exact hd2)
        exact Or.inr ⟨e', he', by rw [hd3, hday]⟩

theorem applyStmts_workInv (marks : Bool) (l : List Stmt) (w : Work) (hw : WorkInv w)
    (hm : marks = true ∨ ∀ s ∈ l, s.touchesLog = false) : WorkInv (applyStmts marks w l) := by
  induction l generalizing w with
  | nil => exact hw
  | cons s l ih =>
    simp only [applyStmts, List.foldl_cons]
    apply ih
    · apply applyStmt_workInv _ _ _ hw
      rcases hm with h | h
      · exact Or.inl h
      · exact Or.inr (h s (List.mem_cons_self ..))
    · rcases hm with h | h
      · exact Or.inl h
      · exact Or.inr fun s' hs' => h s' (List.mem_cons_of_mem _ hs')

/-- a message of an arm that does not feed the marks must not change rows or tombstones -/
def Msg.WF (T : Table) (m : Msg) : Prop := T.marks m.kind = true ∨ ∀ s ∈ m.stmts, s.touchesLog = false

theorem applyMsgs_workInv (T : Table) (ms : List Msg) (w : Work) (hw : WorkInv w)
    (hm : ∀ m ∈ ms, m.WF T) : WorkInv (applyMsgs T w ms) := by
  induction ms generalizing w with
  | nil => exact hw
  | cons m ms ih =>
    simp only [applyMsgs, List.foldl_cons]
    apply ih
    · exact applyStmts_workInv _ _ _ hw (hm m (List.mem_cons_self ..))
    · exact fun m' hm' => hm m' (List.mem_cons_of_mem _ hm')

/-! ### the marks write -/

theorem markDay_clean {log : List LogEntry} {d : Day} {e : LogEntry} (h : e ∈ markDay log d)
    (hc : e.dirty = false) : e ∈ log ∧ e.day ≠ d := by
  unfold markDay at h
  split at h
  · simp only [List.mem_map] at h
    obtain ⟨e0, he0, rfl⟩ := h
    by_cases hd : e0.day = d
    · simp [hd] at hc
    · simp only [hd, if_false] at hc ⊢
      exact ⟨he0, hd⟩
  · simp only [List.mem_append, List.mem_singleton] at h
    rcases h with h | rfl
    · rename_i hn
      refine ⟨h, ?_⟩
      intro hd
      apply hn
      simp only [List.any_eq_true, decide_eq_true_eq]
      exact ⟨e, h, hd⟩
    · simp at hc

theorem markDay_has {log : List LogEntry} {d : Day} : ∃ e ∈ markDay log d, e.day = d := by
  unfold markDay
  split
  · rename_i h
    simp only [List.any_eq_true, decide_eq_true_eq] at h
    obtain ⟨e, he, hd⟩ := h
    refine ⟨_, List.mem_map_of_mem he, ?_⟩
    simp [hd]
  · exact ⟨_, List.mem_append_right _ (List.mem_singleton_self _), rfl⟩

theorem markDay_days {log : List LogEntry} {d : Day} {e : LogEntry} (h : e ∈ log) :
    ∃ e' ∈ markDay log d, e'.day = e.day := by
  unfold markDay
  split
  · refine ⟨_, List.mem_map_of_mem h, ?_⟩
    by_cases hd : e.day = d <;> simp [hd]
  · exact ⟨e, List.mem_append_left _ h, rfl⟩

theorem writeMarks_clean {days : List Day} {log : List LogEntry} {e : LogEntry}
    (h : e ∈ writeMarks log days) (hc : e.dirty = false) : e ∈ log ∧ e.day ∉ days := by
  induction days generalizing log with
  | nil => exact ⟨h, by simp⟩
  | cons d ds ih =>
    simp only [writeMarks, List.foldl_cons] at h
    obtain ⟨h1, h2⟩ := ih h
    obtain ⟨h3, h4⟩ := markDay_clean h1 hc
    exact ⟨h3, by simp [h4, h2]⟩

theorem writeMarks_days {days : List Day} {log : List LogEntry} {e : LogEntry} (h : e ∈ log) :
    ∃ e' ∈ writeMarks log days, e'.day = e.day := by
  induction days generalizing log e with
  | nil => exact ⟨e, h, rfl⟩
  | cons d ds ih =>
    simp only [writeMarks, List.foldl_cons]
    obtain ⟨e1, h1, hd1⟩ := markDay_days (d := d) h
    obtain ⟨e2, h2, hd2⟩ := ih h1
    exact ⟨e2, h2, by rw [hd2, hd1]⟩

theorem writeMarks_has {days : List Day} {log : List LogEntry} {d : Day} (h : d ∈ days) :
    ∃ e ∈ writeMarks log days, e.day = d := by
  induction days generalizing log with
  | nil => cases h
  | cons d0 ds ih =>
    simp only [writeMarks, List.foldl_cons]
    rcases List.mem_cons.mp h with rfl | h'
    · obtain ⟨e1, h1, hd1⟩ := markDay_has (log := log) (d := d)
      obtain ⟨e2, h2, hd2⟩ := writeMarks_days (days := ds) h1
      exact ⟨e2, h2, by rw [hd2, hd1]⟩
    · exact ih h'

theorem writeMarks_logInv {w : Work} (hw : WorkInv w) : LogInv { w.1 with log := writeMarks w.1.log w.2 } := by
  constructor
  · intro e he hc
    obtain ⟨h1, h2⟩ := writeMarks_clean he hc
    rcases hw.1 e h1 hc with h | h
    · exact absurd h h2
    · exact h.congr rfl rfl
  · intro d hd
    have hd2 : 0 < count w.1 d := hd
    rcases hw.2 d hd2 with h | ⟨e, he, hday⟩
    · exact writeMarks_has h
    · obtain ⟨e', he', hd'⟩ := writeMarks_days (days := w.2) he
      exact ⟨e', he', by rw [hd', hday]⟩

theorem commitBatch_logInv (T : Table) (db : Db) (ms : List Msg) (h : LogInv db) (hm : ∀ m ∈ ms, m.WF T) :
    LogInv (commitBatch T db ms) :=
  writeMarks_logInv (applyMsgs_workInv T ms _ h.toWork hm)

/-- start-up recomputation: an invariant log becomes the log of the content -/
theorem restart_clean {db : Db} (h : LogInv db) : LogClean (restart db).db := by
  constructor
  · intro e' he'
    obtain ⟨e, he, _, hh⟩ := recomputeLog_mem he'
    rcases hh with ⟨_, hd, hf⟩ | ⟨hc, rfl⟩
    · exact ⟨hd, hf.congr rfl rfl⟩
    · exact ⟨hc, (h.1 e' he hc).congr rfl rfl⟩
  · intro d hd
    have hd2 : 0 < count db d := hd
    obtain ⟨e, he, hday⟩ := h.2 d hd2
    obtain ⟨e', he', hd'⟩ := recomputeLog_days he (by rw [hday]; exact hd2)
    exact ⟨e', he', by rw [hd', hday]⟩

theorem LogClean.inv {db : Db} (h : LogClean db) : LogInv db :=
  ⟨fun e he _ => (h.1 e he).2, h.2⟩

/-! ### the loop over the messages -/

/-- no arm used by the batch loses an error -/
def NoSwallow (T : Table) (ms : List Msg) : Prop :=
  ∀ m ∈ ms, T.onError m.kind = .rollbackReturn ∨ T.onError m.kind = .returnOnly ∨ m.stmts = []

/-- every arm used by the batch rolls back before returning its error -/
def AllRollback (T : Table) (ms : List Msg) : Prop :=
  ∀ m ∈ ms, T.onError m.kind = .rollbackReturn ∨ m.stmts = []

theorem AllRollback.noSwallow {T : Table} {ms : List Msg} (h : AllRollback T ms) : NoSwallow T ms :=
  fun m hm => (h m hm).elim Or.inl (fun h => Or.inr (Or.inr h))

theorem runGroups_done {T : Table} {f : Option Fault} {ms : List Msg} (h : NoSwallow T ms) :
    ∀ (w : Work) (i : Nat) (w' : Work), runGroups T f w i ms = .done w' → w' = applyMsgs T w ms := by
  induction ms with
  | nil => intro w i w' hr; simp [runGroups] at hr; simp [applyMsgs, hr]
  | cons m ms ih =>
    intro w i w' hr
    have hm := h m (List.mem_cons_self ..)
    have ht : NoSwallow T ms := fun m' hm' => h m' (List.mem_cons_of_mem _ hm')
    simp only [runGroups] at hr
    split at hr
    · rename_i fj hfj
      -- a fault fires in this group: its statement list is not empty
      have hne : m.stmts ≠ [] := by
        intro he
        split at hfj
        · split at hfj
          · rename_i hc; rw [he] at hc; simp at hc
          · cases hfj
        · cases hfj
      rcases hm with hp | hp | hp
      · rw [hp] at hr; cases hr
      · rw [hp] at hr; cases hr
      · exact absurd hp hne
    · simp only [applyMsgs, List.foldl_cons]
      exact ih ht _ _ _ hr

theorem runGroups_failed {T : Table} {f : Option Fault} {ms : List Msg} (h : AllRollback T ms) :
    ∀ (w : Work) (i : Nat) (w' : Work) (b : Bool), runGroups T f w i ms = .failed w' b → b = true := by
  induction ms with
  | nil => intro w i w' b hr; simp [runGroups] at hr
  | cons m ms ih =>
    intro w i w' b hr
    have hm := h m (List.mem_cons_self ..)
    have ht : AllRollback T ms := fun m' hm' => h m' (List.mem_cons_of_mem _ hm')
    simp only [runGroups] at hr
    split at hr
    · rename_i fj hfj
      have hne : m.stmts ≠ [] := by
        intro he
        split at hfj
        · split at hfj
          · rename_i hc; rw [he] at hc; simp at hc
          · cases hfj
        · cases hfj
      rcases hm with hp | hp
      · rw [hp] at hr; cases hr; rfl
      · exact absurd hp hne
    · exact ih ht _ _ _ _ hr

/-- without a statement fault the loop runs the whole batch -/
theorem runGroups_noStmtFault {T : Table} {f : Option Fault} (hf : ∀ i j, f ≠ some (.stmt i j)) :
    ∀ (ms : List Msg) (w : Work) (i : Nat), runGroups T f w i ms = .done (applyMsgs T w ms) := by
  intro ms
  induction ms with
  | nil => intro w i; simp [runGroups, applyMsgs]
  | cons m ms ih =>
    intro w i
    simp only [runGroups, applyMsgs, List.foldl_cons]
    exact ih _ _

end Discret.Writer
