import DiscretModel.Lemmas.SyncRefine

/-! # C03 — refinement, a whole pull: `synchronise_room` of the intended behaviour is a sequence of joins -/

namespace Discret.Sync
open Discret.DailyLog Discret.SyncOrder

theorem foldTombs_mem {d : Defects} (ts : List NTomb) :
    ∀ (r : Replica) (x : NTomb), x ∈ (ts.foldl (applyNTomb d) r).ntombs → x ∈ r.ntombs ∨ x ∈ ts := by
  induction ts with
  | nil => intro r x h; exact Or.inl h
  | cons t rest ih =>
    intro r x h
    simp only [List.foldl_cons] at h
    rcases ih _ x h with h' | h'
    · rcases mem_putNTomb (show x ∈ putNTomb t r.ntombs from h') with e | e
      · exact Or.inr (e ▸ List.mem_cons_self)
      · exact Or.inl e
    · exact Or.inr (List.mem_cons_of_mem _ h')

theorem foldIngest_ntombs {d : Defects} {rights : Rights} (req : List (Node × Option Node)) :
    ∀ (r : Replica), (req.foldl (fun r (x : Node × Option Node) => ingestNode d rights r x.1 x.2) r).ntombs = r.ntombs := by
  induction req with
  | nil => intro r; rfl
  | cons a t ih =>
    intro r
    simp only [List.foldl_cons]
    rw [ih]
    unfold ingestNode
    split <;> rfl

theorem foldEdges_ntombs (es : List Edge) :
    ∀ (r : Replica), (es.foldl (fun r e => ({ r with edges := putEdge e r.edges } : Replica)) r).ntombs = r.ntombs := by
  induction es with
  | nil => intro r; rfl
  | cons e t ih => intro r; simp only [List.foldl_cons]; rw [ih]

/-- a day's synchronisation stores no deletion record that neither side held -/
theorem syncDay_ntombs_mem {d : Defects} (rights : Rights)
    (dst src : Replica) (room ent day : Nat) (x : NTomb)
    (h : x ∈ (syncDay d rights dst src room ent day).dst.ntombs) : x ∈ dst.ntombs ∨ x ∈ src.ntombs := by
  unfold syncDay at h
  simp only at h
  generalize (src.etombs.filter fun t => t.room = room && ent = 0 && dayOf t.ddate = day) = ets at h
  have t1 : (if ets.isEmpty then dst else applyETombs rights dst ets).ntombs = dst.ntombs := by
    split
    · rfl
    · exact (applyETombs_same rights dst ets).2
  generalize (if ets.isEmpty then dst else applyETombs rights dst ets) = dst1 at h t1
  generalize hnts : sortBy (fun (a b : NTomb) => lexL [a.ddate, a.id, a.ent] [b.ddate, b.id, b.ent])
    (src.ntombs.filter fun t => t.room = room && t.ent = ent && dayOf t.ddate = day) = nts at h
  have hsrc : ∀ y ∈ nts, y ∈ src.ntombs := by
    intro y hy
    rw [← hnts] at hy
    exact (List.mem_filter.mp ((mem_sortBy _ y _).mp hy)).1
  have t2 : ∀ y ∈ (if nts.isEmpty then dst1 else applyNTombs d rights dst1 nts).ntombs, y ∈ dst.ntombs ∨ y ∈ src.ntombs := by
    intro y hy
    split at hy
    · exact Or.inl (t1 ▸ hy)
    · revert y
      refine applyNTombs_induct d rights nts (fun r : Replica => ∀ y ∈ r.ntombs, y ∈ dst.ntombs ∨ y ∈ src.ntombs) dst1
        (fun y hy => Or.inl (t1 ▸ hy)) ?_
      intro r t ht hr y hy
      rcases mem_putNTomb (show y ∈ putNTomb t r.ntombs from hy) with e | e
      · exact Or.inr (e ▸ hsrc t ht)
      · exact hr y e
  generalize (if nts.isEmpty then dst1 else applyNTombs d rights dst1 nts) = dst2 at h t2
  split at h
  · exact t2 x h
  · simp only at h
    rw [foldEdges_ntombs, foldIngest_ntombs] at h
    exact t2 x h

section pull
variable {d : Defects} {f : Nat → Nat} (hI : d.ingestIgnoresTombstones = false)

/-- the join with the source's rows and records of a list of `(entity, day)` of the room, one after the other -/
def joinDays (src : Replica) (room : Nat) (l : List (Nat × Nat)) (a : ARep) : ARep :=
  l.foldl (fun a x => join a (abs (slice src room x.1 x.2))) a

include hI in
theorem syncDays_refines {rights : Rights} (hA : AllRights rights) {src : Replica}
    (hK : d.deletionBatchKeyedById = false ∨ DayRecordsDistinct src)
    (hzs : NoZombie src) (hns : IdsNodup src) (room : Nat) (l : List (Nat × Nat)) :
    ∀ (dst : Replica) (ch : Bool) (k : Nat), NoZombie dst →
      (d.syncDeletionRoomScoped = false ∨ (RoomFn f dst ∧ RoomFn f src)) →
      PkFun (fun x => x ∈ dst.ntombs ∨ x ∈ src.ntombs) →
      abs (syncDays d rights src room l dst ch k).1 = joinDays src room l (abs dst) := by
  induction l with
  | nil => intro dst ch k _ _ _; rfl
  | cons a t ih =>
    intro dst ch k hzd hR hpk
    obtain ⟨ent, day⟩ := a
    simp only [syncDays, joinDays, List.foldl_cons]
    have h1 := syncDay_refines hI hA hR hK hzd hzs hns hpk room ent day
    have hz' : NoZombie (syncDay d rights dst src room ent day).dst ∧
        (d.syncDeletionRoomScoped = false ∨ (RoomFn f (syncDay d rights dst src room ent day).dst ∧ RoomFn f src)) := by
      rcases hR with hR | ⟨hd, hs⟩
      · exact ⟨(syncDay_noZombie hI hR rights src hzd room ent day).1, Or.inl hR⟩
      · have hr := syncDay_roomFn d rights hd hs room ent day
        exact ⟨hr.noZombie (syncDay_noZombieR hI rights src hzd.toR room ent day).1, Or.inr ⟨hr, hs⟩⟩
    have hpk' : PkFun (fun x => x ∈ (syncDay d rights dst src room ent day).dst.ntombs ∨ x ∈ src.ntombs) := by
      intro x y hx hy hp
      refine hpk x y ?_ ?_ hp
      · rcases hx with hx | hx
        · exact syncDay_ntombs_mem rights dst src room ent day x hx
        · exact Or.inr hx
      · rcases hy with hy | hy
        · exact syncDay_ntombs_mem rights dst src room ent day y hy
        · exact Or.inr hy
    rw [ih _ _ _ hz'.1 hz'.2 hpk', h1]
    rfl

/-- the days a pull looks at: those of the source's log whose daily hash the puller's log does not show -/
def diffDays (dst src : Replica) (room : Nat) : List (Nat × Nat) :=
  ((roomLog src room).filter fun x =>
    match findRow dst.log { room, ent := x.ent, day := x.row.day } with
    | some l => l.daily != x.row.daily
    | none => true).map fun x => (x.ent, x.row.day)

include hI in
/-- **refinement, one pull.** With the whole history compared (`summaryFirstEntityOnly` off) the rows and node
    deletion records after `synchronise_room` are those before, joined with the source's rows and records of every
    day whose daily hash differs — whatever the two logs hold. -/
theorem pull_refines_days (hS : d.summaryFirstEntityOnly = false) {rights : Rights} (hA : AllRights rights)
    {dst src : Replica} (hR : d.syncDeletionRoomScoped = false ∨ (RoomFn f dst ∧ RoomFn f src))
    (hK : d.deletionBatchKeyedById = false ∨ DayRecordsDistinct src)
    (hzd : NoZombie dst) (hzs : NoZombie src) (hns : IdsNodup src)
    (hpk : PkFun (fun x => x ∈ dst.ntombs ∨ x ∈ src.ntombs)) (room : Nat) :
    abs (pull d rights dst src room).dst = joinDays src room (diffDays dst src room) (abs dst) := by
  unfold pull
  simp only [hS, Bool.not_false, Bool.true_or, ↓reduceIte]
  have h := syncDays_refines hI hA hK hzs hns room (diffDays dst src room) dst false 0 hzd hR hpk
  unfold diffDays at h ⊢
  rw [← h]
  split
  · exact abs_congr rfl rfl
  · rfl

end pull

end Discret.Sync
