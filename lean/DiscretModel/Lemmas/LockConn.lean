import DiscretModel.Lemmas.Lock
import DiscretModel.Model.LockConn
/-
Connection-level invariant for the code as fixed (`Defects.none`): every locked room has exactly one
owner — a grant waiting in a connection's inbox or a task that has not yet sent its `Unlock`.
-/
namespace Discret.LockConn
open Discret.Lock

/-- the rooms a connection is responsible for releasing: grants not yet received, tasks that have
    not yet sent `Unlock` -/
def active (c : Conn) : List Room :=
  c.inbox ++ (c.tasks.filter fun t => t.2 < 2).map Prod.fst

/-! ### delivery of grants -/

def gained (c : Conn) (gs : List (Ch × Room)) : List Room :=
  (gs.filter fun g => c.ch = g.1 && !c.closed).map Prod.snd

theorem deliverOne_get (conns : List Conn) (g : Ch × Room) (i : Nat) :
    (deliverOne conns g)[i]? = (conns[i]?).map fun c =>
      if c.ch = g.1 && !c.closed then { c with inbox := c.inbox ++ [g.2] } else c := by
  simp [deliverOne, List.getElem?_map]

theorem deliver_get (conns : List Conn) (gs : List (Ch × Room)) (i : Nat) :
    (deliver conns gs)[i]? = (conns[i]?).map fun c => { c with inbox := c.inbox ++ gained c gs } := by
  induction gs generalizing conns with
  | nil =>
    simp only [deliver, List.foldl_nil, gained, List.filter_nil, List.map_nil, List.append_nil]
    cases conns[i]? <;> simp
  | cons g gs ih =>
    simp only [deliver, List.foldl_cons]
    have := ih (deliverOne conns g)
    simp only [deliver] at this
    rw [this, deliverOne_get]
    cases hc : conns[i]? with
    | none => simp
    | some c =>
      simp only [Option.map_some, Option.some.injEq]
      by_cases hb : (c.ch = g.1 && !c.closed) = true
      · simp only [hb, ↓reduceIte, gained, List.filter_cons, List.map_cons, List.append_assoc,
          List.singleton_append]
      · simp only [hb, gained, List.filter_cons]
        simp

theorem deliver_length (conns : List Conn) (gs : List (Ch × Room)) :
    (deliver conns gs).length = conns.length := by
  induction gs generalizing conns with
  | nil => rfl
  | cons g gs ih =>
    simp only [deliver, List.foldl_cons]
    have := ih (deliverOne conns g)
    simp only [deliver] at this
    rw [this]; simp [deliverOne]

theorem mem_gained {c : Conn} {gs : List (Ch × Room)} {r : Room} :
    r ∈ gained c gs ↔ (c.ch, r) ∈ gs ∧ c.closed = false := by
  simp only [gained, List.mem_map, List.mem_filter, Bool.and_eq_true, decide_eq_true_eq,
    Bool.not_eq_eq_eq_not, Bool.not_true, Prod.exists, exists_eq_right]
  constructor
  · rintro ⟨a, ⟨h1, h2, h3⟩⟩; subst h2; exact ⟨h1, h3⟩
  · rintro ⟨h1, h2⟩; exact ⟨c.ch, h1, rfl, h2⟩

theorem gained_nodup {c : Conn} {gs : List (Ch × Room)} (h : (gs.map Prod.snd).Nodup) :
    (gained c gs).Nodup := by
  unfold gained
  exact List.Nodup.sublist (List.Sublist.map _ List.filter_sublist) h

theorem mem_active_deliver {c : Conn} {gs : List (Ch × Room)} {r : Room} :
    r ∈ active { c with inbox := c.inbox ++ gained c gs } ↔ r ∈ active c ∨ r ∈ gained c gs := by
  simp only [active, List.mem_append]
  constructor
  · rintro ((h | h) | h)
    · exact Or.inl (Or.inl h)
    · exact Or.inr h
    · exact Or.inl (Or.inr h)
  · rintro ((h | h) | h)
    · exact Or.inl (Or.inl h)
    · exact Or.inr h
    · exact Or.inl (Or.inr h)

theorem active_deliver_nodup {c : Conn} {gs : List (Ch × Room)}
    (h1 : (active c).Nodup) (h2 : (gs.map Prod.snd).Nodup) (h3 : ∀ r ∈ gained c gs, r ∉ active c) :
    (active { c with inbox := c.inbox ++ gained c gs }).Nodup := by
  have hp : (active { c with inbox := c.inbox ++ gained c gs }).Perm (gained c gs ++ active c) := by
    simp only [active]
    rw [List.append_assoc]
    exact (List.perm_append_comm_assoc _ _ _)
  rw [hp.nodup_iff]
  refine List.nodup_append.mpr ⟨gained_nodup h2, h1, ?_⟩
  intro a ha b hb e
  subst e
  exact h3 a ha hb

end Discret.LockConn

namespace Discret.LockConn
open Discret.Lock

/-! ### the invariant

`free` lists rooms that are still locked in the service but whose owner has already given them up
and is about to send `Unlock` (the intermediate states inside `task` and `close`). -/

structure J (max : Nat) (s : Sys) (free : List Room) : Prop where
  inv : Inv max s.svc
  ident : ∀ (i : Nat) (c : Conn), s.conns[i]? = some c → c.ch = connCh i ∧ c.peer = i
  nodup : ∀ (i : Nat) (c : Conn), s.conns[i]? = some c → (active c).Nodup
  disj : ∀ (i j : Nat) (ci cj : Conn) (r : Room), s.conns[i]? = some ci → s.conns[j]? = some cj →
    r ∈ active ci → r ∈ active cj → i = j
  ownLocked : ∀ (i : Nat) (c : Conn) (r : Room), s.conns[i]? = some c → r ∈ active c → r ∈ s.svc.locked
  lockedOwned : ∀ r ∈ s.svc.locked, r ∉ free → ∃ (i : Nat) (c : Conn), s.conns[i]? = some c ∧ r ∈ active c
  freeOk : ∀ r ∈ free, ∀ (i : Nat) (c : Conn), s.conns[i]? = some c → r ∉ active c
  freeLocked : ∀ r ∈ free, r ∈ s.svc.locked
  closedOk : ∀ (i : Nat) (c : Conn), s.conns[i]? = some c → c.closed = true → c.inbox = [] ∧ c.ch ∈ s.svc.dead
  reqCh : ∀ p req, (p, req) ∈ s.svc.reqs → ∃ i, i < s.conns.length ∧ req.ch = connCh i

theorem J_init (max : Nat) : J max (sinit max) [] := by
  refine ⟨inv_init max, ?_, ?_, ?_, ?_, ?_, ?_, ?_, ?_, ?_⟩ <;> simp [sinit, init]

theorem connCh_inj {i j : Nat} (h : connCh i = connCh j) : i = j := by
  unfold connCh at h; exact Nat.add_left_cancel h

theorem grant_room_unique {gs : List (Ch × Room)} (h : (gs.map Prod.snd).Nodup) {a b : Ch} {r : Room}
    (ha : (a, r) ∈ gs) (hb : (b, r) ∈ gs) : a = b := by
  induction gs with
  | nil => cases ha
  | cons g t ih =>
    simp only [List.map_cons, List.nodup_cons] at h
    rcases List.mem_cons.mp ha with e1 | e1 <;> rcases List.mem_cons.mp hb with e2 | e2
    · rw [← e1] at e2; exact ((Prod.mk.inj e2).1).symm
    · exact absurd (List.mem_map_of_mem (f := Prod.snd) e2) (by rw [← e1] at h; exact h.1)
    · exact absurd (List.mem_map_of_mem (f := Prod.snd) e1) (by rw [← e2] at h; exact h.1)
    · exact ih h.2 e1 e2

/-- a service step made on behalf of the connections preserves the invariant -/
theorem svcStep_J {max : Nat} {s : Sys} {free free' : List Room} (hj : J max s free) (op : Op)
    (h1 : ∀ r ∈ free', r ∈ free ∧ op ≠ .unlock r)
    (h2 : ∀ r ∈ free, r ∉ free' → op = .unlock r)
    (h3 : ∀ p rooms ch, op = .request p rooms ch → ∃ i, i < s.conns.length ∧ ch = connCh i)
    (h4 : ∀ r, op = .unlock r → r ∈ free) :
    J max (svcStep s op).1 free' := by
  obtain ⟨sum1, sum2, sum3, sum4⟩ := step_summary hj.inv op
  obtain ⟨gn, gs⟩ := step_grants hj.inv op
  -- the connections after delivery
  have hget : ∀ (i : Nat), (svcStep s op).1.conns[i]? =
      (s.conns[i]?).map fun c => { c with inbox := c.inbox ++ gained c (step s.svc op).2 } := by
    intro i; simp only [svcStep]; exact deliver_get _ _ i
  have hlen : (svcStep s op).1.conns.length = s.conns.length := by
    simp only [svcStep]; exact deliver_length _ _
  have hsvc : (svcStep s op).1.svc = (step s.svc op).1 := rfl
  -- a granted room was owned by nobody and is not in free'
  have hunowned : ∀ g ∈ (step s.svc op).2, ∀ (i : Nat) (c : Conn), s.conns[i]? = some c → g.2 ∉ active c := by
    intro g hg i c hc hm
    rcases (gs g hg).1 with e | e
    · exact e (hj.ownLocked i c g.2 hc hm)
    · exact hj.freeOk g.2 (h4 g.2 e) i c hc hm
  have hnotfree : ∀ g ∈ (step s.svc op).2, g.2 ∉ free' := by
    intro g hg hf
    obtain ⟨f1, f2⟩ := h1 g.2 hf
    rcases (gs g hg).1 with e | e
    · exact e (hj.freeLocked g.2 f1)
    · exact f2 e
  -- a grant reaches the inbox of an open connection
  have hreach : ∀ g ∈ (step s.svc op).2, ∃ (i : Nat) (c : Conn), s.conns[i]? = some c ∧ c.ch = g.1 ∧ c.closed = false := by
    intro g hg
    have hnd : g.1 ∉ s.svc.dead := (gs g hg).2.2
    have : ∃ i, i < s.conns.length ∧ g.1 = connCh i := by
      rcases sum2 g hg with ⟨p, req, hm, hc⟩ | ⟨p, rooms, e⟩
      · obtain ⟨i, hi, hch⟩ := hj.reqCh p req hm
        exact ⟨i, hi, hc ▸ hch⟩
      · exact h3 p rooms g.1 e
    obtain ⟨i, hi, hch⟩ := this
    obtain ⟨c, hc⟩ : ∃ c, s.conns[i]? = some c := ⟨s.conns[i], by simp [hi]⟩
    refine ⟨i, c, hc, ?_, ?_⟩
    · rw [(hj.ident i c hc).1, hch]
    · cases hcl : c.closed with
      | false => rfl
      | true =>
        have := (hj.closedOk i c hc hcl).2
        rw [(hj.ident i c hc).1, ← hch] at this
        exact absurd this hnd
  constructor
  · rw [hsvc]; exact step_inv hj.inv op
  · intro i c' hc'
    rw [hget] at hc'
    cases hc : s.conns[i]? with
    | none => rw [hc] at hc'; simp at hc'
    | some c =>
      rw [hc] at hc'; simp only [Option.map_some, Option.some.injEq] at hc'
      subst hc'; exact hj.ident i c hc
  · intro i c' hc'
    rw [hget] at hc'
    cases hc : s.conns[i]? with
    | none => rw [hc] at hc'; simp at hc'
    | some c =>
      rw [hc] at hc'; simp only [Option.map_some, Option.some.injEq] at hc'
      subst hc'
      refine active_deliver_nodup (hj.nodup i c hc) gn ?_
      intro r hr
      obtain ⟨hm, _⟩ := mem_gained.mp hr
      exact hunowned (c.ch, r) hm i c hc
  · intro i j ci' cj' r hci' hcj' hri hrj
    rw [hget] at hci' hcj'
    cases hci : s.conns[i]? with
    | none => rw [hci] at hci'; simp at hci'
    | some ci =>
      cases hcj : s.conns[j]? with
      | none => rw [hcj] at hcj'; simp at hcj'
      | some cj =>
        rw [hci] at hci'; rw [hcj] at hcj'
        simp only [Option.map_some, Option.some.injEq] at hci' hcj'
        subst hci' hcj'
        rcases mem_active_deliver.mp hri with a1 | a1 <;> rcases mem_active_deliver.mp hrj with a2 | a2
        · exact hj.disj i j ci cj r hci hcj a1 a2
        · exact absurd a1 (hunowned (cj.ch, r) (mem_gained.mp a2).1 i ci hci)
        · exact absurd a2 (hunowned (ci.ch, r) (mem_gained.mp a1).1 j cj hcj)
        · have := grant_room_unique gn (mem_gained.mp a1).1 (mem_gained.mp a2).1
          rw [(hj.ident i ci hci).1, (hj.ident j cj hcj).1] at this
          exact connCh_inj this
  · intro i c' r hc' hr
    rw [hget] at hc'
    cases hc : s.conns[i]? with
    | none => rw [hc] at hc'; simp at hc'
    | some c =>
      rw [hc] at hc'; simp only [Option.map_some, Option.some.injEq] at hc'
      subst hc'
      rw [hsvc]
      rcases mem_active_deliver.mp hr with a | a
      · refine step_locked_stays hj.inv op (hj.ownLocked i c r hc a) ?_
        intro e
        exact hj.freeOk r (h4 r e) i c hc a
      · exact (gs (c.ch, r) (mem_gained.mp a).1).2.1
  · intro r hr hnf
    rw [hsvc] at hr
    rcases sum1 r hr with ⟨hl, hne⟩ | ⟨ch, hg⟩
    · have hnf0 : r ∉ free := fun hf => hnf (by
        by_cases e : r ∈ free'
        · exact e
        · exact absurd (h2 r hf e) hne)
      obtain ⟨i, c, hc, hm⟩ := hj.lockedOwned r hl hnf0
      refine ⟨i, _, by rw [hget, hc]; rfl, mem_active_deliver.mpr (Or.inl hm)⟩
    · obtain ⟨i, c, hc, hch, hcl⟩ := hreach (ch, r) hg
      refine ⟨i, _, by rw [hget, hc]; rfl, mem_active_deliver.mpr (Or.inr ?_)⟩
      exact mem_gained.mpr ⟨by rw [hch]; exact hg, hcl⟩
  · intro r hr i c' hc' hm
    rw [hget] at hc'
    cases hc : s.conns[i]? with
    | none => rw [hc] at hc'; simp at hc'
    | some c =>
      rw [hc] at hc'; simp only [Option.map_some, Option.some.injEq] at hc'
      subst hc'
      rcases mem_active_deliver.mp hm with a | a
      · exact hj.freeOk r (h1 r hr).1 i c hc a
      · exact hnotfree (c.ch, r) (mem_gained.mp a).1 hr
  · intro r hr
    rw [hsvc]
    exact step_locked_stays hj.inv op (hj.freeLocked r (h1 r hr).1) (h1 r hr).2
  · intro i c' hc' hcl
    rw [hget] at hc'
    cases hc : s.conns[i]? with
    | none => rw [hc] at hc'; simp at hc'
    | some c =>
      rw [hc] at hc'; simp only [Option.map_some, Option.some.injEq] at hc'
      subst hc'
      simp only at hcl
      obtain ⟨e1, e2⟩ := hj.closedOk i c hc hcl
      have hg0 : gained c (step s.svc op).2 = [] := by
        apply List.eq_nil_iff_forall_not_mem.mpr
        intro r hr
        have := (mem_gained.mp hr).2
        rw [hcl] at this; cases this
      refine ⟨by simp [e1, hg0], ?_⟩
      rw [hsvc]
      rcases sum4 with e | ⟨ch, _, e⟩
      · rw [e]; exact e2
      · rw [e]; exact List.mem_cons_of_mem _ e2
  · intro p req' hm
    rw [hsvc] at hm
    rw [hlen]
    rcases sum3 p req' hm with ⟨p0, req, hm0, hc⟩ | ⟨p0, rooms, e⟩
    · obtain ⟨i, hi, hch⟩ := hj.reqCh p0 req hm0
      exact ⟨i, hi, hc ▸ hch⟩
    · exact h3 p0 rooms req'.ch e

end Discret.LockConn

namespace Discret.LockConn
open Discret.Lock

theorem setConn_get {s : Sys} {i : Nat} {c c' : Conn} (hc : s.conns[i]? = some c) (j : Nat) :
    (setConn s i c').conns[j]? = if i = j then some c' else s.conns[j]? := by
  have hi : i < s.conns.length := by
    rcases Nat.lt_or_ge i s.conns.length with h | h
    · exact h
    · rw [List.getElem?_eq_none h] at hc; cases hc
  simp only [setConn, List.getElem?_set, hi, ↓reduceIte]

/-- replacing one connection by one that is responsible for fewer rooms; the rooms given up go to `free'` -/
theorem setConn_J {max : Nat} {s : Sys} {free free' : List Room} {i : Nat} {c c' : Conn}
    (hj : J max s free) (hc : s.conns[i]? = some c)
    (hch : c'.ch = c.ch) (hp : c'.peer = c.peer)
    (hcl : c'.closed = true → c'.inbox = [] ∧ c'.ch ∈ s.svc.dead)
    (hnd : (active c').Nodup)
    (hsub : ∀ r ∈ active c', r ∈ active c)
    (hrem : ∀ r ∈ active c, r ∉ active c' → r ∈ free')
    (hf1 : ∀ r ∈ free, r ∈ free')
    (hf2 : ∀ r ∈ free', r ∈ free ∨ (r ∈ active c ∧ r ∉ active c')) :
    J max (setConn s i c') free' := by
  have hget := setConn_get (c' := c') hc
  have hsvc : (setConn s i c').svc = s.svc := rfl
  -- every connection of the new state is, up to `active` shrinking, a connection of the old one
  have hold : ∀ (j : Nat) (cj' : Conn), (setConn s i c').conns[j]? = some cj' →
      ∃ cj, s.conns[j]? = some cj ∧ cj'.ch = cj.ch ∧ cj'.peer = cj.peer ∧
        (∀ r ∈ active cj', r ∈ active cj) ∧ (j ≠ i → cj' = cj) ∧ (j = i → cj' = c' ∧ cj = c) := by
    intro j cj' h
    rw [hget] at h
    by_cases e : i = j
    · subst e
      simp only [↓reduceIte, Option.some.injEq] at h
      subst h
      exact ⟨c, hc, hch, hp, hsub, fun h => absurd rfl h, fun _ => ⟨rfl, rfl⟩⟩
    · simp only [e, ↓reduceIte] at h
      exact ⟨cj', h, rfl, rfl, fun _ hr => hr, fun _ => rfl, fun h' => absurd h'.symm e⟩
  constructor
  · exact hj.inv
  · intro j cj' h
    obtain ⟨cj, hcj, e1, e2, _⟩ := hold j cj' h
    rw [e1, e2]; exact hj.ident j cj hcj
  · intro j cj' h
    obtain ⟨cj, hcj, _, _, _, e5, e6⟩ := hold j cj' h
    by_cases e : j = i
    · rw [(e6 e).1]; exact hnd
    · rw [e5 e]; exact hj.nodup j cj hcj
  · intro j k cj' ck' r h1 h2 hr1 hr2
    obtain ⟨cj, hcj, _, _, s1, _⟩ := hold j cj' h1
    obtain ⟨ck, hck, _, _, s2, _⟩ := hold k ck' h2
    exact hj.disj j k cj ck r hcj hck (s1 r hr1) (s2 r hr2)
  · intro j cj' r h hr
    obtain ⟨cj, hcj, _, _, s1, _⟩ := hold j cj' h
    exact hj.ownLocked j cj r hcj (s1 r hr)
  · intro r hr hnf
    have hnf0 : r ∉ free := fun h => hnf (hf1 r h)
    obtain ⟨j, cj, hcj, hm⟩ := hj.lockedOwned r hr hnf0
    by_cases e : j = i
    · subst e
      rw [hc] at hcj; cases hcj
      refine ⟨j, c', by rw [hget]; simp, ?_⟩
      by_cases e2 : r ∈ active c'
      · exact e2
      · exact absurd (hrem r hm e2) hnf
    · refine ⟨j, cj, by rw [hget]; simp [Ne.symm e, hcj], hm⟩
  · intro r hr j cj' h hm
    obtain ⟨cj, hcj, _, _, s1, e5, e6⟩ := hold j cj' h
    rcases hf2 r hr with hf | ⟨ha, hna⟩
    · exact hj.freeOk r hf j cj hcj (s1 r hm)
    · by_cases e : j = i
      · rw [(e6 e).1] at hm; exact hna hm
      · have := hj.disj j i cj c r hcj hc (s1 r hm) ha
        exact e this
  · intro r hr
    rcases hf2 r hr with hf | ⟨ha, _⟩
    · exact hj.freeLocked r hf
    · exact hj.ownLocked i c r hc ha
  · intro j cj' h hcl'
    obtain ⟨cj, hcj, _, _, _, e5, e6⟩ := hold j cj' h
    by_cases e : j = i
    · rw [(e6 e).1] at hcl' ⊢; exact hcl hcl'
    · rw [e5 e] at hcl' ⊢; exact hj.closedOk j cj hcj hcl'
  · intro p req hm
    obtain ⟨k, hk, hch'⟩ := hj.reqCh p req hm
    exact ⟨k, by simp only [setConn, List.length_set]; exact hk, hch'⟩

end Discret.LockConn

namespace Discret.LockConn
open Discret.Lock

/-! ### tasks -/

def taskRooms (t : List (Room × Nat)) : List Room := (t.filter fun x => x.2 < 2).map Prod.fst

theorem active_eq (c : Conn) : active c = c.inbox ++ taskRooms c.tasks := rfl

theorem advance_spec {k : Nat} {t t' : List (Room × Nat)} {r : Room} {ph : Nat}
    (h : advance k t = (t', some (r, ph))) :
    ∃ pre post, t = pre ++ (r, ph) :: post ∧
      t' = pre ++ (if ph < 2 then (r, ph + 1) :: post else post) := by
  induction t generalizing k t' with
  | nil => simp [advance] at h
  | cons x rest ih =>
    cases k with
    | zero =>
      obtain ⟨r0, p0⟩ := x
      simp only [advance, Prod.mk.injEq, Option.some.injEq] at h
      obtain ⟨h1, h2, h3⟩ := h
      subst h2 h3
      exact ⟨[], rest, rfl, by simpa using h1.symm⟩
    | succ k =>
      simp only [advance, Prod.mk.injEq] at h
      obtain ⟨h1, h2⟩ := h
      obtain ⟨pre, post, e1, e2⟩ := ih (t' := (advance k rest).1) (by rw [← h2])
      exact ⟨x :: pre, post, by rw [e1]; rfl, by rw [← h1, e2]; rfl⟩

theorem advance_none {k : Nat} {t : List (Room × Nat)} (h : (advance k t).2 = none) :
    (advance k t).1 = t := by
  induction t generalizing k with
  | nil => cases k <;> rfl
  | cons x rest ih =>
    cases k with
    | zero => obtain ⟨r0, p0⟩ := x; simp [advance] at h
    | succ k => simp only [advance] at h ⊢; rw [ih h]

theorem taskRooms_append (a b : List (Room × Nat)) : taskRooms (a ++ b) = taskRooms a ++ taskRooms b := by
  simp [taskRooms]

/-! ### releasing a list of rooms -/

theorem unlockAll_J {max : Nat} {s : Sys} {l : List Room} (hj : J max s l) (hn : l.Nodup)
    (acc : List (Ch × Room)) :
    J max (l.foldl (fun a r => ((svcStep a.1 (.unlock r)).1, a.2 ++ (svcStep a.1 (.unlock r)).2)) (s, acc)).1 [] := by
  induction l generalizing s acc with
  | nil => exact hj
  | cons r rest ih =>
    simp only [List.foldl_cons]
    have hr : r ∉ rest := (List.nodup_cons.mp hn).1
    refine ih (svcStep_J hj (.unlock r) ?_ ?_ ?_ ?_) (List.nodup_cons.mp hn).2 _
    · intro x hx
      refine ⟨List.mem_cons_of_mem _ hx, ?_⟩
      intro e; simp only [Op.unlock.injEq] at e; subst e; exact hr hx
    · intro x hx hnx
      rcases List.mem_cons.mp hx with e | e
      · rw [e]
      · exact absurd e hnx
    · intro p rooms ch e; cases e
    · intro x e; simp only [Op.unlock.injEq] at e; subst e; exact List.mem_cons_self

/-! ### one step of the composed system (code as fixed, no outside party) -/

def noRaw : SOp → Bool
  | .raw _ => false
  | _ => true

theorem sstep_J {max : Nat} {s : Sys} (hj : J max s []) (op : SOp) (hop : noRaw op = true) :
    J max (sstep Defects.none s op).1 [] := by
  cases op with
  | raw o => simp [noRaw] at hop
  | conn i =>
    simp only [sstep]
    split
    · rename_i hlen
      -- a new connection with nothing to release
      have hget : ∀ (j : Nat), (s.conns ++ [({ peer := i, ch := connCh i, inbox := [], acquired := [], tasks := [], closed := false } : Conn)])[j]? =
          if j < s.conns.length then s.conns[j]? else if j = i then some { peer := i, ch := connCh i, inbox := [], acquired := [], tasks := [], closed := false } else none := by
        intro j
        rw [List.getElem?_append]
        split
        · rfl
        · rename_i hge
          have hge' : s.conns.length ≤ j := Nat.le_of_not_lt hge
          by_cases e : j = i
          · subst e; simp [hlen]
          · have : j - s.conns.length ≠ 0 := by omega
            simp only [e, ↓reduceIte]
            cases hk : j - s.conns.length with
            | zero => exact absurd hk this
            | succ n => simp
      have hold : ∀ (j : Nat) (cj : Conn), (s.conns ++ [({ peer := i, ch := connCh i, inbox := [], acquired := [], tasks := [], closed := false } : Conn)])[j]? = some cj →
          s.conns[j]? = some cj ∨ (j = i ∧ cj = { peer := i, ch := connCh i, inbox := [], acquired := [], tasks := [], closed := false }) := by
        intro j cj h
        rw [hget] at h
        split at h
        · exact Or.inl h
        · split at h
          · rename_i e; simp only [Option.some.injEq] at h; exact Or.inr ⟨e, h.symm⟩
          · cases h
      constructor
      · exact hj.inv
      · intro j cj h
        rcases hold j cj h with h | ⟨e1, e2⟩
        · exact hj.ident j cj h
        · subst e1 e2; exact ⟨rfl, rfl⟩
      · intro j cj h
        rcases hold j cj h with h | ⟨e1, e2⟩
        · exact hj.nodup j cj h
        · subst e2; simp [active]
      · intro j k cj ck r h1 h2 hr1 hr2
        rcases hold j cj h1 with h1 | ⟨_, e2⟩
        · rcases hold k ck h2 with h2 | ⟨_, e4⟩
          · exact hj.disj j k cj ck r h1 h2 hr1 hr2
          · subst e4; simp [active] at hr2
        · subst e2; simp [active] at hr1
      · intro j cj r h hr
        rcases hold j cj h with h | ⟨_, e2⟩
        · exact hj.ownLocked j cj r h hr
        · subst e2; simp [active] at hr
      · intro r hr hnf
        obtain ⟨j, cj, hcj, hm⟩ := hj.lockedOwned r hr hnf
        have hjl : j < s.conns.length := by
          rcases Nat.lt_or_ge j s.conns.length with h | h
          · exact h
          · rw [List.getElem?_eq_none h] at hcj; cases hcj
        exact ⟨j, cj, by rw [hget]; simp only [hjl, ↓reduceIte]; exact hcj, hm⟩
      · intro r hr; cases hr
      · intro r hr; cases hr
      · intro j cj h hcl
        rcases hold j cj h with h | ⟨_, e2⟩
        · exact hj.closedOk j cj h hcl
        · subst e2; simp at hcl
      · intro p req hm
        obtain ⟨k, hk, hch⟩ := hj.reqCh p req hm
        exact ⟨k, by simp only [List.length_append, List.length_cons, List.length_nil]; omega, hch⟩
    · exact hj
  | request i rooms =>
    simp only [sstep]
    split
    · rename_i c hc
      split
      · exact hj
      · refine svcStep_J hj _ (by intro r hr; cases hr) (by intro r hr; cases hr) ?_ (by intro r e; cases e)
        intro p rooms' ch e
        simp only [Op.request.injEq] at e
        have hi : i < s.conns.length := by
          rcases Nat.lt_or_ge i s.conns.length with h | h
          · exact h
          · rw [List.getElem?_eq_none h] at hc; cases hc
        exact ⟨i, hi, by rw [← e.2.2]; exact (hj.ident i c hc).1⟩
    · exact hj
  | recv i =>
    simp only [sstep]
    split
    · rename_i c hc
      split
      · exact hj
      · split
        · exact hj
        · rename_i hcl _ r rest hin
          have hact : active c = r :: (rest ++ taskRooms c.tasks) := by
            rw [active_eq, hin]; rfl
          have hact' : active { c with inbox := rest, tasks := c.tasks ++ [(r, 0)] } =
              rest ++ taskRooms c.tasks ++ [r] := by
            rw [active_eq]; simp only [taskRooms_append]
            simp [taskRooms, List.append_assoc]
          have hperm : (active { c with inbox := rest, tasks := c.tasks ++ [(r, 0)] }).Perm (active c) := by
            rw [hact, hact']
            exact List.perm_append_singleton r _
          refine setConn_J hj hc rfl rfl ?_ ?_ ?_ ?_ (fun _ h => h) ?_
          · intro h; simp only at h; rw [h] at hcl; exact absurd rfl hcl
          · exact hperm.nodup_iff.mpr (hj.nodup i c hc)
          · intro x hx; exact hperm.mem_iff.mp hx
          · intro x hx hnx; exact absurd (hperm.mem_iff.mpr hx) hnx
          · intro x hx; cases hx
    · exact hj
  | task i k =>
    simp only [sstep]
    split
    · rename_i c hc
      generalize hadv : advance k c.tasks = res
      obtain ⟨t', o⟩ := res
      simp only
      cases o with
      | none =>
        exact hj
      | some rp =>
        obtain ⟨r, ph⟩ := rp
        obtain ⟨pre, post, e1, e2⟩ := advance_spec hadv
        have htr : taskRooms c.tasks = taskRooms pre ++ (if ph < 2 then [r] else []) ++ taskRooms post := by
          rw [e1, taskRooms_append]
          by_cases hp : ph < 2
          · simp [taskRooms, hp]
          · simp [taskRooms, hp]
        match ph, e1, e2, htr with
        | 0, e1, e2, htr =>
          -- phase 0 -> 1: the room stays under this connection's responsibility
          have htr' : taskRooms t' = taskRooms c.tasks := by
            rw [htr, e2, taskRooms_append]; simp [taskRooms]
          have hact : active { c with tasks := t', acquired := r :: c.acquired } = active c := by
            simp only [active_eq, htr']
          refine setConn_J hj hc rfl rfl ?_ ?_ ?_ ?_ (fun _ h => h) ?_
          · intro h; exact hj.closedOk i c hc h
          · rw [hact]; exact hj.nodup i c hc
          · intro x hx; rw [hact] at hx; exact hx
          · intro x hx hnx; rw [hact] at hnx; exact absurd hx hnx
          · intro x hx; cases hx
        | 1, e1, e2, htr =>
          -- phase 1 -> 2: the task gives the room up and sends Unlock
          have htr' : taskRooms t' = taskRooms pre ++ taskRooms post := by
            rw [e2, taskRooms_append]; simp [taskRooms]
          have htr1 : taskRooms c.tasks = taskRooms pre ++ r :: taskRooms post := by
            rw [htr]; simp
          have hnd := hj.nodup i c hc
          rw [active_eq, htr1] at hnd
          have hperm : (c.inbox ++ (taskRooms pre ++ r :: taskRooms post)).Perm
              (r :: (c.inbox ++ (taskRooms pre ++ taskRooms post))) := by
            have h1 : (taskRooms pre ++ r :: taskRooms post).Perm (r :: (taskRooms pre ++ taskRooms post)) :=
              List.perm_middle
            exact ((List.Perm.append_left c.inbox h1).trans List.perm_middle)
          have hnd2 := hperm.nodup_iff.mp hnd
          have hrn : r ∉ c.inbox ++ (taskRooms pre ++ taskRooms post) := (List.nodup_cons.mp hnd2).1
          have hact' : active { c with tasks := t' } = c.inbox ++ (taskRooms pre ++ taskRooms post) := by
            rw [active_eq, htr']
          have hmem : ∀ x, x ∈ active c ↔ x = r ∨ x ∈ c.inbox ++ (taskRooms pre ++ taskRooms post) := by
            intro x
            rw [active_eq, htr1, hperm.mem_iff]; simp
          have hj1 : J max (setConn s i { c with tasks := t' }) [r] := by
            refine setConn_J hj hc rfl rfl ?_ ?_ ?_ ?_ (fun _ h => by cases h) ?_
            · intro h; exact hj.closedOk i c hc h
            · rw [hact']; exact (List.nodup_cons.mp hnd2).2
            · intro x hx; rw [hact'] at hx; exact (hmem x).mpr (Or.inr hx)
            · intro x hx hnx
              rw [hact'] at hnx
              rcases (hmem x).mp hx with e | e
              · rw [e]; exact List.mem_cons_self
              · exact absurd e hnx
            · intro x hx
              simp only [List.mem_cons, List.not_mem_nil, or_false] at hx
              right; rw [hx, hact']
              exact ⟨(hmem r).mpr (Or.inl rfl), hrn⟩
          refine svcStep_J hj1 (.unlock r) (by intro x hx; cases hx) ?_ (by intro p rooms ch e; cases e) ?_
          · intro x hx _
            simp only [List.mem_cons, List.not_mem_nil, or_false] at hx
            rw [hx]
          · intro x e; simp only [Op.unlock.injEq] at e; rw [e]; exact List.mem_cons_self
        | ph + 2, e1, e2, htr =>
          -- phase 2 -> gone: the task was not responsible for the room any more
          have htr' : taskRooms t' = taskRooms c.tasks := by
            rw [htr, e2, taskRooms_append]
            have : ¬ (ph + 2 < 2) := by omega
            simp [this]
          have hact : active { c with tasks := t', acquired := c.acquired.erase r } = active c := by
            simp only [active_eq, htr']
          refine setConn_J hj hc rfl rfl ?_ ?_ ?_ ?_ (fun _ h => h) ?_
          · intro h; exact hj.closedOk i c hc h
          · rw [hact]; exact hj.nodup i c hc
          · intro x hx; rw [hact] at hx; exact hx
          · intro x hx hnx; rw [hact] at hnx; exact absurd hx hnx
          · intro x hx; cases hx
    · exact hj
  | close i =>
    simp only [sstep]
    split
    · rename_i c hc
      split
      · exact hj
      · rename_i hcl
        simp only [Defects.none, Bool.false_eq_true, ↓reduceIte]
        -- 1. the receiver is closed
        have hj2 : J max (svcStep s (.drop c.ch)).1 [] :=
          svcStep_J hj _ (by intro r hr; cases hr) (by intro r hr; cases hr)
            (by intro p rooms ch e; cases e) (by intro r e; cases e)
        have hc2 : (svcStep s (.drop c.ch)).1.conns[i]? = some c := by
          simp only [svcStep, step, deliver, List.foldl_nil]; exact hc
        have hdead : c.ch ∈ (svcStep s (.drop c.ch)).1.svc.dead := by
          simp [svcStep, step]
        -- 2. the connection gives up the grants still in its inbox
        have hnd := hj.nodup i c hc
        rw [active_eq] at hnd
        have hj3 : J max (setConn (svcStep s (.drop c.ch)).1 i { c with closed := true, inbox := [] }) c.inbox := by
          refine setConn_J hj2 hc2 rfl rfl ?_ ?_ ?_ ?_ (fun _ h => by cases h) ?_
          · intro _; exact ⟨rfl, hdead⟩
          · simp only [active_eq, List.nil_append]; exact (List.nodup_append.mp hnd).2.1
          · intro x hx; simp only [active_eq, List.nil_append] at hx
            rw [active_eq]; exact List.mem_append_right _ hx
          · intro x hx hnx
            simp only [active_eq, List.nil_append] at hnx
            rw [active_eq] at hx
            rcases List.mem_append.mp hx with e | e
            · exact e
            · exact absurd e hnx
          · intro x hx
            right
            refine ⟨by rw [active_eq]; exact List.mem_append_left _ hx, ?_⟩
            simp only [active_eq, List.nil_append]
            intro hx2
            exact (List.nodup_append.mp hnd).2.2 x hx x hx2 rfl
        -- 3. and releases them one by one
        exact unlockAll_J hj3 (List.nodup_append.mp hnd).1 []
    · exact hj

theorem srun_J {max : Nat} {s : Sys} (hj : J max s []) (ops : List SOp) (hops : ops.all noRaw = true) :
    J max (srun Defects.none s ops) [] := by
  induction ops generalizing s with
  | nil => exact hj
  | cons op ops ih =>
    simp only [List.all_cons, Bool.and_eq_true] at hops
    simp only [srun, srunOut]
    exact ih (sstep_J hj op hops.1) hops.2

end Discret.LockConn
