import DiscretModel.Gen.RoomNodeKernel
import DiscretModel.Lemmas.RoomKernelEq
import DiscretModel.Model.RoomNode
/-!
Obligations of translator T11: the entitlement checks regenerated from `room_node.rs` (Gen/RoomNodeKernel.lean) take the
decision of the hand-written model (Model/RoomNode.lean) that C07 and C10 are proved about.

The model's candidate is abstracted into the structures of Model/RoomNodeKernelTypes.lean by `absRoom` / `absAuth`
(author and date of every row, author and date of the references room → group); `x.parse()` is the model's `parse`
with its errors forgotten (`liftP`). The decision compared is accept / refuse (`Except.toBool`).
-/
namespace Discret.Gen.RoomNodeKernel
open Discret.Room Discret.Rust Discret.Gen.RoomKernel
open Discret.RoomNode (SRow PEdge AuthNode RErr)

def absNode (n : SRow) : Node := { key := n.author, mdate := n.mdate }
def absEdge (e : PEdge) : Edge := { key := e.author, cdate := e.cdate }
def absUser (n : SRow) : UserNode := { node := absNode n }
def absRight (n : SRow) : EntityRightNode := { node := absNode n }
def absAuth (a : AuthNode) : AuthorisationNode :=
  { node := absNode a.node, right_nodes := a.rightNodes.map absRight, user_nodes := a.userNodes.map absUser,
    user_admin_nodes := a.userAdminNodes.map absUser }
def absRoom (r : Discret.RoomNode.RoomNode) : RoomNode :=
  { admin_nodes := r.adminNodes.map absUser, auth_edges := r.authEdges.map absEdge, auth_nodes := r.authNodes.map absAuth }

/-- `parse()` with the kind of error forgotten -/
def liftP {α : Type} : Except RErr α → Except Error α
  | .ok x => .ok x
  | .error _ => .error .other

/-! ### loops whose body only ever returns an error -/

/-- `for x in l { if c(x) { return Err(e); } }` -/
theorem forReturn_guard {α ρ : Type} (l : List α) (c : α → Bool) (e : ρ) :
    forReturn l (fun a => if c a then some e else none) = if l.any c then some e else none := by
  unfold forReturn
  induction l with
  | nil => rfl
  | cons a t ih =>
    simp only [List.findSome?_cons, List.any_cons]
    by_cases h : c a = true
    · simp [h]
    · simp only [Bool.not_eq_true] at h; simp [h, ih]

/-- a loop whose body returns nothing on the good elements and an error on the others -/
theorem forReturn_verdict {α : Type} (l : List α) (body : α → Option (Except Error Unit)) (ok : α → Bool)
    (h1 : ∀ a, ok a = true → body a = none) (h2 : ∀ a, ok a = false → ∃ e, body a = some (.error e)) :
    (l.all ok = true ∧ forReturn l body = none) ∨ (l.all ok = false ∧ ∃ e, forReturn l body = some (.error e)) := by
  unfold forReturn
  induction l with
  | nil => exact Or.inl ⟨rfl, rfl⟩
  | cons a t ih =>
    simp only [List.findSome?_cons, List.all_cons]
    cases h : ok a with
    | true => rw [h1 a h]; simpa using ih
    | false => obtain ⟨e, he⟩ := h2 a h; rw [he]; exact Or.inr ⟨rfl, e, rfl⟩

theorem forReturn_map {α β ρ : Type} (l : List α) (f : α → β) (body : β → Option ρ) :
    forReturn (l.map f) body = forReturn l (fun a => body (f a)) := by
  unfold forReturn
  induction l with
  | nil => rfl
  | cons a t ih => simp [List.findSome?_cons, ih]

/-! ### the regenerated functions decide as the model does -/

theorem groups_placed_by_admins_eq (room : Room) (r : Discret.RoomNode.RoomNode) :
    groups_placed_by_admins room (absRoom r) = Discret.RoomNode.groupsPlacedByAdmins room r := by
  unfold groups_placed_by_admins Discret.RoomNode.groupsPlacedByAdmins absRoom
  simp [List.all_map, Room_is_admin_eq, absEdge, Function.comp_def]

theorem prepare_new_auth_eq (room : Room) (a : AuthNode) :
    (prepare_new_auth (liftP a.parse) room (absAuth a)).toBool =
      (Discret.RoomNode.prepareNewAuth Discret.RoomNode.Defects.asImplemented room a).toBool := by
  unfold prepare_new_auth Discret.RoomNode.prepareNewAuth
  cases hp : a.parse with
  | error e => rfl
  | ok au =>
    simp only [liftP, absAuth, forReturn_guard, List.any_map, Function.comp_def, absUser, absRight, absNode,
      Room_is_admin_eq, Auth_can_admin_users_eq]
    have e1 : (a.userNodes.any fun n => !au.canAdminUsers n.author n.mdate && !room.isAdmin n.author n.mdate) =
        !(a.userNodes.all fun n => au.canAdminUsers n.author n.mdate || room.isAdmin n.author n.mdate) := by
      simp [List.not_all_eq_any_not]
    have e2 : ∀ l : List SRow, (l.any fun n => !room.isAdmin n.author n.mdate) = !(l.all fun n => room.isAdmin n.author n.mdate) := by
      intro l; simp [List.not_all_eq_any_not]
    rw [e1, e2, e2]
    cases a.userNodes.all (fun n => au.canAdminUsers n.author n.mdate || room.isAdmin n.author n.mdate) <;>
      cases a.rightNodes.all (fun n => room.isAdmin n.author n.mdate) <;>
      cases a.userAdminNodes.all (fun n => room.isAdmin n.author n.mdate) <;> rfl

theorem any_not_isAdmin (room : Room) (l : List SRow) :
    (l.any fun n => !room.isAdmin n.author n.mdate) = !(l.all fun n => room.isAdmin n.author n.mdate) := by
  simp [List.not_all_eq_any_not]

/-- the model's test of one group of a room that is not known yet -/
def groupOk (room : Room) (a : AuthNode) : Bool :=
  room.isAdmin a.node.author a.node.mdate &&
    a.userNodes.all (fun n => room.isAdmin n.author n.mdate) &&
    a.rightNodes.all (fun n => room.isAdmin n.author n.mdate) &&
    a.userAdminNodes.all (fun n => room.isAdmin n.author n.mdate)

theorem prepare_new_room_eq (r : Discret.RoomNode.RoomNode) :
    (prepare_new_room (liftP r.parse) (absRoom r)).toBool =
      (Discret.RoomNode.prepareNewRoom (!Discret.RoomNode.Defects.asImplemented.placingEdgeUnchecked) r).toBool := by
  unfold prepare_new_room Discret.RoomNode.prepareNewRoom
  cases hp : r.parse with
  | error e => rfl
  | ok room =>
    simp only [liftP, groups_placed_by_admins_eq]
    simp only [absRoom, forReturn_map]
    generalize hfr : forReturn r.authNodes _ = X
    have hv : (r.authNodes.all (groupOk room) = true ∧ X = none) ∨
        (r.authNodes.all (groupOk room) = false ∧ ∃ e, X = some (.error e)) := by
      rw [← hfr]
      refine forReturn_verdict _ _ (groupOk room) ?_ ?_
      · intro a h
        simp only [groupOk, Bool.and_eq_true] at h
        obtain ⟨⟨⟨h0, h1⟩, h2⟩, h3⟩ := h
        simp only [absAuth, forReturn_guard, List.any_map, Function.comp_def, absUser, absRight, absNode,
          Room_is_admin_eq, any_not_isAdmin, h0, h1, h2, h3]
        rfl
      · intro a h
        simp only [absAuth, forReturn_guard, List.any_map, Function.comp_def, absUser, absRight, absNode,
          Room_is_admin_eq, any_not_isAdmin]
        simp only [groupOk] at h
        cases h0 : room.isAdmin a.node.author a.node.mdate
        · exact ⟨_, rfl⟩
        · cases h1 : a.userNodes.all (fun n => room.isAdmin n.author n.mdate)
          · exact ⟨_, rfl⟩
          · cases h2 : a.rightNodes.all (fun n => room.isAdmin n.author n.mdate)
            · exact ⟨_, rfl⟩
            · cases h3 : a.userAdminNodes.all (fun n => room.isAdmin n.author n.mdate)
              · exact ⟨_, rfl⟩
              · rw [h0, h1, h2, h3] at h; cases h
    have hg : (r.authNodes.all fun a => room.isAdmin a.node.author a.node.mdate &&
        a.userNodes.all (fun n => room.isAdmin n.author n.mdate) &&
        a.rightNodes.all (fun n => room.isAdmin n.author n.mdate) &&
        a.userAdminNodes.all (fun n => room.isAdmin n.author n.mdate)) = r.authNodes.all (groupOk room) := rfl
    simp only [forReturn_guard, absUser, absNode, Room_is_admin_eq, any_not_isAdmin, hg]
    -- the code checks the references room → group: the switch is off in `Defects.asImplemented`
    have hc : (!Discret.RoomNode.Defects.asImplemented.placingEdgeUnchecked) = true := rfl
    rw [hc]
    rcases hv with ⟨ha, hx⟩ | ⟨ha, e, hx⟩ <;> rw [ha, hx] <;>
      cases Discret.RoomNode.groupsPlacedByAdmins room r <;>
      cases r.adminNodes.all (fun n => room.isAdmin n.author n.mdate) <;> rfl

end Discret.Gen.RoomNodeKernel
