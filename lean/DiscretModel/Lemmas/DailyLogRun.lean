import DiscretModel.Lemmas.DailyLogSpec
import DiscretModel.Lemmas.DailyLogPending
/-
Schedules of writes, end-of-batch mark writes and recomputation points over (content, table, pending marks).
-/
namespace Discret.DailyLog

/-- what the batch writer holds: the stored content, the `_daily_log` table and the marks collected by the
    current batch (`DailyMutations`), which are written at the end of the batch -/
structure St where
  sigs : Content
  log : Log
  pend : List Key

inductive Step where
  /-- a write of the current batch: the content becomes `sigs'`, `marks` are added to the batch's marks -/
  | write (sigs' : Content) (marks : List Key)
  /-- end of the batch: `DailyMutations::write` -/
  | commit
  /-- `ComputeDailyLog` -/
  | compute

def pendOf (l : List Key) : Pending := fun r e d => ({ room := r, ent := e, day := d } : Key) ∈ l

def St.init : St := { sigs := fun _ _ _ => [], log := [], pend := [] }

def St.step (d : Defects) (s : St) : Step → St
  | .write sigs' marks => { s with sigs := sigs', pend := s.pend ++ marks }
  | .commit => { s with log := markAll s.pend s.log, pend := [] }
  | .compute => { s with log := recompute d s.sigs s.log }

/-- the marking discipline: every `(room, entity, day)` whose stored signatures change is marked by the
    write that changes it (or is already marked by an earlier write of the batch). A recomputation may be
    processed anywhere, also in the middle of a batch whose marks are not written yet. -/
def Step.ok (s : St) : Step → Prop
  | .write sigs' marks => ∀ r e d, sigs' r e d ≠ s.sigs r e d → pendOf (s.pend ++ marks) r e d
  | .commit => True
  | .compute => True

def run (d : Defects) : St → List Step → St
  | s, [] => s
  | s, x :: t => run d (s.step d x) t

def runOk (d : Defects) : St → List Step → Prop
  | _, [] => True
  | s, x :: t => x.ok s ∧ runOk d (s.step d x) t

theorem run_append (d : Defects) (s : St) (a b : List Step) : run d s (a ++ b) = run d (run d s a) b := by
  induction a generalizing s with
  | nil => rfl
  | cons x t ih => simp only [List.cons_append, run, ih]

theorem runOk_append (d : Defects) (s : St) (a b : List Step) :
    runOk d s (a ++ b) ↔ runOk d s a ∧ runOk d (run d s a) b := by
  induction a generalizing s with
  | nil => simp [runOk, run]
  | cons x t ih => simp only [List.cons_append, runOk, run, ih, and_assoc]

theorem WInv.mono {sigs : Content} {P P' : Pending} {log : Log} (h : WInv sigs P log)
    (hp : ∀ r e d, P r e d → P' r e d) : WInv sigs P' log := by
  refine ⟨h.groups, fun g hg => (h.ginv g hg).mono (fun d x => hp _ _ _ x), ?_⟩
  intro room ent day hne
  rcases h.covers room ent day hne with x | x
  · exact Or.inl (hp _ _ _ x)
  · exact Or.inr x

section
variable {d : Defects} (h1 : d.historySeedDropped = false) (h2 : d.entityNotCompared = false)
  (h3 : d.emptyDayRow = false) (h4 : d.lazyScan = false)

include h1 h2 h3 h4 in
theorem step_winv {s : St} {x : Step} (h : WInv s.sigs (pendOf s.pend) s.log) (hok : x.ok s) :
    WInv (s.step d x).sigs (pendOf (s.step d x).pend) (s.step d x).log := by
  cases x with
  | write sigs' marks =>
    simp only [St.step]
    refine WInv_write h ?_ hok
    intro r e dd hp
    exact List.mem_append_left _ hp
  | commit =>
    simp only [St.step]
    refine WInv_markAll s.pend (h.mono ?_)
    intro r e dd hp; exact Or.inr hp
  | compute =>
    simp only [St.step]
    exact recompute_pending h1 h2 h3 h4 h

include h1 h2 h3 h4 in
theorem run_winv (steps : List Step) {s : St} (h : WInv s.sigs (pendOf s.pend) s.log) (hok : runOk d s steps) :
    WInv (run d s steps).sigs (pendOf (run d s steps).pend) (run d s steps).log := by
  induction steps generalizing s with
  | nil => exact h
  | cons x t ih => exact ih (step_winv h1 h2 h3 h4 h hok.1) hok.2

end

/-! ### concrete contents (for the witnesses and the examples of `Props/C09.lean`) -/

/-- the content that stores the given `(room, entity, day)`-keyed signatures -/
def contentOf (items : List (Key × Sig)) : Content :=
  fun r e d => (items.filter fun x => x.1 = { room := r, ent := e, day := d }).map (·.2)

theorem contentOf_absent (items : List (Key × Sig)) (k : Key) (h : k ∉ items.map (·.1)) :
    contentOf items k.room k.ent k.day = [] := by
  unfold contentOf
  rw [List.map_eq_nil_iff, List.filter_eq_nil_iff]
  intro x hx
  have hne : x.1 ≠ k := fun e => h (e ▸ List.mem_map_of_mem hx)
  simpa using hne

/-- the marking discipline for a write that replaces the content `a` by the content `b`: it is enough to look at
    the keys that occur in `a` or `b` (a decidable, finite condition) -/
theorem contentOf_marks_ok (a b : List (Key × Sig)) (marks : List Key)
    (h : ∀ k ∈ (a ++ b).map (·.1), contentOf b k.room k.ent k.day ≠ contentOf a k.room k.ent k.day → k ∈ marks) :
    ∀ r e d, contentOf b r e d ≠ contentOf a r e d → pendOf marks r e d := by
  intro r e d hne
  by_cases hk : ({ room := r, ent := e, day := d } : Key) ∈ (a ++ b).map (·.1)
  · exact h _ hk hne
  · exfalso
    apply hne
    have ha : ({ room := r, ent := e, day := d } : Key) ∉ a.map (·.1) := fun x => hk (by
      rw [List.map_append]; exact List.mem_append_left _ x)
    have hb : ({ room := r, ent := e, day := d } : Key) ∉ b.map (·.1) := fun x => hk (by
      rw [List.map_append]; exact List.mem_append_right _ x)
    rw [contentOf_absent a _ ha, contentOf_absent b _ hb]

theorem init_winv : WInv St.init.sigs (pendOf St.init.pend) St.init.log :=
  ⟨List.Pairwise.nil, by simp [St.init], by simp [St.init]⟩

end Discret.DailyLog
