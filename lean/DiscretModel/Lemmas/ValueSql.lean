import DiscretModel.Model.Value
/-
Lemmas about the statement text of `Model/Value.lean` (`compile` / `sqlTokens`):
where spliced quoted text can come from.
-/
namespace Discret.Value

/-- the filter `f` splices the text `s` (its field has the String/Base64/Json default `s`) -/
def Filter.splices (f : Filter) (s : List Char) : Prop := f.field.dflt = some (.str s)

theorem defaultTok_not_quoted (d : Defects) (ps : Params) (l : Lit) (s : List Char) :
    (defaultTok d ps l).2 ≠ .quoted s := by
  cases l <;> simp [defaultTok]

theorem selFieldToks_quoted (d : Defects) (ps : Params) (table : String) (f : SelField) (s : List Char) :
    Tok.quoted s ∉ (selFieldToks d ps table f).2 := by
  unfold selFieldToks
  split
  · simp
  · split
    · next dv _ =>
      have := defaultTok_not_quoted d ps dv s
      simp only [List.mem_cons, List.mem_nil_iff, or_false, not_or]
      exact ⟨by simp, fun h => this h.symm, by simp⟩
    · simp

theorem filterValue_not_quoted (d : Defects) (ps : Params) (op : String) (v : FVal) (s : List Char) :
    (filterValue d ps op v).2.1 ≠ .quoted s := by
  cases v with
  | var x => simp [filterValue]
  | lit l => cases l <;> simp [filterValue]

theorem filterDefaultTok_quoted (d : Defects) (ps : Params) (l : Lit) (s : List Char)
    (h : (filterDefaultTok d ps l).2 = .quoted s) : d.defaultSpliced = true ∧ l = .str s := by
  cases l with
  | str x =>
    unfold filterDefaultTok at h
    by_cases hd : d.defaultSpliced = true
    · simp [hd] at h; exact ⟨hd, by rw [h]⟩
    · simp [hd] at h
  | _ => simp [filterDefaultTok] at h

macro "mem_norm" " at " h:ident : tactic =>
  `(tactic| simp only [List.mem_append, List.mem_cons, List.mem_nil_iff, or_false, false_or, tab, reduceCtorEq,
      List.not_mem_nil] at $h:ident)

theorem filterToks_quoted (d : Defects) (ps : Params) (t : Nat) (f : Filter) (s : List Char)
    (h : Tok.quoted s ∈ (filterToks d ps t f).2) : d.defaultSpliced = true ∧ f.splices s := by
  unfold filterToks at h
  have hv := filterValue_not_quoted d ps f.op f.value s
  simp only at h
  split at h
  · mem_norm at h
    exact absurd h.symm hv
  · split at h
    · next dv hdv =>
      mem_norm at h
      have key : (filterDefaultTok d (filterValue d ps f.op f.value).1 dv).2 = .quoted s := by
        rcases h with h | h | h | h
        · exact h.symm
        · exact absurd h.symm hv
        · exact absurd h.symm hv
        · exact absurd h.symm hv
      obtain ⟨h1, h2⟩ := filterDefaultTok_quoted d _ dv s key
      exact ⟨h1, by unfold Filter.splices; rw [hdv, h2]⟩
    · mem_norm at h
      exact absurd h.symm hv

theorem filtersLoop_quoted (d : Defects) (t : Nat) (ps : Params) (fs : List Filter) (s : List Char)
    (h : Tok.quoted s ∈ (filtersLoop d t ps fs).2) : d.defaultSpliced = true ∧ ∃ f ∈ fs, f.splices s := by
  induction fs generalizing ps with
  | nil => simp [filtersLoop] at h
  | cons f rest ih =>
    cases rest with
    | nil =>
      simp only [filtersLoop] at h
      obtain ⟨h1, h2⟩ := filterToks_quoted d ps t f s h
      exact ⟨h1, f, by simp, h2⟩
    | cons g rest =>
      simp only [filtersLoop] at h
      mem_norm at h
      rcases h with h | h
      · obtain ⟨h1, h2⟩ := filterToks_quoted d ps t f s h
        exact ⟨h1, f, by simp, h2⟩
      · obtain ⟨h1, f', hf', h2⟩ := ih _ h
        exact ⟨h1, f', by simp [hf'], h2⟩

theorem whereFilters_quoted (d : Defects) (ps : Params) (t : Nat) (fs : List Filter) (s : List Char)
    (h : Tok.quoted s ∈ (whereFilters d ps t fs).2) : d.defaultSpliced = true ∧ ∃ f ∈ fs, f.splices s := by
  unfold whereFilters at h
  split at h
  · simp at h
  · mem_norm at h
    exact filtersLoop_quoted d t ps fs s h

theorem selFieldsLoop_quoted (d : Defects) (table : String) (t : Nat) (ps : Params) (fs : List SelField)
    (s : List Char) : Tok.quoted s ∉ (selFieldsLoop d table t ps fs).2 := by
  induction fs generalizing ps with
  | nil => simp [selFieldsLoop]
  | cons f rest ih =>
    cases rest with
    | nil =>
      intro h
      simp only [selFieldsLoop] at h
      mem_norm at h
      exact selFieldToks_quoted d ps table f s h
    | cons g rest =>
      intro h
      simp only [selFieldsLoop] at h
      mem_norm at h
      rcases h with h | h
      · exact selFieldToks_quoted d ps table f s h
      · exact ih _ h

theorem subEntityQuery_quoted (d : Defects) (ps : Params) (q : SubQ) (parent : String) (t : Nat) (u : Bool)
    (s : List Char) (h : Tok.quoted s ∈ (subEntityQuery d ps q parent t u).2) :
    d.defaultSpliced = true ∧ ∃ f ∈ q.filters, f.splices s := by
  unfold subEntityQuery subFields at h
  mem_norm at h
  rcases h with h | h
  · exact absurd h (selFieldsLoop_quoted d q.key t ps q.fields s)
  · exact whereFilters_quoted d _ t q.filters s h

theorem subGroupArray_quoted (d : Defects) (ps : Params) (q : SubQ) (parent : String) (t : Nat)
    (s : List Char) (h : Tok.quoted s ∈ (subGroupArray d ps q parent t).2) :
    d.defaultSpliced = true ∧ ∃ f ∈ q.filters, f.splices s := by
  unfold subGroupArray at h
  mem_norm at h
  exact subEntityQuery_quoted d ps q parent (t + 1) false s h

/-- the selection field `fld` is a sub-selection one of whose filters splices `s` -/
def QField.splices (fld : QField) (s : List Char) : Prop :=
  match fld with
  | .scalar _ => False
  | .sub q => ∃ f ∈ q.filters, f.splices s

theorem qFieldToks_quoted (d : Defects) (ps : Params) (table : String) (t : Nat) (fld : QField)
    (s : List Char) (h : Tok.quoted s ∈ (qFieldToks d ps table t fld).2) :
    d.defaultSpliced = true ∧ fld.splices s := by
  cases fld with
  | scalar f => exact absurd h (selFieldToks_quoted d ps table f s)
  | sub q =>
    simp only [qFieldToks] at h
    split at h
    · mem_norm at h
      exact subGroupArray_quoted d ps q table (t + 1) s h
    · mem_norm at h
      exact subEntityQuery_quoted d ps q table (t + 1) true s h

theorem qFieldsLoop_quoted (d : Defects) (table : String) (t : Nat) (ps : Params) (fs : List QField)
    (s : List Char) (h : Tok.quoted s ∈ (qFieldsLoop d table t ps fs).2) :
    d.defaultSpliced = true ∧ ∃ fld ∈ fs, fld.splices s := by
  induction fs generalizing ps with
  | nil => simp [qFieldsLoop] at h
  | cons f rest ih =>
    cases rest with
    | nil =>
      simp only [qFieldsLoop] at h
      mem_norm at h
      obtain ⟨h1, h2⟩ := qFieldToks_quoted d ps table t f s h
      exact ⟨h1, f, by simp, h2⟩
    | cons g rest =>
      simp only [qFieldsLoop] at h
      mem_norm at h
      rcases h with h | h
      · obtain ⟨h1, h2⟩ := qFieldToks_quoted d ps table t f s h
        exact ⟨h1, f, by simp, h2⟩
      · obtain ⟨h1, f', hf', h2⟩ := ih _ h
        exact ⟨h1, f', by simp [hf'], h2⟩

theorem existsLoop_quoted (d : Defects) (table : String) (t : Nat) (ps : Params) (fs : List QField)
    (s : List Char) (h : Tok.quoted s ∈ (existsLoop d table t ps fs).2) :
    d.defaultSpliced = true ∧ ∃ fld ∈ fs, fld.splices s := by
  induction fs generalizing ps with
  | nil => simp [existsLoop] at h
  | cons f rest ih =>
    cases f with
    | scalar x =>
      simp only [existsLoop] at h
      obtain ⟨h1, f', hf', h2⟩ := ih _ h
      exact ⟨h1, f', by simp [hf'], h2⟩
    | sub q =>
      simp only [existsLoop] at h
      split at h
      · obtain ⟨h1, f', hf', h2⟩ := ih _ h
        exact ⟨h1, f', by simp [hf'], h2⟩
      · mem_norm at h
        rcases h with h | h
        · obtain ⟨h1, h2⟩ := subEntityQuery_quoted d ps q table (t + 1) _ s h
          exact ⟨h1, .sub q, by simp, h2⟩
        · obtain ⟨h1, f', hf', h2⟩ := ih _ h
          exact ⟨h1, f', by simp [hf'], h2⟩

/-- the texts a query splices between quotes: String/Base64/Json defaults of filtered fields -/
def TopQ.splices (q : TopQ) (s : List Char) : Prop :=
  (∃ f ∈ q.filters, f.splices s) ∨ (∃ fld ∈ q.fields, fld.splices s)

/-- **Origin of spliced text.** A quoted token of the statement is always the default value of a
    filtered field, and only exists with the `defaultSpliced` behaviour. -/
theorem sqlTokens_quoted (d : Defects) (q : TopQ) (s : List Char) (h : Tok.quoted s ∈ sqlTokens d q) :
    d.defaultSpliced = true ∧ q.splices s := by
  unfold sqlTokens compile entityQuery at h
  mem_norm at h
  rcases h with (h1 | h2) | h3
  · obtain ⟨a, b⟩ := qFieldsLoop_quoted d q.table 1 [] q.fields s h1
    exact ⟨a, Or.inr b⟩
  · obtain ⟨a, b⟩ := existsLoop_quoted d q.table 1 _ q.fields s h2
    exact ⟨a, Or.inr b⟩
  · obtain ⟨a, b⟩ := whereFilters_quoted d _ 1 q.filters s h3
    exact ⟨a, Or.inl b⟩

end Discret.Value
