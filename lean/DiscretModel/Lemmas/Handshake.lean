import DiscretModel.Model.Handshake
/-
Lemmas for C19: counting the entries of an invitation in the token table, removal, lookups, and the
commutativity / injectivity of the model key agreement. Core Lean only.
-/
namespace Discret.Handshake

theorem inviteIdOf_allowed (k : Key) : inviteIdOf (.allowedPeer k) = none := rfl

/-- entries of invitation `id` in a table -/
def countInvite (t : Table) (id : Nat) : Nat := (t.filter fun e => inviteIdOf e.2 == some id).length

theorem reachable_iff_count {t : Table} {id : Nat} : reachable t id = true ↔ 0 < countInvite t id := by
  unfold reachable countInvite
  rw [List.length_pos_iff_exists_mem]
  simp only [List.any_eq_true, List.mem_filter]

theorem sameInvite_id {tt x : TokenType} {id : Nat} (h : inviteIdOf tt = some id) (hs : sameInvite tt x = true) :
    inviteIdOf x = some id := by
  cases tt <;> cases x <;> simp_all [sameInvite, inviteIdOf]

theorem count_removeFirst_hit {tok : Token} {tt : TokenType} {id : Nat} (hid : inviteIdOf tt = some id) :
    ∀ (t : Table), (∃ e ∈ t, e.1 = tok ∧ sameInvite tt e.2 = true) →
      countInvite (removeFirst tok tt t) id + 1 = countInvite t id
  | [], h => by obtain ⟨e, he, _⟩ := h; cases he
  | e :: rest, h => by
    unfold removeFirst
    by_cases hc : e.1 = tok ∧ sameInvite tt e.2 = true
    · simp only [hc, and_self, if_true]
      have := sameInvite_id hid hc.2
      simp [countInvite, this]
    · simp only [hc, if_false]
      have hrest : ∃ e' ∈ rest, e'.1 = tok ∧ sameInvite tt e'.2 = true := by
        obtain ⟨e', he', h1, h2⟩ := h
        rcases List.mem_cons.mp he' with rfl | hm
        · exact absurd ⟨h1, h2⟩ hc
        · exact ⟨e', hm, h1, h2⟩
      have ih := count_removeFirst_hit hid rest hrest
      simp only [countInvite, List.filter_cons] at ih ⊢
      split <;> simp_all <;> omega


theorem count_append (t u : Table) (id : Nat) : countInvite (t ++ u) id = countInvite t id + countInvite u id := by
  simp [countInvite, List.filter_append]

/-- **the invitation is consumed** (intended behaviour): if it occurred once, under its own token, it is
    unreachable from every token afterwards -/
theorem inviteAccepted_unreachable {t : Table} {tt : TokenType} {id : Nat} {k : Key} {ptok : Token}
    (hid : inviteIdOf tt = some id) (hone : countInvite t id = 1)
    (hin : ∃ e ∈ t, e.1 = .derived id ∧ sameInvite tt e.2 = true) :
    reachable (inviteAccepted Defects.none t tt k ptok) id = false := by
  have hcount : countInvite (t ++ [(ptok, TokenType.allowedPeer k)]) id = 1 := by
    rw [count_append, hone]; simp [countInvite, inviteIdOf]
  have hin' : ∃ e ∈ t ++ [(ptok, TokenType.allowedPeer k)], e.1 = .derived id ∧ sameInvite tt e.2 = true := by
    obtain ⟨e, he, h⟩ := hin; exact ⟨e, by simp [he], h⟩
  have := count_removeFirst_hit (tok := .derived id) hid _ hin'
  cases hr : reachable (inviteAccepted Defects.none t tt k ptok) id with
  | false => rfl
  | true =>
    have hpos := reachable_iff_count.mp hr
    simp only [inviteAccepted, hid, Defects.none, Bool.false_eq_true, if_false] at hpos
    omega

/-- lookups only return entries of the table, under the token asked -/
theorem lookup_mem {t : Table} {tok : Token} {key : Key} {tt : TokenType} (h : lookup t tok key = some tt) :
    (tok, tt) ∈ t := by
  unfold lookup at h
  have := List.mem_of_find?_eq_some h
  simp only [List.mem_map, List.mem_filter, decide_eq_true_eq] at this
  obtain ⟨e, ⟨he, h1⟩, h2⟩ := this
  rw [← h1, ← h2]; exact he

theorem lookup_none_of_unreachable {t : Table} {id : Nat} (h : reachable t id = false) (tok : Token) (key : Key)
    (tt : TokenType) (hl : lookup t tok key = some tt) : inviteIdOf tt ≠ some id := by
  intro hid
  have hm := lookup_mem hl
  have : reachable t id = true := by
    simp only [reachable, List.any_eq_true]
    exact ⟨(tok, tt), hm, by simp [hid]⟩
  rw [h] at this; cases this

/-! ### restart -/

theorem mem_restart {t : Table} {e : Token × TokenType} : e ∈ restart t ↔ e ∈ t := by
  unfold restart
  simp only [List.mem_append, List.mem_filter]
  constructor
  · rintro ((⟨h, _⟩ | ⟨h, _⟩) | ⟨h, _⟩) <;> exact h
  · intro h
    cases hk : e.2 with
    | allowedPeer k => exact Or.inl (Or.inl ⟨h, by simp [isAllowedEntry]⟩)
    | ownedInvite n => exact Or.inl (Or.inr ⟨h, by simp [isOwnedEntry]⟩)
    | invite inv => exact Or.inr ⟨h, by simp [isInviteEntry]⟩

theorem reachable_restart (t : Table) (id : Nat) : reachable (restart t) id = reachable t id := by
  cases h : reachable t id with
  | true =>
    simp only [reachable, List.any_eq_true] at h ⊢
    obtain ⟨e, he, hid⟩ := h
    exact ⟨e, mem_restart.mpr he, hid⟩
  | false =>
    cases h' : reachable (restart t) id with
    | false => rfl
    | true =>
      simp only [reachable, List.any_eq_true] at h'
      obtain ⟨e, he, hid⟩ := h'
      have : reachable t id = true := by
        simp only [reachable, List.any_eq_true]; exact ⟨e, mem_restart.mp he, hid⟩
      rw [h] at this; cases this

/-! ### histories of the token table -/

/-- one operation on the token table of `PeerManager` -/
inductive TOp where
  | create (id : Nat)                                        -- `create_invite`
  | accept (inv : Invite)                                    -- `accept_invite` (refused for another application)
  | accepted (tt : TokenType) (k : Key) (ptok : Token)       -- `invite_accepted`
  | restart                                                  -- a new `PeerManager` on the same database
deriving Repr

def applyOp (app : Nat) (t : Table) : TOp → Table
  | .create id => createInvite t id
  | .accept inv => (acceptInvite app t inv).getD t
  | .accepted tt k ptok => inviteAccepted Defects.asImplemented t tt k ptok
  | .restart => restart t

def applyOps (app : Nat) (t : Table) (ops : List TOp) : Table := ops.foldl (applyOp app) t

/-- the operation does not bring invitation `id` (back) into the table: it neither creates it nor
    accepts an invitation carrying that id -/
def TOp.avoids (id : Nat) : TOp → Prop
  | .create id' => id' ≠ id
  | .accept inv => inv.id ≠ id
  | _ => True

instance (id : Nat) (op : TOp) : Decidable (op.avoids id) := by
  cases op <;> unfold TOp.avoids <;> infer_instance

theorem mem_removeFirst {tok : Token} {tt : TokenType} {e : Token × TokenType} :
    ∀ {t : Table}, e ∈ removeFirst tok tt t → e ∈ t
  | [], h => by simp [removeFirst] at h
  | x :: rest, h => by
    unfold removeFirst at h
    split at h
    · exact List.mem_cons_of_mem _ h
    · rcases List.mem_cons.mp h with rfl | h'
      · exact List.mem_cons_self
      · exact List.mem_cons_of_mem _ (mem_removeFirst h')

/-- every entry of the table after an operation was there before or is what the operation adds -/
theorem mem_applyOp {app : Nat} {t : Table} {op : TOp} {e : Token × TokenType} (h : e ∈ applyOp app t op) :
    e ∈ t ∨ (∃ id, op = .create id ∧ e = (.derived id, .ownedInvite id)) ∨
      (∃ inv, op = .accept inv ∧ inv.app = app ∧ e = (.derived inv.id, .invite inv)) ∨
      (∃ tt k ptok, op = .accepted tt k ptok ∧ e = (ptok, .allowedPeer k)) := by
  cases op with
  | create id =>
    simp only [applyOp, createInvite, List.mem_append, List.mem_singleton] at h
    rcases h with h | h
    · exact Or.inl h
    · exact Or.inr (Or.inl ⟨id, rfl, h⟩)
  | accept inv =>
    simp only [applyOp, acceptInvite] at h
    by_cases ha : inv.app = app
    · simp only [ha, ne_eq, not_true_eq_false, if_false, Option.getD_some, List.mem_append, List.mem_singleton] at h
      rcases h with h | h
      · exact Or.inl h
      · exact Or.inr (Or.inr (Or.inl ⟨inv, rfl, ha, h⟩))
    · simp only [ne_eq, ha, not_false_eq_true, if_true, Option.getD_none] at h
      exact Or.inl h
  | accepted tt k ptok =>
    simp only [applyOp, inviteAccepted] at h
    have hm : e ∈ t ++ [(ptok, TokenType.allowedPeer k)] := by
      split at h
      · exact h
      · exact mem_removeFirst h
    simp only [List.mem_append, List.mem_singleton] at hm
    rcases hm with h' | h'
    · exact Or.inl h'
    · exact Or.inr (Or.inr (Or.inr ⟨tt, k, ptok, rfl, h'⟩))
  | restart => exact Or.inl (mem_restart.mp h)

/-- an invitation that is not reachable stays unreachable through every operation that avoids its id -/
theorem unreachable_applyOp {app : Nat} {t : Table} {id : Nat} (h : reachable t id = false) {op : TOp}
    (ha : op.avoids id) : reachable (applyOp app t op) id = false := by
  cases hr : reachable (applyOp app t op) id with
  | false => rfl
  | true =>
    simp only [reachable, List.any_eq_true, beq_iff_eq] at hr
    obtain ⟨e, he, hid⟩ := hr
    have hold : ∀ e' ∈ t, inviteIdOf e'.2 ≠ some id := by
      intro e' he' hid'
      have : reachable t id = true := by
        simp only [reachable, List.any_eq_true]; exact ⟨e', he', by simp [hid']⟩
      rw [h] at this; cases this
    rcases mem_applyOp he with h1 | ⟨id', rfl, rfl⟩ | ⟨inv, rfl, _, rfl⟩ | ⟨tt, k, ptok, rfl, rfl⟩
    · exact absurd hid (hold e h1)
    · simp only [inviteIdOf, Option.some.injEq] at hid; exact absurd hid ha
    · simp only [inviteIdOf, Option.some.injEq] at hid; exact absurd hid ha
    · simp [inviteIdOf] at hid

theorem unreachable_applyOps {app : Nat} {id : Nat} (ops : List TOp) :
    ∀ {t : Table}, reachable t id = false → (∀ op ∈ ops, op.avoids id) → reachable (applyOps app t ops) id = false := by
  induction ops with
  | nil => intro t h _; exact h
  | cons op rest ih =>
    intro t h ha
    simp only [applyOps, List.foldl_cons]
    exact ih (unreachable_applyOp h (ha op List.mem_cons_self)) (fun o ho => ha o (List.mem_cons_of_mem _ ho))

/-- every accepted invitation held by the table names the application of this instance -/
def OwnApp (app : Nat) (t : Table) : Prop := ∀ e ∈ t, ∀ inv, e.2 = .invite inv → inv.app = app

theorem ownApp_applyOp {app : Nat} {t : Table} (h : OwnApp app t) (op : TOp) : OwnApp app (applyOp app t op) := by
  intro e he inv hinv
  rcases mem_applyOp he with h1 | ⟨id', _, rfl⟩ | ⟨inv', _, happ, rfl⟩ | ⟨tt, k, ptok, _, rfl⟩
  · exact h e h1 inv hinv
  · cases hinv
  · cases hinv; exact happ
  · cases hinv

theorem ownApp_applyOps {app : Nat} (ops : List TOp) : ∀ {t : Table}, OwnApp app t → OwnApp app (applyOps app t ops) := by
  induction ops with
  | nil => intro t h; exact h
  | cons op rest ih => intro t h; simp only [applyOps, List.foldl_cons]; exact ih (ownApp_applyOp h op)


/-! ### key agreement -/

theorem dh_comm (a b : Nat) : dh a (pubOf b) = dh b (pubOf a) := by
  simp only [dh, pubOf, ← Nat.pow_mul, Nat.mul_comm]

theorem pubOf_inj {a b : Nat} (h : pubOf a = pubOf b) : a = b :=
  (Nat.pow_right_inj (by decide : 1 < g)).mp h

end Discret.Handshake
