import DiscretModel.Lemmas.LocalWriteFixtures
import DiscretModel.Model.Ingest
set_option linter.unusedSimpArgs false
/-
The bridge between the local write model (`Model/LocalWrite.lean`) and the peer ingestion model
(`Model/Ingest.lean`), used by C12: how a locally written row looks to a peer, and the agreement of the two
right checks on it.
-/
namespace Discret.LocalWrite
open Discret.Room

/-- a stored row as the peer's table holds it -/
def toNodeRow (r : Row) : Ingest.NodeRow :=
  { id := r.id, room := r.room, ent := r.entity, cdate := r.cdate, mdate := r.mdate, key := r.author, sg := 0,
    val := r.val.toNat }

/-- a row as it arrives at a peer: validly signed, conforming to the data model, below the size limit -/
def toInNode (r : Row) : Ingest.InNode :=
  { row := { toNodeRow r with sg := 1 }, annDate := r.mdate, annSg := 1, sigOk := true, conforms := true,
    jsonAbsent := false, big := false }

/-- a peer that holds the room definitions `rooms` -/
def peerWith (rooms : List Room) (nodes : List Ingest.NodeRow) : Ingest.Inst :=
  { rooms, nodes, edges := [], nodeLog := [], edgeLog := [] }

theorem canIn_peer (rooms : List Room) (nodes : List Ingest.NodeRow) (r : Nat) (k : Key) (e : Ent) (d : Int)
    (rt : RightType) :
    Ingest.canIn (peerWith rooms nodes) r k e d rt =
      (match getRoom rooms r with | some rm => rm.can k e d rt | none => false) := rfl

theorem needRight_eq (c : Change) (caller : Key) :
    Ingest.needRight (c.old.map fun o => (toNodeRow o).key) caller = needed c caller := by
  unfold Ingest.needRight needed
  cases c.old with
  | none => rfl
  | some o => simp [toNodeRow]

/-- the local verdict on one change, as a boolean -/
def localOk (df : Defects) (rooms : List Room) (caller : Key) (now : Int) (c : Change) : Bool :=
  (validateChange df rooms caller now c).toBool

/-- the peer's verdict (`validate_node`) on the row the change writes, given the previous version it holds -/
def peerOk (d : Ingest.Defects) (rooms : List Room) (caller : Key) (c : Change) (n : Row) : Bool :=
  Ingest.validateNode d (peerWith rooms []) (toInNode (signRow caller n)) (c.old.map toNodeRow)

theorem needed_some {c : Change} {o : Row} (h : c.old = some o) (caller : Key) :
    needed c caller = Ingest.needRight (some o.author) caller := by
  unfold needed Ingest.needRight; rw [h]

theorem needed_none {c : Change} (h : c.old = none) (caller : Key) :
    needed c caller = Ingest.needRight none caller := by
  unfold needed Ingest.needRight; rw [h]

/-- the change removes no reference signed by somebody else, or the model is the one that does not look at that -/
def OwnRemovals (df : Defects) (caller : Key) (c : Change) : Prop :=
  df.refRemovalRightOnRowAuthor = true ∨ c.edgeDels.any (fun e => e.author != caller) = false

/-- **row-level agreement, intended behaviour of the row rule.** For a change that writes row `n` into room `rid` at
    date `now`, whose previous version (if any) is of the same entity and was in a room, and that removes no reference
    of somebody else (`OwnRemovals`: those need more than the row rule, see `change_verdict_none`), the local right
    check and the peer's `validate_node` give the same verdict. -/
theorem row_verdict_of {df : Defects} {rooms : List Room} {caller : Key} {now : Int} {c : Change} {n : Row} {rid : Id}
    (hdf : df.oldRoomLookup = false) (hown : OwnRemovals df caller c)
    (hroom : c.roomId = some rid) (hn : n.room = some rid) (he : n.entity = c.entity) (hd : n.mdate = now)
    (hold : ∀ o, c.old = some o → o.entity = c.entity ∧ o.room ≠ none) :
    localOk df rooms caller now c = peerOk Ingest.Defects.none rooms caller c n := by
  have hx : (!df.refRemovalRightOnRowAuthor && c.edgeDels.any (fun e => e.author != caller)) = false := by
    rcases hown with h | h <;> simp [h]
  unfold localOk peerOk validateChange Ingest.validateNode
  cases hco : c.old with
  | none =>
    rw [needed_none hco]
    cases hr : getRoom rooms rid with
    | none => simp [hroom, hr, toInNode, signRow, toNodeRow, hn, canIn_peer, Except.toBool, Ingest.Defects.none]
    | some room =>
      cases hc : room.can caller c.entity now (Ingest.needRight none caller) <;>
        simp [hroom, hr, hc, hx, toInNode, signRow, toNodeRow, hn, he, hd, canIn_peer, Except.toBool,
          Ingest.Defects.none, hdf]
  | some o =>
    obtain ⟨hoe, hor⟩ := hold o hco
    rw [needed_some hco]
    cases hro : o.room with
    | none => exact absurd hro hor
    | some oldRid =>
      cases hr : getRoom rooms rid with
      | none =>
        simp [hroom, hr, toInNode, signRow, toNodeRow, hn, canIn_peer, Except.toBool, Ingest.Defects.none]
      | some room =>
        by_cases heq : oldRid = rid
        · cases hc : room.can caller c.entity now (Ingest.needRight (some o.author) caller) <;>
            simp [hroom, hr, hc, hx, hro, heq, hoe, toInNode, signRow, toNodeRow, hn, he, hd, canIn_peer, Except.toBool,
              Ingest.Defects.none, hdf]
        · cases hg : getRoom rooms oldRid with
          | none =>
            simp [hroom, hr, hg, hro, heq, hoe, toInNode, signRow, toNodeRow, hn, he, hd, canIn_peer, Except.toBool,
              Ingest.Defects.none, hdf]
          | some oldRoom =>
            cases hc1 : oldRoom.can caller c.entity now (Ingest.needRight (some o.author) caller) <;> cases hc : room.can caller c.entity now (Ingest.needRight (some o.author) caller) <;>
              simp [hroom, hr, hg, hc, hc1, hx, hro, heq, hoe, toInNode, signRow, toNodeRow, hn, he, hd, canIn_peer,
                Except.toBool, Ingest.Defects.none, hdf]

/-- **row-level agreement, any switches.** For a change that does not move the row to another room, whose
    previous version (if any) is of the same entity and was in a room, and that removes no reference of somebody
    else, the local right check and the peer's `validate_node` agree whatever the switches of the two models are. -/
theorem row_verdict_any (df : Defects) (d : Ingest.Defects) {rooms : List Room} {caller : Key} {now : Int}
    {c : Change} {n : Row} {rid : Id} (hown : OwnRemovals df caller c)
    (hroom : c.roomId = some rid) (hn : n.room = some rid) (he : n.entity = c.entity) (hd : n.mdate = now)
    (hold : ∀ o, c.old = some o → o.entity = c.entity ∧ o.room ≠ none) (hnm : NoMove c) :
    localOk df rooms caller now c = peerOk d rooms caller c n := by
  have hx : (!df.refRemovalRightOnRowAuthor && c.edgeDels.any (fun e => e.author != caller)) = false := by
    rcases hown with h | h <;> simp [h]
  unfold localOk peerOk validateChange Ingest.validateNode
  cases hco : c.old with
  | none =>
    rw [needed_none hco]
    cases hr : getRoom rooms rid with
    | none => simp [hroom, hr, toInNode, signRow, toNodeRow, hn, canIn_peer, Except.toBool]
    | some room =>
      cases hc : room.can caller c.entity now (Ingest.needRight none caller) <;>
        simp [hroom, hr, hc, hx, toInNode, signRow, toNodeRow, hn, he, hd, canIn_peer, Except.toBool]
  | some o =>
    obtain ⟨hoe, hor⟩ := hold o hco
    rw [needed_some hco]
    cases hro : o.room with
    | none => exact absurd hro hor
    | some oldRid =>
      have heq : oldRid = rid := hnm o oldRid rid hco hro hroom
      cases hr : getRoom rooms rid with
      | none =>
        simp [hroom, hr, toInNode, signRow, toNodeRow, hn, canIn_peer, Except.toBool]
      | some room =>
        cases hc : room.can caller c.entity now (Ingest.needRight (some o.author) caller) <;>
          simp [hroom, hr, hc, hx, hro, heq, hoe, toInNode, signRow, toNodeRow, hn, he, hd, canIn_peer, Except.toBool]

/-! ### references and deletion records

What the peer's rules for references (`AddEdges`, authorisation_service.rs:357-382) and for deletion records
(`validate_edge_deletions`, `validate_node_deletions`) say about what a local operation sends. -/

/-- `EntityRight::new` (room.rs:300-313): a right that grants all rows grants own rows. Every room built by room
    mutations, reloaded or imported holds such rights only (`Right.new`, `RightRow.toRight false`). -/
def Normalised (room : Room) : Prop := ∀ a ∈ room.auths, ∀ x ∈ a.rights, x.mutAll = true → x.mutSelf = true

theorem can_all_self {room : Room} (hn : Normalised room) {k : Key} {e : Ent} {d : Int}
    (h : room.can k e d .mutateAll = true) : room.can k e d .mutateSelf = true := by
  obtain ⟨a, ha, hm, hc⟩ := (Room.can_iff room k e d .mutateAll).mp h
  refine (Room.can_iff room k e d .mutateSelf).mpr ⟨a, ha, hm, ?_⟩
  obtain ⟨x, hg, hx⟩ := (Auth.can_iff a e d .mutateAll).mp hc
  refine (Auth.can_iff a e d .mutateSelf).mpr ⟨x, ?_, hx⟩
  have hmem : x ∈ a.rights := by
    rcases hx with h1 | ⟨_, h1⟩
    · exact (glast_some_mem Right.entity Right.validFrom ((rightAt_eq_glast _ _ _) ▸ h1)).1
    · exact (glast_some_mem Right.entity Right.validFrom ((rightAt_eq_glast _ _ _) ▸ h1)).1
  exact hn a ha x hmem hg

/-- `room.can` in the room named `rid` of the list (`false` when there is none) -/
def canB (rooms : List Room) (rid : Id) (k : Key) (e : Ent) (d : Int) (rt : RightType) : Bool :=
  match getRoom rooms rid with
  | some rm => rm.can k e d rt
  | none => false

theorem canIn_eq_canB {p : Ingest.Inst} {rooms : List Room} (hp : p.rooms = rooms) (r : Nat) (k : Key) (e : Ent)
    (d : Int) (rt : RightType) : Ingest.canIn p r k e d rt = canB rooms r k e d rt := by
  subst hp; rfl

theorem canB_all_self {rooms : List Room} {rid : Id} (hn : ∀ room, getRoom rooms rid = some room → Normalised room)
    {k : Key} {e : Ent} {d : Int} (h : canB rooms rid k e d .mutateAll = true) :
    canB rooms rid k e d .mutateSelf = true := by
  unfold canB at h ⊢
  cases hr : getRoom rooms rid with
  | none => rw [hr] at h; cases h
  | some room => rw [hr] at h; exact can_all_self (hn room hr) h

/-- the deletion record of a removed reference (`EdgeDeletionEntry::build`) -/
def tombOf (rid : Id) (caller : Key) (now : Int) (e : EdgeRow) : EdgeTomb :=
  { room := rid, src := e.src, label := e.label, dest := e.dest, cdate := e.cdate, ddate := now, author := caller }

/-- a deletion record as it arrives at a peer; `se`: the (short) entity of the source row -/
def toEdgeDel (se : Ent) (t : EdgeTomb) : Ingest.EdgeDel :=
  { room := t.room, src := t.src, srcEnt := se, dst := t.dest, label := t.label, cdate := t.cdate, ddate := t.ddate,
    key := t.author }

def toNodeDel (t : NodeTomb) : Ingest.NodeDel :=
  { room := t.room, id := t.id, ent := t.entity, mdate := t.mdate, ddate := t.ddate, key := t.author }

/-- a reference as it arrives at a peer, validly signed -/
def toInEdge (se : Ent) (e : EdgeRow) : Ingest.InEdge :=
  { row := { src := e.src, srcEnt := se, label := e.label, dst := e.dest, cdate := e.cdate, key := e.author },
    sigOk := true }

/-- the entity is one a peer accepts rows, references and records for: known to its data model, and not one of the
    entities of a room definition -/
def DataEnt (d : Ingest.Defects) (e : Ent) : Prop :=
  Ingest.knownEnt e = true ∧ (d.authEntityUnchecked || !Ingest.authEnt e) = true

theorem validateChange_tombs {df : Defects} {rooms : List Room} {caller : Key} {now : Int} {c : Change}
    {t : List EdgeTomb} {rid : Id} (hroom : c.roomId = some rid) (h : validateChange df rooms caller now c = .ok t) :
    t = c.edgeDels.map (tombOf rid caller now) := by
  unfold validateChange at h
  rw [hroom] at h
  simp only at h
  split at h
  · cases h
  · split at h
    · cases h
    · split at h
      · split at h
        · cases h
        · cases h; rfl
      · cases h

/-- **the peer's verdict on the deletion record of a reference it holds**: the own-rows right when the reference is
    the record's author's, the all-rows right otherwise, at the date of the deletion, in the room the record names -/
theorem edge_record_verdict {d : Ingest.Defects} {p : Ingest.Inst} {rooms : List Room} (hp : p.rooms = rooms)
    {se : Ent} (hent : DataEnt d se) {rid : Id} {caller : Key} {now : Int} {e : EdgeRow}
    (hsrc : d.edgeDelSourceUnchecked = true ∨ Ingest.edgeDelSourceOk p (toEdgeDel se (tombOf rid caller now e)) = true)
    (hheld : (p.edges.find? (Ingest.edgeMatches (toEdgeDel se (tombOf rid caller now e)))).map (·.key) = some e.author) :
    Ingest.edgeDelAccepted d p (toEdgeDel se (tombOf rid caller now e)) =
      canB rooms rid caller se now (if e.author = caller then .mutateSelf else .mutateAll) := by
  unfold Ingest.edgeDelAccepted
  rw [hheld, canIn_eq_canB hp]
  have h3 : (d.edgeDelSourceUnchecked || Ingest.edgeDelSourceOk p (toEdgeDel se (tombOf rid caller now e))) = true := by
    rcases hsrc with h | h <;> simp [h]
  have h1 : Ingest.knownEnt (toEdgeDel se (tombOf rid caller now e)).srcEnt = true := hent.1
  have h2 : (d.authEntityUnchecked || !Ingest.authEnt (toEdgeDel se (tombOf rid caller now e)).srcEnt) = true := hent.2
  rw [h1, h2, h3]
  simp only [Bool.true_and, Bool.and_self, Ingest.needRight, toEdgeDel, tombOf]
  rfl

/-- the local verdict with the intended behaviour = the row rule, and the all-rows right when a reference of
    somebody else is removed -/
theorem localOk_split {rooms : List Room} {caller : Key} {now : Int} {c : Change} {rid : Id}
    (hroom : c.roomId = some rid) :
    localOk Defects.none rooms caller now c =
      (localOk { Defects.none with refRemovalRightOnRowAuthor := true } rooms caller now c &&
        (!c.edgeDels.any (fun e => e.author != caller) || canB rooms rid caller c.entity now .mutateAll)) := by
  unfold localOk validateChange canB
  rw [hroom]
  simp only
  cases hr : getRoom rooms rid with
  | none => simp [Except.toBool]
  | some room =>
    simp only [Defects.none, Bool.false_eq_true, if_false, Bool.not_false, Bool.true_and, Bool.not_true, Bool.false_and]
    split
    · simp [Except.toBool]
    · cases hc : room.can caller c.entity now (needed c caller) <;> cases hany : c.edgeDels.any (fun e => e.author != caller) <;>
        cases hall : room.can caller c.entity now .mutateAll <;> simp [Except.toBool]

theorem localOk_can {df : Defects} {rooms : List Room} {caller : Key} {now : Int} {c : Change} {rid : Id}
    (hroom : c.roomId = some rid) (h : localOk df rooms caller now c = true) :
    canB rooms rid caller c.entity now (needed c caller) = true := by
  unfold localOk validateChange at h
  rw [hroom] at h
  simp only at h
  unfold canB
  cases hr : getRoom rooms rid with
  | none => rw [hr] at h; simp [Except.toBool] at h
  | some room =>
    rw [hr] at h
    simp only at h
    split at h
    · simp [Except.toBool] at h
    · cases hc : room.can caller c.entity now (needed c caller) with
      | true => simp [hc]
      | false => rw [hc] at h; simp [Except.toBool] at h

/-- **the deletion records of a change whose row check passed**: the peer accepts them all iff no removed reference
    is somebody else's or the caller holds the all-rows right -/
theorem records_verdict {d : Ingest.Defects} {p : Ingest.Inst} {rooms : List Room} (hp : p.rooms = rooms)
    {caller : Key} {now : Int} {c : Change} {rid : Id} (hent : DataEnt d c.entity)
    (hnorm : ∀ room, getRoom rooms rid = some room → Normalised room)
    (hsrc : ∀ e ∈ c.edgeDels, d.edgeDelSourceUnchecked = true ∨
      Ingest.edgeDelSourceOk p (toEdgeDel c.entity (tombOf rid caller now e)) = true)
    (hheld : ∀ e ∈ c.edgeDels,
      (p.edges.find? (Ingest.edgeMatches (toEdgeDel c.entity (tombOf rid caller now e)))).map (·.key) = some e.author)
    (hcan : canB rooms rid caller c.entity now (needed c caller) = true) :
    (c.edgeDels.all fun e => Ingest.edgeDelAccepted d p (toEdgeDel c.entity (tombOf rid caller now e))) =
      (!c.edgeDels.any (fun e => e.author != caller) || canB rooms rid caller c.entity now .mutateAll) := by
  have hself : canB rooms rid caller c.entity now .mutateSelf = true := by
    cases hnd : needed c caller with
    | mutateSelf => rw [hnd] at hcan; exact hcan
    | mutateAll => rw [hnd] at hcan; exact canB_all_self hnorm hcan
  have hrec : ∀ e ∈ c.edgeDels, Ingest.edgeDelAccepted d p (toEdgeDel c.entity (tombOf rid caller now e)) =
      canB rooms rid caller c.entity now (if e.author = caller then .mutateSelf else .mutateAll) :=
    fun e he => edge_record_verdict hp hent (hsrc e he) (hheld e he)
  cases hall : canB rooms rid caller c.entity now .mutateAll with
  | true =>
    simp only [Bool.or_true]
    apply List.all_eq_true.mpr
    intro e he
    rw [hrec e he]
    split
    · exact hself
    · exact hall
  | false =>
    simp only [Bool.or_false]
    cases hany : c.edgeDels.any (fun e => e.author != caller) with
    | true =>
      obtain ⟨e, he, hne⟩ := List.any_eq_true.mp hany
      have : e.author ≠ caller := by simpa using hne
      simp only [Bool.not_true]
      apply Bool.eq_false_iff.mpr
      intro hcon
      have := List.all_eq_true.mp hcon e he
      rw [hrec e he, if_neg ‹e.author ≠ caller›, hall] at this
      cases this
    | false =>
      simp only [Bool.not_false]
      apply List.all_eq_true.mpr
      intro e he
      rw [hrec e he]
      have : e.author = caller := by
        have := List.any_eq_false.mp hany e he
        simpa using this
      rw [if_pos this]; exact hself

/-- **change-level agreement, intended behaviour on the local side.** A change that writes row `n` into room `rid`
    at date `now` is accepted locally iff a peer holding the same room definitions, the previous version of the row
    and the references the change removes accepts the row AND every deletion record the change sends. -/
theorem change_verdict_none {d : Ingest.Defects} {p : Ingest.Inst} {rooms : List Room} (hp : p.rooms = rooms)
    {caller : Key} {now : Int} {c : Change} {n : Row} {rid : Id}
    (hroom : c.roomId = some rid) (hn : n.room = some rid) (he : n.entity = c.entity) (hd : n.mdate = now)
    (hold : ∀ o, c.old = some o → o.entity = c.entity ∧ o.room ≠ none)
    (hent : DataEnt d c.entity) (hnorm : ∀ room, getRoom rooms rid = some room → Normalised room)
    (hsrc : ∀ e ∈ c.edgeDels, d.edgeDelSourceUnchecked = true ∨
      Ingest.edgeDelSourceOk p (toEdgeDel c.entity (tombOf rid caller now e)) = true)
    (hheld : ∀ e ∈ c.edgeDels,
      (p.edges.find? (Ingest.edgeMatches (toEdgeDel c.entity (tombOf rid caller now e)))).map (·.key) = some e.author) :
    localOk Defects.none rooms caller now c =
      (peerOk Ingest.Defects.none rooms caller c n &&
        c.edgeDels.all fun e => Ingest.edgeDelAccepted d p (toEdgeDel c.entity (tombOf rid caller now e))) := by
  rw [localOk_split hroom]
  have hrow := row_verdict_of (df := { Defects.none with refRemovalRightOnRowAuthor := true }) (rooms := rooms)
    (caller := caller) (now := now) (c := c) (n := n) rfl (Or.inl rfl) hroom hn he hd hold
  rw [hrow]
  cases hpk : peerOk Ingest.Defects.none rooms caller c n with
  | false => simp
  | true =>
    have hcan := localOk_can hroom (hrow.trans hpk)
    rw [records_verdict hp hent hnorm hsrc hheld hcan]

/-- **an added reference reaches the peers.** If the right check of a change passed, a peer holding the same room
    definitions, the written source row, and no reference with the same source, label and target accepts each
    reference the change adds (signed by the caller, dated `now`). -/
theorem reference_accepted {df : Defects} {d : Ingest.Defects} {p : Ingest.Inst} {rooms : List Room}
    (hp : p.rooms = rooms) {caller : Key} {now : Int} {c : Change} {rid : Id} (hroom : c.roomId = some rid)
    (hent : DataEnt d c.entity) (hnorm : ∀ room, getRoom rooms rid = some room → Normalised room)
    (hlocal : localOk df rooms caller now c = true) {e : EdgeRow} (hdate : e.cdate = now)
    (hsrc : d.edgeSourceUnchecked = true ∨
      Ingest.edgeSourceOk p rid (toInEdge c.entity (signEdge caller e)).row = true)
    (hfresh : d.edgeReplaceUnchecked = true ∨
      p.edges.find? (Ingest.edgeKeyEq (toInEdge c.entity (signEdge caller e)).row) = none) :
    Ingest.edgeAccepted d p rid p.edges (toInEdge c.entity (signEdge caller e)) = true := by
  have hcan := localOk_can hroom hlocal
  have hself : canB rooms rid caller c.entity now .mutateSelf = true := by
    cases hnd : needed c caller with
    | mutateSelf => rw [hnd] at hcan; exact hcan
    | mutateAll => rw [hnd] at hcan; exact canB_all_self hnorm hcan
  have hneed : Ingest.edgeNeed d p.edges (toInEdge c.entity (signEdge caller e)).row = .mutateSelf := by
    unfold Ingest.edgeNeed
    rcases hfresh with h | h
    · simp [h]
    · rw [h]; simp [Ingest.needRight]
  unfold Ingest.edgeAccepted
  rw [hneed, canIn_eq_canB hp]
  have h3 : (d.edgeSourceUnchecked || Ingest.edgeSourceOk p rid (toInEdge c.entity (signEdge caller e)).row) = true := by
    rcases hsrc with h | h <;> simp [h]
  rw [h3]
  simp only [toInEdge, signEdge, hdate, hent.1, hent.2, hself, Bool.and_self]

/-! ### deletions -/

/-- the record of a node deletion (`NodeDeletionEntry::build`) -/
def nodeTombOf (rid : Id) (caller : Key) (now : Int) (row : Row) : NodeTomb :=
  { room := rid, id := row.id, entity := row.entity, mdate := row.mdate, ddate := now, author := caller }

/-- the references pointing to row `handle` from other rows may all be edited by the caller -/
def incomingOk (rooms : List Room) (db : Db) (caller : Key) (now : Int) (handle : Nat) : Bool :=
  (db.edges.filter fun e => e.dest = handle && e.src ≠ handle).all fun e => mayTouch rooms db caller now e.src

theorem getRow_id {db : Db} {handle : Nat} {entity : Ent} {row : Row} (h : db.getRow handle entity = some row) :
    row.id = handle ∧ row.entity = entity := by
  have := List.find?_some h
  simpa using this

/-- **node deletion: local verdict = the peer's verdict on the record** (and, with the intended behaviour, the right
    to edit the rows that reference the deleted one). The peer holds the same room definitions and the same row
    (same author, same entity). Any switches on both sides. -/
theorem delete_node_verdict {df : Defects} {d : Ingest.Defects} {p : Ingest.Inst} {rooms : List Room}
    (hp : p.rooms = rooms) {db : Db} {caller : Key} {now : Int} {handle : Nat} {entity : Ent} {row : Row} {rid : Id}
    (hrow : db.getRow handle entity = some row) (hr : row.room = some rid) (hent : DataEnt d entity)
    {l : Ingest.NodeRow} (hheld : Ingest.localRow p.nodes handle = some l) (hlk : l.key = row.author)
    (hle : l.ent = entity) :
    (deleteNode df rooms db caller now handle entity).toBool =
      ((df.incomingRefsUnchecked || incomingOk rooms db caller now handle) &&
        Ingest.nodeDelAccepted d p (toNodeDel (nodeTombOf rid caller now row))) := by
  obtain ⟨hid, hre⟩ := getRow_id hrow
  have hacc : Ingest.nodeDelAccepted d p (toNodeDel (nodeTombOf rid caller now row)) =
      canB rooms rid caller entity now (if row.author = caller then .mutateSelf else .mutateAll) := by
    unfold Ingest.nodeDelAccepted
    simp only [toNodeDel, nodeTombOf, hid, hheld, hre, hle, hent.1, hent.2, canIn_eq_canB hp, Bool.true_and,
      Option.map_some, Ingest.needRight, hlk, decide_true, Bool.or_true]
  rw [hacc]
  unfold deleteNode incomingOk canB
  rw [hrow]
  simp only [hr]
  cases hinc : df.incomingRefsUnchecked <;>
    cases hall : (db.edges.filter fun e => e.dest = handle && e.src ≠ handle).all
        (fun e => mayTouch rooms db caller now e.src) <;>
    cases hg : getRoom rooms rid with
    | none => simp [Except.toBool]
    | some room =>
      cases hc : room.can caller entity now (if row.author = caller then .mutateSelf else .mutateAll) <;>
        simp [Except.toBool, hc]

/-- the row a reference deletion re-dates and re-signs -/
def resigned (caller : Key) (now : Int) (row : Row) : Row := { row with mdate := now, author := caller }

/-- the peer's `validate_node` on the re-signed source row, given that it holds the previous version: the own-rows
    right when that version is the caller's, the all-rows right otherwise -/
theorem resigned_row_verdict {rooms : List Room} {caller : Key} {now : Int} {row : Row} {rid : Id}
    (hr : row.room = some rid) :
    Ingest.validateNode Ingest.Defects.none (peerWith rooms []) (toInNode (resigned caller now row))
        (some (toNodeRow row)) =
      canB rooms rid caller row.entity now (if row.author = caller then .mutateSelf else .mutateAll) := by
  unfold Ingest.validateNode canB
  simp [toInNode, toNodeRow, resigned, hr, canIn_peer, Ingest.needRight, Ingest.Defects.none]

/-- **reference deletion, intended behaviour: local verdict = the peer's verdict on the re-signed source row AND on
    the deletion record.** The peer holds the same room definitions, the source row and the reference. -/
theorem delete_ref_verdict {df : Defects} (hdf : df.refRightOnEdgeAuthor = false) {d : Ingest.Defects}
    {p : Ingest.Inst} {rooms : List Room} (hp : p.rooms = rooms) {db : Db} {caller : Key} {now : Int}
    {handle : Nat} {entity : Ent} {label dest : Nat} {row : Row} {edge : EdgeRow} {rid : Id}
    (hrow : db.getRow handle entity = some row) (hr : row.room = some rid)
    (hedge : db.edges.find? (fun e => e.src = handle && e.label = label && e.dest = dest) = some edge)
    (hent : DataEnt d entity) (hnorm : ∀ room, getRoom rooms rid = some room → Normalised room)
    (hsrc : d.edgeDelSourceUnchecked = true ∨
      Ingest.edgeDelSourceOk p (toEdgeDel entity (tombOf rid caller now edge)) = true)
    (hheld : (p.edges.find? (Ingest.edgeMatches (toEdgeDel entity (tombOf rid caller now edge)))).map (·.key)
      = some edge.author) :
    (deleteRef df rooms db caller now handle entity label dest).toBool =
      (Ingest.validateNode Ingest.Defects.none (peerWith rooms []) (toInNode (resigned caller now row))
          (some (toNodeRow row)) &&
        Ingest.edgeDelAccepted d p (toEdgeDel entity (tombOf rid caller now edge))) := by
  obtain ⟨_, hre⟩ := getRow_id hrow
  rw [resigned_row_verdict hr, edge_record_verdict hp hent hsrc hheld, hre]
  have himp : canB rooms rid caller entity now .mutateAll = true → canB rooms rid caller entity now .mutateSelf = true :=
    canB_all_self hnorm
  unfold deleteRef
  rw [hrow]
  simp only [hedge, hr, hdf, Bool.false_eq_true, if_false]
  unfold canB at himp ⊢
  cases hg : getRoom rooms rid with
  | none => simp [Except.toBool]
  | some room =>
    rw [hg] at himp
    simp only at himp ⊢
    by_cases he : edge.author = caller <;> by_cases hw : row.author = caller <;>
      cases hs : room.can caller entity now .mutateSelf <;> cases ha : room.can caller entity now .mutateAll <;>
      simp_all [Except.toBool]

/-- **reference deletion, the code as it is: the local verdict is the peer's verdict on the deletion record** —
    nothing is asked for the source row that is re-signed (see `C12_breaks_refRightOnEdgeAuthor`). -/
theorem delete_ref_verdict_record {df : Defects} (hdf : df.refRightOnEdgeAuthor = true) {d : Ingest.Defects}
    {p : Ingest.Inst} {rooms : List Room} (hp : p.rooms = rooms) {db : Db} {caller : Key} {now : Int}
    {handle : Nat} {entity : Ent} {label dest : Nat} {row : Row} {edge : EdgeRow} {rid : Id}
    (hrow : db.getRow handle entity = some row) (hr : row.room = some rid)
    (hedge : db.edges.find? (fun e => e.src = handle && e.label = label && e.dest = dest) = some edge)
    (hent : DataEnt d entity)
    (hsrc : d.edgeDelSourceUnchecked = true ∨
      Ingest.edgeDelSourceOk p (toEdgeDel entity (tombOf rid caller now edge)) = true)
    (hheld : (p.edges.find? (Ingest.edgeMatches (toEdgeDel entity (tombOf rid caller now edge)))).map (·.key)
      = some edge.author) :
    (deleteRef df rooms db caller now handle entity label dest).toBool =
      Ingest.edgeDelAccepted d p (toEdgeDel entity (tombOf rid caller now edge)) := by
  rw [edge_record_verdict hp hent hsrc hheld]
  unfold deleteRef
  rw [hrow]
  simp only [hedge, hr, hdf, if_true]
  unfold canB
  cases hg : getRoom rooms rid with
  | none => simp [Except.toBool]
  | some room =>
    simp only
    by_cases he : edge.author = caller <;>
      cases hs : room.can caller entity now .mutateSelf <;> cases ha : room.can caller entity now .mutateAll <;>
      simp_all [Except.toBool]

/-- a peer that holds the room definitions `rooms` and the rows and references of `db` (`se`: the source entity of a
    reference label) -/
def peerHolding (rooms : List Room) (db : Db) (se : Nat → Ent) : Ingest.Inst :=
  { rooms, nodes := db.rows.map toNodeRow, edges := db.edges.map fun e => (toInEdge (se e.label) e).row,
    nodeLog := [], edgeLog := [] }

end Discret.LocalWrite
