import DiscretModel.Lemmas.LocalWriteFixtures
import DiscretModel.Model.Ingest
set_option linter.unusedSimpArgs false
/-
The bridge between the local write model (`Model/LocalWrite.lean`) and the peer ingestion model
(`Model/Ingest.lean`), used by C12: how a locally written row looks to a peer, and the agreement of the two
right checks on it.
-/
namespace Discret.LocalWrite
open Discret.Room

/-- a stored row as the peer's table holds it -/
def toNodeRow (r : Row) : Ingest.NodeRow :=
  { id := r.id, room := r.room, ent := r.entity, cdate := r.cdate, mdate := r.mdate, key := r.author, sg := 0,
    val := r.val.toNat }

/-- a row as it arrives at a peer: validly signed, conforming to the data model, below the size limit -/
def toInNode (r : Row) : Ingest.InNode :=
  { row := { toNodeRow r with sg := 1 }, annDate := r.mdate, annSg := 1, sigOk := true, conforms := true,
    jsonAbsent := false, big := false }

/-- a peer that holds the room definitions `rooms` -/
def peerWith (rooms : List Room) (nodes : List Ingest.NodeRow) : Ingest.Inst :=
  { rooms, nodes, edges := [], nodeLog := [], edgeLog := [] }

theorem canIn_peer (rooms : List Room) (nodes : List Ingest.NodeRow) (r : Nat) (k : Key) (e : Ent) (d : Int)
    (rt : RightType) :
    Ingest.canIn (peerWith rooms nodes) r k e d rt =
      (match getRoom rooms r with | some rm => rm.can k e d rt | none => false) := rfl

theorem needRight_eq (c : Change) (caller : Key) :
    Ingest.needRight (c.old.map fun o => (toNodeRow o).key) caller = needed c caller := by
  unfold Ingest.needRight needed
  cases c.old with
  | none => rfl
  | some o => simp [toNodeRow]

/-- the local verdict on one change, as a boolean -/
def localOk (df : Defects) (rooms : List Room) (caller : Key) (now : Int) (c : Change) : Bool :=
  (validateChange df rooms caller now c).toBool

/-- the peer's verdict (`validate_node`) on the row the change writes, given the previous version it holds -/
def peerOk (d : Ingest.Defects) (rooms : List Room) (caller : Key) (c : Change) (n : Row) : Bool :=
  Ingest.validateNode d (peerWith rooms []) (toInNode (signRow caller n)) (c.old.map toNodeRow)

theorem needed_some {c : Change} {o : Row} (h : c.old = some o) (caller : Key) :
    needed c caller = Ingest.needRight (some o.author) caller := by
  unfold needed Ingest.needRight; rw [h]

theorem needed_none {c : Change} (h : c.old = none) (caller : Key) :
    needed c caller = Ingest.needRight none caller := by
  unfold needed Ingest.needRight; rw [h]

/-- **row-level agreement, intended behaviour.** For a change that writes row `n` into room `rid` at date
    `now`, whose previous version (if any) is of the same entity and was in a room, the local right check and
    the peer's `validate_node` give the same verdict. -/
theorem row_verdict_none {rooms : List Room} {caller : Key} {now : Int} {c : Change} {n : Row} {rid : Id}
    (hroom : c.roomId = some rid) (hn : n.room = some rid) (he : n.entity = c.entity) (hd : n.mdate = now)
    (hold : ∀ o, c.old = some o → o.entity = c.entity ∧ o.room ≠ none) :
    localOk Defects.none rooms caller now c = peerOk Ingest.Defects.none rooms caller c n := by
  unfold localOk peerOk validateChange Ingest.validateNode
  cases hco : c.old with
  | none =>
    rw [needed_none hco]
    cases hr : getRoom rooms rid with
    | none => simp [hroom, hr, toInNode, signRow, toNodeRow, hn, canIn_peer, Except.toBool, Ingest.Defects.none]
    | some room =>
      cases hc : room.can caller c.entity now (Ingest.needRight none caller) <;>
        simp [hroom, hr, hc, toInNode, signRow, toNodeRow, hn, he, hd, canIn_peer, Except.toBool,
          Ingest.Defects.none, Defects.none]
  | some o =>
    obtain ⟨hoe, hor⟩ := hold o hco
    rw [needed_some hco]
    cases hro : o.room with
    | none => exact absurd hro hor
    | some oldRid =>
      cases hr : getRoom rooms rid with
      | none =>
        simp [hroom, hr, toInNode, signRow, toNodeRow, hn, canIn_peer, Except.toBool, Ingest.Defects.none]
      | some room =>
        by_cases heq : oldRid = rid
        · cases hc : room.can caller c.entity now (Ingest.needRight (some o.author) caller) <;>
            simp [hroom, hr, hc, hro, heq, hoe, toInNode, signRow, toNodeRow, hn, he, hd, canIn_peer, Except.toBool,
              Ingest.Defects.none, Defects.none]
        · cases hg : getRoom rooms oldRid with
          | none =>
            simp [hroom, hr, hg, hro, heq, hoe, toInNode, signRow, toNodeRow, hn, he, hd, canIn_peer, Except.toBool,
              Ingest.Defects.none, Defects.none]
          | some oldRoom =>
            cases hc1 : oldRoom.can caller c.entity now (Ingest.needRight (some o.author) caller) <;> cases hc : room.can caller c.entity now (Ingest.needRight (some o.author) caller) <;>
              simp [hroom, hr, hg, hc, hc1, hro, heq, hoe, toInNode, signRow, toNodeRow, hn, he, hd, canIn_peer,
                Except.toBool, Ingest.Defects.none, Defects.none]

/-- **row-level agreement, any switches.** For a change that does not move the row to another room and whose
    previous version (if any) is of the same entity and was in a room, the local right check and the peer's
    `validate_node` agree whatever the switches of the two models are. -/
theorem row_verdict_any (df : Defects) (d : Ingest.Defects) {rooms : List Room} {caller : Key} {now : Int}
    {c : Change} {n : Row} {rid : Id}
    (hroom : c.roomId = some rid) (hn : n.room = some rid) (he : n.entity = c.entity) (hd : n.mdate = now)
    (hold : ∀ o, c.old = some o → o.entity = c.entity ∧ o.room ≠ none) (hnm : NoMove c) :
    localOk df rooms caller now c = peerOk d rooms caller c n := by
  unfold localOk peerOk validateChange Ingest.validateNode
  cases hco : c.old with
  | none =>
    rw [needed_none hco]
    cases hr : getRoom rooms rid with
    | none => simp [hroom, hr, toInNode, signRow, toNodeRow, hn, canIn_peer, Except.toBool]
    | some room =>
      cases hc : room.can caller c.entity now (Ingest.needRight none caller) <;>
        simp [hroom, hr, hc, toInNode, signRow, toNodeRow, hn, he, hd, canIn_peer, Except.toBool]
  | some o =>
    obtain ⟨hoe, hor⟩ := hold o hco
    rw [needed_some hco]
    cases hro : o.room with
    | none => exact absurd hro hor
    | some oldRid =>
      have heq : oldRid = rid := hnm o oldRid rid hco hro hroom
      cases hr : getRoom rooms rid with
      | none =>
        simp [hroom, hr, toInNode, signRow, toNodeRow, hn, canIn_peer, Except.toBool]
      | some room =>
        cases hc : room.can caller c.entity now (Ingest.needRight (some o.author) caller) <;>
          simp [hroom, hr, hc, hro, heq, hoe, toInNode, signRow, toNodeRow, hn, he, hd, canIn_peer, Except.toBool]

end Discret.LocalWrite
