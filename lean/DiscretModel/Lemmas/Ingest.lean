import DiscretModel.Lemmas.IngestSpec
/-
Lemmas about the ingestion model (C02). Core Lean only.
-/
namespace Discret.Ingest
open Discret.Room (Key Ent RightType)

/-! ### rooms -/

theorem findRoom_some {s : Inst} {r : Nat} {rm : RoomT} (h : findRoom s r = some rm) :
    rm ∈ s.rooms ∧ rm.id = r := by
  unfold findRoom at h
  exact ⟨List.mem_of_find?_eq_some h, by simpa using List.find?_some h⟩

theorem canIn_iff {s : Inst} {r : Nat} {k : Key} {e : Ent} {d : Int} {rt : RightType} :
    canIn s r k e d rt = true ↔ HasRight s r k e d rt := by
  unfold canIn HasRight
  constructor
  · intro h
    split at h
    · next rm hf => exact ⟨rm, (findRoom_some hf).1, (findRoom_some hf).2, hf, h⟩
    · cases h
  · rintro ⟨rm, _, _, hf, hc⟩
    simp [hf, hc]

/-! ### `filter_existing`, pairing -/

theorem filterOne_old {nodes : List NodeRow} {a : Nat × Int × Nat} {e : Nat × Option NodeRow}
    (h : filterOne nodes a = some e) : e.1 = a.1 ∧ e.2 = localRow nodes a.1 := by
  unfold filterOne at h
  split at h
  · next hl => cases h; simp [hl]
  · next l hl =>
    split at h
    · cases h
    · split at h
      · cases h
      · cases h; simp [hl]

theorem mem_filterExisting {nodes : List NodeRow} {anns : List (Nat × Int × Nat)} {e : Nat × Option NodeRow}
    (h : e ∈ filterExisting nodes anns) : e.2 = localRow nodes e.1 := by
  unfold filterExisting at h
  obtain ⟨a, _, ha⟩ := List.mem_filterMap.mp h
  have := filterOne_old ha
  rw [this.2, this.1]

theorem takeNti_some {m : List (Nat × Option NodeRow)} {id : Nat} {old : Option NodeRow}
    {m' : List (Nat × Option NodeRow)} (h : takeNti m id = some (old, m')) :
    (id, old) ∈ m ∧ m' = m.filter (·.1 ≠ id) := by
  unfold takeNti at h
  split at h
  · next e he =>
    cases h
    have h1 := List.mem_of_find?_eq_some he
    have h2 : e.1 = id := by simpa using List.find?_some he
    refine ⟨?_, rfl⟩
    rw [← h2]; exact h1
  · cases h

theorem mem_pairBodies {ns : List InNode} {m : List (Nat × Option NodeRow)} {p : InNode × Option NodeRow}
    (h : p ∈ pairBodies ns m) : p.1 ∈ ns ∧ (p.1.row.id, p.2) ∈ m := by
  induction ns generalizing m with
  | nil => simp [pairBodies] at h
  | cons n rest ih =>
    unfold pairBodies at h
    split at h
    · next old m' ht =>
      have ht' := takeNti_some ht
      rcases List.mem_cons.mp h with h | h
      · subst h; exact ⟨List.mem_cons_self, ht'.1⟩
      · have := ih h
        refine ⟨List.mem_cons_of_mem _ this.1, ?_⟩
        rw [ht'.2] at this
        exact (List.mem_filter.mp this.2).1
    · have := ih h
      exact ⟨List.mem_cons_of_mem _ this.1, this.2⟩

/-- what `pairBodies` hands to `add_nodes`: a received body together with the local row of its id -/
theorem mem_pairs {nodes : List NodeRow} {ns : List InNode} {anns : List (Nat × Int × Nat)} {p : InNode × Option NodeRow}
    (h : p ∈ pairBodies ns (filterExisting nodes anns)) :
    p.1 ∈ ns ∧ p.2 = localRow nodes p.1.row.id := by
  have := mem_pairBodies h
  exact ⟨this.1, mem_filterExisting this.2⟩

/-! ### writing rows -/

theorem mem_writeNode {nodes : List NodeRow} {row : NodeRow} {old : Option NodeRow} {x : NodeRow}
    (h : x ∈ writeNode nodes row old) : x ∈ nodes ∨ x = row := by
  unfold writeNode at h
  split at h
  · obtain ⟨y, hy, rfl⟩ := List.mem_map.mp h
    split
    · exact Or.inr rfl
    · exact Or.inl hy
  · rcases List.mem_append.mp h with h | h
    · exact Or.inl h
    · exact Or.inr (by simpa using h)

theorem mem_writeNodes {ps : List (InNode × Option NodeRow)} {nodes : List NodeRow} {x : NodeRow}
    (h : x ∈ writeNodes nodes ps) : x ∈ nodes ∨ ∃ p ∈ ps, p.1.row = x := by
  induction ps generalizing nodes with
  | nil => exact Or.inl h
  | cons p rest ih =>
    unfold writeNodes at h
    rcases ih h with h | ⟨q, hq, rfl⟩
    · rcases mem_writeNode h with h | h
      · exact Or.inl h
      · exact Or.inr ⟨p, List.mem_cons_self, h.symm⟩
    · exact Or.inr ⟨q, List.mem_cons_of_mem _ hq, rfl⟩

/-! ### the verdict on a row entails the statement -/

theorem needRight_eq (o : Option Key) (k : Key) : needRight o k = needOn o k := rfl

theorem authGate {b : Bool} {e : Nat} (h : (b || !authEnt e) = true) (hd : b = false) : authEnt e = false := by
  subst hd; simpa using h

theorem nodeAccepted_sound {d : Defects} {s : Inst} {room : Nat} {n : InNode}
    (hs : n.sigOk = true) (h : nodeAccepted d s room (n, localRow s.nodes n.row.id) = true) :
    NodeOkD d s room n := by
  unfold nodeAccepted modelGate at h
  simp only [Bool.and_eq_true, decide_eq_true_eq, Bool.or_eq_true] at h
  obtain ⟨⟨⟨⟨hroom, hknown⟩, hauth⟩, hconf⟩, hv⟩ := h
  unfold validateNode at hv
  simp only [hroom, Bool.and_eq_true, Bool.not_eq_true'] at hv
  obtain ⟨⟨hbig, hold⟩, hcan⟩ := hv
  refine ⟨hs, hroom, hknown, fun hd => authGate (by simpa using hauth) hd, ?_, hbig, canIn_iff.mp hcan, ?_, ?_⟩
  · rcases hconf with ⟨ha, hd⟩ | hc
    · exact Or.inr ⟨hd, ha⟩
    · exact Or.inl hc
  · intro hd l hl
    rw [hl] at hold
    simp only [Bool.and_eq_true, Bool.or_eq_true, decide_eq_true_eq] at hold
    rcases hold.1 with h | h
    · rw [hd] at h; cases h
    · exact h
  · intro l hl
    rw [hl] at hold hcan
    simp only [Bool.and_eq_true, Bool.or_eq_true, decide_eq_true_eq] at hold
    constructor
    · intro hd hn
      rw [hn] at hold
      simp only at hold
      rw [hd] at hold
      exact absurd hold.2 (by simp)
    · intro r' hr' hne
      rw [hr'] at hold
      simp only [Bool.or_eq_true, decide_eq_true_eq] at hold
      rcases hold.2 with h | h
      · exact absurd h hne
      · exact canIn_iff.mp h

/-! ### the row stage: every new row, every overwritten row is accounted for -/

theorem nodeStage_rooms (d : Defects) (s : Inst) (room : Nat) (ns : List InNode) :
    (nodeStage d s room ns).1.rooms = s.rooms ∧ (nodeStage d s room ns).1.edges = s.edges ∧
    (nodeStage d s room ns).1.nodeLog = s.nodeLog ∧ (nodeStage d s room ns).1.edgeLog = s.edgeLog := by
  simp [nodeStage, addNodes]

theorem nodeStage_nodes (d : Defects) (s : Inst) (room : Nat) (ns : List InNode) :
    (nodeStage d s room ns).1.nodes =
      writeNodes s.nodes ((pairBodies ns (requested d s room ns)).filter (nodeAccepted d s room)) := by
  simp [nodeStage, addNodes]

/-- a row that is in the table after the row stage and was not before is a received row, accepted
    against the table as it was before the stage -/
theorem nodeStage_new {d : Defects} {s : Inst} {room : Nat} {ns : List InNode} {x : NodeRow}
    (hsig : ∀ n ∈ ns, n.sigOk = true)
    (hx : x ∈ (nodeStage d s room ns).1.nodes) (hnew : x ∉ s.nodes) :
    ∃ n ∈ ns, n.row = x ∧ NodeOkD d s room n := by
  rw [nodeStage_nodes] at hx
  rcases mem_writeNodes hx with h | ⟨p, hp, rfl⟩
  · exact absurd h hnew
  · obtain ⟨hp1, hacc⟩ := List.mem_filter.mp hp
    obtain ⟨hmem, hold⟩ := mem_pairs (anns := gate d s room (announce ns [])) hp1
    refine ⟨p.1, hmem, rfl, nodeAccepted_sound (hsig _ hmem) ?_⟩
    rw [← hold]; exact hacc

theorem localRow_some {nodes : List NodeRow} {id : Nat} {l : NodeRow} (h : localRow nodes id = some l) :
    l ∈ nodes ∧ l.id = id := by
  unfold localRow at h
  exact ⟨List.mem_of_find?_eq_some h, by simpa using List.find?_some h⟩

theorem localRow_none {nodes : List NodeRow} {id : Nat} (h : localRow nodes id = none) :
    ∀ x ∈ nodes, x.id ≠ id := by
  unfold localRow at h
  intro x hx
  have := List.find?_eq_none.mp h x hx
  simpa using this

theorem localRow_of_mem {nodes : List NodeRow} {x : NodeRow} (hn : NodupIds nodes) (hx : x ∈ nodes) :
    localRow nodes x.id = some x := by
  unfold NodupIds at hn
  unfold localRow
  induction nodes with
  | nil => cases hx
  | cons y rest ih =>
    simp only [List.map_cons, List.nodup_cons] at hn
    rcases List.mem_cons.mp hx with rfl | h
    · simp [List.find?]
    · have hne : y.id ≠ x.id := by
        intro he
        exact hn.1 (he ▸ List.mem_map_of_mem h)
      simp only [List.find?, hne, decide_false]
      exact ih hn.2 h

theorem writeNode_removed {nodes : List NodeRow} {row : NodeRow} {old : Option NodeRow} {x : NodeRow}
    (hx : x ∈ nodes) (hgone : x ∉ writeNode nodes row old) : ∃ l, old = some l ∧ l.id = x.id := by
  unfold writeNode at hgone
  split at hgone
  · next l =>
    refine ⟨l, rfl, ?_⟩
    by_cases h : x.id = l.id
    · exact h.symm
    · exfalso; apply hgone
      exact List.mem_map.mpr ⟨x, hx, by simp [h]⟩
  · exact absurd (List.mem_append_left _ hx) hgone

theorem writeNodes_removed {ps : List (InNode × Option NodeRow)} {nodes : List NodeRow} {x : NodeRow}
    (hx : x ∈ nodes) (hgone : x ∉ writeNodes nodes ps) :
    ∃ p ∈ ps, ∃ l, p.2 = some l ∧ l.id = x.id := by
  induction ps generalizing nodes with
  | nil => exact absurd hx hgone
  | cons p rest ih =>
    unfold writeNodes at hgone
    by_cases h : x ∈ writeNode nodes p.1.row p.2
    · obtain ⟨q, hq, l, hl⟩ := ih h hgone
      exact ⟨q, List.mem_cons_of_mem _ hq, l, hl⟩
    · obtain ⟨l, hl⟩ := writeNode_removed hx h
      exact ⟨p, List.mem_cons_self, l, hl⟩

/-- a row that was in the table and is not any more after the row stage was overwritten by a
    received row of the same id, accepted against the table as it was -/
theorem nodeStage_removed {d : Defects} {s : Inst} {room : Nat} {ns : List InNode} {x : NodeRow}
    (hn : NodupIds s.nodes) (hsig : ∀ n ∈ ns, n.sigOk = true)
    (hx : x ∈ s.nodes) (hgone : x ∉ (nodeStage d s room ns).1.nodes) :
    ∃ n ∈ ns, n.row.id = x.id ∧ localRow s.nodes n.row.id = some x ∧ NodeOkD d s room n := by
  rw [nodeStage_nodes] at hgone
  obtain ⟨p, hp, l, hl, hid⟩ := writeNodes_removed hx hgone
  obtain ⟨hp1, hacc⟩ := List.mem_filter.mp hp
  obtain ⟨hmem, hold⟩ := mem_pairs (anns := gate d s room (announce ns [])) hp1
  have hl' : localRow s.nodes p.1.row.id = some l := by rw [← hold, hl]
  have hpid : p.1.row.id = x.id := by rw [← (localRow_some hl').2, hid]
  have hlx : localRow s.nodes p.1.row.id = some x := by rw [hpid]; exact localRow_of_mem hn hx
  refine ⟨p.1, hmem, hpid, hlx, nodeAccepted_sound (hsig _ hmem) ?_⟩
  rw [← hold]; exact hacc

/-! ### unique ids are preserved -/

theorem ids_writeNode_some {nodes : List NodeRow} {row l : NodeRow} (h : l.id = row.id) :
    (writeNode nodes row (some l)).map (·.id) = nodes.map (·.id) := by
  unfold writeNode
  simp only [List.map_map]
  apply List.map_congr_left
  intro x _
  simp only [Function.comp]
  split
  · next hx => rw [hx, h]
  · rfl

theorem mem_pairBodies_filter {ns : List InNode} {m : List (Nat × Option NodeRow)} {id : Nat}
    {p : InNode × Option NodeRow} (h : p ∈ pairBodies ns (m.filter (·.1 ≠ id))) : p.1.row.id ≠ id := by
  have := (mem_pairBodies h).2
  have := (List.mem_filter.mp this).2
  simpa using this

theorem pairBodies_nodup (ns : List InNode) (m : List (Nat × Option NodeRow)) :
    ((pairBodies ns m).map (·.1.row.id)).Nodup := by
  induction ns generalizing m with
  | nil => simp [pairBodies]
  | cons n rest ih =>
    unfold pairBodies
    split
    · next old m' ht =>
      have ht' := takeNti_some ht
      simp only [List.map_cons, List.nodup_cons]
      refine ⟨?_, ih m'⟩
      intro hmem
      obtain ⟨p, hp, hpid⟩ := List.mem_map.mp hmem
      rw [ht'.2] at hp
      exact mem_pairBodies_filter hp hpid
    · exact ih m

/-- the shape of the pairs `writeNodes` receives: distinct ids, `old` is the local row of that id -/
def GoodPairs (nodes : List NodeRow) (ps : List (InNode × Option NodeRow)) : Prop :=
  (ps.map (·.1.row.id)).Nodup ∧
  ∀ p ∈ ps, (p.2 = none → p.1.row.id ∉ nodes.map (·.id)) ∧ (∀ l, p.2 = some l → l.id = p.1.row.id)

theorem writeNodes_nodup {ps : List (InNode × Option NodeRow)} {nodes : List NodeRow}
    (hn : NodupIds nodes) (hg : GoodPairs nodes ps) : NodupIds (writeNodes nodes ps) := by
  induction ps generalizing nodes with
  | nil => exact hn
  | cons p rest ih =>
    unfold writeNodes
    obtain ⟨hnd, hall⟩ := hg
    simp only [List.map_cons, List.nodup_cons] at hnd
    have hp := hall p List.mem_cons_self
    cases hold : p.2 with
    | some l =>
      have hid := hp.2 l hold
      have hids := ids_writeNode_some (nodes := nodes) hid
      apply ih
      · unfold NodupIds; rw [hids]; exact hn
      · refine ⟨hnd.2, fun q hq => ?_⟩
        have := hall q (List.mem_cons_of_mem _ hq)
        rw [hids]; exact this
    | none =>
      have hfresh := hp.1 hold
      apply ih
      · unfold NodupIds writeNode
        simp only [List.map_append, List.map_cons, List.map_nil]
        rw [List.nodup_append]
        refine ⟨hn, by simp, ?_⟩
        intro a ha b hb
        simp only [List.mem_singleton] at hb
        subst hb
        intro he; subst he; exact hfresh ha
      · refine ⟨hnd.2, fun q hq => ?_⟩
        have hq' := hall q (List.mem_cons_of_mem _ hq)
        refine ⟨fun hqn => ?_, hq'.2⟩
        unfold writeNode
        simp only [List.map_append, List.map_cons, List.map_nil, List.mem_append, List.mem_singleton]
        rintro (h | h)
        · exact hq'.1 hqn h
        · exact hnd.1 (List.mem_map.mpr ⟨q, hq, h⟩)

theorem goodPairs_pairs (nodes : List NodeRow) (ns : List InNode) (anns : List (Nat × Int × Nat))
    (f : InNode × Option NodeRow → Bool) :
    GoodPairs nodes ((pairBodies ns (filterExisting nodes anns)).filter f) := by
  constructor
  · exact List.Nodup.sublist (List.Sublist.map _ List.filter_sublist) (pairBodies_nodup _ _)
  · intro p hp
    have hold := (mem_pairs (List.mem_filter.mp hp).1).2
    constructor
    · intro hnone hmem
      rw [hnone] at hold
      obtain ⟨x, hx, hxid⟩ := List.mem_map.mp hmem
      exact localRow_none hold.symm x hx hxid
    · intro l hl
      rw [hl] at hold
      exact (localRow_some hold.symm).2

theorem nodeStage_nodup {d : Defects} {s : Inst} {room : Nat} {ns : List InNode}
    (hn : NodupIds s.nodes) : NodupIds (nodeStage d s room ns).1.nodes := by
  rw [nodeStage_nodes]
  exact writeNodes_nodup hn (goodPairs_pairs _ _ _ _)

/-! ### batch independence of the row stage -/

/-- what is announced for a received row -/
def annOf (n : InNode) : Nat × Int × Nat := (n.row.id, n.annDate, n.annSg)

theorem announce_nodup {ns : List InNode} {acc : List (Nat × Int × Nat)}
    (hd : (ns.map (·.row.id)).Nodup) (hdis : ∀ n ∈ ns, ∀ a ∈ acc, a.1 ≠ n.row.id) :
    announce ns acc = acc ++ ns.map annOf := by
  induction ns generalizing acc with
  | nil => simp [announce]
  | cons n rest ih =>
    simp only [List.map_cons, List.nodup_cons] at hd
    unfold announce
    have hnot : acc.any (fun a => decide (a.1 = n.row.id)) = false := by
      rw [List.any_eq_false]
      intro a ha
      simpa using hdis n List.mem_cons_self a ha
    rw [hnot]
    simp only [Bool.false_eq_true, if_false]
    rw [ih hd.2]
    · simp [annOf]
    · intro m hm a ha
      rcases List.mem_append.mp ha with ha | ha
      · exact hdis m (List.mem_cons_of_mem _ hm) a ha
      · simp only [List.mem_singleton] at ha
        subst ha
        intro he
        exact hd.1 (List.mem_map.mpr ⟨m, hm, he.symm⟩)

/-- `filter_existing` behind the gate, for one announced id -/
def filterOneG (d : Defects) (s : Inst) (room : Nat) (a : Nat × Int × Nat) : Option (Nat × Option NodeRow) :=
  if d.announcedDeletedRequested || !deletedIn s room a.1 then filterOne s.nodes a else none

theorem filterOneG_old {d : Defects} {s : Inst} {room : Nat} {a : Nat × Int × Nat} {e : Nat × Option NodeRow}
    (h : filterOneG d s room a = some e) : e.1 = a.1 ∧ e.2 = localRow s.nodes a.1 := by
  unfold filterOneG at h
  split at h
  · exact filterOne_old h
  · cases h

/-- gate then `filter_existing` = one pass with the gated `filterOne` -/
theorem filterExisting_gate (d : Defects) (s : Inst) (room : Nat) (anns : List (Nat × Int × Nat)) :
    filterExisting s.nodes (gate d s room anns) = anns.filterMap (filterOneG d s room) := by
  unfold filterExisting gate filterOneG
  cases hd : d.announcedDeletedRequested
  · simp only [Bool.false_eq_true, if_false, Bool.false_or]
    induction anns with
    | nil => rfl
    | cons a t ih =>
      simp only [List.filter_cons, List.filterMap_cons]
      cases hg : !deletedIn s room a.1
      · simp only [Bool.false_eq_true, if_false]; exact ih
      · simp only [if_true, List.filterMap_cons]; rw [ih]
  · simp

/-- the pair `add_nodes` receives for a row, if it passes the gate and `filter_existing` -/
def pairOf (d : Defects) (s : Inst) (room : Nat) (n : InNode) : Option (InNode × Option NodeRow) :=
  (filterOneG d s room (annOf n)).map fun e => (n, e.2)

theorem pairBodies_filterMap {d : Defects} {s : Inst} {room : Nat} {ns : List InNode} (hd : (ns.map (·.row.id)).Nodup) :
    pairBodies ns ((ns.map annOf).filterMap (filterOneG d s room)) = ns.filterMap (pairOf d s room) := by
  induction ns with
  | nil => simp [pairBodies]
  | cons n rest ih =>
    simp only [List.map_cons, List.nodup_cons] at hd
    have hrest : ∀ e ∈ (rest.map annOf).filterMap (filterOneG d s room), e.1 ≠ n.row.id := by
      intro e he hid
      obtain ⟨a, ha, hf⟩ := List.mem_filterMap.mp he
      obtain ⟨m, hm, rfl⟩ := List.mem_map.mp ha
      have := (filterOneG_old hf).1
      apply hd.1
      exact List.mem_map.mpr ⟨m, hm, by rw [← hid, this]; rfl⟩
    have hfilt : ((rest.map annOf).filterMap (filterOneG d s room)).filter (fun e => decide (e.1 ≠ n.row.id)) =
        (rest.map annOf).filterMap (filterOneG d s room) := by
      rw [List.filter_eq_self]
      intro e he
      simpa using hrest e he
    have hfind : ((rest.map annOf).filterMap (filterOneG d s room)).find? (fun e => decide (e.1 = n.row.id)) = none := by
      rw [List.find?_eq_none]
      intro e he
      simpa using hrest e he
    unfold pairBodies
    simp only [List.filterMap_cons, List.map_cons]
    cases hf : filterOneG d s room (annOf n) with
    | none =>
      have ht : takeNti ((rest.map annOf).filterMap (filterOneG d s room)) n.row.id = none := by
        unfold takeNti; rw [hfind]
      simp only [ht]
      simp only [pairOf, hf, Option.map_none]
      exact ih hd.2
    | some e =>
      have he1 : e.1 = n.row.id := (filterOneG_old hf).1
      have ht : takeNti (e :: (rest.map annOf).filterMap (filterOneG d s room)) n.row.id =
          some (e.2, (rest.map annOf).filterMap (filterOneG d s room)) := by
        unfold takeNti
        simp only [List.find?_cons, he1, decide_true, List.filter_cons, ne_eq, not_true_eq_false, decide_false,
          Bool.false_eq_true, if_false]
        rw [hfilt]
      simp only [ht]
      simp only [pairOf, hf, Option.map_some]
      rw [ih hd.2]

theorem pairOf_verdict {d : Defects} {s : Inst} {room : Nat} (n : InNode) :
    (pairOf d s room n).filter (nodeAccepted d s room) =
      if nodeVerdict d s room n then some (n, localRow s.nodes n.row.id) else none := by
  unfold pairOf nodeVerdict filterOneG
  simp only [annOf]
  by_cases hg : (d.announcedDeletedRequested || !deletedIn s room n.row.id) = true
  case neg => simp [hg]
  · simp only [hg, if_true, Bool.true_and]
    cases hf : filterOne s.nodes (n.row.id, n.annDate, n.annSg) with
    | none => simp
    | some e =>
      have he := (filterOne_old hf).2
      simp only [Option.map_some, Option.filter]
      split <;> simp_all

/-- **batch independence (rows).** When no two received rows share an id, the row stage writes
    exactly the rows whose own verdict — a function of the row and of the tables *before* the batch,
    nothing else — is positive, each over the local row of its id. -/
theorem nodeStage_eq_verdicts {d : Defects} {s : Inst} {room : Nat} {ns : List InNode}
    (hd : (ns.map (·.row.id)).Nodup) :
    (nodeStage d s room ns).1.nodes =
      writeNodes s.nodes ((ns.filter (nodeVerdict d s room)).map fun n => (n, localRow s.nodes n.row.id)) := by
  rw [nodeStage_nodes]
  unfold requested
  rw [filterExisting_gate, announce_nodup hd (by simp), List.nil_append, pairBodies_filterMap hd]
  congr 1
  clear hd
  induction ns with
  | nil => simp
  | cons n rest ih =>
    simp only [List.filterMap_cons, List.filter_cons]
    have := pairOf_verdict (d := d) (s := s) (room := room) n
    cases hp : pairOf d s room n with
    | none =>
      rw [hp] at this
      simp only [Option.filter] at this
      have hv : nodeVerdict d s room n = false := by
        cases h : nodeVerdict d s room n
        · rfl
        · rw [h] at this; simp at this
      simp [hv, ih]
    | some q =>
      rw [hp] at this
      simp only [List.filter_cons]
      cases hacc : nodeAccepted d s room q
      · simp only [Option.filter, hacc, Bool.false_eq_true, if_false] at this
        have hv : nodeVerdict d s room n = false := by
          cases h : nodeVerdict d s room n
          · rfl
          · rw [h] at this; simp at this
        simp [hv, ih]
      · simp only [Option.filter, hacc, if_true] at this
        have hv : nodeVerdict d s room n = true := by
          cases h : nodeVerdict d s room n
          · rw [h] at this; simp at this
          · rfl
        rw [hv] at this
        simp only [if_true, Option.some.injEq] at this
        simp [hv, ih, this]

/-- a row that the row stage writes passed the gate: once the gate is in place, its id carries no node deletion
    record of the synchronised room -/
theorem nodeStage_new_gate {d : Defects} {s : Inst} {room : Nat} {ns : List InNode} {x : NodeRow}
    (hd : d.announcedDeletedRequested = false)
    (hx : x ∈ (nodeStage d s room ns).1.nodes) (hnew : x ∉ s.nodes) : deletedIn s room x.id = false := by
  rw [nodeStage_nodes] at hx
  rcases mem_writeNodes hx with h | ⟨p, hp, rfl⟩
  · exact absurd h hnew
  · have hm := (mem_pairBodies (List.mem_filter.mp hp).1).2
    unfold requested at hm
    rw [filterExisting_gate] at hm
    obtain ⟨a, _, ha⟩ := List.mem_filterMap.mp hm
    have hid : a.1 = p.1.row.id := by have := (filterOneG_old ha).1; simpa using this.symm
    unfold filterOneG at ha
    split at ha
    · next hg => rw [hd, hid] at hg; simpa using hg
    · cases ha

/-! ### the reference stage -/

theorem mem_writeEdge {edges : List EdgeRow} {e x : EdgeRow} (h : x ∈ writeEdge edges e) :
    x ∈ edges ∨ x = e := by
  unfold writeEdge at h
  rcases List.mem_append.mp h with h | h
  · exact Or.inl (List.mem_filter.mp h).1
  · exact Or.inr (by simpa using h)

theorem writeEdge_removed {edges : List EdgeRow} {e x : EdgeRow} (hx : x ∈ edges)
    (hgone : x ∉ writeEdge edges e) : edgeKeyEq e x = true := by
  unfold writeEdge at hgone
  cases h : edgeKeyEq e x
  · exfalso; apply hgone
    exact List.mem_append_left _ (List.mem_filter.mpr ⟨hx, by simp [h]⟩)
  · rfl

theorem edgeAccepted_sound {d : Defects} {s : Inst} {room : Nat} {table : List EdgeRow} {e : InEdge}
    (hs : e.sigOk = true) (h : edgeAccepted d s room table e = true) :
    EdgeOkD d s room (table.find? (edgeKeyEq e.row)) e := by
  unfold edgeAccepted at h
  simp only [Bool.and_eq_true, Bool.or_eq_true] at h
  obtain ⟨⟨⟨hk, hauth⟩, hsrc⟩, hcan⟩ := h
  refine ⟨hs, hk, fun hd => authGate (by simpa using hauth) hd, ?_, ?_⟩
  · intro hd
    rcases hsrc with h | h
    · rw [hd] at h; cases h
    · unfold edgeSourceOk at h
      split at h
      · next l hl =>
        simp only [Bool.and_eq_true, decide_eq_true_eq] at h
        exact ⟨l, hl, h.1, h.2⟩
      · cases h
  · have := canIn_iff.mp hcan
    unfold edgeNeed at this
    exact this

theorem find?_keyEq {table : List EdgeRow} {e p : EdgeRow} (h : table.find? (edgeKeyEq e) = some p) :
    p ∈ table ∧ edgeKeyEq e p = true :=
  ⟨List.mem_of_find?_eq_some h, List.find?_some h⟩

/-- every reference that is in the table after the reference stage and was not before is a received
    reference, accepted against the table as it was when its turn came (`prev` = the reference it
    replaced, which is either an old one or an earlier one of the same batch) -/
theorem addEdgesLoop_new {d : Defects} {s : Inst} {room : Nat} {es : List InEdge} {edges : List EdgeRow}
    {x : EdgeRow} (hsig : ∀ e ∈ es, e.sigOk = true)
    (hx : x ∈ (addEdgesLoop d s room es edges).1) (hnew : x ∉ edges) :
    ∃ e ∈ es, e.row = x ∧ ∃ prev, EdgeOkD d s room prev e ∧
      ∀ p, prev = some p → edgeKeyEq e.row p = true ∧ (p ∈ edges ∨ ∃ e' ∈ es, e'.row = p) := by
  induction es generalizing edges with
  | nil => exact absurd hx hnew
  | cons e rest ih =>
    unfold addEdgesLoop at hx
    have hsr : ∀ e ∈ rest, e.sigOk = true := fun e he => hsig e (List.mem_cons_of_mem _ he)
    split at hx
    · next hacc =>
      by_cases hw : x ∈ writeEdge edges e.row
      · rcases mem_writeEdge hw with h | h
        · exact absurd h hnew
        · refine ⟨e, List.mem_cons_self, h.symm, _, edgeAccepted_sound (hsig e List.mem_cons_self) hacc, ?_⟩
          intro p hp
          exact ⟨(find?_keyEq hp).2, Or.inl (find?_keyEq hp).1⟩
      · obtain ⟨e', he', hrow, prev, hok, hprev⟩ := ih hsr hx hw
        refine ⟨e', List.mem_cons_of_mem _ he', hrow, prev, hok, ?_⟩
        intro p hp
        obtain ⟨h1, h2⟩ := hprev p hp
        refine ⟨h1, ?_⟩
        rcases h2 with h2 | ⟨e'', he'', h2⟩
        · rcases mem_writeEdge h2 with h2 | h2
          · exact Or.inl h2
          · exact Or.inr ⟨e, List.mem_cons_self, h2.symm⟩
        · exact Or.inr ⟨e'', List.mem_cons_of_mem _ he'', h2⟩
    · obtain ⟨e', he', hrow, prev, hok, hprev⟩ := ih hsr hx hnew
      refine ⟨e', List.mem_cons_of_mem _ he', hrow, prev, hok, ?_⟩
      intro p hp
      obtain ⟨h1, h2⟩ := hprev p hp
      refine ⟨h1, ?_⟩
      rcases h2 with h2 | ⟨e'', he'', h2⟩
      · exact Or.inl h2
      · exact Or.inr ⟨e'', List.mem_cons_of_mem _ he'', h2⟩

/-- a reference that disappears in the reference stage was replaced by a received reference with the
    same source, label and target, accepted against a table in which such a reference was present -/
theorem addEdgesLoop_removed {d : Defects} {s : Inst} {room : Nat} {es : List InEdge} {edges : List EdgeRow}
    {x : EdgeRow} (hsig : ∀ e ∈ es, e.sigOk = true)
    (hx : x ∈ edges) (hgone : x ∉ (addEdgesLoop d s room es edges).1) :
    ∃ e ∈ es, edgeKeyEq e.row x = true ∧ ∃ p, edgeKeyEq e.row p = true ∧ EdgeOkD d s room (some p) e ∧
      (p ∈ edges ∨ ∃ e' ∈ es, e'.row = p) := by
  induction es generalizing edges with
  | nil => exact absurd hx hgone
  | cons e rest ih =>
    unfold addEdgesLoop at hgone
    have hsr : ∀ e ∈ rest, e.sigOk = true := fun e he => hsig e (List.mem_cons_of_mem _ he)
    split at hgone
    · next hacc =>
      by_cases hw : x ∈ writeEdge edges e.row
      · obtain ⟨e', he', hk, p, hp, hok, hm⟩ := ih hsr hw hgone
        refine ⟨e', List.mem_cons_of_mem _ he', hk, p, hp, hok, ?_⟩
        rcases hm with hm | ⟨e'', he'', hm⟩
        · rcases mem_writeEdge hm with hm | hm
          · exact Or.inl hm
          · exact Or.inr ⟨e, List.mem_cons_self, hm.symm⟩
        · exact Or.inr ⟨e'', List.mem_cons_of_mem _ he'', hm⟩
      · have hk := writeEdge_removed hx hw
        have hok := edgeAccepted_sound (hsig e List.mem_cons_self) hacc
        cases hf : edges.find? (edgeKeyEq e.row) with
        | none =>
          have := List.find?_eq_none.mp hf x hx
          rw [hk] at this; exact absurd rfl this
        | some p =>
          rw [hf] at hok
          exact ⟨e, List.mem_cons_self, hk, p, (find?_keyEq hf).2, hok, Or.inl (find?_keyEq hf).1⟩
    · obtain ⟨e', he', hk, p, hp, hok, hm⟩ := ih hsr hx hgone
      refine ⟨e', List.mem_cons_of_mem _ he', hk, p, hp, hok, ?_⟩
      rcases hm with hm | ⟨e'', he'', hm⟩
      · exact Or.inl hm
      · exact Or.inr ⟨e'', List.mem_cons_of_mem _ he'', hm⟩

/-! ### deletion records -/

theorem mem_splitFirst {recs : List InNodeDel} {seen : List Nat} {r : InNodeDel} :
    (r ∈ (splitFirst recs seen).1 → r ∈ recs) ∧ (r ∈ (splitFirst recs seen).2 → r ∈ recs) := by
  induction recs generalizing seen with
  | nil => simp [splitFirst]
  | cons x rest ih =>
    unfold splitFirst
    split
    · refine ⟨fun h => List.mem_cons_of_mem _ (ih.1 h), fun h => ?_⟩
      rcases List.mem_cons.mp h with h | h
      · subst h; exact List.mem_cons_self
      · exact List.mem_cons_of_mem _ (ih.2 h)
    · refine ⟨fun h => ?_, fun h => List.mem_cons_of_mem _ (ih.2 h)⟩
      rcases List.mem_cons.mp h with h | h
      · subst h; exact List.mem_cons_self
      · exact List.mem_cons_of_mem _ (ih.1 h)

/-- records with pairwise distinct ids (none seen before) travel in one message -/
theorem splitFirst_nodup {recs : List InNodeDel} {seen : List Nat} (hd : (recs.map (·.entry.id)).Nodup)
    (hs : ∀ r ∈ recs, r.entry.id ∉ seen) : splitFirst recs seen = (recs, []) := by
  induction recs generalizing seen with
  | nil => rfl
  | cons x rest ih =>
    simp only [List.map_cons, List.nodup_cons] at hd
    unfold splitFirst
    have hx : seen.contains x.entry.id = false := by
      cases h : seen.contains x.entry.id
      · rfl
      · exact absurd (List.contains_iff_mem.mp h) (hs x List.mem_cons_self)
    simp only [hx, Bool.false_eq_true, if_false]
    rw [ih hd.2]
    intro r hr hm
    rcases List.mem_cons.mp hm with h | h
    · exact hd.1 (List.mem_map.mpr ⟨r, hr, h⟩)
    · exact hs r (List.mem_cons_of_mem _ hr) h

theorem nodeDelAccepted_sound {d : Defects} {s : Inst} {room : Nat} {r : InNodeDel}
    (hs : r.sigOk = true) (hroom : d.delRoomUnchecked = false → r.entry.room = room)
    (h : nodeDelAccepted d s r.entry = true) : NodeDelOkD d s room r := by
  unfold nodeDelAccepted at h
  simp only [Bool.and_eq_true, Bool.or_eq_true] at h
  obtain ⟨⟨⟨hk, hauth⟩, he⟩, hcan⟩ := h
  refine ⟨hs, hroom, hk, fun hd => authGate (by simpa using hauth) hd, ?_, canIn_iff.mp hcan⟩
  intro hd l hl
  rcases he with h | h
  · rw [hd] at h; cases h
  · rw [hl] at h; simpa using h

theorem foldl_applyNodeDel {L : List InNodeDel} {s : Inst} :
    let s' := L.foldl (fun st r => applyNodeDel st r.entry) s
    s'.rooms = s.rooms ∧ s'.edges = s.edges ∧ s'.edgeLog = s.edgeLog ∧
    (∀ x, x ∈ s'.nodes ↔ x ∈ s.nodes ∧ ∀ r ∈ L, ¬(x.room = some r.entry.room ∧ x.id = r.entry.id)) ∧
    (∀ t, t ∈ s'.nodeLog → t ∈ s.nodeLog ∨ ∃ r ∈ L, r.entry = t) := by
  induction L generalizing s with
  | nil => simp
  | cons r rest ih =>
    simp only [List.foldl_cons]
    obtain ⟨h1, h2, h3, h4, h5⟩ := ih (s := applyNodeDel s r.entry)
    refine ⟨h1, h2, h3, ?_, ?_⟩
    · intro x
      rw [h4 x]
      simp only [applyNodeDel, List.mem_filter, Bool.not_eq_true', Bool.and_eq_false_iff, decide_eq_false_iff_not,
        List.mem_cons, forall_eq_or_imp]
      constructor
      · rintro ⟨⟨hx, hn⟩, hall⟩
        refine ⟨hx, ?_, hall⟩
        rintro ⟨a, b⟩
        rcases hn with h | h
        · exact h a
        · exact h b
      · rintro ⟨hx, hn, hall⟩
        refine ⟨⟨hx, ?_⟩, hall⟩
        by_cases a : x.room = some r.entry.room
        · exact Or.inr (fun b => hn ⟨a, b⟩)
        · exact Or.inl a
    · intro t ht
      rcases h5 t ht with h | ⟨q, hq, rfl⟩
      · simp only [applyNodeDel, List.mem_append, List.mem_filter, List.mem_singleton] at h
        rcases h with h | h
        · exact Or.inl h.1
        · exact Or.inr ⟨r, List.mem_cons_self, h.symm⟩
      · exact Or.inr ⟨q, List.mem_cons_of_mem _ hq, rfl⟩

theorem foldl_applyNodeDel_sublist {L : List InNodeDel} {s : Inst} :
    (L.foldl (fun st r => applyNodeDel st r.entry) s).nodes.Sublist s.nodes := by
  induction L generalizing s with
  | nil => exact List.Sublist.refl _
  | cons r rest ih =>
    simp only [List.foldl_cons]
    exact List.Sublist.trans ih (by simp only [applyNodeDel]; exact List.filter_sublist)

/-- one message of node deletion records: rows only disappear, and only under an accepted record naming their
    room and id; the log only gains accepted records; nothing else changes -/
theorem deleteBatch_sound {d : Defects} {s : Inst} {room : Nat} {recs : List InNodeDel}
    (hsig : ∀ r ∈ recs, r.sigOk = true) (hroom : ∀ r ∈ recs, d.delRoomUnchecked = false → r.entry.room = room) :
    let s' := deleteBatch d s recs
    s'.rooms = s.rooms ∧ s'.edges = s.edges ∧ s'.edgeLog = s.edgeLog ∧
    s'.nodes.Sublist s.nodes ∧
    (∀ x ∈ s.nodes, x ∉ s'.nodes → ∃ r ∈ recs, x.room = some r.entry.room ∧ x.id = r.entry.id ∧ NodeDelOkD d s room r) ∧
    (∀ t ∈ s'.nodeLog, t ∉ s.nodeLog → ∃ r ∈ recs, r.entry = t ∧ NodeDelOkD d s room r) := by
  intro s'
  obtain ⟨h1, h2, h3, h4, h5⟩ := foldl_applyNodeDel
    (L := recs.filter fun r => nodeDelAccepted d s r.entry) (s := s)
  have hacc : ∀ r ∈ recs.filter (fun r => nodeDelAccepted d s r.entry),
      r ∈ recs ∧ NodeDelOkD d s room r := by
    intro r hr
    obtain ⟨hr1, hr2⟩ := List.mem_filter.mp hr
    exact ⟨hr1, nodeDelAccepted_sound (hsig r hr1) (hroom r hr1) hr2⟩
  refine ⟨h1, h2, h3, foldl_applyNodeDel_sublist, ?_, ?_⟩
  · intro x hx hgone
    have : ∃ r ∈ recs.filter (fun r => nodeDelAccepted d s r.entry),
        x.room = some r.entry.room ∧ x.id = r.entry.id := by
      apply Classical.byContradiction
      intro hne
      apply hgone
      exact (h4 x).mpr ⟨hx, fun r hr hm => hne ⟨r, hr, hm⟩⟩
    obtain ⟨r, hr, hm⟩ := this
    exact ⟨r, (hacc r hr).1, hm.1, hm.2, (hacc r hr).2⟩
  · intro t ht hnew
    rcases h5 t ht with h | ⟨r, hr, rfl⟩
    · exact absurd h hnew
    · exact ⟨r, (hacc r hr).1, rfl, (hacc r hr).2⟩

/-- the tables at the turn of a record of an answer: the room definitions of the stage, and rows of the stage
    (some may already have been deleted by earlier records of the same answer) -/
def Turn (s si : Inst) : Prop := si.rooms = s.rooms ∧ si.nodes.Sublist s.nodes

theorem Turn.refl (s : Inst) : Turn s s := ⟨rfl, List.Sublist.refl _⟩

/-- the loop of `delete_nodes`: every row that disappears and every log entry that appears is due to a record that was
    accepted against the tables as they were at its turn -/
theorem deleteNodesLoop_sound {d : Defects} {room : Nat} (fuel : Nat) {s : Inst} {recs : List InNodeDel}
    (hsig : ∀ r ∈ recs, r.sigOk = true) (hroom : ∀ r ∈ recs, d.delRoomUnchecked = false → r.entry.room = room) :
    let s' := deleteNodesLoop d fuel s recs
    s'.rooms = s.rooms ∧ s'.edges = s.edges ∧ s'.edgeLog = s.edgeLog ∧
    s'.nodes.Sublist s.nodes ∧
    (∀ x ∈ s.nodes, x ∉ s'.nodes → ∃ r ∈ recs, x.room = some r.entry.room ∧ x.id = r.entry.id ∧
      ∃ si, Turn s si ∧ x ∈ si.nodes ∧ NodeDelOkD d si room r) ∧
    (∀ t ∈ s'.nodeLog, t ∉ s.nodeLog → ∃ r ∈ recs, r.entry = t ∧ ∃ si, Turn s si ∧ NodeDelOkD d si room r) := by
  induction fuel generalizing s recs with
  | zero =>
    show (s.rooms = s.rooms ∧ s.edges = s.edges ∧ s.edgeLog = s.edgeLog ∧ s.nodes.Sublist s.nodes ∧ _ ∧ _)
    exact ⟨rfl, rfl, rfl, List.Sublist.refl _, fun x hx hg => absurd hx hg, fun t ht hn => absurd ht hn⟩
  | succ fuel ih =>
    have hb1 : ∀ r ∈ (splitFirst recs []).1, r ∈ recs := fun r hr => mem_splitFirst.1 hr
    have hb2 : ∀ r ∈ (splitFirst recs []).2, r ∈ recs := fun r hr => mem_splitFirst.2 hr
    obtain ⟨b1, b2, b3, b4, b5, b6⟩ := deleteBatch_sound (d := d) (s := s) (room := room)
      (recs := (splitFirst recs []).1) (fun r hr => hsig r (hb1 r hr)) (fun r hr => hroom r (hb1 r hr))
    simp only [deleteNodesLoop]
    split
    · refine ⟨b1, b2, b3, b4, ?_, ?_⟩
      · intro x hx hg
        obtain ⟨r, hr, e1, e2, hok⟩ := b5 x hx hg
        exact ⟨r, hb1 r hr, e1, e2, s, Turn.refl s, hx, hok⟩
      · intro t ht hn
        obtain ⟨r, hr, e, hok⟩ := b6 t ht hn
        exact ⟨r, hb1 r hr, e, s, Turn.refl s, hok⟩
    · obtain ⟨c1, c2, c3, c4, c5, c6⟩ := ih (s := deleteBatch d s (splitFirst recs []).1)
        (recs := (splitFirst recs []).2) (fun r hr => hsig r (hb2 r hr)) (fun r hr => hroom r (hb2 r hr))
      have lift : ∀ si, Turn (deleteBatch d s (splitFirst recs []).1) si → Turn s si :=
        fun si h => ⟨h.1.trans b1, h.2.trans b4⟩
      refine ⟨c1.trans b1, c2.trans b2, c3.trans b3, c4.trans b4, ?_, ?_⟩
      · intro x hx hg
        by_cases h1 : x ∈ (deleteBatch d s (splitFirst recs []).1).nodes
        · obtain ⟨r, hr, e1, e2, si, ht, hxi, hok⟩ := c5 x h1 hg
          exact ⟨r, hb2 r hr, e1, e2, si, lift si ht, hxi, hok⟩
        · obtain ⟨r, hr, e1, e2, hok⟩ := b5 x hx h1
          exact ⟨r, hb1 r hr, e1, e2, s, Turn.refl s, hx, hok⟩
      · intro t ht hn
        by_cases h1 : t ∈ (deleteBatch d s (splitFirst recs []).1).nodeLog
        · obtain ⟨r, hr, e, hok⟩ := b6 t h1 hn
          exact ⟨r, hb1 r hr, e, s, Turn.refl s, hok⟩
        · obtain ⟨r, hr, e, si, hti, hok⟩ := c6 t ht h1
          exact ⟨r, hb2 r hr, e, si, lift si hti, hok⟩

/-- the node deletion stage -/
theorem deleteNodes_sound {d : Defects} {s : Inst} {room : Nat} {recs : List InNodeDel}
    (hsig : ∀ r ∈ recs, r.sigOk = true) (hroom : ∀ r ∈ recs, d.delRoomUnchecked = false → r.entry.room = room) :
    let s' := deleteNodes d s recs
    s'.rooms = s.rooms ∧ s'.edges = s.edges ∧ s'.edgeLog = s.edgeLog ∧
    s'.nodes.Sublist s.nodes ∧
    (∀ x ∈ s.nodes, x ∉ s'.nodes → ∃ r ∈ recs, x.room = some r.entry.room ∧ x.id = r.entry.id ∧
      ∃ si, Turn s si ∧ x ∈ si.nodes ∧ NodeDelOkD d si room r) ∧
    (∀ t ∈ s'.nodeLog, t ∉ s.nodeLog → ∃ r ∈ recs, r.entry = t ∧ ∃ si, Turn s si ∧ NodeDelOkD d si room r) :=
  deleteNodesLoop_sound recs.length hsig hroom

theorem edgeDelAccepted_sound {d : Defects} {s : Inst} {room : Nat} {r : InEdgeDel}
    (hs : r.sigOk = true) (hroom : d.delRoomUnchecked = false → r.entry.room = room)
    (h : edgeDelAccepted d s r.entry = true) : EdgeDelOkD d s room r := by
  unfold edgeDelAccepted at h
  simp only [Bool.and_eq_true, Bool.or_eq_true] at h
  obtain ⟨⟨⟨hk, hauth⟩, he⟩, hcan⟩ := h
  refine ⟨hs, hroom, hk, fun hd => authGate (by simpa using hauth) hd, ?_, canIn_iff.mp hcan⟩
  intro hd l hl
  rcases he with h | h
  · rw [hd] at h; cases h
  · unfold edgeDelSourceOk at h
    rw [hl] at h
    simpa using h

theorem foldl_applyEdgeDel {L : List InEdgeDel} {s : Inst} :
    let s' := L.foldl (fun st r => applyEdgeDel st r.entry) s
    s'.rooms = s.rooms ∧ s'.nodes = s.nodes ∧ s'.nodeLog = s.nodeLog ∧
    (∀ x, x ∈ s'.edges ↔ x ∈ s.edges ∧ ∀ r ∈ L, edgeMatches r.entry x = false) ∧
    (∀ t, t ∈ s'.edgeLog → t ∈ s.edgeLog ∨ ∃ r ∈ L, r.entry = t) := by
  induction L generalizing s with
  | nil => simp
  | cons r rest ih =>
    simp only [List.foldl_cons]
    obtain ⟨h1, h2, h3, h4, h5⟩ := ih (s := applyEdgeDel s r.entry)
    refine ⟨h1, h2, h3, ?_, ?_⟩
    · intro x
      rw [h4 x]
      simp only [applyEdgeDel, List.mem_filter, Bool.not_eq_true', List.mem_cons, forall_eq_or_imp]
      constructor
      · rintro ⟨⟨hx, hn⟩, hall⟩; exact ⟨hx, hn, hall⟩
      · rintro ⟨hx, hn, hall⟩; exact ⟨⟨hx, hn⟩, hall⟩
    · intro t ht
      rcases h5 t ht with h | ⟨q, hq, rfl⟩
      · simp only [applyEdgeDel, List.mem_append, List.mem_filter, List.mem_singleton] at h
        rcases h with h | h
        · exact Or.inl h.1
        · exact Or.inr ⟨r, List.mem_cons_self, h.symm⟩
      · exact Or.inr ⟨q, List.mem_cons_of_mem _ hq, rfl⟩

/-- the reference deletion stage -/
theorem deleteEdges_sound {d : Defects} {s : Inst} {room : Nat} {recs : List InEdgeDel}
    (hsig : ∀ r ∈ recs, r.sigOk = true) (hroom : ∀ r ∈ recs, d.delRoomUnchecked = false → r.entry.room = room) :
    let s' := deleteEdges d s recs
    s'.rooms = s.rooms ∧ s'.nodes = s.nodes ∧ s'.nodeLog = s.nodeLog ∧
    (∀ x ∈ s'.edges, x ∈ s.edges) ∧
    (∀ x ∈ s.edges, x ∉ s'.edges → ∃ r ∈ recs, edgeMatches r.entry x = true ∧ EdgeDelOkD d s room r) ∧
    (∀ t ∈ s'.edgeLog, t ∉ s.edgeLog → ∃ r ∈ recs, r.entry = t ∧ EdgeDelOkD d s room r) := by
  intro s'
  obtain ⟨h1, h2, h3, h4, h5⟩ := foldl_applyEdgeDel
    (L := recs.filter fun r => edgeDelAccepted d s r.entry) (s := s)
  have hacc : ∀ r ∈ recs.filter (fun r => edgeDelAccepted d s r.entry),
      r ∈ recs ∧ EdgeDelOkD d s room r := by
    intro r hr
    obtain ⟨hr1, hr2⟩ := List.mem_filter.mp hr
    exact ⟨hr1, edgeDelAccepted_sound (hsig r hr1) (hroom r hr1) hr2⟩
  refine ⟨h1, h2, h3, fun x hx => ((h4 x).mp hx).1, ?_, ?_⟩
  · intro x hx hgone
    have : ∃ r ∈ recs.filter (fun r => edgeDelAccepted d s r.entry), edgeMatches r.entry x = true := by
      apply Classical.byContradiction
      intro hne
      apply hgone
      refine (h4 x).mpr ⟨hx, fun r hr => ?_⟩
      cases hm : edgeMatches r.entry x
      · rfl
      · exact absurd ⟨r, hr, hm⟩ hne
    obtain ⟨r, hr, hm⟩ := this
    exact ⟨r, (hacc r hr).1, hm, (hacc r hr).2⟩
  · intro t ht hnew
    rcases h5 t ht with h | ⟨r, hr, rfl⟩
    · exact absurd h hnew
    · exact ⟨r, (hacc r hr).1, rfl, (hacc r hr).2⟩

theorem keepEdgeDels_sub {d : Defects} {room : Nat} {l : List InEdgeDel} {r : InEdgeDel}
    (h : r ∈ keepEdgeDels d room l) : r ∈ l ∧ (d.delRoomUnchecked = false → r.entry.room = room) := by
  unfold keepEdgeDels at h
  split at h
  · next hd => exact ⟨h, fun hf => by rw [hf] at hd; cases hd⟩
  · obtain ⟨h1, h2⟩ := List.mem_filter.mp h
    exact ⟨h1, fun _ => by simpa using h2⟩

theorem keepNodeDels_sub {d : Defects} {room : Nat} {l : List InNodeDel} {r : InNodeDel}
    (h : r ∈ keepNodeDels d room l) : r ∈ l ∧ (d.delRoomUnchecked = false → r.entry.room = room) := by
  unfold keepNodeDels at h
  split at h
  · next hd => exact ⟨h, fun hf => by rw [hf] at hd; cases hd⟩
  · obtain ⟨h1, h2⟩ := List.mem_filter.mp h
    exact ⟨h1, fun _ => by simpa using h2⟩

/-! ### fields a stage does not touch; unique ids through a whole day -/

theorem deleteEdges_fields (d : Defects) (s : Inst) (recs : List InEdgeDel) :
    (deleteEdges d s recs).rooms = s.rooms ∧ (deleteEdges d s recs).nodes = s.nodes ∧
    (deleteEdges d s recs).nodeLog = s.nodeLog := by
  obtain ⟨h1, h2, h3, _, _⟩ := foldl_applyEdgeDel
    (L := recs.filter fun r => edgeDelAccepted d s r.entry) (s := s)
  exact ⟨h1, h2, h3⟩

theorem deleteNodes_fields (d : Defects) (s : Inst) (recs : List InNodeDel) :
    (deleteNodes d s recs).rooms = s.rooms ∧ (deleteNodes d s recs).edges = s.edges ∧
    (deleteNodes d s recs).edgeLog = s.edgeLog := by
  -- signatures and rooms play no part in what a stage leaves untouched: use the room each record names
  have hloop : ∀ (fuel : Nat) (s : Inst) (recs : List InNodeDel),
      (deleteNodesLoop d fuel s recs).rooms = s.rooms ∧ (deleteNodesLoop d fuel s recs).edges = s.edges ∧
      (deleteNodesLoop d fuel s recs).edgeLog = s.edgeLog ∧ (deleteNodesLoop d fuel s recs).nodes.Sublist s.nodes := by
    intro fuel
    induction fuel with
    | zero => intro s recs; exact ⟨rfl, rfl, rfl, List.Sublist.refl _⟩
    | succ fuel ih =>
      intro s recs
      obtain ⟨h1, h2, h3, _, _⟩ := foldl_applyNodeDel
        (L := (splitFirst recs []).1.filter fun r => nodeDelAccepted d s r.entry) (s := s)
      have h4 : (deleteBatch d s (splitFirst recs []).1).nodes.Sublist s.nodes := foldl_applyNodeDel_sublist
      simp only [deleteNodesLoop]
      split
      · exact ⟨h1, h2, h3, h4⟩
      · obtain ⟨c1, c2, c3, c4⟩ := ih (deleteBatch d s (splitFirst recs []).1) (splitFirst recs []).2
        exact ⟨c1.trans h1, c2.trans h2, c3.trans h3, c4.trans h4⟩
  obtain ⟨a, b, c, _⟩ := hloop recs.length s recs
  exact ⟨a, b, c⟩

theorem deleteNodes_sublist (d : Defects) (s : Inst) (recs : List InNodeDel) :
    (deleteNodes d s recs).nodes.Sublist s.nodes := by
  have hloop : ∀ (fuel : Nat) (s : Inst) (recs : List InNodeDel), (deleteNodesLoop d fuel s recs).nodes.Sublist s.nodes := by
    intro fuel
    induction fuel with
    | zero => intro s recs; exact List.Sublist.refl _
    | succ fuel ih =>
      intro s recs
      have h4 : (deleteBatch d s (splitFirst recs []).1).nodes.Sublist s.nodes := foldl_applyNodeDel_sublist
      simp only [deleteNodesLoop]
      split
      · exact h4
      · exact (ih _ _).trans h4
  exact hloop _ _ _

theorem deleteNodes_nodup {d : Defects} {s : Inst} {recs : List InNodeDel}
    (hn : NodupIds s.nodes) : NodupIds (deleteNodes d s recs).nodes :=
  List.Nodup.sublist (List.Sublist.map _ (deleteNodes_sublist d s recs)) hn

theorem edgeStage_fields (d : Defects) (s : Inst) (room : Nat) (es : List InEdge) :
    (edgeStage d s room es).1.rooms = s.rooms ∧ (edgeStage d s room es).1.nodes = s.nodes ∧
    (edgeStage d s room es).1.nodeLog = s.nodeLog ∧ (edgeStage d s room es).1.edgeLog = s.edgeLog := by
  simp [edgeStage]

/-- the final state of a synchronised day is the state after one of its stages; a stage is only
    reached when every record of the earlier stages carried a valid signature -/
theorem syncDay_cases (d : Defects) (s : Inst) (room : Nat) (b : Batch) :
    (syncDay d s room b).1 = s ∨
    ((∀ r ∈ keepEdgeDels d room b.edgeDels, r.sigOk = true) ∧ (syncDay d s room b).1 = st1 d s room b) ∨
    ((∀ r ∈ keepEdgeDels d room b.edgeDels, r.sigOk = true) ∧ (∀ r ∈ keepNodeDels d room b.nodeDels, r.sigOk = true) ∧
      (syncDay d s room b).1 = st2 d s room b) ∨
    ((∀ r ∈ keepEdgeDels d room b.edgeDels, r.sigOk = true) ∧ (∀ r ∈ keepNodeDels d room b.nodeDels, r.sigOk = true) ∧
      (∀ n ∈ b.nodes, n.sigOk = true) ∧ (syncDay d s room b).1 = st3 d s room b) ∨
    ((∀ r ∈ keepEdgeDels d room b.edgeDels, r.sigOk = true) ∧ (∀ r ∈ keepNodeDels d room b.nodeDels, r.sigOk = true) ∧
      (∀ n ∈ b.nodes, n.sigOk = true) ∧ (∀ e ∈ b.edges, e.sigOk = true) ∧
      (syncDay d s room b).1 = (edgeStage d (st3 d s room b) room b.edges).1) := by
  unfold syncDay
  by_cases h1 : (keepEdgeDels d room b.edgeDels).all (·.sigOk) = true
  · have h1' : ∀ r ∈ keepEdgeDels d room b.edgeDels, r.sigOk = true := by simpa using h1
    simp only [h1, Bool.not_true, Bool.false_eq_true, if_false]
    by_cases h2 : (keepNodeDels d room b.nodeDels).all (·.sigOk) = true
    · have h2' : ∀ r ∈ keepNodeDels d room b.nodeDels, r.sigOk = true := by simpa using h2
      simp only [h2, Bool.not_true, Bool.false_eq_true, if_false]
      unfold syncNodesEdges
      split
      · exact Or.inr (Or.inr (Or.inl ⟨h1', h2', rfl⟩))
      · by_cases h3 : b.nodes.all (·.sigOk) = true
        · have h3' : ∀ n ∈ b.nodes, n.sigOk = true := by simpa using h3
          simp only [h3, Bool.not_true, Bool.false_eq_true, if_false]
          split
          · exact Or.inr (Or.inr (Or.inr (Or.inl ⟨h1', h2', h3', rfl⟩)))
          · by_cases h4 : b.edges.all (·.sigOk) = true
            · have h4' : ∀ e ∈ b.edges, e.sigOk = true := by simpa using h4
              simp only [h4, Bool.not_true, Bool.false_eq_true, if_false]
              split
              · exact Or.inr (Or.inr (Or.inr (Or.inl ⟨h1', h2', h3', rfl⟩)))
              · exact Or.inr (Or.inr (Or.inr (Or.inr ⟨h1', h2', h3', h4', rfl⟩)))
            · simp only [h4, Bool.not_false, if_true]
              exact Or.inr (Or.inr (Or.inr (Or.inl ⟨h1', h2', h3', rfl⟩)))
        · simp only [h3, Bool.not_false, if_true]
          exact Or.inr (Or.inr (Or.inl ⟨h1', h2', rfl⟩))
    · simp only [h2, Bool.not_false, if_true]
      exact Or.inr (Or.inl ⟨h1', rfl⟩)
  · simp only [h1, Bool.not_false, if_true]
    exact Or.inl trivial

theorem st1_fields (d : Defects) (s : Inst) (room : Nat) (b : Batch) :
    (st1 d s room b).rooms = s.rooms ∧ (st1 d s room b).nodes = s.nodes ∧ (st1 d s room b).nodeLog = s.nodeLog :=
  deleteEdges_fields d s (keepEdgeDels d room b.edgeDels)

theorem st2_fields (d : Defects) (s : Inst) (room : Nat) (b : Batch) :
    (st2 d s room b).rooms = s.rooms ∧ (st2 d s room b).edges = (st1 d s room b).edges ∧
    (st2 d s room b).edgeLog = (st1 d s room b).edgeLog := by
  obtain ⟨h1, h2, h3⟩ := deleteNodes_fields d (st1 d s room b) (keepNodeDels d room b.nodeDels)
  exact ⟨h1.trans (st1_fields d s room b).1, h2, h3⟩

theorem st3_fields (d : Defects) (s : Inst) (room : Nat) (b : Batch) :
    (st3 d s room b).rooms = s.rooms ∧ (st3 d s room b).edges = (st1 d s room b).edges ∧
    (st3 d s room b).nodeLog = (st2 d s room b).nodeLog ∧ (st3 d s room b).edgeLog = (st1 d s room b).edgeLog := by
  obtain ⟨h1, h2, h3, h4⟩ := nodeStage_rooms d (st2 d s room b) room b.nodes
  obtain ⟨g1, g2, g3⟩ := st2_fields d s room b
  exact ⟨h1.trans g1, h2.trans g2, h3, h4.trans g3⟩

theorem st2_nodup {d : Defects} {s : Inst} {room : Nat} {b : Batch} (hn : NodupIds s.nodes) :
    NodupIds (st2 d s room b).nodes := by
  unfold st2
  apply deleteNodes_nodup
  rw [(st1_fields d s room b).2.1]; exact hn

theorem st3_nodup {d : Defects} {s : Inst} {room : Nat} {b : Batch} (hn : NodupIds s.nodes) :
    NodupIds (st3 d s room b).nodes := nodeStage_nodup (st2_nodup hn)

/-- **ingestion never changes a room definition** -/
theorem syncDay_rooms (d : Defects) (s : Inst) (room : Nat) (b : Batch) :
    (syncDay d s room b).1.rooms = s.rooms := by
  rcases syncDay_cases d s room b with h | ⟨_, h⟩ | ⟨_, _, h⟩ | ⟨_, _, _, h⟩ | ⟨_, _, _, _, h⟩ <;> rw [h]
  · exact (st1_fields d s room b).1
  · exact (st2_fields d s room b).1
  · exact (st3_fields d s room b).1
  · exact (edgeStage_fields d _ room b.edges).1.trans (st3_fields d s room b).1

/-- **row ids stay unique** -/
theorem syncDay_nodup {d : Defects} {s : Inst} {room : Nat} {b : Batch} (hn : NodupIds s.nodes) :
    NodupIds (syncDay d s room b).1.nodes := by
  rcases syncDay_cases d s room b with h | ⟨_, h⟩ | ⟨_, _, h⟩ | ⟨_, _, _, h⟩ | ⟨_, _, _, _, h⟩ <;> rw [h]
  · exact hn
  · rw [(st1_fields d s room b).2.1]; exact hn
  · exact st2_nodup hn
  · exact st3_nodup hn
  · rw [(edgeStage_fields d _ room b.edges).2.1]; exact st3_nodup hn

/-! ### batch independence of the reference stage -/

theorem edgeKeyEq_iff (a b : EdgeRow) :
    edgeKeyEq a b = true ↔ (a.src = b.src ∧ a.label = b.label ∧ a.dst = b.dst) := by
  simp [edgeKeyEq, and_assoc]

theorem find?_filter_of_imp {α : Type} {p q : α → Bool} {l : List α} (h : ∀ x, p x = true → q x = true) :
    (l.filter q).find? p = l.find? p := by
  induction l with
  | nil => rfl
  | cons x rest ih =>
    simp only [List.filter_cons]
    by_cases hq : q x = true
    · simp only [hq, if_true, List.find?_cons]
      cases hp : p x
      · exact ih
      · rfl
    · have hp : p x = false := by
        cases hp : p x
        · rfl
        · exact absurd (h x hp) hq
      simp only [hq, Bool.false_eq_true, if_false, List.find?_cons, hp]
      exact ih

theorem find?_writeEdge_other {edges : List EdgeRow} {e0 e : EdgeRow} (hne : edgeKeyEq e0 e = false) :
    (writeEdge edges e0).find? (edgeKeyEq e) = edges.find? (edgeKeyEq e) := by
  have hne' : ¬(e0.src = e.src ∧ e0.label = e.label ∧ e0.dst = e.dst) := by
    rw [← edgeKeyEq_iff, hne]; simp
  unfold writeEdge
  rw [List.find?_append]
  have h1 : (edges.filter fun x => !edgeKeyEq e0 x).find? (edgeKeyEq e) = edges.find? (edgeKeyEq e) := by
    apply find?_filter_of_imp
    intro x hx
    cases h0 : edgeKeyEq e0 x
    · rfl
    · exfalso
      apply hne'
      have a := (edgeKeyEq_iff e x).mp hx
      have c := (edgeKeyEq_iff e0 x).mp h0
      exact ⟨c.1.trans a.1.symm, c.2.1.trans a.2.1.symm, c.2.2.trans a.2.2.symm⟩
  have h2 : [e0].find? (edgeKeyEq e) = none := by
    have : edgeKeyEq e e0 = false := by
      cases h : edgeKeyEq e e0
      · rfl
      · exfalso; apply hne'
        have a := (edgeKeyEq_iff e e0).mp h
        exact ⟨a.1.symm, a.2.1.symm, a.2.2.symm⟩
    simp [List.find?, this]
  rw [h1, h2]; simp

theorem edgeAccepted_writeEdge_other {d : Defects} {s : Inst} {room : Nat} {edges : List EdgeRow}
    {e0 : EdgeRow} {e : InEdge} (hne : edgeKeyEq e0 e.row = false) :
    edgeAccepted d s room (writeEdge edges e0) e = edgeAccepted d s room edges e := by
  unfold edgeAccepted edgeNeed
  rw [find?_writeEdge_other hne]

/-- **batch independence (references).** When no two received references share source, label and
    target, the reference stage writes exactly those whose own verdict against the table *before* the
    batch is positive. -/
theorem addEdgesLoop_eq_verdicts {d : Defects} {s : Inst} {room : Nat} {es : List InEdge} {edges : List EdgeRow}
    (hd : es.Pairwise fun a b => edgeKeyEq a.row b.row = false) :
    (addEdgesLoop d s room es edges).1 =
      (es.filter (edgeAccepted d s room edges)).foldl (fun t e => writeEdge t e.row) edges := by
  induction es generalizing edges with
  | nil => rfl
  | cons e rest ih =>
    rw [List.pairwise_cons] at hd
    have hrest : ∀ t, rest.filter (edgeAccepted d s room (writeEdge t e.row)) =
        rest.filter (edgeAccepted d s room t) := by
      intro t
      apply List.filter_congr
      intro x hx
      exact edgeAccepted_writeEdge_other (hd.1 x hx)
    unfold addEdgesLoop
    split
    · next hacc =>
      rw [ih hd.2, hrest]
      simp [hacc]
    · next hacc =>
      simp only [ih hd.2, List.filter_cons, hacc]
      rfl

/-! ### from the switch-indexed statements to the plain ones -/

theorem NodeOkD.none_ok {s : Inst} {room : Nat} {n : InNode} (h : NodeOkD Defects.none s room n) :
    NodeOk s room n := by
  refine ⟨h.sig, h.inRoom, h.known, h.data rfl, ?_, h.small, h.right, h.sameEntity rfl, ?_⟩
  · rcases h.conforms with c | ⟨c, _⟩
    · exact c
    · cases c
  · intro l hl
    obtain ⟨h1, h2⟩ := h.oldRoom l hl
    cases hr : l.room with
    | none => exact absurd hr (h1 rfl)
    | some r' => exact ⟨r', rfl, h2 r' hr⟩

theorem EdgeOkD.none_ok {s : Inst} {room : Nat} {prev : Option EdgeRow} {e : InEdge}
    (h : EdgeOkD Defects.none s room prev e) : EdgeOk s room prev e :=
  ⟨h.sig, h.known, h.data rfl, h.source rfl, h.right⟩

theorem NodeDelOkD.none_ok {s : Inst} {room : Nat} {r : InNodeDel} (h : NodeDelOkD Defects.none s room r) :
    NodeDelOk s room r :=
  ⟨h.sig, h.inRoom rfl, h.known, h.data rfl, h.sameEntity rfl, h.right⟩

theorem EdgeDelOkD.none_ok {s : Inst} {room : Nat} {r : InEdgeDel} (h : EdgeDelOkD Defects.none s room r) :
    EdgeDelOk s room r :=
  ⟨h.sig, h.inRoom rfl, h.known, h.data rfl, h.source rfl, h.right⟩

/-! ### guards that exclude the shapes a given setting of the switches does not check

Every clause of a guard is switched by the defect it makes up for: a switch that is off contributes `true`,
so the guard of `Defects.none` is `true` and the guard of `Defects.asImplemented` shrinks with every repair. -/

/-- not a row of a room definition; not relying on an absent JSON; the local row it overwrites (if any)
    has the same entity and is in a room — each clause only while the code does not check it itself -/
def nodeGuardD (d : Defects) (s : Inst) (n : InNode) : Bool :=
  (!d.authEntityUnchecked || !authEnt n.row.ent) &&
  (!d.jsonAbsentUnchecked || !n.jsonAbsent || n.conforms) &&
  match localRow s.nodes n.row.id with
  | some l => (!d.entityChangeUnchecked || l.ent = n.row.ent) && (!d.roomlessReplaceUnchecked || l.room.isSome)
  | none => true

/-- the source row is a local row of the synchronised room and of the named entity; every
    reference with the same source, label and target (stored or in the batch) has the same author -/
def edgeGuardD (d : Defects) (s : Inst) (room : Nat) (others : List EdgeRow) (e : InEdge) : Bool :=
  (!d.authEntityUnchecked || !authEnt e.row.srcEnt) &&
  (!d.edgeSourceUnchecked || edgeSourceOk s room e.row) &&
  (!d.edgeReplaceUnchecked || others.all fun x => !edgeKeyEq e.row x || x.key = e.row.key)

def nodeDelGuardD (d : Defects) (s : Inst) (room : Nat) (r : InNodeDel) : Bool :=
  (!d.authEntityUnchecked || !authEnt r.entry.ent) &&
  (!d.delRoomUnchecked || r.entry.room = room) &&
  (!d.delEntityUnchecked ||
    match localRow s.nodes r.entry.id with
    | some l => l.ent = r.entry.ent
    | none => true)

def edgeDelGuardD (d : Defects) (s : Inst) (room : Nat) (r : InEdgeDel) : Bool :=
  (!d.authEntityUnchecked || !authEnt r.entry.srcEnt) &&
  (!d.delRoomUnchecked || r.entry.room = room) &&
  (!d.edgeDelSourceUnchecked || edgeDelSourceOk s r.entry)

theorem sw_or {b c : Bool} (h : (!b || c) = true) : b = false ∨ c = true := by
  cases b <;> simp_all

theorem NodeOkD.guarded {d : Defects} {s : Inst} {room : Nat} {n : InNode} (h : NodeOkD d s room n)
    (g : nodeGuardD d s n = true) : NodeOk s room n := by
  unfold nodeGuardD at g
  simp only [Bool.and_eq_true] at g
  obtain ⟨⟨ga, gj⟩, gl⟩ := g
  refine ⟨h.sig, h.inRoom, h.known, ?_, ?_, h.small, h.right, ?_, ?_⟩
  · rcases sw_or ga with ga | ga
    · exact h.data ga
    · simpa using ga
  · rcases h.conforms with c | ⟨c, ja⟩
    · exact c
    · rw [c, ja] at gj; simpa using gj
  · intro l hl
    rw [hl] at gl
    simp only [Bool.and_eq_true] at gl
    rcases sw_or gl.1 with g1 | g1
    · exact h.sameEntity g1 l hl
    · simpa using g1
  · intro l hl
    rw [hl] at gl
    simp only [Bool.and_eq_true] at gl
    cases hroom : l.room with
    | none =>
      rcases sw_or gl.2 with g2 | g2
      · exact absurd hroom ((h.oldRoom l hl).1 g2)
      · rw [hroom] at g2; cases g2
    | some r' => exact ⟨r', rfl, (h.oldRoom l hl).2 r' hroom⟩

theorem NodeDelOkD.guarded {d : Defects} {s : Inst} {room : Nat} {r : InNodeDel} (h : NodeDelOkD d s room r)
    (g : nodeDelGuardD d s room r = true) : NodeDelOk s room r := by
  unfold nodeDelGuardD at g
  simp only [Bool.and_eq_true] at g
  obtain ⟨⟨ga, gr⟩, ge⟩ := g
  refine ⟨h.sig, ?_, h.known, ?_, ?_, h.right⟩
  · rcases sw_or gr with gr | gr
    · exact h.inRoom gr
    · simpa using gr
  · rcases sw_or ga with ga | ga
    · exact h.data ga
    · simpa using ga
  · intro l hl
    rcases sw_or ge with ge | ge
    · exact h.sameEntity ge l hl
    · rw [hl] at ge; simpa using ge

theorem EdgeDelOkD.guarded {d : Defects} {s : Inst} {room : Nat} {r : InEdgeDel} (h : EdgeDelOkD d s room r)
    (g : edgeDelGuardD d s room r = true) : EdgeDelOk s room r := by
  unfold edgeDelGuardD at g
  simp only [Bool.and_eq_true] at g
  obtain ⟨⟨ga, gr⟩, ge⟩ := g
  refine ⟨h.sig, ?_, h.known, ?_, ?_, h.right⟩
  · rcases sw_or gr with gr | gr
    · exact h.inRoom gr
    · simpa using gr
  · rcases sw_or ga with ga | ga
    · exact h.data ga
    · simpa using ga
  · intro l hl
    rcases sw_or ge with ge | ge
    · exact h.source ge l hl
    · unfold edgeDelSourceOk at ge; rw [hl] at ge
      simpa using ge

theorem EdgeOkD.guarded {d : Defects} {s : Inst} {room : Nat} {prev : Option EdgeRow} {e : InEdge}
    {others : List EdgeRow} (h : EdgeOkD d s room prev e) (g : edgeGuardD d s room others e = true)
    (hp : ∀ p, prev = some p → edgeKeyEq e.row p = true ∧ p ∈ others) : EdgeOk s room prev e := by
  unfold edgeGuardD at g
  simp only [Bool.and_eq_true] at g
  obtain ⟨⟨ga, gs⟩, go⟩ := g
  refine ⟨h.sig, h.known, ?_, ?_, ?_⟩
  · rcases sw_or ga with ga | ga
    · exact h.data ga
    · simpa using ga
  · rcases sw_or gs with gs | gs
    · exact h.source gs
    · unfold edgeSourceOk at gs
      split at gs
      · next l hl =>
        simp only [Bool.and_eq_true, decide_eq_true_eq] at gs
        exact ⟨l, hl, gs.1, gs.2⟩
      · cases gs
  · have hr := h.right
    rcases sw_or go with go | go
    · rw [go] at hr; exact hr
    · simp only [List.all_eq_true, Bool.or_eq_true, Bool.not_eq_true', decide_eq_true_eq] at go
      have hneed : needOn (prev.map (·.key)) e.row.key = RightType.mutateSelf := by
        cases hprev : prev with
        | none => rfl
        | some p =>
          obtain ⟨hk, hm⟩ := hp p hprev
          rcases go p hm with h1 | h1
          · rw [hk] at h1; cases h1
          · simp [needOn, needRight, h1]
      rw [hneed]
      split at hr
      · exact hr
      · rw [hneed] at hr; exact hr

/-- with every switch off the guards hold for every record -/
theorem nodeGuardD_none (s : Inst) (n : InNode) : nodeGuardD Defects.none s n = true := by
  unfold nodeGuardD; cases localRow s.nodes n.row.id <;> simp [Defects.none]
theorem edgeGuardD_none (s : Inst) (room : Nat) (o : List EdgeRow) (e : InEdge) : edgeGuardD Defects.none s room o e = true := by
  simp [edgeGuardD, Defects.none]
theorem nodeDelGuardD_none (s : Inst) (room : Nat) (r : InNodeDel) : nodeDelGuardD Defects.none s room r = true := by
  simp [nodeDelGuardD, Defects.none]
theorem edgeDelGuardD_none (s : Inst) (room : Nat) (r : InEdgeDel) : edgeDelGuardD Defects.none s room r = true := by
  simp [edgeDelGuardD, Defects.none]

end Discret.Ingest
