import DiscretModel.Lemmas.DailyLog
/-
The code as it is (`lazyScan`, `emptyDayRow`): every MARKED day is recomputed to the count and the daily
hash of its content, whatever happens to the history chain.
-/
namespace Discret.DailyLog

/-- the row has the count and the daily hash of the content of its day, and is no longer marked -/
def DailyRight (sigs : Content) (room ent : Nat) (day : Nat) (r' : DayRow) : Prop :=
  r'.day = day ∧ r'.dirty = false ∧ r'.count = (sigs room ent day).length ∧ r'.daily = dailyOf (sigs room ent day)

theorem stepRow_marked {d : Defects} (he : d.emptyDayRow = true) (sigs : Content) (room ent : Nat) (c : Cursor)
    {r : DayRow} (hd : r.dirty = true) :
    ∃ r', (stepRow d sigs room ent c r).2 = some r' ∧ DailyRight sigs room ent r.day r' := by
  simp only [stepRow, hd, Bool.not_true, Bool.false_eq_true, ↓reduceIte, he, Bool.and_false]
  exact ⟨_, rfl, rfl, rfl, rfl, rfl⟩

/-- an unmarked row that the loop visits keeps its day, count and daily hash -/
theorem stepRow_clean_keeps (d : Defects) (sigs : Content) (room ent : Nat) (c : Cursor)
    {r : DayRow} (hd : r.dirty = false) :
    ∃ r', (stepRow d sigs room ent c r).2 = some r' ∧ r'.day = r.day ∧ r'.dirty = false ∧
      r'.count = r.count ∧ r'.daily = r.daily := by
  unfold stepRow
  rw [hd]
  simp only [Bool.not_false, ↓reduceIte]
  repeat' split
  all_goals first | exact ⟨_, rfl, rfl, rfl, rfl, rfl⟩ | exact ⟨_, rfl, rfl, hd, rfl, rfl⟩

theorem lazyStep_marked {d : Defects} (he : d.emptyDayRow = true) (sigs : Content) (room ent : Nat) (c : Cursor)
    {r : DayRow} (hd : r.dirty = true) (nd : Bool) :
    ∃ r', (lazyStep d sigs room ent c r nd).2 = some r' ∧ DailyRight sigs room ent r.day r' := by
  obtain ⟨r1, h1, h2⟩ := stepRow_marked he sigs room ent c hd
  unfold lazyStep
  rw [hd]
  simp only [↓reduceIte]
  have hs : stepRow d sigs room ent c r = ((stepRow d sigs room ent c r).1, some r1) := by
    rw [← h1]
  rw [hs]
  simp only
  split
  · obtain ⟨r2, k1, k2, k3, k4, k5⟩ :=
      stepRow_clean_keeps d sigs room ent (stepRow d sigs room ent c r).1 h2.2.1
    exact ⟨r2, k1, k2.trans h2.1, k3, k4.trans h2.2.2.1, k5.trans h2.2.2.2⟩
  · exact ⟨r1, rfl, h2⟩

theorem walkLazy_marked {d : Defects} (he : d.emptyDayRow = true) (sigs : Content) (room ent : Nat)
    (l : List DayRow) (c : Cursor) :
    ∀ r ∈ l, r.dirty = true → ∃ r' ∈ (walkLazy d sigs room ent c l).2, DailyRight sigs room ent r.day r' := by
  induction l generalizing c with
  | nil => intro r hr; cases hr
  | cons a t ih =>
    intro r hr hd
    simp only [walkLazy]
    rcases List.mem_cons.mp hr with e | e
    · subst e
      obtain ⟨r', e1, e2⟩ := lazyStep_marked he sigs room ent c hd (nextIsDirty t)
      exact ⟨r', by simp [e1], e2⟩
    · obtain ⟨r', m1, m2⟩ := ih (lazyStep d sigs room ent c a (nextIsDirty t)).1 r e hd
      exact ⟨r', by simp [m1], m2⟩

theorem fromFirstDirty_nil_clean {rows : List DayRow} (h : fromFirstDirty rows = []) :
    ∀ r ∈ rows, r.dirty = false := by
  induction rows with
  | nil => intro r hr; cases hr
  | cons a t ih =>
    unfold fromFirstDirty at h ih
    rw [List.dropWhile_cons] at h
    split at h
    · rename_i ha
      intro r hr
      rcases List.mem_cons.mp hr with e | e
      · subst e; simpa using ha
      · exact ih h r e
    · cases h

theorem recomputeGroup_marked {d : Defects} (he : d.emptyDayRow = true) (hl : d.lazyScan = true)
    (sigs : Content) (c : Cursor) (g : Group) :
    (recomputeGroup d sigs c g).2.room = g.room ∧ (recomputeGroup d sigs c g).2.ent = g.ent ∧
    ∀ r ∈ g.rows, r.dirty = true →
      ∃ r' ∈ (recomputeGroup d sigs c g).2.rows, DailyRight sigs g.room g.ent r.day r' := by
  cases hre : (fromFirstDirty g.rows).isEmpty with
  | true =>
    have e : recomputeGroup d sigs c g = (c, g) := by simp [recomputeGroup, hre]
    rw [e]
    refine ⟨rfl, rfl, ?_⟩
    intro r hr hd
    have := fromFirstDirty_nil_clean (List.isEmpty_iff.mp hre) r hr
    rw [hd] at this; cases this
  | false =>
    have e : recomputeGroup d sigs c g =
        ((walkLazy d sigs g.room g.ent c g.rows).1, { g with rows := (walkLazy d sigs g.room g.ent c g.rows).2 }) := by
      simp [recomputeGroup, hre, hl]
    rw [e]
    exact ⟨rfl, rfl, walkLazy_marked he sigs g.room g.ent g.rows c⟩

/-- every marked day of the table is recomputed to the count and daily hash of its content -/
theorem recomputeFrom_marked {d : Defects} (he : d.emptyDayRow = true) (hl : d.lazyScan = true)
    (sigs : Content) (log : Log) (c : Cursor) :
    ∀ g ∈ log, ∀ r ∈ g.rows, r.dirty = true →
      ∃ g' ∈ recomputeFrom d sigs c log, g'.room = g.room ∧ g'.ent = g.ent ∧
        ∃ r' ∈ g'.rows, DailyRight sigs g.room g.ent r.day r' := by
  induction log generalizing c with
  | nil => intro g hg; cases hg
  | cons a t ih =>
    intro g hg r hr hd
    obtain ⟨m1, m2, m3⟩ := recomputeGroup_marked he hl sigs c a
    have hcons : recomputeFrom d sigs c (a :: t) =
        if (recomputeGroup d sigs c a).2.rows.isEmpty then recomputeFrom d sigs (recomputeGroup d sigs c a).1 t
        else (recomputeGroup d sigs c a).2 :: recomputeFrom d sigs (recomputeGroup d sigs c a).1 t := rfl
    rw [hcons]
    rcases List.mem_cons.mp hg with e | e
    · subst e
      obtain ⟨r', k1, k2⟩ := m3 r hr hd
      have hne : (recomputeGroup d sigs c g).2.rows.isEmpty = false := by
        cases hx : (recomputeGroup d sigs c g).2.rows with
        | nil => rw [hx] at k1; cases k1
        | cons _ _ => rfl
      rw [hne]
      exact ⟨_, List.mem_cons_self, m1, m2, r', k1, k2⟩
    · obtain ⟨g', n1, n2⟩ := ih (recomputeGroup d sigs c a).1 g e r hr hd
      split
      · exact ⟨g', n1, n2⟩
      · exact ⟨g', List.mem_cons_of_mem _ n1, n2⟩


/-! ### the same for the window read before the loop (the code since 079e672) -/

/-- a marked row is recomputed to the count and daily hash of its day — unless the day is empty and emptied days
    are dropped -/
theorem stepRow_marked' {d : Defects} (sigs : Content) (room ent : Nat) (c : Cursor)
    {r : DayRow} (hd : r.dirty = true) (he : d.emptyDayRow = true ∨ sigs room ent r.day ≠ []) :
    ∃ r', (stepRow d sigs room ent c r).2 = some r' ∧ DailyRight sigs room ent r.day r' := by
  have hcond : ((sigs room ent r.day).isEmpty && !d.emptyDayRow) = false := by
    rcases he with he | he
    · simp [he]
    · cases hs : sigs room ent r.day with
      | nil => exact absurd hs he
      | cons _ _ => simp
  simp only [stepRow, hd, Bool.not_true, Bool.false_eq_true, ↓reduceIte, hcond]
  exact ⟨_, rfl, rfl, rfl, rfl, rfl⟩

theorem walkRows_marked (d : Defects) (sigs : Content) (room ent : Nat)
    (l : List DayRow) (c : Cursor) :
    ∀ r ∈ l, r.dirty = true → (d.emptyDayRow = true ∨ sigs room ent r.day ≠ []) →
      ∃ r' ∈ (walkRows d sigs room ent c l).2, DailyRight sigs room ent r.day r' := by
  induction l generalizing c with
  | nil => intro r hr; cases hr
  | cons a t ih =>
    intro r hr hd he
    simp only [walkRows]
    rcases List.mem_cons.mp hr with e | e
    · subst e
      obtain ⟨r', e1, e2⟩ := stepRow_marked' sigs room ent c hd he
      exact ⟨r', by simp [e1], e2⟩
    · obtain ⟨r', m1, m2⟩ := ih (stepRow d sigs room ent c a).1 r e hd he
      exact ⟨r', by simp [m1], m2⟩

theorem mem_fromFirstDirty_of_dirty {rows : List DayRow} {r : DayRow} (hr : r ∈ rows) (hd : r.dirty = true) :
    r ∈ fromFirstDirty rows := by
  induction rows with
  | nil => cases hr
  | cons a t ih =>
    unfold fromFirstDirty at ih ⊢
    rw [List.dropWhile_cons]
    cases ha : a.dirty with
    | true => simp only [Bool.not_true, Bool.false_eq_true, ↓reduceIte]; exact hr
    | false =>
      simp only [Bool.not_false, ↓reduceIte]
      rcases List.mem_cons.mp hr with e | e
      · subst e; rw [ha] at hd; cases hd
      · exact ih e

theorem recomputeGroup_marked_static {d : Defects} (hl : d.lazyScan = false)
    (sigs : Content) (c : Cursor) (g : Group) :
    (recomputeGroup d sigs c g).2.room = g.room ∧ (recomputeGroup d sigs c g).2.ent = g.ent ∧
    ∀ r ∈ g.rows, r.dirty = true → (d.emptyDayRow = true ∨ sigs g.room g.ent r.day ≠ []) →
      ∃ r' ∈ (recomputeGroup d sigs c g).2.rows, DailyRight sigs g.room g.ent r.day r' := by
  cases hre : (fromFirstDirty g.rows).isEmpty with
  | true =>
    have e : recomputeGroup d sigs c g = (c, g) := by simp [recomputeGroup, hre]
    rw [e]
    refine ⟨rfl, rfl, ?_⟩
    intro r hr hd
    have := fromFirstDirty_nil_clean (List.isEmpty_iff.mp hre) r hr
    rw [hd] at this; cases this
  | false =>
    have e : recomputeGroup d sigs c g =
        ((walkRows d sigs g.room g.ent c ((cleanPrefix g.rows).getLast?.toList ++ fromFirstDirty g.rows)).1,
         { g with rows := (cleanPrefix g.rows).dropLast ++
            (walkRows d sigs g.room g.ent c ((cleanPrefix g.rows).getLast?.toList ++ fromFirstDirty g.rows)).2 }) := by
      simp [recomputeGroup, hre, hl]
    rw [e]
    refine ⟨rfl, rfl, ?_⟩
    intro r hr hd he
    obtain ⟨r', m1, m2⟩ := walkRows_marked d sigs g.room g.ent
      ((cleanPrefix g.rows).getLast?.toList ++ fromFirstDirty g.rows) c r
      (List.mem_append_right _ (mem_fromFirstDirty_of_dirty hr hd)) hd he
    exact ⟨r', List.mem_append_right _ m1, m2⟩

/-- every marked day of the table is recomputed to the count and daily hash of its content (a marked day that
    is empty: only when emptied days keep their row) -/
theorem recomputeFrom_marked_static {d : Defects} (hl : d.lazyScan = false)
    (sigs : Content) (log : Log) (c : Cursor) :
    ∀ g ∈ log, ∀ r ∈ g.rows, r.dirty = true → (d.emptyDayRow = true ∨ sigs g.room g.ent r.day ≠ []) →
      ∃ g' ∈ recomputeFrom d sigs c log, g'.room = g.room ∧ g'.ent = g.ent ∧
        ∃ r' ∈ g'.rows, DailyRight sigs g.room g.ent r.day r' := by
  induction log generalizing c with
  | nil => intro g hg; cases hg
  | cons a t ih =>
    intro g hg r hr hd he
    obtain ⟨m1, m2, m3⟩ := recomputeGroup_marked_static hl sigs c a
    have hcons : recomputeFrom d sigs c (a :: t) =
        if (recomputeGroup d sigs c a).2.rows.isEmpty then recomputeFrom d sigs (recomputeGroup d sigs c a).1 t
        else (recomputeGroup d sigs c a).2 :: recomputeFrom d sigs (recomputeGroup d sigs c a).1 t := rfl
    rw [hcons]
    rcases List.mem_cons.mp hg with e | e
    · subst e
      obtain ⟨r', k1, k2⟩ := m3 r hr hd he
      have hne : (recomputeGroup d sigs c g).2.rows.isEmpty = false := by
        cases hx : (recomputeGroup d sigs c g).2.rows with
        | nil => rw [hx] at k1; cases k1
        | cons _ _ => rfl
      rw [hne]
      exact ⟨_, List.mem_cons_self, m1, m2, r', k1, k2⟩
    · obtain ⟨g', n1, n2⟩ := ih (recomputeGroup d sigs c a).1 g e r hr hd he
      split
      · exact ⟨g', n1, n2⟩
      · exact ⟨g', List.mem_cons_of_mem _ n1, n2⟩

end Discret.DailyLog
