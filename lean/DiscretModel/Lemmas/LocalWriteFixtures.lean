import DiscretModel.Lemmas.LocalWrite
/-
Concrete rooms, databases and operations used by the witnesses and non-vacuity examples of C01 and C12.
-/
namespace Discret.LocalWrite
open Discret.Room

/-- room 0: admin 1; group 0: all-rows right on entity 1 for member 2; group 1: own-rows right for member 3.
    room 1: admin 1; group 0: all-rows right on everything for member 3 -/
def room0 : Room :=
  { id := 0, mdate := 1, admins := [⟨1, 1, true⟩],
    auths := [{ id := 0, mdate := 1, users := [⟨2, 1, true⟩], rights := [Right.new 1 1 true true], userAdmins := [] },
              { id := 1, mdate := 1, users := [⟨3, 1, true⟩], rights := [Right.new 1 0 true false], userAdmins := [] }] }
def room1 : Room :=
  { id := 1, mdate := 1, admins := [⟨1, 1, true⟩],
    auths := [{ id := 0, mdate := 1, users := [⟨3, 1, true⟩], rights := [Right.new 1 0 true true], userAdmins := [] }] }
def rooms01 : List Room := [room0, room1]

/-- two rows of member 2 in room 0, row 1 referencing row 0 -/
def db0 : Db :=
  { rows := [⟨0, 1, some 0, 2, 2, 2, 1⟩, ⟨1, 1, some 0, 2, 2, 3, 2⟩],
    edges := [⟨1, 0, 0, 2, 3⟩], nodeTombs := [], edgeTombs := [] }

/-- the nested mutation `Person { id: 1, parents: [{ id: 0, name: 66 }] }` by the outsider 5 -/
def nestedByOutsider : Mut :=
  { handle := 1, isNew := false, entity := 1, room := none, val := none,
    field := .arr 0 [{ handle := 0, isNew := false, entity := 1, room := none, val := some 66 }] }

def authorOf (r : Except MErr Db) (id : Nat) : Option Key :=
  match r with
  | .ok db => (db.rows.find? (·.id = id)).map (·.author)
  | .error _ => none

/-- row 7 without room, referenced by row 1 of room 0 -/
def db1 : Db :=
  { rows := db0.rows ++ [⟨7, 1, none, 2, 3, 3, 4⟩], edges := db0.edges ++ [⟨1, 0, 7, 2, 3⟩],
    nodeTombs := [], edgeTombs := [] }

end Discret.LocalWrite
