import DiscretModel.Lemmas.LocalWrite
/-
Concrete rooms, databases and operations used by the witnesses and non-vacuity examples of C01 and C12.
-/
namespace Discret.LocalWrite
open Discret.Room

/-- room 0: admin 1; group 0: all-rows right on entity 1 for member 2; group 1: own-rows right for member 3.
    room 1: admin 1; group 0: all-rows right on everything for member 3 -/
def room0 : Room :=
  { id := 0, mdate := 1, admins := [⟨1, 1, true⟩],
    auths := [{ id := 0, mdate := 1, users := [⟨2, 1, true⟩], rights := [Right.new 1 1 true true], userAdmins := [] },
              { id := 1, mdate := 1, users := [⟨3, 1, true⟩], rights := [Right.new 1 0 true false], userAdmins := [] }] }
def room1 : Room :=
  { id := 1, mdate := 1, admins := [⟨1, 1, true⟩],
    auths := [{ id := 0, mdate := 1, users := [⟨3, 1, true⟩], rights := [Right.new 1 0 true true], userAdmins := [] }] }
def rooms01 : List Room := [room0, room1]

/-- two rows of member 2 in room 0, row 1 referencing row 0 -/
def db0 : Db :=
  { rows := [⟨0, 1, some 0, 2, 2, 2, 1⟩, ⟨1, 1, some 0, 2, 2, 3, 2⟩],
    edges := [⟨1, 0, 0, 2, 3⟩], nodeTombs := [], edgeTombs := [] }

/-- the nested mutation `Person { id: 1, parents: [{ id: 0, name: 66 }] }` by the outsider 5 -/
def nestedByOutsider : Mut :=
  .mk 1 false 1 none none (.arr 0 [.mk 0 false 1 none (some 66) .none])

/-- three levels, every row named by id: the unchanged row 1, below it the unchanged row 0, below it row 8 rewritten
    (`Person { id: 1, parents: [{ id: 0, parents: [{ id: 8, name: 66 }] }] }`) -/
def deepByOutsider : Mut :=
  .mk 1 false 1 none none (.arr 0 [.mk 0 false 1 none none (.arr 0 [.mk 8 false 1 none (some 66) .none])])

/-- `db0` with a third row of member 2 in room 0, referenced by row 0 -/
def db3 : Db :=
  { rows := db0.rows ++ [⟨8, 1, some 0, 2, 2, 2, 5⟩], edges := db0.edges ++ [⟨0, 0, 8, 2, 2⟩],
    nodeTombs := [], edgeTombs := [] }

/-- a four-level creation by member 3: a new row in room 0 (named), below it a new row that inherits room 0, below it
    a new row that names room 1, below it a new row that inherits room 1 -/
def deepCreate : Mut :=
  .mk 20 true 1 (some 0) (some 1)
    (.arr 0 [.mk 21 true 1 none (some 2)
      (.arr 0 [.mk 22 true 1 (some 1) (some 3)
        (.arr 0 [.mk 23 true 1 none (some 4) .none])])])

def authorOf (r : Except MErr Db) (id : Nat) : Option Key :=
  match r with
  | .ok db => (db.rows.find? (·.id = id)).map (·.author)
  | .error _ => none

/-- row 7 without room, referenced by row 1 of room 0 -/
def db1 : Db :=
  { rows := db0.rows ++ [⟨7, 1, none, 2, 3, 3, 4⟩], edges := db0.edges ++ [⟨1, 0, 7, 2, 3⟩],
    nodeTombs := [], edgeTombs := [] }

/-- the reference 1 → 0 stored at row 1 (of member 2) was added by member 3 -/
def db2 : Db := { db0 with edges := [⟨1, 0, 0, 3, 3⟩] }

/-- row 1 belongs to member 3 (own-rows right only); the reference 1 → 0 stored there was added by member 2 -/
def db4 : Db :=
  { rows := [⟨0, 1, some 0, 2, 2, 2, 1⟩, ⟨1, 1, some 0, 3, 2, 3, 2⟩], edges := [⟨1, 0, 0, 2, 3⟩],
    nodeTombs := [], edgeTombs := [] }

end Discret.LocalWrite
