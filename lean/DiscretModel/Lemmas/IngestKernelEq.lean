import DiscretModel.Gen.IngestKernel
import DiscretModel.Lemmas.RoomKernelEq
import DiscretModel.Model.Ingest
/-!
Obligations of translator T8: the validators regenerated from `authorisation_service.rs`
(Gen/IngestKernel.lean) decide what the hand-written ingestion model (Model/Ingest.lean) decides.

The model's inputs are abstractions of the Rust values: `ntiOf` builds the `NodeToInsert` that
`filter_existing` + `add_nodes` hand to `validate_node` for an incoming row `n` and the local row `old` with
the same id; `big` is `serialized_size(node) > max_node_size`.
-/
namespace Discret.Gen.IngestKernel
open Discret.Room Discret.Rust Discret.Ingest Discret.Gen.RoomKernel

/-- the `NodeToInsert` of an incoming row whose entity the data model knows -/
def ntiOf (n : InNode) (old : Option NodeRow) (size : Nat) : NodeToInsert :=
  { node := some { room_id := n.row.room, key := n.row.key, mdate := n.row.mdate, _entity := n.row.ent, size := .ok size },
    entity_name := some n.row.ent,
    old_room_id := old.bind (·.room),
    old_entity := old.map (·.ent),
    old_mdate := (old.map (·.mdate)).getD 0,
    old_verifying_key := old.map (·.key) }

theorem hmGet_findRoom (s : Inst) (r : Nat) :
    hmGet (fun (x : Room) => x.id) s.rooms r = findRoom s r := rfl

/-- `validate_node` (regenerated) = `Ingest.validateNode` for the switches that describe the code:
    a stored row of another entity and a room-less stored row are never replaced -/
theorem validate_node_eq (d : Ingest.Defects) (s : Inst) (n : InNode) (old : Option NodeRow) (size max : Nat)
    (hbig : n.big = decide (size > max))
    (hd1 : d.entityChangeUnchecked = false) (hd2 : d.roomlessReplaceUnchecked = false) :
    RoomAuthorisations_validate_node { rooms := s.rooms, max_node_size := max } (ntiOf n old size)
      = validateNode d s n old := by
  unfold RoomAuthorisations_validate_node validateNode ntiOf canIn needRight serializedSize
  simp only [hmGet_findRoom, Room_can_eq, hd1, hd2, hbig]
  by_cases hsz : size > max
  · cases n.row.room <;> simp [hsz]
  · simp only [hsz, decide_false, Bool.false_eq_true, if_false, Bool.not_false, Bool.true_and]
    have bcases : ∀ (r : RoomT) (rt : RightType), r.can n.row.key n.row.ent n.row.mdate rt = true ∨
        r.can n.row.key n.row.ent n.row.mdate rt = false := fun r rt => by
      cases r.can n.row.key n.row.ent n.row.mdate rt <;> simp
    cases hr : n.row.room with
    | none => rfl
    | some room =>
      cases old with
      | none =>
        cases h2 : findRoom s room with
        | none => simp [h2]
        | some rm => rcases bcases rm .mutateSelf with hc | hc <;> simp [h2, hc]
      | some l =>
        by_cases hent : l.ent = n.row.ent
        case neg => simp [hent]
        cases hlr : l.room with
        | none => simp [hlr, hent]
        | some oldRoom =>
          by_cases hk : l.key = n.row.key <;> by_cases he : oldRoom = room
          · subst he
            cases h2 : findRoom s oldRoom with
            | none => simp [hent, hlr, hk, h2]
            | some rm => rcases bcases rm .mutateSelf with hc | hc <;> simp [hent, hlr, hk, h2, hc]
          · cases h1 : findRoom s oldRoom with
            | none => simp [hent, hlr, hk, he, h1]
            | some r1 =>
              cases h2 : findRoom s room with
              | none => rcases bcases r1 .mutateSelf with hc | hc <;> simp [hent, hlr, hk, he, h1, h2, hc]
              | some r2 =>
                rcases bcases r1 .mutateSelf with hc | hc <;> rcases bcases r2 .mutateSelf with hc2 | hc2 <;>
                  simp [hent, hlr, hk, he, h1, h2, hc, hc2]
          · subst he
            cases h2 : findRoom s oldRoom with
            | none => simp [hent, hlr, h2]
            | some rm => rcases bcases rm .mutateAll with hc | hc <;> simp [hent, hlr, hk, h2, hc]
          · cases h1 : findRoom s oldRoom with
            | none => simp [hent, hlr, hk, he, h1]
            | some r1 =>
              cases h2 : findRoom s room with
              | none => rcases bcases r1 .mutateAll with hc | hc <;> simp [hent, hlr, hk, he, h1, h2, hc]
              | some r2 =>
                rcases bcases r1 .mutateAll with hc | hc <;> rcases bcases r2 .mutateAll with hc2 | hc2 <;>
                  simp [hent, hlr, hk, he, h1, h2, hc, hc2]

/-- the decision of the model for one deletion record whose (source) entity the data model knows:
    the right of the record's author at the deletion date in the room the record names, own-rows right
    when nothing is stored or the stored thing is the author's, all-rows right otherwise -/
def delDecision (s : Inst) (room : Nat) (key : Key) (ent : Option Ent) (ddate : Int) (author : Option Key) : Bool :=
  match ent with
  | none => false
  | some e => canIn s room key e ddate (needRight author key)

/-- `validate_node_deletions` (regenerated) keeps exactly the records the model's decision accepts -/
theorem validate_node_deletions_eq (s : Inst) (max : Nat) (nodes : List (Id × (NodeDeletionEntry × Option Key))) :
    RoomAuthorisations_validate_node_deletions { rooms := s.rooms, max_node_size := max } nodes
      = (nodes.filter fun e => delDecision s e.2.1.room_id e.2.1.key e.2.1.entity_name e.2.1.deletion_date e.2.2).map (·.2.1) := by
  unfold RoomAuthorisations_validate_node_deletions
  induction nodes with
  | nil => rfl
  | cons x t ih =>
    rw [List.filterMap_cons, ih, List.filter_cons]
    unfold delDecision canIn
    simp only [hmGet_findRoom]
    cases he : x.2.1.entity_name with
    | none => simp
    | some e =>
      cases hr : findRoom s x.2.1.room_id with
      | none => simp
      | some rm =>
        simp only [Room_can_eq, needRight]
        cases ha : x.2.2 with
        | none =>
          rcases Bool.eq_false_or_eq_true (rm.can x.2.1.key e x.2.1.deletion_date RightType.mutateSelf) with hc | hc <;> simp [hc]
        | some a =>
          by_cases hk : a = x.2.1.key
          · rcases Bool.eq_false_or_eq_true (rm.can x.2.1.key e x.2.1.deletion_date RightType.mutateSelf) with hc | hc <;> simp [hk, hc]
          · rcases Bool.eq_false_or_eq_true (rm.can x.2.1.key e x.2.1.deletion_date RightType.mutateAll) with hc | hc <;> simp [hk, hc]

theorem validate_edge_deletions_eq (s : Inst) (max : Nat) (edges : List (EdgeDeletionEntry × Option Key)) :
    RoomAuthorisations_validate_edge_deletions { rooms := s.rooms, max_node_size := max } edges
      = (edges.filter fun e => delDecision s e.1.room_id e.1.key e.1.entity_name e.1.deletion_date e.2).map (·.1) := by
  unfold RoomAuthorisations_validate_edge_deletions
  induction edges with
  | nil => rfl
  | cons x t ih =>
    rw [List.filterMap_cons, ih, List.filter_cons]
    unfold delDecision canIn
    simp only [hmGet_findRoom]
    cases he : x.1.entity_name with
    | none => simp
    | some e =>
      cases hr : findRoom s x.1.room_id with
      | none => simp
      | some rm =>
        simp only [Room_can_eq, needRight]
        cases ha : x.2 with
        | none =>
          rcases Bool.eq_false_or_eq_true (rm.can x.1.key e x.1.deletion_date RightType.mutateSelf) with hc | hc <;> simp [hc]
        | some a =>
          by_cases hk : a = x.1.key
          · rcases Bool.eq_false_or_eq_true (rm.can x.1.key e x.1.deletion_date RightType.mutateSelf) with hc | hc <;> simp [hk, hc]
          · rcases Bool.eq_false_or_eq_true (rm.can x.1.key e x.1.deletion_date RightType.mutateAll) with hc | hc <;> simp [hk, hc]

/-- the model's verdicts are this decision behind the gates that `delete_nodes` / `delete_edges` apply before
    calling the validators (entity known, not an authorisation entity, optional entity / source checks) -/
theorem nodeDelAccepted_decision (d : Ingest.Defects) (s : Inst) (r : NodeDel) :
    nodeDelAccepted d s r =
      (knownEnt r.ent && (d.authEntityUnchecked || !authEnt r.ent) &&
       (d.delEntityUnchecked || match localRow s.nodes r.id with | some l => l.ent = r.ent | none => true) &&
       delDecision s r.room r.key (some r.ent) r.ddate ((localRow s.nodes r.id).map (·.key))) := rfl

theorem edgeDelAccepted_decision (d : Ingest.Defects) (s : Inst) (r : EdgeDel) :
    edgeDelAccepted d s r =
      (knownEnt r.srcEnt && (d.authEntityUnchecked || !authEnt r.srcEnt) &&
       (d.edgeDelSourceUnchecked || edgeDelSourceOk s r) &&
       delDecision s r.room r.key (some r.srcEnt) r.ddate ((s.edges.find? (edgeMatches r)).map (·.key))) := rfl

end Discret.Gen.IngestKernel
