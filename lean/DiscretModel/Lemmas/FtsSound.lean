import DiscretModel.Lemmas.FtsRun
/-
Half of C17 that holds after EVERY history once the index entries of a row go when the row goes (`deleteLeavesIndex`
off) and `Node::write` removes the previous text exactly when the row is in the index (`deleteUnguarded` off) —
whatever synchronisation and model versions do: every entry of the index belongs to a live row that has its document
record and whose CURRENT text has the word. Hence no stale hit, and no search that fails. Core Lean only.
-/
namespace Discret.Fts

/-- row numbers and slots are unique; every index entry belongs to a row in the index whose current text has the word -/
def WInv (s : Site) : Prop :=
  (s.rows.map (·.n)).Nodup ∧
  (∀ r1, r1 ∈ s.rows → ∀ r2, r2 ∈ s.rows → r1.slot = r2.slot → r1 = r2) ∧
  (∀ p, p ∈ s.idx → ∃ r, r ∈ s.rows ∧ r.slot = p.1 ∧ r.slot ∈ s.docs ∧ p.2 ∈ r.text)

theorem winv_of_eq {s s' : Site} (h : WInv s) (hr : s'.rows = s.rows) (hi : s'.idx = s.idx)
    (hd : s'.docs = s.docs) : WInv s' := by
  unfold WInv
  rw [hr, hi, hd]
  exact h

/-- **no stale hit**: a row the search returns has the word in its current text -/
theorem search_sub_matching {s : Site} (h : WInv s) (e : Ent) (t : Word) :
    ∀ n, n ∈ search s e t → n ∈ matching s e t := by
  obtain ⟨_, h1, h2⟩ := h
  intro n hn
  unfold search at hn
  unfold matching
  obtain ⟨r, hr, rfl⟩ := List.mem_map.mp hn
  obtain ⟨hr', hc⟩ := List.mem_filter.mp hr
  simp only [Bool.and_eq_true, decide_eq_true_eq, List.contains_iff_mem] at hc
  obtain ⟨r', hr'', hs, _, hw⟩ := h2 _ hc.2
  have : r' = r := h1 r' hr'' r hr' hs
  subst this
  exact List.mem_map.mpr ⟨r', List.mem_filter.mpr ⟨hr', by simp [hc.1, hw]⟩, rfl⟩

/-- **no search fails** -/
theorem not_poisoned_w {s : Site} (h : WInv s) (t : Word) : poisoned s t = false := by
  obtain ⟨_, _, h2⟩ := h
  unfold poisoned
  apply List.any_eq_false.mpr
  intro p hp
  obtain ⟨r, _, a, b, _⟩ := h2 p hp
  have : p.1 ∈ s.docs := by rw [← a]; exact b
  simp [this]

theorem writeInsert_w {s : Site} (h : WInv s) (index : Bool) (new : Row) (hn : ∀ r, r ∈ s.rows → r.n ≠ new.n) :
    WInv (writeInsert index new s) := by
  obtain ⟨h0, h1, h2⟩ := h
  have hslot : ∀ r, r ∈ s.rows → r.slot ≠ nextSlot s.rows := fun r hr => Nat.ne_of_lt (slot_lt_nextSlot hr)
  unfold writeInsert
  refine ⟨?_, ?_, ?_⟩
  · show ((s.rows ++ [{ new with slot := nextSlot s.rows }]).map Row.n).Nodup
    rw [List.map_append, List.nodup_append]
    refine ⟨h0, by simp, ?_⟩
    intro a ha b hb
    obtain ⟨r, hr, rfl⟩ := List.mem_map.mp ha
    simp only [List.map_cons, List.map_nil, List.mem_singleton] at hb
    subst hb
    exact hn r hr
  · intro r1 hr1 r2 hr2 hs
    rcases List.mem_append.mp hr1 with a | a <;> rcases List.mem_append.mp hr2 with b | b
    · exact h1 r1 a r2 b hs
    · rcases List.mem_singleton.mp b with rfl
      exact absurd hs (hslot r1 a)
    · rcases List.mem_singleton.mp a with rfl
      exact absurd hs.symm (hslot r2 b)
    · rcases List.mem_singleton.mp a with rfl
      rcases List.mem_singleton.mp b with rfl
      rfl
  · intro p hp
    dsimp only at hp ⊢
    have old : p ∈ s.idx → ∃ r, r ∈ s.rows ++ [{ new with slot := nextSlot s.rows }] ∧ r.slot = p.1 ∧
        r.slot ∈ (if index = true then s.docs ++ [nextSlot s.rows] else s.docs) ∧ p.2 ∈ r.text := by
      intro hp
      obtain ⟨r, hr, a, b, c⟩ := h2 p hp
      refine ⟨r, List.mem_append.mpr (Or.inl hr), a, ?_, c⟩
      split
      · exact List.mem_append.mpr (Or.inl b)
      · exact b
    cases index with
    | false => exact old hp
    | true =>
      simp only [↓reduceIte] at hp
      rcases mem_idxAdd.mp hp with hp | ⟨hp1, hp2⟩
      · exact old hp
      · exact ⟨_, List.mem_append.mpr (Or.inr List.mem_cons_self), hp1.symm,
          List.mem_append.mpr (Or.inr List.mem_cons_self), hp2⟩

/-- `Node::write` that looks before it deletes, whatever `index` is -/
theorem writeUpdate_w {s : Site} (h : WInv s) (index : Bool) (old new : Row) (ho : old ∈ s.rows)
    (hn : new.n = old.n) (prev : Option (List Word))
    (hp : prev = some old.text ∨ (prev = none ∧ old.text = [])) :
    WInv (writeUpdate false index old new prev s) := by
  obtain ⟨h0, h1, h2⟩ := h
  have hother : ∀ r, r ∈ s.rows → r.n ≠ old.n → r.slot ≠ old.slot := by
    intro r hr hne hs
    exact hne (by rw [h1 r hr old ho hs])
  have hnum : ∀ r, r ∈ s.rows → r.n = old.n → r = old := by
    intro r hr hrn
    exact nodup_map_inj h0 hr ho hrn
  -- an entry that is still there after the optional 'delete' belongs to another row, which keeps its document record
  have key : ∀ p, p ∈ (match prev with
      | some q => if deletesPrev false index old.slot s.docs = true then idxDel old.slot q s.idx else s.idx
      | none => s.idx) →
      ∃ r, r ∈ eraseRow old.n s.rows ∧ r.slot = p.1 ∧ r.slot ∈ (match prev with
        | some _ => if deletesPrev false index old.slot s.docs = true then docDel old.slot s.docs else s.docs
        | none => s.docs) ∧ p.2 ∈ r.text := by
    intro p hp'
    have hin : p ∈ s.idx := by
      cases prev with
      | none => exact hp'
      | some q =>
        simp only at hp'
        split at hp'
        · exact (mem_idxDel.mp hp').1
        · exact hp'
    obtain ⟨r, hr, a, b, c⟩ := h2 p hin
    have hne : r.n ≠ old.n := by
      intro hrn
      have := hnum r hr hrn
      subst this
      -- the row is in the index: the 'delete' is issued, with the text of the row
      have hd : deletesPrev false index r.slot s.docs = true := by
        unfold deletesPrev
        simpa using b
      rcases hp with hp | ⟨_, hp⟩
      · subst hp
        simp only [hd, ↓reduceIte] at hp'
        exact (mem_idxDel.mp hp').2 ⟨a.symm, c⟩
      · rw [hp] at c; cases c
    refine ⟨r, mem_eraseRow.mpr ⟨hr, hne⟩, a, ?_, c⟩
    cases prev with
    | none => exact b
    | some q =>
      simp only
      split
      · exact mem_docDel.mpr ⟨b, hother r hr hne⟩
      · exact b
  unfold writeUpdate
  refine ⟨?_, ?_, ?_⟩
  · show ((eraseRow old.n s.rows ++ [{ new with slot := old.slot }]).map Row.n).Nodup
    rw [List.map_append, List.nodup_append]
    refine ⟨?_, by simp, ?_⟩
    · exact (List.Sublist.map _ (List.filter_sublist)).nodup h0
    · intro a ha b hb
      obtain ⟨r, hr, rfl⟩ := List.mem_map.mp ha
      simp only [List.map_cons, List.map_nil, List.mem_singleton] at hb
      subst hb
      rw [hn]
      exact (mem_eraseRow.mp hr).2
  · intro r1 hr1 r2 hr2 hs
    rcases List.mem_append.mp hr1 with a | a <;> rcases List.mem_append.mp hr2 with b | b
    · exact h1 r1 (mem_eraseRow.mp a).1 r2 (mem_eraseRow.mp b).1 hs
    · rcases List.mem_singleton.mp b with rfl
      exact absurd hs (hother r1 (mem_eraseRow.mp a).1 (mem_eraseRow.mp a).2)
    · rcases List.mem_singleton.mp a with rfl
      exact absurd hs.symm (hother r2 (mem_eraseRow.mp b).1 (mem_eraseRow.mp b).2)
    · rcases List.mem_singleton.mp a with rfl
      rcases List.mem_singleton.mp b with rfl
      rfl
  · intro p hp'
    dsimp only at hp' ⊢
    cases index with
    | false =>
      simp only [Bool.false_eq_true, ↓reduceIte] at hp' ⊢
      obtain ⟨r, hr, a, b, c⟩ := key p hp'
      exact ⟨r, List.mem_append.mpr (Or.inl hr), a, b, c⟩
    | true =>
      simp only [↓reduceIte] at hp' ⊢
      rcases mem_idxAdd.mp hp' with hp' | ⟨hp1, hp2⟩
      · obtain ⟨r, hr, a, b, c⟩ := key p hp'
        exact ⟨r, List.mem_append.mpr (Or.inl hr), a, List.mem_append.mpr (Or.inl b), c⟩
      · exact ⟨_, List.mem_append.mpr (Or.inr List.mem_cons_self), hp1.symm,
          List.mem_append.mpr (Or.inr List.mem_cons_self), hp2⟩

/-- rows that go take the entries of their current text and their document record with them -/
theorem removeRows_w {s : Site} (h : WInv s) (gone : List Row) (hg : ∀ r, r ∈ gone → r ∈ s.rows)
    (keep : Row → Bool) (hk : ∀ r, r ∈ s.rows → (keep r = false ↔ r ∈ gone)) :
    WInv { s with rows := s.rows.filter keep,
                  idx := gone.foldl (fun i r => dropEntries s.docs r i) s.idx,
                  docs := s.docs.filter fun x => !(gone.any fun r => r.slot = x) } := by
  obtain ⟨h0, h1, h2⟩ := h
  have hfold : ∀ (g : List Row) (i : List (Slot × Word)) (p : Slot × Word),
      p ∈ g.foldl (fun i r => dropEntries s.docs r i) i →
        p ∈ i ∧ ∀ r, r ∈ g → s.docs.contains r.slot = true → ¬(p.1 = r.slot ∧ p.2 ∈ r.text) := by
    intro g
    induction g with
    | nil => intro i p hp; exact ⟨hp, fun r hr => by cases hr⟩
    | cons x xs ih =>
      intro i p hp
      simp only [List.foldl_cons] at hp
      obtain ⟨a, c⟩ := ih _ p hp
      unfold dropEntries at a
      by_cases hx : s.docs.contains x.slot = true
      · simp only [hx, ↓reduceIte] at a
        obtain ⟨a1, a2⟩ := mem_idxDel.mp a
        refine ⟨a1, ?_⟩
        intro r hr hd
        rcases List.mem_cons.mp hr with h' | h'
        · subst h'; exact a2
        · exact c r h' hd
      · simp only [hx] at a
        refine ⟨a, ?_⟩
        intro r hr hd
        rcases List.mem_cons.mp hr with h' | h'
        · subst h'; exact absurd hd hx
        · exact c r h' hd
  refine ⟨?_, ?_, ?_⟩
  · exact (List.Sublist.map _ List.filter_sublist).nodup h0
  · intro r1 hr1 r2 hr2 hs
    exact h1 r1 (List.mem_filter.mp hr1).1 r2 (List.mem_filter.mp hr2).1 hs
  · intro p hp
    obtain ⟨hin, hno⟩ := hfold gone s.idx p hp
    obtain ⟨r, hr, a, b, c⟩ := h2 p hin
    have hkeep : keep r = true := by
      cases hkr : keep r with
      | true => rfl
      | false =>
        have := (hk r hr).mp hkr
        exact absurd ⟨a.symm, c⟩ (hno r this (List.contains_iff_mem.mpr b))
    refine ⟨r, List.mem_filter.mpr ⟨hr, hkeep⟩, a, ?_, c⟩
    apply List.mem_filter.mpr
    refine ⟨b, ?_⟩
    simp only [Bool.not_eq_true', List.any_eq_false, decide_eq_true_eq]
    intro g hgm hs
    have : g = r := h1 g (hg g hgm) r hr hs
    subst this
    have := (hk g hr).mpr hgm
    rw [this] at hkeep
    cases hkeep

theorem del_w {s : Site} (h : WInv s) (old : Row) (ho : old ∈ s.rows) :
    WInv { s with rows := eraseRow old.n s.rows, idx := dropEntries s.docs old s.idx,
                  docs := docDel old.slot s.docs } := by
  have := removeRows_w h [old] (by intro r hr; rcases List.mem_singleton.mp hr with rfl; exact ho)
    (fun r => decide (r.n ≠ old.n)) (by
      intro r hr
      simp only [ne_eq, decide_not, Bool.not_eq_false', decide_eq_true_eq, List.mem_singleton]
      constructor
      · intro hrn; exact nodup_map_inj h.1 hr ho hrn
      · intro e; rw [e])
  refine winv_of_eq this rfl rfl ?_
  show docDel old.slot s.docs = s.docs.filter fun x => !([old].any fun r => r.slot = x)
  unfold docDel
  apply List.filter_congr
  intro x _
  by_cases hx : x = old.slot
  · simp [hx]
  · have : ¬ old.slot = x := fun e => hx e.symm
    simp [hx, this]

/-- the intended effect of a model version that changes index flags -/
theorem toggle_w {s : Site} (h : WInv s) (on : Ent → Bool) :
    WInv { s with indexOn := on, idx := toggleIdx s on, docs := toggleDocs s on } := by
  unfold toggleIdx toggleDocs
  obtain ⟨h0, h1, h2⟩ := h
  refine ⟨h0, h1, ?_⟩
  intro p hp
  rcases List.mem_append.mp hp with hp | hp
  · obtain ⟨hin, hclean⟩ := List.mem_filter.mp hp
    obtain ⟨r, hr, a, b, c⟩ := h2 p hin
    refine ⟨r, hr, a, ?_, c⟩
    apply List.mem_append.mpr; left
    apply List.mem_filter.mpr
    refine ⟨b, ?_⟩
    rw [a]
    exact hclean
  · obtain ⟨r, hr, hw⟩ := List.mem_flatMap.mp hp
    obtain ⟨hr', _⟩ := List.mem_filter.mp hr
    obtain ⟨w, hw', rfl⟩ := List.mem_map.mp hw
    exact ⟨r, hr', rfl, List.mem_append.mpr (Or.inr (List.mem_map.mpr ⟨r, hr, rfl⟩)), hw'⟩

/-! ### along runs -/

theorem ingestRow_w (d : Defects) (hd : d.deleteUnguarded = false) {dst : Site} (h : WInv dst) (r : Row) :
    WInv (ingestRow d dst r) := by
  unfold ingestRow
  dsimp only
  split
  · rename_i old hf
    obtain ⟨ho, hon⟩ := findRow_some hf
    rw [hd]
    exact writeUpdate_w h _ old r ho hon.symm (some old.text) (Or.inl rfl)
  · rename_i hf
    exact writeInsert_w h _ r (findRow_none hf)

theorem foldl_ingest_w (d : Defects) (hd : d.deleteUnguarded = false) (l : List Row) :
    ∀ (dst : Site), WInv dst → WInv (l.foldl (ingestRow d) dst) := by
  induction l with
  | nil => intro dst h; exact h
  | cons r rest ih =>
    intro dst h
    simp only [List.foldl_cons]
    exact ih _ (ingestRow_w d hd h r)

theorem pullTombs_w (d : Defects) (hd : d.deleteLeavesIndex = false) (src : Site) (e : Ent) {dst : Site}
    (h : WInv dst) : WInv (pullTombs d src e dst) := by
  unfold pullTombs
  simp only [hd, Bool.false_eq_true, ↓reduceIte]
  exact removeRows_w h
    (dst.rows.filter fun r => (src.tombs.filter fun t => t.ent = e).any fun t => t.n = r.n)
    (fun r hr => (List.mem_filter.mp hr).1)
    (fun r => !((src.tombs.filter fun t => t.ent = e).any fun t => t.n = r.n))
    (by
      intro r hr
      simp only [Bool.not_eq_false', List.mem_filter, hr, true_and])

theorem pullOp_w (d : Defects) (hd1 : d.deleteLeavesIndex = false) (hd2 : d.deleteUnguarded = false)
    (src : Site) {dst : Site} (h : WInv dst) : WInv (pullOp d src dst) := by
  unfold pullOp
  have key : ∀ (l : List Ent) (acc : Site), WInv acc →
      WInv (l.foldl (fun acc e => pullRows d src e (pullTombs d src e acc)) acc) := by
    intro l
    induction l with
    | nil => intro acc a; exact a
    | cons e rest ih =>
      intro acc a
      simp only [List.foldl_cons]
      apply ih
      have t1 := pullTombs_w d hd1 src e a
      unfold pullRows
      dsimp only
      exact winv_of_eq (foldl_ingest_w d hd2 _ _ t1) rfl rfl rfl
  exact key _ dst h

/-- a local operation keeps the invariant of the site -/
theorem localOp_w (d : Defects) (hd1 : d.deleteLeavesIndex = false) (hd2 : d.deleteUnguarded = false)
    (multi : Bool) (tick : Nat) (used : List Nat) {s s1 : Site} (h : WInv s) (op : Op)
    (hl : localOp d multi tick used s op = some s1) : WInv s1 := by
  have hnew : ∀ (n : Nat) (e : Ent) (text : List Word) (str : Bool),
      newOp tick used s n e text str = some s1 → WInv s1 := by
    intro n e text str hl
    unfold newOp at hl
    split at hl
    · cases hl
    · rename_i hc
      simp only [Option.some.injEq] at hl
      subst hl
      simp only [Bool.or_eq_true, List.contains_iff_mem, decide_eq_true_eq, Option.isSome_iff_ne_none, ne_eq,
        not_or, Decidable.not_not] at hc
      exact winv_of_eq (writeInsert_w h (s.indexOn e)
        ({ n := n, ent := e, text := text, str := str, ver := tick, ctick := tick, slot := 0 } : Row)
        (findRow_none hc.2)) rfl rfl rfl
  cases op with
  | model si v =>
    simp only [localOp] at hl
    split at hl
    · cases hl
    · split at hl
      · simp only [Option.some.injEq] at hl
        subst hl
        exact winv_of_eq h rfl rfl rfl
      · split at hl
        · simp only [Option.some.injEq] at hl
          subst hl
          exact winv_of_eq h rfl rfl rfl
        · simp only [Option.some.injEq] at hl
          subst hl
          exact winv_of_eq (toggle_w h (declaredOn v)) rfl rfl rfl
  | new si n e text => simp only [localOp] at hl; exact hnew n e text true hl
  | newx si n e => simp only [localOp] at hl; exact hnew n e [] multi hl
  | upd si n text =>
    simp only [localOp] at hl
    split at hl
    · cases hl
    · rename_i old hf
      simp only [Option.some.injEq] at hl
      subst hl
      obtain ⟨ho, _⟩ := findRow_some hf
      rw [hd2]
      exact winv_of_eq (writeUpdate_w h (s.indexOn old.ent) old
        { old with text := text, str := true, ver := tick } ho rfl (prevOf old) (prevOf_ok old)) rfl rfl rfl
  | clr si n =>
    simp only [localOp] at hl
    split at hl
    · cases hl
    · rename_i old hf
      simp only [Option.some.injEq] at hl
      subst hl
      obtain ⟨ho, _⟩ := findRow_some hf
      rw [hd2]
      exact winv_of_eq (writeUpdate_w h (s.indexOn old.ent) old
        { old with text := [], str := multi, ver := tick } ho rfl (prevOf old) (prevOf_ok old)) rfl rfl rfl
  | del si n =>
    simp only [localOp] at hl
    split at hl
    · cases hl
    · rename_i old hf
      simp only [Option.some.injEq] at hl
      subst hl
      obtain ⟨ho, hon⟩ := findRow_some hf
      simp only [hd1, Bool.false_eq_true, ↓reduceIte]
      rw [← hon]
      exact winv_of_eq (del_w h old ho) rfl rfl rfl
  | link si n m =>
    simp only [localOp] at hl
    split at hl
    · rename_i old child hf _
      split at hl
      · cases hl
      · split at hl
        · simp only [Option.some.injEq] at hl
          subst hl
          exact h
        · simp only [Option.some.injEq] at hl
          subst hl
          obtain ⟨ho, _⟩ := findRow_some hf
          rw [hd2]
          exact winv_of_eq (writeUpdate_w h (s.indexOn old.ent) old { old with ver := tick } ho rfl
            (prevOf old) (prevOf_ok old)) rfl rfl rfl
    · cases hl
  | pull _ _ => simp only [localOp] at hl; cases hl
  | q _ _ _ => simp only [localOp] at hl; cases hl
  | qall _ => simp only [localOp] at hl; cases hl
  | qn _ _ => simp only [localOp] at hl; cases hl
  | qnall _ => simp only [localOp] at hl; cases hl

def AllW (st : State) : Prop := ∀ s, s ∈ st.sites → WInv s

theorem allW_set {st : State} (h : AllW st) (i : Nat) (s1 : Site) (h1 : WInv s1) :
    ∀ s, s ∈ st.sites.set i s1 → WInv s := by
  intro s hs
  rcases List.mem_or_eq_of_mem_set hs with h' | h'
  · exact h s h'
  · subst h'; exact h1

theorem step_w (st : State) (hd1 : st.d.deleteLeavesIndex = false) (hd2 : st.d.deleteUnguarded = false)
    (h : AllW st) (op : Op) : AllW (step st op).1 := by
  have hlocal : ∀ (si : Nat) (s s1 : Site) (o : Op), st.sites[si]? = some s →
      localOp st.d (st.sites.length != 1) st.tick st.usedRows s o = some s1 →
      ∀ x, x ∈ st.sites.set si s1 → WInv x := by
    intro si s s1 o hs hl
    exact allW_set h si s1 (localOp_w st.d hd1 hd2 _ _ _ (h s (List.mem_of_getElem? hs)) o hl)
  cases op with
  | q si e t => unfold step; simp only; split; exact h; split; exact h; split <;> exact h
  | qall si => unfold step; simp only; split <;> exact h
  | qn si t => unfold step stepNested; simp only; split; exact h; split <;> exact h
  | qnall si => unfold step stepNested; simp only; split; exact h; split <;> exact h
  | link si n m =>
    unfold step stepNested
    simp only
    split
    · exact h
    · split
      · exact h
      · rename_i s hs
        split
        · exact h
        · rename_i s1 hl
          exact hlocal si s s1 _ hs hl
  | pull si ti =>
    unfold step
    simp only
    split
    · rename_i dst src hdst _
      split
      · exact h
      · exact allW_set h si _ (pullOp_w st.d hd1 hd2 src (h dst (List.mem_of_getElem? hdst)))
    · exact h
  | model si v =>
    unfold step; simp only
    split
    · exact h
    · rename_i s hs
      split
      · exact h
      · rename_i s1 hl
        exact hlocal si s s1 _ hs hl
  | new si n e text =>
    unfold step; simp only
    split
    · exact h
    · rename_i s hs
      split
      · exact h
      · rename_i s1 hl
        exact hlocal si s s1 _ hs hl
  | newx si n e =>
    unfold step; simp only
    split
    · exact h
    · rename_i s hs
      split
      · exact h
      · rename_i s1 hl
        exact hlocal si s s1 _ hs hl
  | upd si n text =>
    unfold step; simp only
    split
    · exact h
    · rename_i s hs
      split
      · exact h
      · rename_i s1 hl
        exact hlocal si s s1 _ hs hl
  | clr si n =>
    unfold step; simp only
    split
    · exact h
    · rename_i s hs
      split
      · exact h
      · rename_i s1 hl
        exact hlocal si s s1 _ hs hl
  | del si n =>
    unfold step; simp only
    split
    · exact h
    · rename_i s hs
      split
      · exact h
      · rename_i s1 hl
        exact hlocal si s s1 _ hs hl

theorem allW_init (d : Defects) (n : Nat) : AllW (init d n) := by
  intro s hs
  rw [(List.mem_replicate.mp hs).2]
  refine ⟨List.nodup_nil, ?_, ?_⟩
  · intro r1 h1; cases h1
  · intro p hp; cases hp

/-- **after every history**, once rows take their index entries with them and `Node::write` looks before it deletes -/
theorem runOps_w (ops : List Op) : ∀ (st : State), st.d.deleteLeavesIndex = false → st.d.deleteUnguarded = false →
    AllW st → AllW (runOps st ops).1 := by
  induction ops with
  | nil => intro st _ _ h; exact h
  | cons op rest ih =>
    intro st hd1 hd2 h
    simp only [runOps]
    exact ih (step st op).1 (by rw [step_d]; exact hd1) (by rw [step_d]; exact hd2) (step_w st hd1 hd2 h op)

end Discret.Fts
