import DiscretModel.Model.Value
/-
Shape invariance of the statement text (`Model/Value.lean`, `compile`) for `Defects.none`:
erasing every literal and default value of a query changes no token except the contents of
spliced numerals — in particular the text, the parameter numbering and the binding order are the same.
-/
namespace Discret.Value

/-- a value of the same kind with its content erased -/
def Lit.erase : Lit → Lit
  | .null => .null
  | .bool _ => .bool false
  | .int _ => .int 0
  | .float _ => .float []
  | .str _ => .str []

def FieldM.erase (f : FieldM) : FieldM := { f with dflt := f.dflt.map Lit.erase }

def FVal.erase : FVal → FVal
  | .var x => .var x
  | .lit l => .lit l.erase

def Filter.erase (f : Filter) : Filter := { f with value := f.value.erase, field := f.field.erase }
def SelField.erase (f : SelField) : SelField := { f with field := f.field.erase }
def SubQ.erase (q : SubQ) : SubQ :=
  { q with fields := q.fields.map SelField.erase, filters := q.filters.map Filter.erase }
def QField.erase : QField → QField
  | .scalar f => .scalar f.erase
  | .sub q => .sub q.erase
/-- the skeleton of a query: every parameter name, alias, field and operator kept, every literal and
    default value replaced by an empty one of the same kind -/
def TopQ.erase (q : TopQ) : TopQ :=
  { q with fields := q.fields.map QField.erase, filters := q.filters.map Filter.erase }

/-- the lexical shape of a token: the content of spliced material is dropped -/
def Tok.shape : Tok → Tok
  | .num _ => .num []
  | .quoted _ => .quoted []
  | t => t

def shapes (ts : List Tok) : List Tok := ts.map Tok.shape

/-- the binding order with the text of literals dropped (variables keep their names) -/
def eraseP (p : Bool × List Char) : Bool × List Char := if p.1 then (true, []) else p
def eraseParams (ps : Params) : Params := ps.map eraseP

@[simp] theorem shapes_append (a b : List Tok) : shapes (a ++ b) = shapes a ++ shapes b := by
  simp [shapes]
@[simp] theorem shapes_cons (a : Tok) (b : List Tok) : shapes (a :: b) = a.shape :: shapes b := by
  simp [shapes]
@[simp] theorem shapes_nil : shapes [] = [] := rfl
@[simp] theorem shape_txt (s : String) : (Tok.txt s).shape = .txt s := rfl
@[simp] theorem shape_bind (n : Nat) : (Tok.bind n).shape = .bind n := rfl
@[simp] theorem shape_num (s : List Char) : (Tok.num s).shape = .num [] := rfl
@[simp] theorem shape_quoted (s : List Char) : (Tok.quoted s).shape = .quoted [] := rfl
@[simp] theorem shape_tab (t : Nat) : (tab t).shape = tab t := rfl
@[simp] theorem eraseParams_length (ps : Params) : (eraseParams ps).length = ps.length := by
  simp [eraseParams]
@[simp] theorem eraseParams_append (a b : Params) : eraseParams (a ++ b) = eraseParams a ++ eraseParams b := by
  simp [eraseParams]

theorem findSlot_erase (x : List Char) (ps : Params) (i : Nat) :
    findSlot Defects.none x (eraseParams ps) i = findSlot Defects.none x ps i := by
  induction ps generalizing i with
  | nil => rfl
  | cons p ps ih =>
    obtain ⟨b, v⟩ := p
    cases b with
    | true => simp [eraseParams, eraseP, findSlot, Defects.none] at ih ⊢; exact ih _
    | false => simp [eraseParams, eraseP, findSlot, Defects.none] at ih ⊢; rw [ih]

theorem addParam_var_erase (ps : Params) (x : List Char) :
    addParam Defects.none (eraseParams ps) false x =
      (eraseParams (addParam Defects.none ps false x).1, (addParam Defects.none ps false x).2) := by
  simp only [addParam, findSlot_erase, Bool.false_eq_true, if_false]
  cases findSlot Defects.none x ps 1 with
  | some i => rfl
  | none => simp [eraseParams, eraseP]

theorem addParam_lit_erase (ps : Params) (s : List Char) :
    addParam Defects.none (eraseParams ps) true [] =
      (eraseParams (addParam Defects.none ps true s).1, (addParam Defects.none ps true s).2) := by
  simp [addParam, eraseParams, eraseP]

/-- the run on the skeleton simulates the run on the query: same binding order up to literal texts, same shapes -/
def Sim (r' r : Params × List Tok) : Prop := r'.1 = eraseParams r.1 ∧ shapes r'.2 = shapes r.2

theorem defaultTok_sim (ps : Params) (l : Lit) :
    (defaultTok Defects.none (eraseParams ps) l.erase).1 = eraseParams (defaultTok Defects.none ps l).1 ∧
    (defaultTok Defects.none (eraseParams ps) l.erase).2.shape = (defaultTok Defects.none ps l).2.shape := by
  cases l with
  | str s => simp [Lit.erase, defaultTok, addParam_lit_erase ps s]
  | _ => simp [Lit.erase, defaultTok]

theorem selFieldToks_sim (ps : Params) (table : String) (f : SelField) :
    Sim (selFieldToks Defects.none (eraseParams ps) table f.erase) (selFieldToks Defects.none ps table f) := by
  unfold Sim selFieldToks
  simp only [SelField.erase, FieldM.erase]
  by_cases hs : f.field.isSystem = true
  · simp [hs]
  · simp only [hs, Bool.false_eq_true, if_false]
    cases hd : f.field.dflt with
    | none => simp
    | some dv =>
      obtain ⟨a, b⟩ := defaultTok_sim ps dv
      simp [a, b]

theorem filterValue_sim (ps : Params) (op : String) (v : FVal) :
    (filterValue Defects.none (eraseParams ps) op v.erase).1 = eraseParams (filterValue Defects.none ps op v).1 ∧
    (filterValue Defects.none (eraseParams ps) op v.erase).2.1.shape = (filterValue Defects.none ps op v).2.1.shape ∧
    (filterValue Defects.none (eraseParams ps) op v.erase).2.2 = (filterValue Defects.none ps op v).2.2 := by
  cases v with
  | var x => simp [FVal.erase, filterValue, addParam_var_erase]
  | lit l =>
    cases l with
    | str s => simp [FVal.erase, Lit.erase, filterValue, addParam_lit_erase ps s]
    | _ => simp [FVal.erase, Lit.erase, filterValue]

theorem filterDefaultTok_sim (ps : Params) (l : Lit) :
    (filterDefaultTok Defects.none (eraseParams ps) l.erase).1 = eraseParams (filterDefaultTok Defects.none ps l).1 ∧
    (filterDefaultTok Defects.none (eraseParams ps) l.erase).2.shape = (filterDefaultTok Defects.none ps l).2.shape := by
  cases l with
  | str s =>
    simp only [Lit.erase, filterDefaultTok, Defects.none, Bool.false_eq_true, if_false]
    have := addParam_lit_erase ps s
    simp only [Defects.none] at this
    rw [this]; simp
  | _ => simp [Lit.erase, filterDefaultTok]

theorem filterToks_sim (ps : Params) (t : Nat) (f : Filter) :
    Sim (filterToks Defects.none (eraseParams ps) t f.erase) (filterToks Defects.none ps t f) := by
  unfold Sim filterToks
  obtain ⟨a, b, c⟩ := filterValue_sim ps f.op f.value
  simp only [Filter.erase, FieldM.erase, a, c]
  by_cases hs : f.field.isSystem = true
  · simp [hs, b]
  · simp only [hs, Bool.false_eq_true, if_false]
    cases hd : f.field.dflt with
    | none => simp [b] <;> rfl
    | some dv =>
      obtain ⟨a2, b2⟩ := filterDefaultTok_sim (filterValue Defects.none ps f.op f.value).1 dv
      simp [a2, b2, b] <;> rfl

theorem filtersLoop_sim (t : Nat) (ps : Params) (fs : List Filter) :
    Sim (filtersLoop Defects.none t (eraseParams ps) (fs.map Filter.erase)) (filtersLoop Defects.none t ps fs) := by
  induction fs generalizing ps with
  | nil => simp [Sim, filtersLoop]
  | cons f rest ih =>
    cases rest with
    | nil => simpa [filtersLoop] using filterToks_sim ps t f
    | cons g rest =>
      obtain ⟨a, b⟩ := filterToks_sim ps t f
      obtain ⟨a2, b2⟩ := ih (filterToks Defects.none ps t f).1
      simp only [List.map_cons] at a2 b2
      simp only [Sim, filtersLoop, List.map_cons, a, shapes_append, shapes_cons, shapes_nil, shape_txt,
        shape_tab, b, a2, b2, and_self]

theorem whereFilters_sim (ps : Params) (t : Nat) (fs : List Filter) :
    Sim (whereFilters Defects.none (eraseParams ps) t (fs.map Filter.erase)) (whereFilters Defects.none ps t fs) := by
  unfold Sim whereFilters
  obtain ⟨a, b⟩ := filtersLoop_sim t ps fs
  cases fs with
  | nil => simp
  | cons f rest =>
    simp only [List.map_cons] at a b
    simp [a, b]

theorem selFieldsLoop_sim (table : String) (t : Nat) (ps : Params) (fs : List SelField) :
    Sim (selFieldsLoop Defects.none table t (eraseParams ps) (fs.map SelField.erase))
      (selFieldsLoop Defects.none table t ps fs) := by
  induction fs generalizing ps with
  | nil => simp [Sim, selFieldsLoop]
  | cons f rest ih =>
    obtain ⟨a, b⟩ := selFieldToks_sim ps table f
    cases rest with
    | nil => simp [Sim, selFieldsLoop, a, b]
    | cons g rest =>
      obtain ⟨a2, b2⟩ := ih (selFieldToks Defects.none ps table f).1
      simp only [List.map_cons] at a2 b2
      simp only [Sim, selFieldsLoop, List.map_cons, a, shapes_append, shapes_cons, shapes_nil, shape_txt,
        shape_tab, b, a2, b2, and_self]

theorem subEntityQuery_sim (ps : Params) (q : SubQ) (parent : String) (t : Nat) (u : Bool) :
    Sim (subEntityQuery Defects.none (eraseParams ps) q.erase parent t u)
      (subEntityQuery Defects.none ps q parent t u) := by
  unfold Sim subEntityQuery subFields
  simp only [SubQ.erase]
  obtain ⟨a, b⟩ := selFieldsLoop_sim q.key t ps q.fields
  obtain ⟨a2, b2⟩ := whereFilters_sim (selFieldsLoop Defects.none q.key t ps q.fields).1 t q.filters
  simp [a, b, a2, b2]

theorem subGroupArray_sim (ps : Params) (q : SubQ) (parent : String) (t : Nat) :
    Sim (subGroupArray Defects.none (eraseParams ps) q.erase parent t)
      (subGroupArray Defects.none ps q parent t) := by
  unfold Sim subGroupArray
  obtain ⟨a, b⟩ := subEntityQuery_sim ps q parent (t + 1) false
  simp [a, b]

theorem qFieldToks_sim (ps : Params) (table : String) (t : Nat) (fld : QField) :
    Sim (qFieldToks Defects.none (eraseParams ps) table t fld.erase) (qFieldToks Defects.none ps table t fld) := by
  cases fld with
  | scalar f => simpa [QField.erase, qFieldToks] using selFieldToks_sim ps table f
  | sub q =>
    unfold Sim
    simp only [QField.erase, qFieldToks]
    have hk : q.erase.isArray = q.isArray := rfl
    have hk2 : q.erase.key = q.key := rfl
    rw [hk, hk2]
    by_cases ha : q.isArray = true
    · obtain ⟨a, b⟩ := subGroupArray_sim ps q table (t + 1)
      simp [ha, a, b]
    · obtain ⟨a, b⟩ := subEntityQuery_sim ps q table (t + 1) true
      simp [ha, a, b]

theorem qFieldsLoop_sim (table : String) (t : Nat) (ps : Params) (fs : List QField) :
    Sim (qFieldsLoop Defects.none table t (eraseParams ps) (fs.map QField.erase))
      (qFieldsLoop Defects.none table t ps fs) := by
  induction fs generalizing ps with
  | nil => simp [Sim, qFieldsLoop]
  | cons f rest ih =>
    obtain ⟨a, b⟩ := qFieldToks_sim ps table t f
    cases rest with
    | nil => simp [Sim, qFieldsLoop, a, b]
    | cons g rest =>
      obtain ⟨a2, b2⟩ := ih (qFieldToks Defects.none ps table t f).1
      simp only [List.map_cons] at a2 b2
      simp only [Sim, qFieldsLoop, List.map_cons, a, shapes_append, shapes_cons, shapes_nil, shape_txt,
        shape_tab, b, a2, b2, and_self]

theorem existsLoop_sim (table : String) (t : Nat) (ps : Params) (fs : List QField) :
    Sim (existsLoop Defects.none table t (eraseParams ps) (fs.map QField.erase))
      (existsLoop Defects.none table t ps fs) := by
  induction fs generalizing ps with
  | nil => simp [Sim, existsLoop]
  | cons f rest ih =>
    cases f with
    | scalar x => simpa [QField.erase, existsLoop] using ih ps
    | sub q =>
      have hk : q.erase.nullable = q.nullable := rfl
      have hk3 : q.erase.isArray = q.isArray := rfl
      by_cases hn : q.nullable = true
      · simpa [QField.erase, existsLoop, hk, hn] using ih ps
      · obtain ⟨a, b⟩ := subEntityQuery_sim ps q table (t + 1) (!q.isArray)
        obtain ⟨a2, b2⟩ := ih (subEntityQuery Defects.none ps q table (t + 1) (!q.isArray)).1
        simp only [Sim, List.map_cons, QField.erase, existsLoop, hk, hk3, hn, Bool.false_eq_true, if_false, a,
          shapes_append, shapes_cons, shapes_nil, shape_txt, shape_tab, b, a2, b2, and_self]

theorem entityQuery_sim (ps : Params) (q : TopQ) (t : Nat) :
    Sim (entityQuery Defects.none (eraseParams ps) q.erase t) (entityQuery Defects.none ps q t) := by
  unfold Sim entityQuery
  simp only [TopQ.erase]
  obtain ⟨a, b⟩ := qFieldsLoop_sim q.table t ps q.fields
  obtain ⟨a2, b2⟩ := existsLoop_sim q.table t (qFieldsLoop Defects.none q.table t ps q.fields).1 q.fields
  obtain ⟨a3, b3⟩ := whereFilters_sim
    (existsLoop Defects.none q.table t (qFieldsLoop Defects.none q.table t ps q.fields).1 q.fields).1 t q.filters
  simp [a, b, a2, b2, a3, b3]

/-- **Shape invariance.** Without the deviations, the statement compiled from a query and the statement
    compiled from its skeleton have the same tokens up to the content of spliced numerals, and the same
    binding order up to the texts of literals. -/
theorem compile_erase (q : TopQ) :
    (compile Defects.none q.erase).1 = eraseParams (compile Defects.none q).1 ∧
    shapes (compile Defects.none q.erase).2 = shapes (compile Defects.none q).2 := by
  obtain ⟨a, b⟩ := entityQuery_sim [] q 1
  have he : eraseParams [] = [] := rfl
  rw [he] at a b
  simp [compile, a, b]

end Discret.Value
