import DiscretModel.Model.Value
/-
Shape invariance of the statement text (`Model/Value.lean`, `compile`) for every `Defects` value without the
two statement-level deviations (`defaultSpliced`, `varAliasesLiteral`) — `Defects.none` and, since the fixes
d527622 and cedb2ae, `Defects.asImplemented`:
erasing every literal and default value of a query changes no token except the contents of
spliced numerals — in particular the text, the parameter numbering and the binding order are the same.
-/
namespace Discret.Value

/-- a value of the same kind with its content erased -/
def Lit.erase : Lit → Lit
  | .null => .null
  | .bool _ => .bool false
  | .int _ => .int 0
  | .float _ => .float []
  | .str _ => .str []

def FieldM.erase (f : FieldM) : FieldM := { f with dflt := f.dflt.map Lit.erase }

def FVal.erase : FVal → FVal
  | .var x => .var x
  | .lit l => .lit l.erase

def Filter.erase (f : Filter) : Filter := { f with value := f.value.erase, field := f.field.erase }
def SelField.erase (f : SelField) : SelField := { f with field := f.field.erase }
def SubQ.erase (q : SubQ) : SubQ :=
  { q with fields := q.fields.map SelField.erase, filters := q.filters.map Filter.erase }
def QField.erase : QField → QField
  | .scalar f => .scalar f.erase
  | .sub q => .sub q.erase
/-- the skeleton of a query: every parameter name, alias, field and operator kept, every literal and
    default value replaced by an empty one of the same kind -/
def TopQ.erase (q : TopQ) : TopQ :=
  { q with fields := q.fields.map QField.erase, filters := q.filters.map Filter.erase }

/-- the lexical shape of a token: the content of spliced material is dropped -/
def Tok.shape : Tok → Tok
  | .num _ => .num []
  | .quoted _ => .quoted []
  | t => t

def shapes (ts : List Tok) : List Tok := ts.map Tok.shape

/-- the binding order with the text of literals dropped (variables keep their names) -/
def eraseP (p : Bool × List Char) : Bool × List Char := if p.1 then (true, []) else p
def eraseParams (ps : Params) : Params := ps.map eraseP

@[simp] theorem shapes_append (a b : List Tok) : shapes (a ++ b) = shapes a ++ shapes b := by
  simp [shapes]
@[simp] theorem shapes_cons (a : Tok) (b : List Tok) : shapes (a :: b) = a.shape :: shapes b := by
  simp [shapes]
@[simp] theorem shapes_nil : shapes [] = [] := rfl
@[simp] theorem shape_txt (s : String) : (Tok.txt s).shape = .txt s := rfl
@[simp] theorem shape_bind (n : Nat) : (Tok.bind n).shape = .bind n := rfl
@[simp] theorem shape_num (s : List Char) : (Tok.num s).shape = .num [] := rfl
@[simp] theorem shape_quoted (s : List Char) : (Tok.quoted s).shape = .quoted [] := rfl
@[simp] theorem shape_tab (t : Nat) : (tab t).shape = tab t := rfl
@[simp] theorem eraseParams_length (ps : Params) : (eraseParams ps).length = ps.length := by
  simp [eraseParams]
@[simp] theorem eraseParams_append (a b : Params) : eraseParams (a ++ b) = eraseParams a ++ eraseParams b := by
  simp [eraseParams]

theorem findSlot_erase (d : Defects) (hv : d.varAliasesLiteral = false) (hs : d.defaultSpliced = false) (x : List Char) (ps : Params) (i : Nat) :
    findSlot d x (eraseParams ps) i = findSlot d x ps i := by
  induction ps generalizing i with
  | nil => rfl
  | cons p ps ih =>
    obtain ⟨b, v⟩ := p
    cases b with
    | true => simp [eraseParams, eraseP, findSlot, hv] at ih ⊢; exact ih _
    | false => simp [eraseParams, eraseP, findSlot, hv] at ih ⊢; rw [ih]

theorem addParam_var_erase (d : Defects) (hv : d.varAliasesLiteral = false) (hs : d.defaultSpliced = false) (ps : Params) (x : List Char) :
    addParam d (eraseParams ps) false x =
      (eraseParams (addParam d ps false x).1, (addParam d ps false x).2) := by
  simp only [addParam, findSlot_erase d hv hs, Bool.false_eq_true, if_false]
  cases findSlot d x ps 1 with
  | some i => rfl
  | none => simp [eraseParams, eraseP]

theorem addParam_lit_erase (d : Defects) (hv : d.varAliasesLiteral = false) (hs : d.defaultSpliced = false) (ps : Params) (s : List Char) :
    addParam d (eraseParams ps) true [] =
      (eraseParams (addParam d ps true s).1, (addParam d ps true s).2) := by
  simp [addParam, eraseParams, eraseP]

/-- the run on the skeleton simulates the run on the query: same binding order up to literal texts, same shapes -/
def Sim (r' r : Params × List Tok) : Prop := r'.1 = eraseParams r.1 ∧ shapes r'.2 = shapes r.2

theorem defaultTok_sim (d : Defects) (hv : d.varAliasesLiteral = false) (hs : d.defaultSpliced = false) (ps : Params) (l : Lit) :
    (defaultTok d (eraseParams ps) l.erase).1 = eraseParams (defaultTok d ps l).1 ∧
    (defaultTok d (eraseParams ps) l.erase).2.shape = (defaultTok d ps l).2.shape := by
  cases l with
  | str s => simp [Lit.erase, defaultTok, addParam_lit_erase d hv hs ps s]
  | _ => simp [Lit.erase, defaultTok]

theorem selFieldToks_sim (d : Defects) (hv : d.varAliasesLiteral = false) (hs : d.defaultSpliced = false) (ps : Params) (table : String) (f : SelField) :
    Sim (selFieldToks d (eraseParams ps) table f.erase) (selFieldToks d ps table f) := by
  unfold Sim selFieldToks
  simp only [SelField.erase, FieldM.erase]
  by_cases hsys : f.field.isSystem = true
  · simp [hsys]
  · simp only [hsys, Bool.false_eq_true, if_false]
    cases hd : f.field.dflt with
    | none => simp
    | some dv =>
      obtain ⟨a, b⟩ := defaultTok_sim d hv hs ps dv
      simp [a, b]

theorem filterValue_sim (d : Defects) (hv : d.varAliasesLiteral = false) (hs : d.defaultSpliced = false) (ps : Params) (op : String) (v : FVal) :
    (filterValue d (eraseParams ps) op v.erase).1 = eraseParams (filterValue d ps op v).1 ∧
    (filterValue d (eraseParams ps) op v.erase).2.1.shape = (filterValue d ps op v).2.1.shape ∧
    (filterValue d (eraseParams ps) op v.erase).2.2 = (filterValue d ps op v).2.2 := by
  cases v with
  | var x => simp [FVal.erase, filterValue, addParam_var_erase d hv hs]
  | lit l =>
    cases l with
    | str s => simp [FVal.erase, Lit.erase, filterValue, addParam_lit_erase d hv hs ps s]
    | _ => simp [FVal.erase, Lit.erase, filterValue]

theorem filterDefaultTok_sim (d : Defects) (hv : d.varAliasesLiteral = false) (hs : d.defaultSpliced = false) (ps : Params) (l : Lit) :
    (filterDefaultTok d (eraseParams ps) l.erase).1 = eraseParams (filterDefaultTok d ps l).1 ∧
    (filterDefaultTok d (eraseParams ps) l.erase).2.shape = (filterDefaultTok d ps l).2.shape := by
  cases l with
  | str s =>
    simp only [Lit.erase, filterDefaultTok, hs, Bool.false_eq_true, if_false]
    have := addParam_lit_erase d hv hs ps s
    rw [this]; simp
  | _ => simp [Lit.erase, filterDefaultTok]

theorem filterToks_sim (d : Defects) (hv : d.varAliasesLiteral = false) (hs : d.defaultSpliced = false) (ps : Params) (t : Nat) (f : Filter) :
    Sim (filterToks d (eraseParams ps) t f.erase) (filterToks d ps t f) := by
  unfold Sim filterToks
  obtain ⟨a, b, c⟩ := filterValue_sim d hv hs ps f.op f.value
  simp only [Filter.erase, FieldM.erase, a, c]
  by_cases hsys : f.field.isSystem = true
  · simp [hsys, b]
  · simp only [hsys, Bool.false_eq_true, if_false]
    cases hd : f.field.dflt with
    | none => simp [b] <;> rfl
    | some dv =>
      obtain ⟨a2, b2⟩ := filterDefaultTok_sim d hv hs (filterValue d ps f.op f.value).1 dv
      simp [a2, b2, b] <;> rfl

theorem filtersLoop_sim (d : Defects) (hv : d.varAliasesLiteral = false) (hs : d.defaultSpliced = false) (t : Nat) (ps : Params) (fs : List Filter) :
    Sim (filtersLoop d t (eraseParams ps) (fs.map Filter.erase)) (filtersLoop d t ps fs) := by
  induction fs generalizing ps with
  | nil => simp [Sim, filtersLoop]
  | cons f rest ih =>
    cases rest with
    | nil => simpa [filtersLoop] using filterToks_sim d hv hs ps t f
    | cons g rest =>
      obtain ⟨a, b⟩ := filterToks_sim d hv hs ps t f
      obtain ⟨a2, b2⟩ := ih (filterToks d ps t f).1
      simp only [List.map_cons] at a2 b2
      simp only [Sim, filtersLoop, List.map_cons, a, shapes_append, shapes_cons, shapes_nil, shape_txt,
        shape_tab, b, a2, b2, and_self]

theorem whereFilters_sim (d : Defects) (hv : d.varAliasesLiteral = false) (hs : d.defaultSpliced = false) (ps : Params) (t : Nat) (fs : List Filter) :
    Sim (whereFilters d (eraseParams ps) t (fs.map Filter.erase)) (whereFilters d ps t fs) := by
  unfold Sim whereFilters
  obtain ⟨a, b⟩ := filtersLoop_sim d hv hs t ps fs
  cases fs with
  | nil => simp
  | cons f rest =>
    simp only [List.map_cons] at a b
    simp [a, b]

theorem selFieldsLoop_sim (d : Defects) (hv : d.varAliasesLiteral = false) (hs : d.defaultSpliced = false) (table : String) (t : Nat) (ps : Params) (fs : List SelField) :
    Sim (selFieldsLoop d table t (eraseParams ps) (fs.map SelField.erase))
      (selFieldsLoop d table t ps fs) := by
  induction fs generalizing ps with
  | nil => simp [Sim, selFieldsLoop]
  | cons f rest ih =>
    obtain ⟨a, b⟩ := selFieldToks_sim d hv hs ps table f
    cases rest with
    | nil => simp [Sim, selFieldsLoop, a, b]
    | cons g rest =>
      obtain ⟨a2, b2⟩ := ih (selFieldToks d ps table f).1
      simp only [List.map_cons] at a2 b2
      simp only [Sim, selFieldsLoop, List.map_cons, a, shapes_append, shapes_cons, shapes_nil, shape_txt,
        shape_tab, b, a2, b2, and_self]

theorem subEntityQuery_sim (d : Defects) (hv : d.varAliasesLiteral = false) (hs : d.defaultSpliced = false) (ps : Params) (q : SubQ) (parent : String) (t : Nat) (u : Bool) :
    Sim (subEntityQuery d (eraseParams ps) q.erase parent t u)
      (subEntityQuery d ps q parent t u) := by
  unfold Sim subEntityQuery subFields
  simp only [SubQ.erase]
  obtain ⟨a, b⟩ := selFieldsLoop_sim d hv hs q.key t ps q.fields
  obtain ⟨a2, b2⟩ := whereFilters_sim d hv hs (selFieldsLoop d q.key t ps q.fields).1 t q.filters
  simp [a, b, a2, b2]

theorem subGroupArray_sim (d : Defects) (hv : d.varAliasesLiteral = false) (hs : d.defaultSpliced = false) (ps : Params) (q : SubQ) (parent : String) (t : Nat) :
    Sim (subGroupArray d (eraseParams ps) q.erase parent t)
      (subGroupArray d ps q parent t) := by
  unfold Sim subGroupArray
  obtain ⟨a, b⟩ := subEntityQuery_sim d hv hs ps q parent (t + 1) false
  simp [a, b]

theorem qFieldToks_sim (d : Defects) (hv : d.varAliasesLiteral = false) (hs : d.defaultSpliced = false) (ps : Params) (table : String) (t : Nat) (fld : QField) :
    Sim (qFieldToks d (eraseParams ps) table t fld.erase) (qFieldToks d ps table t fld) := by
  cases fld with
  | scalar f => simpa [QField.erase, qFieldToks] using selFieldToks_sim d hv hs ps table f
  | sub q =>
    unfold Sim
    simp only [QField.erase, qFieldToks]
    have hk : q.erase.isArray = q.isArray := rfl
    have hk2 : q.erase.key = q.key := rfl
    rw [hk, hk2]
    by_cases ha : q.isArray = true
    · obtain ⟨a, b⟩ := subGroupArray_sim d hv hs ps q table (t + 1)
      simp [ha, a, b]
    · obtain ⟨a, b⟩ := subEntityQuery_sim d hv hs ps q table (t + 1) true
      simp [ha, a, b]

theorem qFieldsLoop_sim (d : Defects) (hv : d.varAliasesLiteral = false) (hs : d.defaultSpliced = false) (table : String) (t : Nat) (ps : Params) (fs : List QField) :
    Sim (qFieldsLoop d table t (eraseParams ps) (fs.map QField.erase))
      (qFieldsLoop d table t ps fs) := by
  induction fs generalizing ps with
  | nil => simp [Sim, qFieldsLoop]
  | cons f rest ih =>
    obtain ⟨a, b⟩ := qFieldToks_sim d hv hs ps table t f
    cases rest with
    | nil => simp [Sim, qFieldsLoop, a, b]
    | cons g rest =>
      obtain ⟨a2, b2⟩ := ih (qFieldToks d ps table t f).1
      simp only [List.map_cons] at a2 b2
      simp only [Sim, qFieldsLoop, List.map_cons, a, shapes_append, shapes_cons, shapes_nil, shape_txt,
        shape_tab, b, a2, b2, and_self]

theorem existsLoop_sim (d : Defects) (hv : d.varAliasesLiteral = false) (hs : d.defaultSpliced = false) (table : String) (t : Nat) (ps : Params) (fs : List QField) :
    Sim (existsLoop d table t (eraseParams ps) (fs.map QField.erase))
      (existsLoop d table t ps fs) := by
  induction fs generalizing ps with
  | nil => simp [Sim, existsLoop]
  | cons f rest ih =>
    cases f with
    | scalar x => simpa [QField.erase, existsLoop] using ih ps
    | sub q =>
      have hk : q.erase.nullable = q.nullable := rfl
      have hk3 : q.erase.isArray = q.isArray := rfl
      by_cases hn : q.nullable = true
      · simpa [QField.erase, existsLoop, hk, hn] using ih ps
      · obtain ⟨a, b⟩ := subEntityQuery_sim d hv hs ps q table (t + 1) (!q.isArray)
        obtain ⟨a2, b2⟩ := ih (subEntityQuery d ps q table (t + 1) (!q.isArray)).1
        simp only [Sim, List.map_cons, QField.erase, existsLoop, hk, hk3, hn, Bool.false_eq_true, if_false, a,
          shapes_append, shapes_cons, shapes_nil, shape_txt, shape_tab, b, a2, b2, and_self]

theorem entityQuery_sim (d : Defects) (hv : d.varAliasesLiteral = false) (hs : d.defaultSpliced = false) (ps : Params) (q : TopQ) (t : Nat) :
    Sim (entityQuery d (eraseParams ps) q.erase t) (entityQuery d ps q t) := by
  unfold Sim entityQuery
  simp only [TopQ.erase]
  obtain ⟨a, b⟩ := qFieldsLoop_sim d hv hs q.table t ps q.fields
  obtain ⟨a2, b2⟩ := existsLoop_sim d hv hs q.table t (qFieldsLoop d q.table t ps q.fields).1 q.fields
  obtain ⟨a3, b3⟩ := whereFilters_sim d hv hs
    (existsLoop d q.table t (qFieldsLoop d q.table t ps q.fields).1 q.fields).1 t q.filters
  simp [a, b, a2, b2, a3, b3]

/-- **Shape invariance.** Without the deviations, the statement compiled from a query and the statement
    compiled from its skeleton have the same tokens up to the content of spliced numerals, and the same
    binding order up to the texts of literals. -/
theorem compile_erase (d : Defects) (hv : d.varAliasesLiteral = false) (hs : d.defaultSpliced = false) (q : TopQ) :
    (compile d q.erase).1 = eraseParams (compile d q).1 ∧
    shapes (compile d q.erase).2 = shapes (compile d q).2 := by
  obtain ⟨a, b⟩ := entityQuery_sim d hv hs [] q 1
  have he : eraseParams [] = [] := rfl
  rw [he] at a b
  simp [compile, a, b]

end Discret.Value
